import Lean.Data.Json
import Ledger.Sql.Str

/-!
# LeanPG values

`Value` = null | bool | int (unbounded; stands for every integer and `numeric`
type — the ledger never stores fractions) | text | timestamp (microseconds since
the epoch, `timestamp without time zone`) | jsonb | bytea | composite row | array.

jsonb values (`JV`) are kept normalised the way PostgreSQL stores them: object
keys unique (last one wins), ordered by (length, bytes) — documentation
"8.14.2 jsonb … does not preserve the order of object keys, and does not keep
duplicate object keys"; the length-first key order is the one jsonb's text
output shows.

Core-only.
-/
namespace Ledger.Sql

/-! ## jsonb -/

mutual
inductive JV where
  | null
  | bool (b : Bool)
  | num (n : Int)
  /-- a number with a fractional part or exponent, kept as its text -/
  | dec (s : String)
  | str (s : String)
  | arr (xs : List JV)
  | obj (kvs : List JKV)
inductive JKV where
  | mk (k : String) (v : JV)
end

instance : Inhabited JV := ⟨.null⟩
instance : Inhabited JKV := ⟨.mk "" .null⟩

def JKV.key : JKV → String
  | .mk k _ => k
def JKV.val : JKV → JV
  | .mk _ v => v

mutual
def JV.beq : JV → JV → Bool
  | .null, .null => true
  | .bool a, .bool b => a == b
  | .num a, .num b => a == b
  | .dec a, .dec b => a == b
  | .str a, .str b => a == b
  | .arr a, .arr b => JV.beqList a b
  | .obj a, .obj b => JKV.beqList a b
  | _, _ => false
def JV.beqList : List JV → List JV → Bool
  | [], [] => true
  | x :: xs, y :: ys => JV.beq x y && JV.beqList xs ys
  | _, _ => false
def JKV.beqList : List JKV → List JKV → Bool
  | [], [] => true
  | (.mk k v) :: xs, (.mk k' v') :: ys => k == k' && JV.beq v v' && JKV.beqList xs ys
  | _, _ => false
end

instance : BEq JV := ⟨JV.beq⟩

/-- jsonb key order: shorter keys first, then by bytes (= code points for UTF-8). -/
def jsonKeyLt (a b : String) : Bool :=
  a.utf8ByteSize < b.utf8ByteSize || (a.utf8ByteSize == b.utf8ByteSize && a < b)

/-- insert/replace a key, keeping the list ordered by `jsonKeyLt` -/
def jobjInsert (k : String) (v : JV) : List JKV → List JKV
  | [] => [.mk k v]
  | (.mk k' v') :: rest =>
    if k == k' then .mk k v :: rest
    else if jsonKeyLt k k' then .mk k v :: .mk k' v' :: rest
    else .mk k' v' :: jobjInsert k v rest

def jobjOfList (kvs : List (String × JV)) : List JKV :=
  kvs.foldl (fun acc (k, v) => jobjInsert k v acc) []

def jobjLookup (k : String) : List JKV → Option JV
  | [] => none
  | (.mk k' v) :: rest => if k == k' then some v else jobjLookup k rest

def jobjErase (k : String) : List JKV → List JKV
  | [] => []
  | (.mk k' v) :: rest => if k == k' then rest else .mk k' v :: jobjErase k rest

/-- `a || b` on objects: right wins -/
def jobjMerge (a b : List JKV) : List JKV :=
  b.foldl (fun acc kv => jobjInsert kv.key kv.val acc) a

/-! ### JSON text -/

def hexDigit (n : Nat) : Char :=
  if n < 10 then Char.ofNat (48 + n) else Char.ofNat (87 + n)

/-- PostgreSQL's `escape_json`: `"` `\` and control characters escaped; everything
    else verbatim. -/
def jsonEscape (s : String) : String :=
  s.toList.foldl (fun acc c =>
    if c == '"' then acc ++ "\\\""
    else if c == '\\' then acc ++ "\\\\"
    else if c == '\n' then acc ++ "\\n"
    else if c == '\r' then acc ++ "\\r"
    else if c == '\t' then acc ++ "\\t"
    else if c == '\x08' then acc ++ "\\b"
    else if c == '\x0c' then acc ++ "\\f"
    else if c.toNat < 0x20 then
      acc ++ "\\u00" ++ String.singleton (hexDigit (c.toNat / 16)) ++ String.singleton (hexDigit (c.toNat % 16))
    else acc.push c) ""

mutual
/-- jsonb text output (`{"a": 1, "b": [1, 2]}`: a space after `:` and `,`). -/
def JV.render : JV → String
  | .null => "null"
  | .bool true => "true"
  | .bool false => "false"
  | .num n => toString n
  | .dec s => s
  | .str s => "\"" ++ jsonEscape s ++ "\""
  | .arr xs => "[" ++ JV.renderList xs true ++ "]"
  | .obj kvs => "{" ++ JKV.renderList kvs true ++ "}"
def JV.renderList : List JV → Bool → String
  | [], _ => ""
  | x :: xs, first => (if first then "" else ", ") ++ JV.render x ++ JV.renderList xs false
def JKV.renderList : List JKV → Bool → String
  | [], _ => ""
  | (.mk k v) :: xs, first =>
    (if first then "" else ", ") ++ "\"" ++ jsonEscape k ++ "\": " ++ JV.render v ++ JKV.renderList xs false
end

/-- decimal text of `mantissa * 10^-exponent` (JsonNumber) -/
def decText (m : Int) (e : Nat) : String :=
  if e == 0 then toString m else
  let neg := m < 0
  let digits := toString m.natAbs
  let digits := if digits.length ≤ e then String.ofList (List.replicate (e + 1 - digits.length) '0') ++ digits else digits
  let ip := (digits.take (digits.length - e)).toString
  let fp := (digits.drop (digits.length - e)).toString
  (if neg then "-" else "") ++ ip ++ "." ++ fp

partial def JV.ofLean : Lean.Json → JV
  | .null => .null
  | .bool b => .bool b
  | .num n =>
    if n.exponent == 0 then .num n.mantissa
    else
      -- normalise: 1500e-1 style values that are integers
      let p := 10 ^ n.exponent
      if n.mantissa % p == 0 then .num (n.mantissa / p) else .dec (decText n.mantissa n.exponent)
  | .str s => .str s
  | .arr xs => .arr (xs.toList.map JV.ofLean)
  | .obj kvs => .obj (jobjOfList (kvs.toList.map (fun (k, v) => (k, JV.ofLean v))))

/-- the previous parser (through `Lean.Json.parse`, whose implementation is `partial` and therefore
    opaque to the kernel); kept for differential tests of `JV.parse` only -/
def JV.parseViaLean (s : String) : Except String JV :=
  match Lean.Json.parse s with
  | .ok j => .ok (JV.ofLean j)
  | .error e => .error s!"invalid input syntax for type json: {e}"

/-! ### JSON parser (RFC 8259) over `List Char`, structurally recursive on fuel so that jsonb
    literals evaluate inside the kernel. Numbers are normalised like `JV.ofLean`: a value without
    fractional part after applying the exponent is an integer, anything else keeps its decimal
    text. Object keys: last one wins, stored in jsonb order (`jobjOfList`). -/

def jsonWs (c : Char) : Bool := c == ' ' || c == '\t' || c == '\n' || c == '\r'

def skipJsonWs : List Char → List Char
  | [] => []
  | c :: cs => if jsonWs c then skipJsonWs cs else c :: cs

def hexVal (c : Char) : Option Nat :=
  if '0' ≤ c && c ≤ '9' then some (c.toNat - 48)
  else if 'a' ≤ c && c ≤ 'f' then some (c.toNat - 87)
  else if 'A' ≤ c && c ≤ 'F' then some (c.toNat - 55)
  else none

def hex4 (a b c d : Char) : Option Nat := do
  let x ← hexVal a
  let y ← hexVal b
  let z ← hexVal c
  let w ← hexVal d
  pure (4096 * x + 256 * y + 16 * z + w)

/-- the body of a string after the opening quote; `acc` holds the characters read so far, reversed -/
def parseJsonStr : Nat → List Char → List Char → Except String (String × List Char)
  | 0, _, _ => .error "string too long"
  | _ + 1, [], _ => .error "unterminated string"
  | _ + 1, '"' :: rest, acc => .ok (String.ofList acc.reverse, rest)
  | n + 1, '\\' :: rest, acc =>
    match rest with
    | '"' :: r => parseJsonStr n r ('"' :: acc)
    | '\\' :: r => parseJsonStr n r ('\\' :: acc)
    | '/' :: r => parseJsonStr n r ('/' :: acc)
    | 'b' :: r => parseJsonStr n r ('\x08' :: acc)
    | 'f' :: r => parseJsonStr n r ('\x0c' :: acc)
    | 'n' :: r => parseJsonStr n r ('\n' :: acc)
    | 'r' :: r => parseJsonStr n r ('\r' :: acc)
    | 't' :: r => parseJsonStr n r ('\t' :: acc)
    | 'u' :: a :: b :: c :: d :: r =>
      match hex4 a b c d with
      | none => .error "invalid \\u escape"
      | some hi =>
        if 0xD800 ≤ hi && hi ≤ 0xDBFF then
          -- a surrogate pair encodes one code point
          match r with
          | '\\' :: 'u' :: a' :: b' :: c' :: d' :: r' =>
            match hex4 a' b' c' d' with
            | some lo =>
              if 0xDC00 ≤ lo && lo ≤ 0xDFFF then
                parseJsonStr n r' (Char.ofNat (0x10000 + (hi - 0xD800) * 1024 + (lo - 0xDC00)) :: acc)
              else .error "invalid surrogate pair"
            | none => .error "invalid \\u escape"
          | _ => .error "invalid surrogate pair"
        else if hi == 0 then .error "\\u0000 cannot be converted to text"
        else parseJsonStr n r (Char.ofNat hi :: acc)
    | _ => .error "invalid escape sequence"
  | n + 1, c :: rest, acc =>
    if c.toNat < 0x20 then .error "control character in string" else parseJsonStr n rest (c :: acc)

def takeDigits : List Char → List Char × List Char
  | [] => ([], [])
  | c :: cs => if c.isDigit then let (d, r) := takeDigits cs; (c :: d, r) else ([], c :: cs)

def digitsVal (ds : List Char) : Nat := ds.foldl (fun acc c => acc * 10 + (c.toNat - 48)) 0

/-- a number starting at the head of the input -/
def parseJsonNum (cs : List Char) : Except String (JV × List Char) :=
  let (neg, cs) := match cs with | '-' :: r => (true, r) | _ => (false, cs)
  let (ip, r1) := takeDigits cs
  if ip.isEmpty then .error "invalid number" else
  if ip.length > 1 && ip.head? == some '0' then .error "invalid number (leading zero)" else
  let fracRes : Except String (List Char × List Char) := match r1 with
    | '.' :: r =>
      let (fp, r') := takeDigits r
      if fp.isEmpty then .error "invalid number" else .ok (fp, r')
    | _ => .ok ([], r1)
  match fracRes with
  | .error e => .error e
  | .ok (fp, r2) =>
  let expRes : Except String (Int × List Char) := match r2 with
    | 'e' :: r | 'E' :: r =>
      let (eneg, r) := match r with | '-' :: r' => (true, r') | '+' :: r' => (false, r') | _ => (false, r)
      let (ed, r') := takeDigits r
      if ed.isEmpty then .error "invalid number" else
      if ed.length > 6 then .error "exponent too large" else
      .ok ((if eneg then - (digitsVal ed : Int) else (digitsVal ed : Int)), r')
    | _ => .ok (0, r2)
  match expRes with
  | .error e => .error e
  | .ok (ex, r3) =>
    let m : Int := if neg then - (digitsVal (ip ++ fp) : Int) else (digitsVal (ip ++ fp) : Int)
    -- value = m * 10^(ex - |fp|)
    let e : Int := (fp.length : Int) - ex
    if e ≤ 0 then .ok (.num (m * (10 : Int) ^ (-e).toNat), r3)
    else
      let p : Int := (10 : Int) ^ e.toNat
      if m % p == 0 then .ok (.num (m / p), r3) else .ok (.dec (decText m e.toNat), r3)

mutual
def parseJsonValue : Nat → List Char → Except String (JV × List Char)
  | 0, _ => .error "nesting too deep"
  | n + 1, cs =>
    match skipJsonWs cs with
    | [] => .error "unexpected end of input"
    | 'n' :: 'u' :: 'l' :: 'l' :: r => .ok (.null, r)
    | 't' :: 'r' :: 'u' :: 'e' :: r => .ok (.bool true, r)
    | 'f' :: 'a' :: 'l' :: 's' :: 'e' :: r => .ok (.bool false, r)
    | '"' :: r =>
      match parseJsonStr (r.length + 1) r [] with
      | .ok (s, r') => .ok (.str s, r')
      | .error e => .error e
    | '[' :: r =>
      match skipJsonWs r with
      | ']' :: r' => .ok (.arr [], r')
      | r' =>
        match parseJsonElems n r' with
        | .ok (xs, r'') => .ok (.arr xs, r'')
        | .error e => .error e
    | '{' :: r =>
      match skipJsonWs r with
      | '}' :: r' => .ok (.obj [], r')
      | r' =>
        match parseJsonMembers n r' with
        | .ok (kvs, r'') => .ok (.obj (jobjOfList kvs), r'')
        | .error e => .error e
    | c :: r =>
      if c == '-' || c.isDigit then parseJsonNum (c :: r)
      else .error s!"unexpected character '{c}'"
def parseJsonElems : Nat → List Char → Except String (List JV × List Char)
  | 0, _ => .error "nesting too deep"
  | n + 1, cs =>
    match parseJsonValue n cs with
    | .error e => .error e
    | .ok (v, r) =>
      match skipJsonWs r with
      | ',' :: r' =>
        match parseJsonElems n r' with
        | .ok (vs, r'') => .ok (v :: vs, r'')
        | .error e => .error e
      | ']' :: r' => .ok ([v], r')
      | _ => .error "expected ',' or ']'"
def parseJsonMembers : Nat → List Char → Except String (List (String × JV) × List Char)
  | 0, _ => .error "nesting too deep"
  | n + 1, cs =>
    match skipJsonWs cs with
    | '"' :: r =>
      match parseJsonStr (r.length + 1) r [] with
      | .error e => .error e
      | .ok (k, r1) =>
        match skipJsonWs r1 with
        | ':' :: r2 =>
          match parseJsonValue n r2 with
          | .error e => .error e
          | .ok (v, r3) =>
            match skipJsonWs r3 with
            | ',' :: r4 =>
              match parseJsonMembers n r4 with
              | .ok (kvs, r5) => .ok ((k, v) :: kvs, r5)
              | .error e => .error e
            | '}' :: r4 => .ok ([(k, v)], r4)
            | _ => .error "expected ',' or '}'"
        | _ => .error "expected ':'"
    | _ => .error "expected string"
end

/-- parse JSON text into a normalised jsonb value (22P02 on malformed input) -/
def JV.parse (s : String) : Except String JV :=
  let cs := s.toList
  match parseJsonValue (2 * cs.length + 2) cs with
  | .ok (v, rest) =>
    match skipJsonWs rest with
    | [] => .ok v
    | _ => .error "invalid input syntax for type json: trailing characters"
  | .error e => .error s!"invalid input syntax for type json: {e}"

partial def JV.toLean : JV → Lean.Json
  | .null => .null
  | .bool b => .bool b
  | .num n => .num ⟨n, 0⟩
  | .dec s => match Lean.Json.parse s with | .ok j => j | .error _ => .str s
  | .str s => .str s
  | .arr xs => .arr (xs.map JV.toLean).toArray
  | .obj kvs => Lean.Json.mkObj (kvs.map (fun kv => (kv.key, kv.val.toLean)))

/-! ## Values -/

inductive Value where
  | null
  | bool (b : Bool)
  | int (n : Int)
  | text (s : String)
  /-- microseconds since 1970-01-01 00:00:00 (timestamp without time zone) -/
  | ts (us : Int)
  | json (j : JV)
  | bytes (b : ByteArray)
  /-- composite value / table row; `names` may be empty (anonymous `ROW(…)`) -/
  | row (names : List String) (vals : List Value)
  | array (vals : List Value)

instance : Inhabited Value := ⟨.null⟩

mutual
def Value.beq : Value → Value → Bool
  | .null, .null => true
  | .bool a, .bool b => a == b
  | .int a, .int b => a == b
  | .text a, .text b => a == b
  | .ts a, .ts b => a == b
  | .json a, .json b => a == b
  | .bytes a, .bytes b => a == b
  | .row _ a, .row _ b => Value.beqList a b
  | .array a, .array b => Value.beqList a b
  | _, _ => false
def Value.beqList : List Value → List Value → Bool
  | [], [] => true
  | x :: xs, y :: ys => Value.beq x y && Value.beqList xs ys
  | _, _ => false
end

instance : BEq Value := ⟨Value.beq⟩

def Value.isNull : Value → Bool
  | .null => true
  | _ => false

/-- a row of a relation: column name ↦ value, in column order -/
abbrev Row := List (String × Value)

def Row.get? (r : Row) (c : String) : Option Value :=
  match r with
  | [] => none
  | (k, v) :: rest => if k == c then some v else Row.get? rest c

def Row.set (r : Row) (c : String) (v : Value) : Row :=
  match r with
  | [] => [(c, v)]
  | (k, w) :: rest => if k == c then (k, v) :: rest else (k, w) :: Row.set rest c v

/-! ## Timestamps (proleptic Gregorian calendar, no time zone) -/

/-- days since 1970-01-01 of a civil date (Howard Hinnant's algorithm) -/
def daysFromCivil (y m d : Int) : Int :=
  let y := if m ≤ 2 then y - 1 else y
  let era := (if y ≥ 0 then y else y - 399) / 400
  let yoe := y - era * 400
  let mp := (m + 9) % 12
  let doy := (153 * mp + 2) / 5 + d - 1
  let doe := yoe * 365 + yoe / 4 - yoe / 100 + doy
  era * 146097 + doe - 719468

def civilFromDays (z : Int) : Int × Int × Int :=
  let z := z + 719468
  let era := (if z ≥ 0 then z else z - 146096) / 146097
  let doe := z - era * 146097
  let yoe := (doe - doe / 1460 + doe / 36524 - doe / 146096) / 365
  let y := yoe + era * 400
  let doy := doe - (365 * yoe + yoe / 4 - yoe / 100)
  let mp := (5 * doy + 2) / 153
  let d := doy - (153 * mp + 2) / 5 + 1
  let m := if mp < 10 then mp + 3 else mp - 9
  (if m ≤ 2 then y + 1 else y, m, d)

def pad (n : Nat) (w : Nat) : String :=
  let s := toString n
  String.ofList (List.replicate (w - s.length) '0') ++ s

/-- `YYYY-MM-DD<sep>HH:MM:SS[.ffffff]`, fractional zeros trimmed (PostgreSQL's
    ISO output; `to_json(timestamp)` uses `T` as separator). -/
def tsFormat (us : Int) (sep : String) : String :=
  let day := us.fdiv 86400000000
  let rem := us.fmod 86400000000
  let (y, m, d) := civilFromDays day
  let secs := rem / 1000000
  let frac := (rem % 1000000).toNat
  let hh := (secs / 3600).toNat
  let mm := ((secs % 3600) / 60).toNat
  let ss := (secs % 60).toNat
  let fracS :=
    if frac == 0 then "" else
    let s := pad frac 6
    "." ++ String.ofList (s.toList.reverse.dropWhile (· == '0')).reverse
  let yS := if y ≥ 0 then pad y.toNat 4 else "-" ++ pad (-y).toNat 4
  yS ++ "-" ++ pad m.toNat 2 ++ "-" ++ pad d.toNat 2 ++ sep ++
    pad hh 2 ++ ":" ++ pad mm 2 ++ ":" ++ pad ss 2 ++ fracS

/-- Parse timestamp text as `timestamp without time zone` input does: a time
    zone suffix (`Z`, `+hh[:mm]`) is accepted and IGNORED (documentation 8.5.1.3:
    "In a literal that has been determined to be timestamp without time zone,
    PostgreSQL will silently ignore any time zone indication"). Fractions beyond
    microseconds are rounded half-up. -/
def tsParse (s : String) : Except String Int := do
  let cs := trimChars s.toList
  let bad : Except String Int := .error s!"invalid input syntax for type timestamp: \"{s}\""
  let (yD, r) := takeDigits cs
  if yD.isEmpty then bad else
  match r with
  | '-' :: r =>
    let (mD, r) := takeDigits r
    match r with
    | '-' :: r =>
      let (dD, r) := takeDigits r
      if mD.isEmpty || dD.isEmpty then bad else
      let days := daysFromCivil (digitsVal yD) (digitsVal mD) (digitsVal dD)
      let base := days * 86400000000
      match r with
      | [] => pure base
      | sep :: r =>
        if sep != 'T' && sep != ' ' && sep != 't' then bad else
        let (hD, r) := takeDigits r
        match r with
        | ':' :: r =>
          let (miD, r) := takeDigits r
          let (sD, r) := match r with
            | ':' :: r => takeDigits r
            | _ => (['0'], r)
          let (fD, _r) := match r with
            | '.' :: r => takeDigits r
            | _ => ([], r)
          if hD.isEmpty || miD.isEmpty then bad else
          let f6 := fD.take 6
          let fracUs := digitsVal f6 * 10 ^ (6 - f6.length)
          let roundUp : Bool := match fD.drop 6 with
            | c :: _ => decide (c.toNat - 48 ≥ 5)
            | [] => false
          let t : Int := (digitsVal hD : Int) * 3600000000 + (digitsVal miD : Int) * 60000000 +
            (digitsVal sD : Int) * 1000000 + (fracUs : Int) + (if roundUp then 1 else 0)
          pure (base + t)
        | _ => bad
    | _ => bad
  | _ => bad

/-! ## bytea text forms -/

def hexOfBytes (b : ByteArray) : String :=
  b.foldl (fun acc x => (acc.push (hexDigit (x.toNat / 16))).push (hexDigit (x.toNat % 16))) ""

def bytesOfHex (cs : List Char) : Option ByteArray :=
  let rec go : List Char → ByteArray → Option ByteArray
    | [], acc => some acc
    | a :: b :: rest, acc =>
      match hexVal a, hexVal b with
      | some x, some y => go rest (acc.push (UInt8.ofNat (x * 16 + y)))
      | _, _ => none
    | _, _ => none
  go cs ByteArray.empty

/-- bytea input: `\x…` hex form, otherwise the escape form restricted to plain
    text (`\\` and `\ooo` handled). -/
def byteaParse (s : String) : Except String ByteArray :=
  match s.toList with
  | '\\' :: 'x' :: rest =>
    match bytesOfHex rest with
    | some b => .ok b
    | none => .error "invalid hexadecimal data for type bytea"
  | cs =>
    let rec go : List Char → ByteArray → Except String ByteArray
      | [], acc => .ok acc
      | '\\' :: '\\' :: rest, acc => go rest (acc.push 92)
      | '\\' :: a :: b :: c :: rest, acc =>
        if a.isDigit && b.isDigit && c.isDigit then
          go rest (acc.push (UInt8.ofNat ((a.toNat - 48) * 64 + (b.toNat - 48) * 8 + (c.toNat - 48))))
        else .error "invalid input syntax for type bytea"
      | '\\' :: _, _ => .error "invalid input syntax for type bytea"
      | c :: rest, acc => go rest ((String.singleton c).toUTF8.foldl (fun a x => a.push x) acc)
    go cs ByteArray.empty

/-- `encode(b, 'escape')`: zero bytes and bytes with the high bit set become
    `\ooo`, a backslash is doubled, everything else is copied (documentation 9.5,
    "escape … converts zero bytes and bytes with the high bit set into octal
    escape sequences (\nnn), and it doubles backslashes"). The result is text;
    since the input may contain arbitrary bytes < 0x80 it is built per byte. -/
def encodeEscape (b : ByteArray) : String :=
  b.foldl (fun acc x =>
    if x == 0 || x ≥ 128 then
      let n := x.toNat
      acc ++ "\\" ++ String.singleton (Char.ofNat (48 + n / 64)) ++ String.singleton (Char.ofNat (48 + (n / 8) % 8)) ++
        String.singleton (Char.ofNat (48 + n % 8))
    else if x == 92 then acc ++ "\\\\"
    else acc.push (Char.ofNat x.toNat)) ""

def b64Char (n : Nat) : Char :=
  if n < 26 then Char.ofNat (65 + n)
  else if n < 52 then Char.ofNat (97 + n - 26)
  else if n < 62 then Char.ofNat (48 + n - 52)
  else if n == 62 then '+' else '/'

/-- `encode(b, 'base64')`: RFC 2045 — PostgreSQL breaks lines at 76 characters. -/
def encodeBase64 (b : ByteArray) : String :=
  let rec go (i : Nat) (acc : String) (col : Nat) (fuel : Nat) : String :=
    match fuel with
    | 0 => acc
    | fuel + 1 =>
      if i ≥ b.size then acc else
      let (acc, col) := if col == 76 then (acc.push '\n', 0) else (acc, col)
      let b0 := (b.get! i).toNat
      let b1 := if i + 1 < b.size then (b.get! (i + 1)).toNat else 0
      let b2 := if i + 2 < b.size then (b.get! (i + 2)).toNat else 0
      let acc := acc.push (b64Char (b0 / 4))
      let acc := acc.push (b64Char ((b0 % 4) * 16 + b1 / 16))
      let acc := if i + 1 < b.size then acc.push (b64Char ((b1 % 16) * 4 + b2 / 64)) else acc.push '='
      let acc := if i + 2 < b.size then acc.push (b64Char (b2 % 64)) else acc.push '='
      go (i + 3) acc (col + 4) fuel
  go 0 "" 0 (b.size + 1)

/-! ## text forms of values -/

def needsQuoteInComposite (s : String) : Bool :=
  s.isEmpty || strAny s (fun c => c == ',' || c == '(' || c == ')' || c == '"' || c == '\\' || c.isWhitespace)

mutual
/-- the value as `::text` / output function would print it -/
def Value.toText : Value → String
  | .null => ""
  | .bool true => "true"
  | .bool false => "false"
  | .int n => toString n
  | .text s => s
  | .ts us => tsFormat us " "
  | .json j => j.render
  | .bytes b => "\\x" ++ hexOfBytes b
  | .row _ vs => "(" ++ Value.compositeFields vs true ++ ")"
  | .array vs => "{" ++ Value.arrayElems vs true ++ "}"
def Value.compositeFields : List Value → Bool → String
  | [], _ => ""
  | v :: vs, first =>
    let s := match v with
      | .null => ""
      | .bool true => "t"
      | .bool false => "f"
      | v =>
        let t := v.toText
        if needsQuoteInComposite t then
          "\"" ++ replaceStr (replaceStr t "\\" "\\\\") "\"" "\"\"" ++ "\""
        else t
    (if first then "" else ",") ++ s ++ Value.compositeFields vs false
def Value.arrayElems : List Value → Bool → String
  | [], _ => ""
  | v :: vs, first =>
    let s := match v with
      | .null => "NULL"
      | .bool true => "t"
      | .bool false => "f"
      | v =>
        let t := v.toText
        if t.isEmpty || strAny t (fun c => c == ',' || c == '{' || c == '}' || c == '"' || c == '\\' || c.isWhitespace) || t == "NULL" then
          "\"" ++ replaceStr (replaceStr t "\\" "\\\\") "\"" "\\\"" ++ "\""
        else t
    (if first then "" else ",") ++ s ++ Value.arrayElems vs false
end

/-! ## ordering -/

def cmpInt (a b : Int) : Ordering := if a < b then .lt else if a == b then .eq else .gt
def cmpStr (a b : String) : Ordering := if a < b then .lt else if a == b then .eq else .gt

def cmpBytes (a b : ByteArray) : Ordering :=
  let rec go (i : Nat) (fuel : Nat) : Ordering :=
    match fuel with
    | 0 => .eq
    | fuel + 1 =>
      if i ≥ a.size && i ≥ b.size then .eq
      else if i ≥ a.size then .lt
      else if i ≥ b.size then .gt
      else
        let x := a.get! i
        let y := b.get! i
        if x < y then .lt else if x > y then .gt else go (i + 1) fuel
  go 0 (a.size + b.size + 1)

end Ledger.Sql
