import Ledger.Driver.HistH
import Ledger.Sql.Value

/-!
# Handler `storeops` (driver `ldriver_sql`)

A `storeops` case (workload `storeops` of `vrsql`, `harness/go/internal/verif/wlsql/storeops.go`) holds
a random sequence of REAL store calls on a fresh ledger over LeanPG and, after EVERY step, the dump of
the bucket's tables (`pgfake.Server.Dump`). For each step the dump is converted to the ledger snapshot
of `Ledger/Spec/README.md`; the history handed to builder-core's `hist` handler is the journal read off
the `transactions` table of that very dump (one forced `tx` op per row, in id order, ids renumbered
1…n because rolled-back calls burn sequence values). `hist` then (1) replays the journal on the
abstract store (`Spec.applyTx`: `upsertVolumes`, `insertMoves`, …) and compares `accounts_volumes`,
`transactions.post_commit_volumes` and `moves` (PCV, PCEV) with it, and (2) evaluates the C01–C05
snapshot predicates on the dump's own values. So every intermediate state — after committed calls,
rolled-back calls, injected faults, metadata writes, reverts — must be a state the Spec reaches by
the committed transactions alone. The verdict is the first failing step's. (Steps after a FAILED
autocommit-mode `commit` op are skipped: see `handleStoreOps`.)

Not compared here: accounts, metadata histories and the `reverted_at` marks (the store-level calls of this
workload are not the controller-level operations `hist` models for those sections); logs.

Core-only (uses `Lean.Data.Json` through the driver protocol).
-/
namespace Ledger.Sql.StoreOps
open Lean Ledger.Driver

def tableOf (dump : Json) (suffix : String) : List Json :=
  match dump with
  | .obj kvs =>
    match kvs.toList.find? (fun (k, _) => k.endsWith suffix) with
    | some (_, .arr a) => a.toList
    | _ => []
  | _ => []

def jStr (j : Json) (k : String) : String :=
  match j.getObjVal? k with
  | .ok (.str s) => s
  | .ok (.num n) => toString n.mantissa
  | _ => ""

def jTime (j : Json) (k : String) : Json :=
  match j.getObjVal? k with
  | .ok (.str s) => match Ledger.Sql.tsParse s with | .ok us => Json.num ⟨us, 0⟩ | .error _ => .null
  | _ => .null

def unwrapJson (j : Json) (k : String) : Json :=
  match j.getObjVal? k with
  | .ok v => match v.getObjVal? "json" with | .ok x => x | .error _ => v
  | .error _ => .null

def numStr : Json → String
  | .num n => if n.exponent == 0 then toString n.mantissa else toString n
  | .str s => s
  | _ => "0"

/-- `{"acct": {"asset": {"input","output",…}}}` → sorted list of volume entries -/
def volsOfNested (j : Json) : Json :=
  match j with
  | .obj accts => Json.arr (accts.toList.flatMap (fun (a, m) =>
      match m with
      | .obj assets => assets.toList.map (fun (s, v) =>
          Json.mkObj [("account", a), ("asset", s), ("input", numStr (v.getObjValD "input")), ("output", numStr (v.getObjValD "output"))])
      | _ => [])).toArray
  | _ => Json.arr #[]

def insertBy (lt : Json → Json → Bool) (x : Json) : List Json → List Json
  | [] => [x]
  | y :: ys => if lt x y then x :: y :: ys else y :: insertBy lt x ys

def sortBy (lt : Json → Json → Bool) (l : List Json) : List Json := l.foldl (fun acc x => insertBy lt x acc) []

def intOfStr (s : String) : Int := (s.toInt?).getD 0

def postingsOf (row : Json) : Json :=
  match Json.parse (jStr row "postings") with
  | .ok (.arr ps) => Json.arr (ps.map fun p =>
      Json.mkObj [("source", jStr p "source"), ("destination", jStr p "destination"),
                  ("amount", numStr (p.getObjValD "amount")), ("asset", jStr p "asset")])
  | _ => Json.arr #[]

/-- (history, snapshot) of one dump -/
def histOfDump (dump : Json) (features : Json) : Json × Json :=
  let txRows := sortBy (fun a b => intOfStr (jStr a "id") < intOfStr (jStr b "id")) (tableOf dump ".transactions")
  let idMap : List (String × Nat) := (txRows.zipIdx).map fun (r, i) => (jStr r "id", i + 1)
  let newId (s : String) : Json := Json.num ⟨((idMap.lookup s).getD 0 : Nat), 0⟩
  let ops := txRows.map fun r =>
    Json.mkObj [("op", "tx"), ("at", jTime r "inserted_at"), ("timestamp", jTime r "timestamp"),
                ("postings", postingsOf r), ("reference", jStr r "reference"), ("metadata", unwrapJson r "metadata"),
                ("accountMetadata", Json.mkObj []), ("force", true)]
  let txs := txRows.map fun r =>
    Json.mkObj [("id", newId (jStr r "id")), ("postings", postingsOf r), ("timestamp", jTime r "timestamp"),
                ("insertedAt", jTime r "inserted_at"), ("reference", jStr r "reference"), ("metadata", unwrapJson r "metadata"),
                ("revertedAt", Json.null), ("postCommitVolumes", volsOfNested (unwrapJson r "post_commit_volumes"))]
  let avRows := sortBy (fun a b => jStr a "accounts_address" < jStr b "accounts_address" ||
      (jStr a "accounts_address" == jStr b "accounts_address" && jStr a "asset" < jStr b "asset")) (tableOf dump ".accounts_volumes")
  let av := avRows.map fun r =>
    Json.mkObj [("account", jStr r "accounts_address"), ("asset", jStr r "asset"), ("input", jStr r "input"), ("output", jStr r "output")]
  let mvRows := sortBy (fun a b => intOfStr (jStr a "seq") < intOfStr (jStr b "seq")) (tableOf dump ".moves")
  let vol (j : Json) (k : String) : Json :=
    match j.getObjVal? k with
    | .ok (.obj o) => Json.mkObj [("input", numStr ((Json.obj o).getObjValD "inputs")), ("output", numStr ((Json.obj o).getObjValD "outputs"))]
    | _ => Json.null
  let moves := (mvRows.zipIdx).map fun (r, i) =>
    Json.mkObj [("seq", Json.num ⟨(i + 1 : Nat), 0⟩), ("txId", newId (jStr r "transactions_id")), ("account", jStr r "accounts_address"),
                ("asset", jStr r "asset"), ("amount", jStr r "amount"),
                ("isSource", match r.getObjVal? "is_source" with | .ok (.bool b) => Json.bool b | _ => Json.bool false),
                ("insertionDate", jTime r "insertion_date"), ("effectiveDate", jTime r "effective_date"),
                ("pcv", vol r "post_commit_volumes"), ("pcev", vol r "post_commit_effective_volumes")]
  let movesOn := match features.getObjVal? "MOVES_HISTORY" with | .ok (.str "ON") => true | _ => false
  let snapshot := Json.mkObj [("accountsVolumes", Json.arr av.toArray), ("transactions", Json.arr txs.toArray),
    ("moves", if movesOn then Json.arr moves.toArray else Json.null), ("accounts", Json.null)]
  (Json.mkObj [("ops", Json.arr ops.toArray), ("features", features)], Json.mkObj [("snapshot", snapshot)])

def handleStoreOps : Handler := fun inp out => do
  let steps ← arrField out "steps"
  let features := (inp.getObjVal? "features").toOption.getD (Json.mkObj [])
  let ops ← arrField inp "ops"
  -- A `commit` op in mode "auto" runs the statements of CommitTransaction WITHOUT an enclosing SQL
  -- transaction (the real controller never does): when it fails half-way its first statements stay
  -- committed, and from then on the tables are legitimately not a Spec state. Steps from the first such
  -- failure on are not checked.
  let failedAuto (i : Nat) : Bool :=
    match ops[i]?, steps[i]? with
    | some o, some st =>
      jStr o "kind" == "commit" && jStr o "mode" == "auto" &&
        (match st.getObjVal? "res" with | .ok r => jStr r "err" != "" | .error _ => false)
    | _, _ => false
  let cut := ((List.range steps.length).find? failedAuto).getD steps.length
  let verdicts ← ((steps.take cut).zipIdx).mapM fun (st, i) => do
    match st.getObjVal? "dump" with
    | .ok dump =>
      let (hin, hout) := histOfDump dump features
      let v ← handleHist hin hout
      pure (some (i, v))
    | .error _ => pure none
  let vs := verdicts.filterMap id
  let bad := vs.find? fun (_, v) => !(v.agree && v.prop)
  let kinds := (ops.map fun o => "so:" ++ jStr o "kind").eraseDups
  let modes := (ops.filterMap fun o => match o.getObjVal? "mode" with | .ok (.str m) => some ("mode:" ++ m) | _ => none).eraseDups
  let faults := if ops.any (fun o => match o.getObjVal? "faultAt" with | .ok (.num n) => n.mantissa != 0 | _ => false) then ["fault-injected"] else []
  let tags := ((vs.flatMap fun (_, v) => v.tags) ++ kinds ++ modes ++ faults ++
    (if cut < steps.length then ["auto-partial-cut"] else [])).eraseDups
  match bad with
  | some (i, v) =>
    pure { v with tags, note := s!"step {i}: {v.note}", nontrivial := true }
  | none =>
    let last := vs.getLast?
    pure { model := (last.map (·.2.model)).getD Json.null, agree := true, prop := true,
           propModel := vs.all (·.2.propModel),
           nontrivial := vs.any (·.2.nontrivial), tags }

def handlers : List (String × Handler) := [("storeops", handleStoreOps)]

end Ledger.Sql.StoreOps
