/-!
# SHA-256 (FIPS 180-4), executable

Used by `public.digest(…, 'sha256')` in the log-hash trigger. In theorems the
digest is treated as an opaque function of the preimage; this executable version
is compared with Go's `crypto/sha256` by the workloads.

Core-only.
-/
namespace Ledger.Sql

def sha256K : Array UInt32 := #[
  0x428a2f98, 0x71374491, 0xb5c0fbcf, 0xe9b5dba5, 0x3956c25b, 0x59f111f1, 0x923f82a4, 0xab1c5ed5,
  0xd807aa98, 0x12835b01, 0x243185be, 0x550c7dc3, 0x72be5d74, 0x80deb1fe, 0x9bdc06a7, 0xc19bf174,
  0xe49b69c1, 0xefbe4786, 0x0fc19dc6, 0x240ca1cc, 0x2de92c6f, 0x4a7484aa, 0x5cb0a9dc, 0x76f988da,
  0x983e5152, 0xa831c66d, 0xb00327c8, 0xbf597fc7, 0xc6e00bf3, 0xd5a79147, 0x06ca6351, 0x14292967,
  0x27b70a85, 0x2e1b2138, 0x4d2c6dfc, 0x53380d13, 0x650a7354, 0x766a0abb, 0x81c2c92e, 0x92722c85,
  0xa2bfe8a1, 0xa81a664b, 0xc24b8b70, 0xc76c51a3, 0xd192e819, 0xd6990624, 0xf40e3585, 0x106aa070,
  0x19a4c116, 0x1e376c08, 0x2748774c, 0x34b0bcb5, 0x391c0cb3, 0x4ed8aa4a, 0x5b9cca4f, 0x682e6ff3,
  0x748f82ee, 0x78a5636f, 0x84c87814, 0x8cc70208, 0x90befffa, 0xa4506ceb, 0xbef9a3f7, 0xc67178f2]

@[inline] def rotr (x : UInt32) (n : UInt32) : UInt32 := (x >>> n) ||| (x <<< (32 - n))

def sha256Pad (msg : ByteArray) : ByteArray :=
  let len := msg.size
  let m := msg.push 0x80
  let padLen := (56 + 64 - (m.size % 64)) % 64
  let m := (List.range padLen).foldl (fun acc _ => acc.push 0) m
  let bits : Nat := len * 8
  (List.range 8).foldl (fun acc i => acc.push (UInt8.ofNat ((bits >>> (8 * (7 - i))) % 256))) m

def sha256Block (h : Array UInt32) (m : ByteArray) (off : Nat) : Array UInt32 :=
  let w0 : Array UInt32 := (List.range 16).foldl (fun acc i =>
    let b (k : Nat) : UInt32 := (m.get! (off + 4 * i + k)).toUInt32
    acc.push ((b 0 <<< 24) ||| (b 1 <<< 16) ||| (b 2 <<< 8) ||| b 3)) (Array.mkEmpty 64)
  let w : Array UInt32 := (List.range 48).foldl (fun acc j =>
    let i := j + 16
    let w15 := acc[i - 15]!
    let w2 := acc[i - 2]!
    let s0 := rotr w15 7 ^^^ rotr w15 18 ^^^ (w15 >>> 3)
    let s1 := rotr w2 17 ^^^ rotr w2 19 ^^^ (w2 >>> 10)
    acc.push (acc[i - 16]! + s0 + acc[i - 7]! + s1)) w0
  let init := (h[0]!, h[1]!, h[2]!, h[3]!, h[4]!, h[5]!, h[6]!, h[7]!)
  let (a, b, c, d, e, f, g, hh) := (List.range 64).foldl (fun (st : UInt32 × UInt32 × UInt32 × UInt32 × UInt32 × UInt32 × UInt32 × UInt32) i =>
    let (a, b, c, d, e, f, g, hh) := st
    let s1 := rotr e 6 ^^^ rotr e 11 ^^^ rotr e 25
    let ch := (e &&& f) ^^^ ((~~~ e) &&& g)
    let t1 := hh + s1 + ch + sha256K[i]! + w[i]!
    let s0 := rotr a 2 ^^^ rotr a 13 ^^^ rotr a 22
    let maj := (a &&& b) ^^^ (a &&& c) ^^^ (b &&& c)
    let t2 := s0 + maj
    (t1 + t2, a, b, c, d + t1, e, f, g)) init
  #[h[0]! + a, h[1]! + b, h[2]! + c, h[3]! + d, h[4]! + e, h[5]! + f, h[6]! + g, h[7]! + hh]

def sha256 (msg : ByteArray) : ByteArray :=
  let m := sha256Pad msg
  let h0 : Array UInt32 := #[0x6a09e667, 0xbb67ae85, 0x3c6ef372, 0xa54ff53a, 0x510e527f, 0x9b05688c, 0x1f83d9ab, 0x5be0cd19]
  let h := (List.range (m.size / 64)).foldl (fun h i => sha256Block h m (64 * i)) h0
  h.foldl (fun (acc : ByteArray) (x : UInt32) =>
    (((acc.push (x >>> 24).toUInt8).push (x >>> 16).toUInt8).push (x >>> 8).toUInt8).push x.toUInt8) ByteArray.empty

end Ledger.Sql
