import Lean.Data.Json
import Ledger.Sql.Ast

/-!
# JSON wire form → AST

The Go parser sends every node as `[constructor, field…]` in the field order of
the Lean constructors (`minisql.Node.JSON`). Decoding is not part of any proof.

Core-only.
-/
namespace Ledger.Sql.Decode
open Lean Ledger.Sql

abbrev D := Except String

def arr (j : Json) : D (Array Json) :=
  match j with
  | .arr a => pure a
  | _ => throw s!"expected an array, got {j.compress.take 80}"

def str (j : Json) : D String :=
  match j with
  | .str s => pure s
  | _ => throw s!"expected a string, got {j.compress.take 80}"

def bool (j : Json) : D Bool :=
  match j with
  | .bool b => pure b
  | _ => throw s!"expected a bool, got {j.compress.take 80}"

def int (j : Json) : D Int :=
  match j with
  | .num n => if n.exponent == 0 then pure n.mantissa else throw "expected an integer"
  | _ => throw s!"expected a number, got {j.compress.take 80}"

def nat (j : Json) : D Nat := do return (← int j).toNat

def strs (j : Json) : D (List String) := do (← arr j).toList.mapM str

def node (j : Json) : D (String × Array Json) := do
  let a ← arr j
  if h : 0 < a.size then
    let tag ← str a[0]
    pure (tag, a.extract 1 a.size)
  else throw "empty node"

def fld (a : Array Json) (i : Nat) : D Json :=
  match a[i]? with
  | some j => pure j
  | none => throw s!"missing field {i}"

def binop : String → D BinOp
  | "or" => pure .or | "and" => pure .and | "eq" => pure .eq | "ne" => pure .ne | "lt" => pure .lt
  | "le" => pure .le | "gt" => pure .gt | "ge" => pure .ge | "like" => pure .like | "concat" => pure .concat
  | "jsonGet" => pure .jsonGet | "jsonGetText" => pure .jsonGetText | "jsonPathText" => pure .jsonPathText
  | "jsonPath" => pure .jsonPath | "contains" => pure .contains | "containedBy" => pure .containedBy
  | "hasKey" => pure .hasKey | "hasAnyKey" => pure .hasAnyKey | "hasAllKeys" => pure .hasAllKeys
  | "jsonpathMatch" => pure .jsonpathMatch | "add" => pure .add | "sub" => pure .sub | "mul" => pure .mul
  | "div" => pure .div | "mod" => pure .mod
  | s => throw s!"unknown binary operator {s}"

def unop : String → D UnOp
  | "not" => pure .not | "neg" => pure .neg | "notLike" => pure .notLike
  | s => throw s!"unknown unary operator {s}"

def typeName (j : Json) : D SqlType := do
  let (_, a) ← node j
  return .mk (← str (← fld a 0)) (← str (← fld a 1)) (← str (← fld a 2)) (← bool (← fld a 3))

mutual

partial def expr (j : Json) : D Expr := do
  let (tag, a) ← node j
  match tag with
  | "null" => pure .null
  | "bool" => return .bool (← bool (← fld a 0))
  | "int" => return .int (← int (← fld a 0))
  | "dec" => return .dec (← str (← fld a 0))
  | "str" => return .str (← str (← fld a 0))
  | "dflt" => pure .dflt
  | "col" => return .col (← str (← fld a 0)) (← str (← fld a 1))
  | "unop" => return .unop (← unop (← str (← fld a 0))) (← expr (← fld a 1))
  | "binop" => return .binop (← binop (← str (← fld a 0))) (← expr (← fld a 1)) (← expr (← fld a 2))
  | "isNull" => return .isNull (← expr (← fld a 0)) (← bool (← fld a 1))
  | "inList" => return .inList (← expr (← fld a 0)) (← exprs (← fld a 1)) (← bool (← fld a 2))
  | "inSub" => return .inSub (← expr (← fld a 0)) (← query (← fld a 1)) (← bool (← fld a 2))
  | "exists" => return .exists (← query (← fld a 0))
  | "subq" => return .subq (← query (← fld a 0))
  | "ite" => return .ite (← expr (← fld a 0)) (← expr (← fld a 1)) (← optExpr (← fld a 2)) (← bool (← fld a 3))
  | "cast" => return .cast (← expr (← fld a 0)) (← typeName (← fld a 1))
  | "call" => return .call (← str (← fld a 0)) (← str (← fld a 1)) (← exprs (← fld a 2))
  | "agg" => return .agg (← str (← fld a 0)) (← str (← fld a 1)) (← bool (← fld a 2)) (← bool (← fld a 3)) (← exprs (← fld a 4)) (← orderItems (← fld a 5))
  | "win" => return .win (← nat (← fld a 0)) (← str (← fld a 1)) (← exprs (← fld a 2)) (← exprs (← fld a 3)) (← orderItems (← fld a 4))
  | "row" => return .row (← exprs (← fld a 0))
  | "array" => return .array (← exprs (← fld a 0))
  | "index" => return .index (← expr (← fld a 0)) (← expr (← fld a 1))
  | "slice" => return .slice (← expr (← fld a 0)) (← optExpr (← fld a 1)) (← optExpr (← fld a 2))
  | "field" => return .field (← expr (← fld a 0)) (← str (← fld a 1))
  | t => throw s!"unknown expression node {t}"

partial def exprs (j : Json) : D (List Expr) := do (← arr j).toList.mapM expr

partial def exprRows (j : Json) : D (List (List Expr)) := do (← arr j).toList.mapM exprs

partial def optExpr (j : Json) : D (Option Expr) :=
  match j with
  | .null => pure none
  | j => do return some (← expr j)

partial def orderItems (j : Json) : D (List OrderItem) := do
  (← arr j).toList.mapM (fun x => do
    let (_, a) ← node x
    let nulls ← match ← str (← fld a 2) with
      | "dflt" => pure NullsOrder.dflt | "first" => pure NullsOrder.first | "last" => pure NullsOrder.last
      | s => throw s!"unknown nulls order {s}"
    return .mk (← expr (← fld a 0)) (← bool (← fld a 1)) nulls)

partial def selItems (j : Json) : D (List SelItem) := do
  (← arr j).toList.mapM (fun x => do
    let (tag, a) ← node x
    match tag with
    | "expr" => return .expr (← expr (← fld a 0)) (← str (← fld a 1))
    | "star" => return .star (← str (← fld a 0))
    | t => throw s!"unknown select item {t}")

partial def fromItem (j : Json) : D FromItem := do
  let (tag, a) ← node j
  match tag with
  | "table" => return .table (← str (← fld a 0)) (← str (← fld a 1)) (← str (← fld a 2))
  | "sub" => return .sub (← query (← fld a 0)) (← str (← fld a 1)) (← strs (← fld a 2)) (← bool (← fld a 3))
  | "func" => return .func (← expr (← fld a 0)) (← str (← fld a 1)) (← strs (← fld a 2)) (← bool (← fld a 3))
  | "join" =>
    let kind ← match ← str (← fld a 0) with
      | "inner" => pure JoinKind.inner | "left" => pure JoinKind.left | "cross" => pure JoinKind.cross
      | s => throw s!"unknown join kind {s}"
    return .join kind (← fromItem (← fld a 1)) (← fromItem (← fld a 2)) (← optExpr (← fld a 3))
  | t => throw s!"unknown FROM item {t}"

partial def fromItems (j : Json) : D (List FromItem) := do (← arr j).toList.mapM fromItem

partial def select (j : Json) : D Select := do
  let (_, a) ← node j
  return .mk (← bool (← fld a 0)) (← exprs (← fld a 1)) (← selItems (← fld a 2)) (← fromItems (← fld a 3))
    (← optExpr (← fld a 4)) (← exprs (← fld a 5)) (← optExpr (← fld a 6))

partial def setExpr (j : Json) : D SetExpr := do
  let (tag, a) ← node j
  match tag with
  | "select" => return .select (← select (← fld a 0))
  | "values" => return .values (← exprRows (← fld a 0))
  | "union" => return .union (← bool (← fld a 0)) (← setExpr (← fld a 1)) (← setExpr (← fld a 2))
  | "paren" => return .paren (← query (← fld a 0))
  | t => throw s!"unknown set expression {t}"

partial def query (j : Json) : D Query := do
  let (_, a) ← node j
  let lock ← match ← str (← fld a 5) with
    | "none" => pure LockMode.none | "forUpdate" => pure LockMode.forUpdate
    | "forNoKeyUpdate" => pure LockMode.forNoKeyUpdate | "forShare" => pure LockMode.forShare
    | s => throw s!"unknown lock mode {s}"
  return .mk (← ctes (← fld a 0)) (← setExpr (← fld a 1)) (← orderItems (← fld a 2)) (← optExpr (← fld a 3)) (← optExpr (← fld a 4)) lock

partial def ctes (j : Json) : D (List Cte) := do
  (← arr j).toList.mapM (fun x => do
    let (_, a) ← node x
    return .mk (← str (← fld a 0)) (← strs (← fld a 1)) (← stmt (← fld a 2)))

partial def setItems (j : Json) : D (List SetItem) := do
  (← arr j).toList.mapM (fun x => do
    let (_, a) ← node x
    return .mk (← str (← fld a 0)) (← expr (← fld a 1)))

partial def onConflict (j : Json) : D (Option OnConflict) :=
  match j with
  | .null => pure none
  | j => do
    let (_, a) ← node j
    let (atag, aa) ← node (← fld a 3)
    let action ← match atag with
      | "nothing" => pure ConflictAction.nothing
      | "update" => do pure (ConflictAction.update (← setItems (← fld aa 0)) (← optExpr (← fld aa 1)))
      | t => throw s!"unknown conflict action {t}"
    return some (.mk (← strs (← fld a 0)) (← optExpr (← fld a 1)) (← str (← fld a 2)) action)

partial def stmt (j : Json) : D Stmt := do
  let (tag, a) ← node j
  match tag with
  | "query" => return .query (← query (← fld a 0))
  | "insert" =>
    let (stag, sa) ← node (← fld a 5)
    let src ← match stag with
      | "values" => do pure (InsertSrc.values (← exprRows (← fld sa 0)))
      | "query" => do pure (InsertSrc.query (← query (← fld sa 0)))
      | "defaultValues" => pure InsertSrc.defaultValues
      | t => throw s!"unknown insert source {t}"
    return .insert (← ctes (← fld a 0)) (← str (← fld a 1)) (← str (← fld a 2)) (← str (← fld a 3)) (← strs (← fld a 4)) src
      (← onConflict (← fld a 6)) (← selItems (← fld a 7))
  | "update" =>
    return .update (← ctes (← fld a 0)) (← str (← fld a 1)) (← str (← fld a 2)) (← str (← fld a 3)) (← setItems (← fld a 4))
      (← fromItems (← fld a 5)) (← optExpr (← fld a 6)) (← selItems (← fld a 7))
  | "delete" =>
    return .delete (← ctes (← fld a 0)) (← str (← fld a 1)) (← str (← fld a 2)) (← str (← fld a 3)) (← fromItems (← fld a 4))
      (← optExpr (← fld a 5)) (← selItems (← fld a 6))
  | "begin" => pure .begin
  | "commit" => pure .commit
  | "rollback" => pure .rollback
  | "savepoint" => return .savepoint (← str (← fld a 0))
  | "release" => return .release (← str (← fld a 0))
  | "rollbackTo" => return .rollbackTo (← str (← fld a 0))
  | "call" => return .call (← str (← fld a 0)) (← str (← fld a 1)) (← exprs (← fld a 2))
  | "createSequence" => return .createSequence (← str (← fld a 0)) (← str (← fld a 1)) (← bool (← fld a 2)) (← str (← fld a 3))
  | "createTrigger" =>
    let timing ← match ← str (← fld a 1) with
      | "before" => pure TrigTiming.before | "after" => pure TrigTiming.after
      | s => throw s!"unknown trigger timing {s}"
    let event ← match ← str (← fld a 2) with
      | "insert" => pure TrigEvent.insert | "update" => pure TrigEvent.update | "delete" => pure TrigEvent.delete
      | s => throw s!"unknown trigger event {s}"
    return .createTrigger (← str (← fld a 0)) timing event (← strs (← fld a 3)) (← str (← fld a 4)) (← str (← fld a 5))
      (← optExpr (← fld a 6)) (← str (← fld a 7)) (← str (← fld a 8))
  | t => throw s!"unknown statement node {t}"

end

end Ledger.Sql.Decode
