import Ledger.Sql.Session
import Ledger.Generated.Schema
import Ledger.Generated.WriteSql

/-!
# Build-time tests of LeanPG on the generated statements

Finite facts checked by kernel evaluation (`decide +kernel`): they are tests
(`example`), not theorems, and show that statements of
`Ledger.Generated.WriteSql` can be *executed inside a proof* on a concrete world
(useful for `…_counterexample` theorems on witnesses).

Core-only.
-/
namespace Ledger.Sql.Tests
open Ledger.Sql Ledger.Generated

/-- a freshly migrated `_default` bucket -/
def w0 : World := instantiateBucket {} (Schema.bucket.toRef Schema.bucketMigrations) "_default"

/-- committed rows of a table, as text -/
def rowsOf (w : World) (table : String) : List (List String) :=
  match w.table? table with
  | some t => (t.scan { xid := 0, cid := 0, snap := ⟨w.active, w.nextXid⟩ }).map (fun v => v.vals.map Value.toText)
  | none => []

/-- run statements of one session in autocommit mode -/
def runAll (w : World) (sid : Nat) : List Stmt → World × List String
  | [] => (w, [])
  | s :: rest =>
    let (w', r) := execTop w sid s false none
    let tag := match r with
      | .ok res => s!"ok:{res.affected}"
      | .error e => toString e
    let (w'', tags) := runAll w' sid rest
    (w'', tag :: tags)

def uv (rows : List WriteSql.P.VolumeRow) : List Stmt := WriteSql.P.updateVolumes "_default" "l" 1 rows

-- UpdateVolumes inserts, then accumulates (ON CONFLICT DO UPDATE SET input = accounts_volumes.input + excluded.input)
example : rowsOf (runAll w0 1 (uv [⟨"a", "USD", 100, 7⟩])).1 "_default.accounts_volumes" = [["l", "a", "USD", "100", "7"]] := by
  decide +kernel

example : rowsOf (runAll w0 1 (uv [⟨"a", "USD", 100, 7⟩] ++ uv [⟨"a", "USD", 5, 1⟩, ⟨"b", "USD", 0, 9⟩])).1 "_default.accounts_volumes" =
    [["l", "a", "USD", "105", "8"], ["l", "b", "USD", "0", "9"]] := by
  decide +kernel

-- the same row twice in one statement: "ON CONFLICT DO UPDATE command cannot affect row a second time"
example : (runAll w0 1 (uv [⟨"a", "USD", 1, 0⟩, ⟨"a", "USD", 2, 0⟩])).2 =
    ["ERROR 21000: ON CONFLICT DO UPDATE command cannot affect row a second time"] := by
  decide +kernel

-- GetBalances creates the zero rows it locks; a failed statement inside BEGIN aborts the block (25P02)
example : rowsOf (runAll w0 1 (WriteSql.P.getBalances "_default" "l" 1 [⟨"a", "USD"⟩, ⟨"b", "EUR"⟩])).1 "_default.accounts_volumes" =
    [["l", "a", "USD", "0", "0"], ["l", "b", "EUR", "0", "0"]] := by
  decide +kernel

example : (runAll w0 1 ([Stmt.begin] ++ uv [⟨"a", "USD", 1, 0⟩, ⟨"a", "USD", 2, 0⟩] ++ uv [⟨"a", "USD", 1, 0⟩] ++ [Stmt.rollback] ++ uv [⟨"a", "USD", 1, 0⟩])).2 =
    ["ok:0", "ERROR 21000: ON CONFLICT DO UPDATE command cannot affect row a second time",
     "ERROR 25P02: current transaction is aborted, commands ignored until end of transaction block", "ok:0", "ok:1"] := by
  decide +kernel

end Ledger.Sql.Tests
