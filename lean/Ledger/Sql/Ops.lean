import Ledger.Sql.Expr

/-!
# Table operations in the statement monad: name resolution, scans, writes,
sequences, advisory locks, syntactic helpers for SELECT.

Core-only.
-/
namespace Ledger.Sql

def getW : M World := do return (← get).w
def setW (w : World) : M Unit := modify fun s => { s with w := w }
def modifyW (f : World → World) : M Unit := modify fun s => { s with w := f s.w }

def curView : M View := do
  let s ← get
  pure { xid := s.xid, cid := s.cid, snap := s.snap }

def typeEnv : M TypeEnv := do return (← get).w.types

/-- run `act` as a nested command with a fresh command id (PostgreSQL's
    CommandCounterIncrement): it sees everything written so far by this
    transaction, including the rows the enclosing statement has already written -/
def withNewCid (act : M α) : M α := do
  let s ← get
  let saved := s.cid
  set { s with cid := s.nextCid, nextCid := s.nextCid + 1 }
  let r ← act
  modify fun s => { s with cid := saved }
  pure r

def withSearchPath (sp : String) (act : M α) : M α := do
  let saved := (← get).searchPath
  modify fun s => { s with searchPath := sp }
  let r ← act
  modify fun s => { s with searchPath := saved }
  pure r

def schemaOf (full : String) : String := firstDotted full

def baseName (full : String) : String := lastComponent full

def qualify (schema name : String) : M String := do
  if schema.isEmpty then
    let sp := (← get).searchPath
    pure (sp ++ "." ++ name)
  else pure (schema ++ "." ++ name)

def getTable (full : String) : M Table := do
  match (← getW).table? full with
  | some t => pure t
  | none =>
    -- first reference to a bucket that does not exist yet: see `World.bucketTemplate`
    let w ← getW
    let sch := schemaOf full
    match w.bucketTemplate with
    | some tpl =>
      if !sch.isEmpty && sch != "public" && !w.buckets.contains sch then
        let w' := instantiateBucket w tpl sch
        setW w'
        match w'.table? full with
        | some t => pure t
        | none => throwPg "42P01" s!"relation \"{full}\" does not exist"
      else throwPg "42P01" s!"relation \"{full}\" does not exist"
    | none => throwPg "42P01" s!"relation \"{full}\" does not exist"

def putTable (t : Table) : M Unit := modifyW (·.setTable t)

/-! ## sequences (documentation 9.17: never rolled back) -/

def seqNext (full : String) : M Int := do
  let w ← getW
  match w.seqs.find? (·.name == full) with
  | none => throwPg "42P01" s!"relation \"{full}\" does not exist"
  | some sq =>
    let v := if sq.called then sq.last + 1 else sq.last
    setW { w with seqs := w.seqs.map (fun x => if x.name == full then { x with last := v, called := true } else x) }
    pure v

def seqSet (full : String) (v : Int) (called : Bool) : M Unit := do
  let w ← getW
  if !(w.seqs.any (·.name == full)) then throwPg "42P01" s!"relation \"{full}\" does not exist"
  setW { w with seqs := w.seqs.map (fun x => if x.name == full then { x with last := v, called := called } else x) }

/-- resolve the (possibly quoted, possibly unqualified) name given to nextval/setval -/
def seqName (arg : String) : M String := do
  let n := unquoteQualified arg
  if !(firstDotted n).isEmpty then pure n else qualify "" n

/-! ## advisory locks (documentation 13.3.5) -/

def advisoryLock (key : Int) (xact : Bool) : M Unit := do
  let s ← get
  let w := s.w
  match w.advisory.find? (fun l => l.key == key && l.sid != s.sid) with
  | some l => throw (.blocked s!"advisory:{key}:session:{l.sid}" 0 l.sid)
  | none => setW { w with advisory := w.advisory ++ [{ key := key, sid := s.sid, xact := xact, cid := s.cid }] }

def advisoryUnlock (key : Int) : M Bool := do
  let s ← get
  let w := s.w
  -- release one session-level hold
  let rec dropOne : List AdvLock → Option (List AdvLock)
    | [] => none
    | l :: rest =>
      if l.key == key && l.sid == s.sid && !l.xact then some rest
      else (dropOne rest).map (l :: ·)
  match dropOne w.advisory with
  | some ls => setW { w with advisory := ls }; pure true
  | none => pure false

/-! ## scans and writes -/

def scanTable (t : Table) (alias : String) : M (List Scope) := do
  let v ← curView
  let cols := t.colNames
  match (← get).epq with
  | some (tn, rid, vals) =>
    if tn == t.name then
      return [{ alias := alias, cols := cols, vals := vals, src := some (t.name, rid) }]
  | none => pure ()
  pure ((t.scan v).map (fun r => { alias := alias, cols := cols, vals := r.vals, src := some (t.name, r.rid) }))

/-- newest version of logical row `rid` that the transaction would update now
    (all committed work plus its own) -/
def latestVersion (t : Table) (rid : Nat) : M (Option Ver) := do
  let s ← get
  let v := latestView s.w s.xid
  pure (t.rows.find? (fun r => r.rid == rid && r.visible v))

/-- is another in-progress transaction holding this version (updated, deleted
    or locked it)? -/
def heldByOther (r : Ver) : M (Option Nat) := do
  let s ← get
  let inProg (x : Nat) : Bool := x != 0 && x != s.xid && s.w.active.contains x
  if inProg r.xmax then pure (some r.xmax)
  else if inProg r.locker then pure (some r.locker)
  else pure none

def insertVersion (tname : String) (vals : List Value) : M Nat := do
  let s ← get
  let t ← getTable tname
  let rid := t.nextRid
  putTable { t with rows := { rid := rid, xmin := s.xid, cmin := s.cid, vals := vals } :: t.rows, nextRid := rid + 1 }
  pure rid

/-- replace the visible version of `rid` by a new one -/
def updateVersion (tname : String) (rid : Nat) (vals : List Value) : M Unit := do
  let s ← get
  let t ← getTable tname
  let v := latestView s.w s.xid
  let rows := t.rows.map (fun r =>
    if r.rid == rid && r.visible v then { r with xmax := s.xid, cmax := s.cid } else r)
  putTable { t with rows := { rid := rid, xmin := s.xid, cmin := s.cid, vals := vals } :: rows }

def deleteVersion (tname : String) (rid : Nat) : M Unit := do
  let s ← get
  let t ← getTable tname
  let v := latestView s.w s.xid
  putTable { t with rows := t.rows.map (fun r =>
    if r.rid == rid && r.visible v then { r with xmax := s.xid, cmax := s.cid } else r) }

def lockVersion (tname : String) (rid : Nat) : M Unit := do
  let s ← get
  let t ← getTable tname
  let v := latestView s.w s.xid
  putTable { t with rows := t.rows.map (fun r =>
    if r.rid == rid && r.visible v && r.locker == 0 then { r with locker := s.xid, lockCid := s.cid } else r) }

/-! ## syntactic helpers -/

mutual
/-- does the expression contain an aggregate call (not looking into sub-queries)? -/
def Expr.hasAgg : Expr → Bool
  | .agg .. => true
  | .unop _ e => e.hasAgg
  | .binop _ l r => l.hasAgg || r.hasAgg
  | .isNull e _ => e.hasAgg
  | .inList e xs _ => e.hasAgg || Expr.anyHasAgg xs
  | .inSub e _ _ => e.hasAgg
  | .ite c t els _ => c.hasAgg || t.hasAgg || (match els with | some e => e.hasAgg | none => false)
  | .cast e _ => e.hasAgg
  | .call _ _ args => Expr.anyHasAgg args
  | .row xs => Expr.anyHasAgg xs
  | .array xs => Expr.anyHasAgg xs
  | .index e i => e.hasAgg || i.hasAgg
  | .slice e lo hi => e.hasAgg || (match lo with | some x => x.hasAgg | none => false) || (match hi with | some x => x.hasAgg | none => false)
  | .field e _ => e.hasAgg
  | .win _ _ args part _ => Expr.anyHasAgg args || Expr.anyHasAgg part
  | _ => false
def Expr.anyHasAgg : List Expr → Bool
  | [] => false
  | e :: es => e.hasAgg || Expr.anyHasAgg es
end

/-- a window call: id, function name, args, partition, order -/
structure WinSpec where
  id : Nat
  name : String
  args : List Expr
  partition : List Expr
  order : List OrderItem

mutual
def Expr.wins : Expr → List WinSpec
  | .win id name args part ord => [{ id := id, name := name, args := args, partition := part, order := ord }]
  | .unop _ e => e.wins
  | .binop _ l r => l.wins ++ r.wins
  | .isNull e _ => e.wins
  | .inList e xs _ => e.wins ++ Expr.winsList xs
  | .inSub e _ _ => e.wins
  | .ite c t els _ => c.wins ++ t.wins ++ (match els with | some e => e.wins | none => [])
  | .cast e _ => e.wins
  | .call _ _ args => Expr.winsList args
  | .agg _ _ _ _ args _ => Expr.winsList args
  | .row xs => Expr.winsList xs
  | .array xs => Expr.winsList xs
  | .index e i => e.wins ++ i.wins
  | .slice e _ _ => e.wins
  | .field e _ => e.wins
  | _ => []
def Expr.winsList : List Expr → List WinSpec
  | [] => []
  | e :: es => e.wins ++ Expr.winsList es
end

def OrderItem.exprOf : OrderItem → Expr
  | .mk e _ _ => e

def SelItem.exprOf : SelItem → Option Expr
  | .expr e _ => some e
  | .star _ => none

/-- output column name of a select item without alias (documentation SELECT,
    "Output column names": a column reference keeps the column's name, a function
    call the function's name, a cast of a column the column name; otherwise
    `?column?`; CASE → `case`) -/
def exprOutName : Expr → String
  | .col _ n => n
  | .cast e ty =>
    match e with
    | .col _ n => n
    | .call _ n _ => n
    | .agg _ n .. => n
    | .field _ n => n
    | _ => ty.name'
  | .call _ n _ => n
  | .agg _ n .. => n
  | .win _ n .. => n
  | .field _ n => n
  | .ite .. => "case"
  | .exists _ => "exists"
  | .row _ => "row"
  | .array _ => "array"
  | .index e _ =>
    match e with
    | .col _ n => n
    | .agg _ n .. => n
    | .call _ n _ => n
    | _ => "?column?"
  | .subq (.mk _ (.select (.mk _ _ (SelItem.expr e a :: _) ..)) ..) =>
    if a.isEmpty then (match e with | .col _ n => n | .call _ n _ => n | .agg _ n .. => n | _ => "?column?") else a
  | _ => "?column?"

def FromItem.isLateral : FromItem → Bool
  | .sub _ _ _ l => l
  | .func _ _ _ _ => true   -- function arguments may reference earlier FROM items
  | .join _ l r _ => l.isLateral || r.isLateral
  | .table .. => false

def nullScope (alias : String) (cols : List String) : Scope :=
  { alias := alias, cols := cols, vals := cols.map (fun _ => Value.null) }

/-- dedupe rows (first occurrence kept), NULLs equal -/
def dedupeRows (rows : List (List Value)) : R (List (List Value)) := do
  let out ← rows.foldlM (fun (acc : List (List Value)) r => do
    if ← acc.anyM (fun x => sameGroupKey x r) then pure acc else pure (r :: acc)) []
  pure out.reverse

end Ledger.Sql
