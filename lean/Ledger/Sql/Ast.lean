/-!
# MiniSQL / MiniPL abstract syntax

Plain inductive datatypes, constructor for constructor the same as the node tags
of the Go parser `harness/go/internal/verif/minisql` (`Node.Tag` =
`<type>.<constructor>`, `Node.Args` = the fields in order). The Go side emits
these terms both as JSON (wire protocol of `lpg`) and as Lean source
(`Ledger/Generated/*.lean`); `Ledger/Sql/Decode.lean` reads the JSON form.

Core-only.
-/
namespace Ledger.Sql

inductive BinOp where
  | or | and | eq | ne | lt | le | gt | ge | like
  | concat | jsonGet | jsonGetText | jsonPathText | jsonPath
  | contains | containedBy | hasKey | hasAnyKey | hasAllKeys | jsonpathMatch
  | add | sub | mul | div | mod
  deriving Repr, DecidableEq, Inhabited

inductive UnOp where
  | not | neg | notLike
  deriving Repr, DecidableEq, Inhabited

inductive JoinKind where
  | inner | left | cross
  deriving Repr, DecidableEq, Inhabited

inductive LockMode where
  | none | forUpdate | forNoKeyUpdate | forShare
  deriving Repr, DecidableEq, Inhabited

inductive NullsOrder where
  | dflt | first | last
  deriving Repr, DecidableEq, Inhabited

inductive TrigTiming where
  | before | after
  deriving Repr, DecidableEq, Inhabited

inductive TrigEvent where
  | insert | update | delete
  deriving Repr, DecidableEq, Inhabited

/-- `[schema.]name[(mods)][[]]`; names are normalised by the parser
    (`int4`, `int8`, `numeric`, `varchar`, `text`, `jsonb`, `json`, `bytea`,
    `timestamp`, `timestamptz`, `bool`, `jsonpath`, user types such as `volumes`). -/
inductive SqlType where
  | mk (schema name mods : String) (array : Bool)
  deriving Repr, DecidableEq, Inhabited

def SqlType.name' : SqlType → String
  | .mk _ n _ _ => n
def SqlType.isArray : SqlType → Bool
  | .mk _ _ _ a => a

mutual

inductive Expr where
  | null
  | bool (b : Bool)
  | int (n : Int)
  /-- non-integer numeric literal, kept as text (not used by the ledger) -/
  | dec (s : String)
  /-- `'…'`: an untyped literal; its type is decided by the context -/
  | str (s : String)
  /-- `DEFAULT` inside `VALUES` -/
  | dflt
  /-- column (or PL variable) reference; `q` is the dotted qualifier or `""` -/
  | col (q name : String)
  | unop (op : UnOp) (e : Expr)
  | binop (op : BinOp) (l r : Expr)
  | isNull (e : Expr) (neg : Bool)
  | inList (e : Expr) (xs : List Expr) (neg : Bool)
  | inSub (e : Expr) (q : Query) (neg : Bool)
  | exists (q : Query)
  /-- scalar subquery -/
  | subq (q : Query)
  /-- searched CASE: `CASE WHEN c THEN t [WHEN …] [ELSE e] END`; a following
      `WHEN` arm is the `els` branch with `chain = true` -/
  | ite (c t : Expr) (els : Option Expr) (chain : Bool)
  | cast (e : Expr) (ty : SqlType)
  | call (schema name : String) (args : List Expr)
  | agg (schema name : String) (distinct star : Bool) (args : List Expr) (order : List OrderItem)
  | win (id : Nat) (name : String) (args : List Expr) (partition : List Expr) (order : List OrderItem)
  | row (xs : List Expr)
  | array (xs : List Expr)
  | index (e i : Expr)
  | slice (e : Expr) (lo hi : Option Expr)
  /-- `(e).name` -/
  | field (e : Expr) (name : String)

inductive OrderItem where
  | mk (e : Expr) (desc : Bool) (nulls : NullsOrder)

inductive SelItem where
  | expr (e : Expr) (alias : String)
  | star (q : String)

inductive FromItem where
  | table (schema name alias : String)
  | sub (q : Query) (alias : String) (cols : List String) (lateral : Bool)
  | func (e : Expr) (alias : String) (cols : List String) (lateral : Bool)
  | join (kind : JoinKind) (l r : FromItem) (on : Option Expr)

inductive Select where
  | mk (distinct : Bool) (distinctOn : List Expr) (items : List SelItem) (from_ : List FromItem)
       (wher : Option Expr) (groupBy : List Expr) (having : Option Expr)

inductive SetExpr where
  | select (s : Select)
  | values (rows : List (List Expr))
  | union (all : Bool) (l r : SetExpr)
  | paren (q : Query)

inductive Query where
  | mk (ctes : List Cte) (body : SetExpr) (orderBy : List OrderItem)
       (limit offset : Option Expr) (lock : LockMode)

inductive Cte where
  | mk (name : String) (cols : List String) (stmt : Stmt)

inductive SetItem where
  | mk (col : String) (e : Expr)

inductive InsertSrc where
  | values (rows : List (List Expr))
  | query (q : Query)
  | defaultValues

inductive ConflictAction where
  | nothing
  | update (sets : List SetItem) (wher : Option Expr)

inductive OnConflict where
  | mk (target : List String) (targetWhere : Option Expr) (constraint : String) (action : ConflictAction)

inductive Stmt where
  | query (q : Query)
  | insert (ctes : List Cte) (schema table alias : String) (cols : List String) (src : InsertSrc)
           (conflict : Option OnConflict) (returning : List SelItem)
  | update (ctes : List Cte) (schema table alias : String) (sets : List SetItem) (from_ : List FromItem)
           (wher : Option Expr) (returning : List SelItem)
  | delete (ctes : List Cte) (schema table alias : String) (using_ : List FromItem)
           (wher : Option Expr) (returning : List SelItem)
  | begin
  | commit
  | rollback
  | savepoint (name : String)
  | release (name : String)
  | rollbackTo (name : String)
  | call (schema name : String) (args : List Expr)
  | createSequence (schema name : String) (ifNotExists : Bool) (ownedBy : String)
  | createTrigger (name : String) (timing : TrigTiming) (event : TrigEvent) (ofCols : List String)
                  (schema table : String) (when_ : Option Expr) (fschema fname : String)

end

instance : Inhabited Expr := ⟨.null⟩
instance : Inhabited SetExpr := ⟨.values []⟩
instance : Inhabited Query := ⟨.mk [] (.values []) [] none none .none⟩
instance : Inhabited Stmt := ⟨.commit⟩
instance : Inhabited FromItem := ⟨.table "" "" ""⟩
instance : Inhabited Select := ⟨.mk false [] [] [] none [] none⟩

/-! ## MiniPL: PL/pgSQL function and trigger bodies -/

/-- assignment target: `x`, `new.col`, `_v.outputs` -/
inductive PlTarget where
  | var (name : String)
  | field (var field : String)
  deriving Repr, DecidableEq, Inhabited

inductive PlStmt where
  | assign (t : PlTarget) (e : Expr)
  /-- `select … into t₁, t₂ from …` (the query without its INTO clause) -/
  | selectInto (q : Query) (targets : List PlTarget)
  /-- INSERT/UPDATE/DELETE, with `returning … into targets` when non-empty -/
  | exec (s : Stmt) (targets : List PlTarget)
  /-- `perform <select list …>`: evaluate and discard -/
  | perform (q : Query)
  | ite (c : Expr) (thn els : List PlStmt)
  | loop (body : List PlStmt)
  /-- `exit [when c]` -/
  | exit (when_ : Option Expr)
  | ret (e : Option Expr)
  /-- `raise exception 'msg'` (other levels are no-ops) -/
  | raise (level msg : String)
  | null
  deriving Inhabited

structure PlParam where
  name : String
  ty : SqlType
  deriving Inhabited

structure PlDecl where
  name : String
  ty : SqlType
  init : Option Expr
  deriving Inhabited

/-- A tracked function or procedure in its final (folded) definition. -/
structure PlFunc where
  name : String
  params : List PlParam
  /-- `trigger`, `void`, or a value type -/
  returns : SqlType
  decls : List PlDecl
  body : List PlStmt
  deriving Inhabited

end Ledger.Sql
