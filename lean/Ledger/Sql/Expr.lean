import Ledger.Sql.Store

/-!
# Expression evaluation

`evalExpr` is structurally recursive on the expression. Sub-queries and calls of
user-defined or state-dependent functions go through the `Callbacks` record,
which the query evaluator (`Ledger/Sql/Eval.lean`) instantiates with itself at
a smaller fuel. Aggregates read the rows of the current group from the
environment; window functions are pre-computed per row by the SELECT evaluator
and looked up by the id the parser gave them.

Core-only.
-/
namespace Ledger.Sql

/-- one relation instance in scope: alias, column names, the current row -/
structure Scope where
  alias : String
  cols : List String
  vals : List Value
  /-- base table and row identity, when the scope ranges over a table -/
  src : Option (String × Nat) := none
  deriving Inhabited

/-- a materialised relation -/
structure Rel where
  cols : List String
  rows : List (List Value)
  deriving Inhabited

structure Env where
  /-- relations of the current query level (FROM items, in order) -/
  locals : List Scope := []
  /-- enclosing levels: correlated sub-queries, LATERAL, PL variables, NEW/OLD -/
  outer : List Scope := []
  ctes : List (String × Rel) := []
  /-- rows of the current group, while evaluating aggregate arguments -/
  group : Option (List (List Scope)) := none
  /-- pre-computed window function values of the current row -/
  wins : List (Nat × Value) := []
  deriving Inhabited

/-- a queued AFTER ROW trigger invocation -/
structure PendingTrig where
  fname : String
  table : String
  new : Option (List Value)
  old : Option (List Value)
  deriving Inhabited

/-- evaluation state threaded through a statement -/
structure St where
  w : World
  sid : Nat
  xid : Nat
  snap : Snapshot
  /-- command id of the running (sub-)statement: own writes with `cmin < cid` are visible -/
  cid : Nat
  /-- next unused command id -/
  nextCid : Nat
  searchPath : String := "public"
  /-- `now()` for this statement -/
  now : Int
  /-- AFTER ROW triggers queued by the running statement -/
  afterQ : List PendingTrig := []
  /-- EvalPlanQual re-check: scans of this table see only this row version
      (table, rid, values of the latest committed version) -/
  epq : Option (String × Nat × List Value) := none
  /-- an ORDER BY of this statement met rows with equal sort keys but different
      contents: their relative order (hence LIMIT / DISTINCT ON choices) is not
      determined by SQL; the model keeps the input order (stable sort) -/
  tieSensitive : Bool := false
  deriving Inhabited

abbrev M := ExceptT Err (StateM St)

def throwPg (code msg : String) : M α := throw (pgErr code msg)
def unsupported (msg : String) : M α := throw (.unsupported msg)
def liftR (r : R α) : M α := match r with | .ok a => pure a | .error e => throw e

structure Callbacks where
  /-- evaluate a sub-query in the given environment -/
  sub : Query → Env → M Rel
  /-- user-defined / state-dependent function -/
  call : (schema name : String) → List Value → M Value

/-! ## column lookup -/

def lookupIn : List String → List Value → String → Option Value
  | c :: cs, v :: vs, n => if c == n then some v else lookupIn cs vs n
  | _, _, _ => none

def lastComponent (q : String) : String := lastDotted q

def Scope.toRowValue (s : Scope) : Value := .row s.cols s.vals

/-- unqualified name: first scope (inner level first) that has the column -/
def lookupUnqualified : List Scope → String → Option Value
  | [], _ => none
  | s :: rest, n =>
    match lookupIn s.cols s.vals n with
    | some v => some v
    | none => lookupUnqualified rest n

def findScope : List Scope → String → Option Scope
  | [], _ => none
  | s :: rest, a => if s.alias == a then some s else findScope rest a

def rowField (v : Value) (f : String) : R Value :=
  match v with
  | .row names vals =>
    match lookupIn names vals f with
    | some x => pure x
    | none => throw (pgErr "42703" s!"column \"{f}\" not found in data type")
  | .null => pure .null
  | _ => throw (pgErr "42809" s!"column notation .{f} applied to a non-composite value")

def Env.scopes (env : Env) : List Scope := env.locals ++ env.outer

def lookupColumn (env : Env) (q name : String) : R Value :=
  let scopes := env.scopes
  if q.isEmpty then
    match lookupUnqualified scopes name with
    | some v => pure v
    | none =>
      -- whole-row reference by alias (`new`, a FROM alias)
      match findScope scopes name with
      | some s => pure s.toRowValue
      | none => throw (pgErr "42703" s!"column \"{name}\" does not exist")
  else
    let a := lastComponent q
    match findScope scopes a with
    | some s =>
      match lookupIn s.cols s.vals name with
      | some v => pure v
      | none => throw (pgErr "42703" s!"column {q}.{name} does not exist")
    | none =>
      -- `var.field` where var is a composite-typed variable / column
      match lookupUnqualified scopes a with
      | some v => rowField v name
      | none => throw (pgErr "42P01" s!"missing FROM-clause entry for table \"{q}\"")

/-! ## IN semantics (documentation 9.24.1): true if any equal; else NULL if any
    comparison was NULL; else false -/

def inValuesAux (x : Value) : List Value → Bool → R (Option Bool)
  | [], sawNull => pure (if sawNull then none else some false)
  | y :: ys, sawNull => do
    match ← compareValues x y with
    | some .eq => pure (some true)
    | some _ => inValuesAux x ys sawNull
    | none => inValuesAux x ys true

def inValues (x : Value) (ys : List Value) : R (Option Bool) := inValuesAux x ys false

/-! ## aggregates (documentation 9.21) -/

/-- merge of two sorted lists; on ties the left element goes first (stability) -/
def mergeM (cmp : α → α → R Ordering) : List α → List α → Nat → R (List α)
  | l, r, 0 => pure (l ++ r)
  | [], r, _ => pure r
  | l, [], _ => pure l
  | x :: l', y :: r', fuel + 1 => do
    if (← cmp y x) == .lt then return y :: (← mergeM cmp (x :: l') r' fuel)
    else return x :: (← mergeM cmp l' (y :: r') fuel)

/-- stable merge sort; `fuel` bounds the recursion depth (⌈log₂ n⌉ + 1 suffices) -/
def mergeSortM (cmp : α → α → R Ordering) : Nat → List α → R (List α)
  | 0, xs => pure xs
  | fuel + 1, xs =>
    match xs with
    | [] => pure []
    | [x] => pure [x]
    | _ => do
      let n := xs.length / 2
      let l ← mergeSortM cmp fuel (xs.take n)
      let r ← mergeSortM cmp fuel (xs.drop n)
      mergeM cmp l r (xs.length + 1)

def flipOrd : Ordering → Ordering
  | .lt => .gt
  | .gt => .lt
  | .eq => .eq

/-- lexicographic comparison of ORDER BY keys. NULLS LAST is the default for ASC,
    NULLS FIRST for DESC (documentation 7.5 "Sorting Rows"). -/
def cmpOrderKeys : List Value → List Value → List Bool → List NullsOrder → R Ordering
  | x :: xs, y :: ys, d :: ds, n :: ns => do
    let nullsFirst := match n with | .first => true | .last => false | .dflt => d
    let o ← match x, y with
      | .null, .null => pure Ordering.eq
      | .null, _ => pure (if nullsFirst then Ordering.lt else Ordering.gt)
      | _, .null => pure (if nullsFirst then Ordering.gt else Ordering.lt)
      | _, _ => do
        let o ← compareForSort x y
        pure (if d then flipOrd o else o)
    if o == .eq then cmpOrderKeys xs ys ds ns else pure o
  | _, _, _, _ => pure .eq

/-- stable sort keeping the keys -/
def sortKeyed (keys : List (List Value × α)) (descs : List Bool) (nulls : List NullsOrder) : R (List (List Value × α)) :=
  mergeSortM (fun a b => cmpOrderKeys a.1 b.1 descs nulls) (keys.length + 1) keys

/-- stable sort of keyed items by their ORDER BY keys -/
def sortValuesBy (keys : List (List Value × α)) (descs : List Bool) (nulls : List NullsOrder) : R (List α) := do
  let sorted ← mergeSortM (fun a b => cmpOrderKeys a.1 b.1 descs nulls) (keys.length + 1) keys
  pure (sorted.map (·.2))

def applyAggregate (name : String) (distinct star : Bool) (rows : List (List Value)) : R Value := do
  -- rows: one entry per input row = the evaluated argument list
  if name == "count" then
    if star then return .int rows.length
    let vals := rows.filterMap (fun r => match r with | v :: _ => if v.isNull then none else some v | [] => none)
    if distinct then
      let ded ← vals.foldlM (fun (acc : List Value) v => do
        if ← acc.anyM (fun x => do return (← compareForSort x v) == .eq) then pure acc else pure (acc ++ [v])) []
      return .int ded.length
    return .int vals.length
  if distinct then throw (.unsupported s!"DISTINCT in aggregate {name}")
  let firstArgs := rows.map (fun r => r.headD .null)
  let nonNull := firstArgs.filter (!·.isNull)
  match name with
  | "sum" =>
    if nonNull.isEmpty then return .null
    let total ← nonNull.foldlM (fun (acc : Int) v =>
      match v with
      | .int n => pure (acc + n)
      | .text s => do return acc + (← parseIntText s)
      | _ => throw (pgErr "42883" s!"function sum({v.toText}) does not exist")) 0
    return .int total
  | "max" | "min" =>
    match nonNull with
    | [] => return .null
    | x :: rest =>
      rest.foldlM (fun acc y => do
        let o ← compareForSort y acc
        pure (if (name == "min" && o == .lt) || (name == "max" && o == .gt) then y else acc)) x
  | "array_agg" => return (if firstArgs.isEmpty then .null else .array firstArgs)
  | "string_agg" =>
    let parts := rows.filterMap (fun r => match r with
      | v :: sep :: _ => if v.isNull then none else some (v.toText, if sep.isNull then "" else sep.toText)
      | _ => none)
    match parts with
    | [] => return .null
    | (s, _) :: rest => return .text (rest.foldl (fun acc (t, sep) => acc ++ sep ++ t) s)
  | "aggregate_objects" =>
    -- create aggregate aggregate_objects(jsonb) (sfunc = jsonb_concat, stype = jsonb, initcond = '{}')
    -- jsonb_concat is strict: NULL inputs are skipped by the aggregate machinery
    let acc ← nonNull.foldlM (fun (acc : JV) v => do return jsonConcat acc (← jsonOfValue v)) (JV.obj [])
    return .json acc
  | "jsonb_object_agg" | "json_object_agg" =>
    let kvs ← rows.mapM (fun r => match r with
      | k :: v :: _ =>
        if k.isNull then throw (pgErr "22023" "field name must not be null") else pure (k.toText, v.toJV)
      | _ => throw (pgErr "42883" "json_object_agg needs two arguments"))
    return .json (.obj (jobjOfList kvs))
  | "jsonb_agg" | "json_agg" =>
    return (if firstArgs.isEmpty then .null else .json (.arr (firstArgs.map Value.toJV)))
  | "bool_or" =>
    if nonNull.isEmpty then return .null
    return .bool (nonNull.any (fun v => match v with | .bool true => true | _ => false))
  | "bool_and" | "every" =>
    if nonNull.isEmpty then return .null
    return .bool (nonNull.all (fun v => match v with | .bool true => true | _ => false))
  | "first" =>
    -- legacy aggregate first(anyelement) with strict sfunc: first non-null input
    return nonNull.headD .null
  | _ => throw (.unsupported s!"aggregate {name}")

/-! ## the evaluator -/

def sliceList (xs : List Value) (lo hi : Option Int) : List Value :=
  let n : Int := xs.length
  let l := (lo.getD 1)
  let h := (hi.getD n)
  let l := if l < 1 then 1 else l
  let h := if h > n then n else h
  if h < l then [] else (xs.drop (l - 1).toNat).take (h - l + 1).toNat

mutual

def evalExpr (cb : Callbacks) (te : TypeEnv) (env : Env) : Expr → M Value
  | .null => pure .null
  | .bool b => pure (.bool b)
  | .int n => pure (.int n)
  | .dec s => unsupported s!"non-integer numeric literal {s}"
  | .str s => pure (.text s)
  | .dflt => throwPg "42601" "DEFAULT is not allowed in this context"
  | .col q name => liftR (lookupColumn env q name)
  | .unop op e => do
    let v ← evalExpr cb te env e
    match op with
    | .not | .notLike => return ofTruth (not3 (← liftR v.truth))
    | .neg =>
      match v with
      | .null => pure .null
      | .int n => pure (.int (-n))
      | .text s => do return .int (- (← liftR (parseIntText s)))
      | _ => throwPg "42883" "operator does not exist: - operand"
  | .binop op l r => do
    let a ← evalExpr cb te env l
    match op with
    | .and =>
      -- AND/OR may skip the right operand when the left decides (4.2.14
      -- "Expression Evaluation Rules": the order is not defined)
      match ← liftR a.truth with
      | some false => pure (.bool false)
      | ta =>
        let b ← evalExpr cb te env r
        return ofTruth (and3 ta (← liftR b.truth))
    | .or =>
      match ← liftR a.truth with
      | some true => pure (.bool true)
      | ta =>
        let b ← evalExpr cb te env r
        return ofTruth (or3 ta (← liftR b.truth))
    | _ =>
      let b ← evalExpr cb te env r
      liftR (evalBinop op a b)
  | .isNull e neg => do
    let v ← evalExpr cb te env e
    let isN := match v with
      | .null => true
      | .row _ vs => vs.all Value.isNull
      | _ => false
    -- (row IS NOT NULL is true only when all fields are non-null; 9.2)
    let notN := match v with
      | .null => false
      | .row _ vs => vs.all (!·.isNull)
      | _ => true
    pure (.bool (if neg then notN else isN))
  | .inList e xs neg => do
    let v ← evalExpr cb te env e
    let ys ← evalExprs cb te env xs
    let r ← liftR (inValues v ys)
    pure (ofTruth (if neg then not3 r else r))
  | .inSub e q neg => do
    let v ← evalExpr cb te env e
    let rel ← cb.sub q env
    let ys := rel.rows.map (fun r => r.headD .null)
    let r ← liftR (inValues v ys)
    pure (ofTruth (if neg then not3 r else r))
  | .exists q => do
    let rel ← cb.sub q env
    pure (.bool (!rel.rows.isEmpty))
  | .subq q => do
    let rel ← cb.sub q env
    match rel.rows with
    | [] => pure .null
    | [r] =>
      match r with
      | [v] => pure v
      | vs => pure (.row rel.cols vs)
    | _ => throwPg "21000" "more than one row returned by a subquery used as an expression"
  | .ite c t els _ => do
    let cv ← evalExpr cb te env c
    match ← liftR cv.truth with
    | some true => evalExpr cb te env t
    | _ =>
      match els with
      | some e => evalExpr cb te env e
      | none => pure .null
  | .cast e ty => do
    let v ← evalExpr cb te env e
    liftR (castTo te ty v)
  | .call schema name args =>
    -- COALESCE "only evaluates the arguments that are needed" (documentation 9.18.2): not a function call
    if (schema.isEmpty || schema == "pg_catalog") && name == "coalesce" then evalCoalesce cb te env args
    else do
    let vs ← evalExprs cb te env args
    match (if schema.isEmpty || schema == "public" || schema == "pg_catalog" then evalPureFn name vs else none) with
    | some r => liftR r
    | none => cb.call schema name vs
  | .agg _schema name distinct star args order => do
    match env.group with
    | none => throwPg "42803" s!"aggregate function {name} used outside an aggregation context"
    | some rows =>
      let rows' ←
        if order.isEmpty then pure rows else do
          -- ORDER BY inside the aggregate call
          let keyed ← rows.mapM (fun gr => do
            let k ← evalOrderKeys cb te { env with locals := gr, group := none } order
            pure (k, gr))
          let descs := orderDescs order
          let nulls := orderNulls order
          liftR (sortValuesBy keyed descs nulls)
      let argRows ← rows'.mapM (fun gr => evalExprs cb te { env with locals := gr, group := none } args)
      liftR (applyAggregate name distinct star argRows)
  | .win id name _ _ _ =>
    match env.wins.lookup id with
    | some v => pure v
    | none => throwPg "42P20" s!"window function {name} is not allowed in this context"
  | .row xs => do return .row [] (← evalExprs cb te env xs)
  | .array xs => do return .array (← evalExprs cb te env xs)
  | .index e i => do
    let v ← evalExpr cb te env e
    let iv ← evalExpr cb te env i
    match v, iv with
    | .null, _ | _, .null => pure .null
    | .array xs, .int k => pure (if k < 1 then .null else (xs[(k - 1).toNat]?).getD .null)
    | .text s, .int k => do
      let xs ← liftR (arrayOfValue (.text s))
      pure (if k < 1 then .null else (xs[(k - 1).toNat]?).getD .null)
    | _, _ => throwPg "42804" "cannot subscript this value"
  | .slice e lo hi => do
    let v ← evalExpr cb te env e
    let lov ← evalOpt cb te env lo
    let hiv ← evalOpt cb te env hi
    match v with
    | .null => pure .null
    | .array xs =>
      let asInt (o : Option Value) : M (Option Int) :=
        match o with
        | none => pure none
        | some (.int n) => pure (some n)
        | some .null => pure none
        | some _ => throwPg "42804" "array subscript must have type integer"
      match lov, hiv with
      | some .null, _ | _, some .null => pure .null
      | _, _ => do return .array (sliceList xs (← asInt lov) (← asInt hiv))
    | _ => throwPg "42804" "cannot slice this value"
  | .field e name => do
    let v ← evalExpr cb te env e
    liftR (rowField v name)

def evalExprs (cb : Callbacks) (te : TypeEnv) (env : Env) : List Expr → M (List Value)
  | [] => pure []
  | e :: es => do
    let v ← evalExpr cb te env e
    let vs ← evalExprs cb te env es
    pure (v :: vs)

/-- `COALESCE(e₁, …)`: the first non-NULL value; the arguments to its right are not evaluated -/
def evalCoalesce (cb : Callbacks) (te : TypeEnv) (env : Env) : List Expr → M Value
  | [] => pure .null
  | e :: es => do
    let v ← evalExpr cb te env e
    if v.isNull then evalCoalesce cb te env es else pure v

def evalOpt (cb : Callbacks) (te : TypeEnv) (env : Env) : Option Expr → M (Option Value)
  | none => pure none
  | some e => do return some (← evalExpr cb te env e)

def evalOrderKeys (cb : Callbacks) (te : TypeEnv) (env : Env) : List OrderItem → M (List Value)
  | [] => pure []
  | (.mk e _ _) :: rest => do
    let v ← evalExpr cb te env e
    let vs ← evalOrderKeys cb te env rest
    pure (v :: vs)

def orderDescs : List OrderItem → List Bool
  | [] => []
  | (.mk _ d _) :: rest => d :: orderDescs rest

def orderNulls : List OrderItem → List NullsOrder
  | [] => []
  | (.mk _ _ n) :: rest => n :: orderNulls rest

end

end Ledger.Sql
