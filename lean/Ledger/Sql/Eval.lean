import Ledger.Sql.Ops

/-!
# Query, DML, trigger and PL/pgSQL evaluation

One mutual block, structurally recursive on a fuel argument that bounds the
*nesting depth* (sub-queries, CTEs, joins, function and trigger calls, PL
blocks); running out of fuel is the explicit error `Err.fuel`.

Semantics follow the PostgreSQL 15 documentation; the rules that matter to the
ledger are cited where they are implemented.

Core-only.
-/
namespace Ledger.Sql

structure OutRow where
  vals : List Value
  /-- base-table rows this output row was computed from (for FOR UPDATE) -/
  srcs : List (String × Nat) := []
  /-- the input row (or group representative) for ORDER BY on input columns -/
  locals : List Scope := []
  group : Option (List (List Scope)) := none
  wins : List (Nat × Value) := []
  deriving Inhabited

structure DmlResult where
  rel : Rel := ⟨[], []⟩
  affected : Nat := 0
  deriving Inhabited

inductive PlFlow where
  | normal
  | exit
  | ret (v : Option Value)

structure PlVar where
  name : String
  ty : SqlType
  val : Value
  deriving Inhabited

structure PlSt where
  vars : List PlVar
  /-- the trigger's table (for NEW/OLD) -/
  tcols : List ColDef := []
  new : Option (List Value) := none
  old : Option (List Value) := none
  found : Bool := false
  deriving Inhabited

def subEnv (env : Env) : Env :=
  { locals := [], outer := env.locals ++ env.outer, ctes := env.ctes }

def PlSt.env (p : PlSt) : Env :=
  let varScope : Scope := { alias := "", cols := p.vars.map (·.name) ++ ["found"], vals := p.vars.map (·.val) ++ [.bool p.found] }
  let cols := p.tcols.map (·.name)
  let newS := match p.new with | some v => [{ alias := "new", cols := cols, vals := v : Scope }] | none => []
  let oldS := match p.old with | some v => [{ alias := "old", cols := cols, vals := v : Scope }] | none => []
  { outer := [varScope] ++ newS ++ oldS }

/-- callbacks for expressions that cannot contain sub-queries or user functions
    (index predicates, check constraints) -/
def cbNone : Callbacks :=
  { sub := fun _ _ => throw (.unsupported "sub-query in a constraint expression")
    call := fun _ n _ => throw (.unsupported s!"function {n} in a constraint expression") }

def rowScope (t : Table) (alias : String) (vals : List Value) : Scope :=
  { alias := alias, cols := t.colNames, vals := vals }

def predHolds (t : Table) (pred : Option Expr) (vals : List Value) : M Bool := do
  match pred with
  | none => pure true
  | some e =>
    let te ← typeEnv
    let v ← evalExpr cbNone te { locals := [rowScope t (baseName t.name) vals] } e
    return (← liftR v.truth) == some true

/-- first NOT NULL violation of a row, if any -/
def notNullViolation (t : Table) : List ColDef → List Value → Option Err
  | c :: cs, v :: vs =>
    if c.notNull && v.isNull then
      some (.pg "23502" s!"null value in column \"{c.name}\" of relation \"{baseName t.name}\" violates not-null constraint" c.name)
    else notNullViolation t cs vs
  | _, _ => none

/-- CHECK constraints: satisfied when the expression is true or NULL -/
def checkChecks (t : Table) (vals : List Value) : List CheckDef → M Unit
  | [] => pure ()
  | ck :: rest => do
    let te ← typeEnv
    let v ← evalExpr cbNone te { locals := [rowScope t (baseName t.name) vals] } ck.e
    if (← liftR v.truth) == some false then
      throw (.pg "23514" s!"new row for relation \"{baseName t.name}\" violates check constraint \"{ck.name}\"" ck.name)
    else checkChecks t vals rest

/-- NOT NULL and CHECK constraints (documentation 5.4) -/
def checkConstraints (t : Table) (vals : List Value) : M Unit :=
  match notNullViolation t t.cols vals with
  | some e => throw e
  | none => checkChecks t vals t.checks

def keyOf (t : Table) (cols : List String) (vals : List Value) : List Value :=
  cols.map (fun c => (lookupIn t.colNames vals c).getD .null)

/-- is `x` the id of a transaction other than `xid` that is still in progress? -/
def inProgressOther (xid : Nat) (active : List Nat) (x : Nat) : Bool :=
  x != 0 && x != xid && active.contains x

/-- does version `r` carry `key` on index `idx` (and satisfy the index predicate)? -/
def keyMatches (t : Table) (idx : UniqueIdx) (key : List Value) (r : Ver) : M Bool := do
  if !(← liftR (sameGroupKey (keyOf t idx.cols r.vals) key)) then pure false
  else predHolds t idx.pred r.vals

/-- Scan the versions of a table for one that conflicts with `key` on `idx`.
    Candidates: versions visible to the transaction now (`lv`), and versions
    created by another in-progress transaction and not deleted. A conflict with
    the latter, or with a version another in-progress transaction is deleting,
    makes the statement wait (documentation 13.2.1 / INSERT "ON CONFLICT"). -/
def scanConflict (t : Table) (idx : UniqueIdx) (key : List Value) (excludeRid : Option Nat)
    (lv : View) (xid : Nat) (active : List Nat) : List Ver → M (Option Ver)
  | [] => pure none
  | r :: rest =>
    if some r.rid == excludeRid then scanConflict t idx key excludeRid lv xid active rest
    else
      let mine := r.visible lv
      let foreignPending := inProgressOther xid active r.xmin && r.xmax == 0
      if !(mine || foreignPending) then scanConflict t idx key excludeRid lv xid active rest
      else do
        if !(← keyMatches t idx key r) then scanConflict t idx key excludeRid lv xid active rest
        else if foreignPending then throw (.blocked s!"unique:{idx.name}:xid:{r.xmin}" r.xmin 0)
        else if inProgressOther xid active r.xmax then
          -- the conflicting row is being deleted/updated by someone else: wait for the outcome
          throw (.blocked s!"unique:{idx.name}:xid:{r.xmax}" r.xmax 0)
        else pure (some r)

/-- Find a row that conflicts with `vals` on one of the indexes. NULL keys never
    conflict; a partial index only concerns rows satisfying its predicate. -/
def findConflict (t : Table) : List UniqueIdx → List Value → Option Nat → M (Option (UniqueIdx × Ver))
  | [], _, _ => pure none
  | idx :: rest, vals, excludeRid => do
    if !(← predHolds t idx.pred vals) then findConflict t rest vals excludeRid
    else
      let key := keyOf t idx.cols vals
      if key.any Value.isNull then findConflict t rest vals excludeRid
      else do
        let s ← get
        match ← scanConflict t idx key excludeRid (latestView s.w s.xid) s.xid s.w.active t.rows with
        | some r => pure (some (idx, r))
        | none => findConflict t rest vals excludeRid

/-- is there a visible parent row with this key? -/
def parentExists (parent : Table) (refCols : List String) (key : List Value) (lv : View) : List Ver → R Bool
  | [] => pure false
  | r :: rest => do
    if r.visible lv && (← sameGroupKey (keyOf parent refCols r.vals) key) then pure true
    else parentExists parent refCols key lv rest

/-- foreign keys of a written row: every non-NULL key must have a parent row
    (documentation 5.4.5; SQLSTATE 23503) -/
def checkForeignKeysOf (t : Table) (vals : List Value) : List FkDef → M Unit
  | [] => pure ()
  | fk :: rest => do
    let key := keyOf t fk.cols vals
    if key.any Value.isNull then checkForeignKeysOf t vals rest
    else
      let s ← get
      let parent ← getTable fk.refTable
      if ← liftR (parentExists parent fk.refCols key (latestView s.w s.xid) parent.rows) then
        checkForeignKeysOf t vals rest
      else
        throw (.pg "23503" s!"insert or update on table \"{baseName t.name}\" violates foreign key constraint \"{fk.name}\"" fk.name)

def checkForeignKeys (t : Table) (vals : List Value) : M Unit := checkForeignKeysOf t vals t.fks

/-- rows of other tables that reference a row being deleted: deleted too when the
    constraint says ON DELETE CASCADE, otherwise the delete is refused. Returns
    the (table, rid) pairs to delete in cascade. -/
def referencingRows (t : Table) (vals : List Value) : M (List (String × Nat)) := do
  let s ← get
  let lv := latestView s.w s.xid
  let mut out : List (String × Nat) := []
  for child in s.w.tables do
    for fk in child.fks do
      if fk.refTable != t.name then continue
      let key := keyOf t fk.refCols vals
      if key.any Value.isNull then continue
      for r in child.rows do
        if r.visible lv && (← liftR (sameGroupKey (keyOf child fk.cols r.vals) key)) then
          if fk.cascade then out := out ++ [(child.name, r.rid)]
          else throw (.pg "23503" s!"update or delete on table \"{baseName t.name}\" violates foreign key constraint \"{fk.name}\" on table \"{baseName child.name}\"" fk.name)
  pure out

def uniqueViolation (t : Table) (idx : UniqueIdx) (key : List Value) : Err :=
  .pg "23505" (s!"duplicate key value violates unique constraint \"{idx.name}\" on \"{baseName t.name}\": Key (" ++
    ", ".intercalate idx.cols ++ ")=(" ++ ", ".intercalate (key.map Value.toText) ++ ") already exists.") idx.name

/-- arbiter indexes of `ON CONFLICT (cols)`: unique indexes on exactly these
    columns (documentation INSERT, "conflict_target … index inference") -/
def sameColSet (a b : List String) : Bool := a.length == b.length && a.all b.contains

def arbiterIndexes (t : Table) (target : List String) : M (List UniqueIdx) :=
  if target.isEmpty then pure t.uniques else
  match t.uniques.filter (fun i => sameColSet i.cols target) with
  | [] => throwPg "42P10" "there is no unique or exclusion constraint matching the ON CONFLICT specification"
  | xs => pure xs

/-- group rows by key, first-appearance order -/
def groupRowsBy (keyed : List (List Value × List Scope)) : R (List (List Value × List (List Scope))) := do
  let gs ← keyed.foldlM (fun (acc : List (List Value × List (List Scope))) (k, row) => do
    let rec ins : List (List Value × List (List Scope)) → R (List (List Value × List (List Scope)) × Bool)
      | [] => pure ([], false)
      | (k', rows) :: rest => do
        if ← sameGroupKey k k' then pure ((k', row :: rows) :: rest, true)
        else
          let (rest', ok) ← ins rest
          pure ((k', rows) :: rest', ok)
    let (acc', found) ← ins acc
    pure (if found then acc' else acc' ++ [(k, [row])])) []
  pure (gs.map (fun (k, rows) => (k, rows.reverse)))

/-- take/drop for LIMIT/OFFSET -/
def applyLimit (rows : List α) (limit offset : Option Value) : M (List α) := do
  let toNat (v : Option Value) (what : String) : M (Option Nat) :=
    match v with
    | none | some .null => pure none
    | some (.int n) => if n < 0 then throwPg "2201W" s!"{what} must not be negative" else pure (some n.toNat)
    | some (.text s) => do
      let n ← liftR (parseIntText s)
      if n < 0 then throwPg "2201W" s!"{what} must not be negative" else pure (some n.toNat)
    | some _ => throwPg "42804" s!"argument of {what} must be type bigint"
  let off ← toNat offset "OFFSET"
  let lim ← toNat limit "LIMIT"
  let rows := match off with | some k => rows.drop k | none => rows
  pure (match lim with | some k => rows.take k | none => rows)

/-- a member of a window partition read back: (order key, (row index, arguments)) -/
def winItem (nOrd : Nat) : List Scope → Option (List Value × (Nat × List Value))
  | [s] =>
    match s.vals.drop nOrd with
    | .int i :: args => some (s.vals.take nOrd, (i.toNat, args))
    | _ => none
  | _ => none

/-- the values of a window function on one ordered partition -/
def windowOfPartition (name : String) (sorted : List (Nat × List Value)) : R (List (Nat × Value)) :=
  match name with
  | "first_value" =>
    let fv := match sorted with | (_, args) :: _ => args.headD .null | [] => .null
    pure (sorted.map (fun (i, _) => (i, fv)))
  | "row_number" =>
    pure (sorted.foldl (fun (acc : List (Nat × Value) × Nat) (i, _) => (acc.1 ++ [(i, Value.int (acc.2 + 1))], acc.2 + 1)) ([], 0)).1
  | _ => throw (.unsupported s!"window function {name}")

/-- value of a window function for every row. Default frame with ORDER BY: from
    the partition start to the current row's last peer, so `first_value` is the
    first row of the ordered partition (documentation 4.2.8, 9.22). -/
def computeWindow (name : String) (rows : List (Nat × List Value × List Value × List Value))
    (descs : List Bool) (nulls : List NullsOrder) : R (List (Nat × Value)) := do
  -- rows: (index, partition key, order key, args)
  let keyed := rows.map (fun (i, pk, ok, args) => (pk, [({ alias := toString i, cols := [], vals := ok ++ [Value.int i] ++ args } : Scope)]))
  let groups ← groupRowsBy keyed
  groups.foldlM (fun (out : List (Nat × Value)) g => do
    let sorted ← sortValuesBy (g.2.filterMap (winItem descs.length)) descs nulls
    let vals ← windowOfPartition name sorted
    pure (out ++ vals)) []

/-- accumulator of a DML statement's row loop -/
structure DmlAcc where
  retCols : List String := []
  retRows : List (List Value) := []
  affected : Nat := 0
  deriving Inhabited

/-- triggers of the same kind fire in alphabetical order by name (documentation 39.1) -/
def insertTrigger (tr : TriggerDef) : List TriggerDef → List TriggerDef
  | [] => [tr]
  | x :: xs => if tr.name < x.name then tr :: x :: xs else x :: insertTrigger tr xs

def sortTriggers (ts : List TriggerDef) : List TriggerDef :=
  ts.foldl (fun acc tr => insertTrigger tr acc) []

def colIndex (cols : List String) (name : String) : Option Nat :=
  let rec go : List String → Nat → Option Nat
    | [], _ => none
    | c :: cs, i => if c == name then some i else go cs (i + 1)
  go cols 0

/-- State-dependent built-in functions (sequences, clocks, advisory locks). They never call back into the
    evaluator, so they live outside the mutual block; `none` = not a built-in (with these arguments). -/
def callBuiltin (name : String) (args : List Value) : Option (M Value) :=
  if name == "nextval" then
    match args with
    | [a] => some (do return .int (← seqNext (← seqName a.toText)))
    | _ => none
  else if name == "setval" then
    match args with
    | [a, v] => some (do
      let n ← liftR (castTo {} (tyName "int8") v)
      match n with
      | .int k => seqSet (← seqName a.toText) k true; pure (.int k)
      | _ => pure .null)
    | [a, v, c] => some (do
      let n ← liftR (castTo {} (tyName "int8") v)
      let called ← liftR c.truth
      match n with
      | .int k => seqSet (← seqName a.toText) k (called.getD true); pure (.int k)
      | _ => pure .null)
    | _ => none
  else if name == "now" || name == "transaction_timestamp" || name == "current_timestamp" || name == "localtimestamp" then
    match args with
    | [] => some (do
      let s ← get
      pure (.ts (s.w.session s.sid).txStart))
    | _ => none
  else if name == "statement_timestamp" || name == "clock_timestamp" then
    match args with
    | [] => some (do return .ts (← get).now)
    | _ => none
  else if name == "pg_advisory_xact_lock" then
    match args with
    | [k] => some (do
      match ← liftR (castTo {} (tyName "int8") k) with
      | .int key => advisoryLock key true; pure .null
      | _ => pure .null)
    | _ => none
  else if name == "pg_advisory_lock" then
    match args with
    | [k] => some (do
      match ← liftR (castTo {} (tyName "int8") k) with
      | .int key => advisoryLock key false; pure .null
      | _ => pure .null)
    | _ => none
  else if name == "pg_advisory_unlock" then
    match args with
    | [k] => some (do
      match ← liftR (castTo {} (tyName "int8") k) with
      | .int key => do return .bool (← advisoryUnlock key)
      | _ => pure .null)
    | _ => none
  else if name == "pg_notify" then some (pure .null)
  else if name == "current_schema" then
    match args with
    | [] => some (do return .text (← get).searchPath)
    | _ => none
  else none

/-- does the ON condition of a join hold on the combined row? -/
def onHolds (cb : Callbacks) (te : TypeEnv) (env : Env) (scopes : List Scope) : Option Expr → M Bool
  | none => pure true
  | some c => do
    let v ← evalExpr cb te { env with locals := scopes } c
    pure ((← liftR v.truth) == some true)

/-- the rows of the right-hand side of a join that match the left row `L` (ON condition) -/
def joinMatches (cb : Callbacks) (te : TypeEnv) (env : Env) (ctx L : List Scope) (on : Option Expr) (rs : List Scope) : M (List (List Scope)) :=
  rs.foldlM (fun (matched : List (List Scope)) rsc => do
    let ok ← onHolds cb te env (ctx ++ L ++ [rsc]) on
    pure (if ok then matched ++ [L ++ [rsc]] else matched)) []

/-- the value of one ORDER BY item on an output row: a bare output-column name or an ordinal refers to the
    output column, anything else is evaluated on the input row -/
def orderKeyM (cb : Callbacks) (te : TypeEnv) (env : Env) (cols : List String) (r : OutRow) : OrderItem → M Value
  | .mk e _ _ =>
    let outRef : Option Nat := match e with
      | .col "" name => colIndex cols name
      | .int k => if k ≥ 1 then some (k.toNat - 1) else none
      | _ => none
    match outRef with
    | some i => pure ((r.vals[i]?).getD .null)
    | none =>
      let outScope : Scope := { alias := "", cols := cols, vals := r.vals }
      let env' : Env := { env with locals := r.locals, outer := [outScope] ++ env.outer, group := r.group, wins := r.wins }
      evalExpr cb te env' e

/-- ties: adjacent rows with equal sort keys but different contents -/
def hasTieR : List (List Value × OutRow) → R Bool
  | (k1, r1) :: (k2, r2) :: rest => do
    if (← sameGroupKey k1 k2) && !(← sameGroupKey r1.vals r2.vals) then pure true
    else hasTieR ((k2, r2) :: rest)
  | _ => pure false

mutual

/-- callbacks at fuel `n` -/
def cbs : Nat → Callbacks
  | 0 => { sub := fun _ _ => throw .fuel, call := fun _ _ _ => throw .fuel }
  | n + 1 =>
    { sub := fun q env => evalQuery n (subEnv env) q
      call := fun schema name args => callFunc n schema name args }

def evalQuery : Nat → Env → Query → M Rel
  | 0, _, _ => throw .fuel
  | n + 1, env, .mk ctes body orderBy limit offset lock => do
    let env ← evalCtes n env ctes
    let te ← typeEnv
    let (cols, rows) ← evalSetExpr n env body orderBy
    let limV ← evalOpt (cbs n) te env limit
    let offV ← evalOpt (cbs n) te env offset
    let rows ← applyLimit rows limV offV
    let rows ← match lock with
      | .none => pure rows
      | _ => do
        -- FOR UPDATE: lock the rows that are returned (documentation SELECT, "The
        -- Locking Clause"); a row held by another transaction blocks. READ COMMITTED
        -- (13.2.1): if the row was changed by a transaction that committed after the
        -- statement's snapshot, the WHERE clause is re-evaluated on the updated
        -- version, which is the one locked and returned (or skipped if it no longer
        -- matches / was deleted).
        rows.foldlM (fun (out : List OutRow) r => do
          match ← lockSources n env body r r.srcs (some r) with
          | some x => pure (out ++ [x])
          | none => pure out) []
    pure { cols := cols, rows := rows.map (·.vals) }

/-- FOR UPDATE on one returned row: lock the latest version of each of its source rows; `cur` is the row to
    return (re-evaluated when a source changed since the snapshot), `none` once a source has vanished -/
def lockSources : Nat → Env → SetExpr → OutRow → List (String × Nat) → Option OutRow → M (Option OutRow)
  | 0, _, _, _, _, _ => throw .fuel
  | _ + 1, _, _, _, [], cur => pure cur
  | _ + 1, _, _, _, _ :: _, none => pure none
  | n + 1, env, body, r, (tn, rid) :: rest, some c => do
    let t ← getTable tn
    match ← latestVersion t rid with
    | none => pure none
    | some ver =>
      match ← heldByOther ver with
      | some x => throw (.blocked s!"row:{tn}:{rid}:xid:{x}" x 0)
      | none =>
        lockVersion tn rid
        let unchanged := r.locals.any (fun sc => sc.src == some (tn, rid) && sc.vals == ver.vals)
        if !unchanged then
          modify fun s => { s with epq := some (tn, rid, ver.vals) }
          let (_, again) ← evalSetExpr n env body []
          modify fun s => { s with epq := none }
          lockSources n env body r rest again.head?
        else lockSources n env body r rest (some c)

/-- evaluate the CTEs of a WITH clause, in order, all under the statement's
    snapshot and command id: sub-statements do not see each other's effects
    (documentation 7.8.4 "Data-Modifying Statements in WITH") -/
def evalCtes : Nat → Env → List Cte → M Env
  | 0, _, _ => throw .fuel
  | _, env, [] => pure env
  | n + 1, env, (.mk name cols stmt) :: rest => do
    let r ← execStmt n env stmt
    let rel := r.rel
    let rel : Rel := if cols.isEmpty then rel else
      { rel with cols := cols ++ rel.cols.drop cols.length }
    evalCtes n { env with ctes := (name, rel) :: env.ctes } rest

def evalSetExpr : Nat → Env → SetExpr → List OrderItem → M (List String × List OutRow)
  | 0, _, _, _ => throw .fuel
  | n + 1, env, .select s, order => evalSelect n env s order
  | n + 1, env, .values rows, order => do
    let te ← typeEnv
    let vals ← rows.mapM (fun r => evalExprs (cbs n) te env r)
    let width := (vals.headD []).length
    let cols := (List.range width).map (fun i => s!"column{i + 1}")
    let out := vals.map (fun v => ({ vals := v } : OutRow))
    sortOut n env cols out order
  | n + 1, env, .union all l r, order => do
    let (cols, lrows) ← evalSetExpr n env l []
    let (_, rrows) ← evalSetExpr n env r []
    let rows := lrows ++ rrows
    let rows ← if all then pure rows else do
      let ded ← liftR (dedupeRows (rows.map (·.vals)))
      pure (ded.map (fun v => ({ vals := v } : OutRow)))
    -- ORDER BY of a set operation sees output columns only
    let rows := rows.map (fun r => { r with locals := [], group := none, wins := [] })
    sortOut n env cols rows order
  | n + 1, env, .paren q, order => do
    let rel ← evalQuery n env q
    let rows := rel.rows.map (fun v => ({ vals := v } : OutRow))
    sortOut n env rel.cols rows order

/-- ORDER BY over computed output rows. An item that is a bare output-column
    name or an ordinal refers to the output column; anything else is evaluated
    on the input row (documentation SELECT, "ORDER BY Clause"). -/
def sortOut : Nat → Env → List String → List OutRow → List OrderItem → M (List String × List OutRow)
  | 0, _, _, _, _ => throw .fuel
  | _, _, cols, rows, [] => pure (cols, rows)
  | n + 1, env, cols, rows, order => do
    let te ← typeEnv
    let keyed ← rows.mapM (fun r => do
      let ks ← order.mapM (orderKeyM (cbs n) te env cols r)
      pure (ks, r))
    let sortedK ← liftR (sortKeyed keyed (orderDescs order) (orderNulls order))
    if ← liftR (hasTieR sortedK) then modify fun s => { s with tieSensitive := true }
    pure (cols, sortedK.map (·.2))

def evalFromList : Nat → Env → List FromItem → List (List Scope) → M (List (List Scope))
  | 0, _, _, _ => throw .fuel
  | _, _, [], acc => pure acc
  | n + 1, env, item :: rest, acc => do
    let acc' ←
      if item.isLateral then
        acc.foldlM (fun out L => do
          let rs ← evalFrom n env L item
          pure (out ++ rs.map (L ++ ·))) []
      else do
        let rs ← evalFrom n env [] item
        pure (acc.foldl (fun out L => out ++ rs.map (L ++ ·)) [])
    evalFromList n env rest acc'

/-- rows of one FROM item (each a list of the scopes it introduces); `ctx` holds
    the scopes of the items to its left (LATERAL references, ON conditions) -/
def evalFrom : Nat → Env → List Scope → FromItem → M (List (List Scope))
  | 0, _, _, _ => throw .fuel
  | n + 1, env, ctx, .join kind l r on => do
    let te ← typeEnv
    let ls ← evalFrom n env ctx l
    let fixedR : Option (String × List String × List Scope) ←
      if r.isLateral then pure none else do
        let x ← evalPrimary n env ctx r
        pure (some x)
    ls.foldlM (fun (out : List (List Scope)) L => do
      let x ← match fixedR with
        | some x => pure x
        | none => evalPrimary n env (ctx ++ L) r
      let matched ← joinMatches (cbs n) te env ctx L on x.2.2
      if matched.isEmpty && kind == .left then
        pure (out ++ [L ++ [nullScope x.1 x.2.1]])
      else pure (out ++ matched)) []
  | n + 1, env, ctx, item => do
    let (_, _, rs) ← evalPrimary n env ctx item
    pure (rs.map (fun s => [s]))

/-- a table, CTE, sub-query or function in FROM: (alias, columns, rows) -/
def evalPrimary : Nat → Env → List Scope → FromItem → M (String × List String × List Scope)
  | 0, _, _, _ => throw .fuel
  | _ + 1, env, _, .table schema name alias => do
    let a := if alias.isEmpty then name else alias
    match (if schema.isEmpty then env.ctes.lookup name else none) with
    | some rel => pure (a, rel.cols, rel.rows.map (fun v => { alias := a, cols := rel.cols, vals := v }))
    | none =>
      let full ← qualify schema name
      let t ← getTable full
      let rs ← scanTable t a
      pure (a, t.colNames, rs)
  | n + 1, env, ctx, .sub q alias cols lateral => do
    let env' : Env := { locals := [], outer := (if lateral then ctx else []) ++ env.outer, ctes := env.ctes }
    let rel ← evalQuery n env' q
    let cs := if cols.isEmpty then rel.cols else cols ++ rel.cols.drop cols.length
    pure (alias, cs, rel.rows.map (fun v => { alias := alias, cols := cs, vals := v }))
  | n + 1, env, ctx, .func e alias cols _ => do
    let te ← typeEnv
    let v ← evalExpr (cbs n) te { env with locals := ctx } e
    let fname := match e with | .call _ f _ => f | _ => "?column?"
    let a := if alias.isEmpty then fname else alias
    match v with
    | .row names vals =>
      let cs := if cols.isEmpty then names else cols
      pure (a, cs, [{ alias := a, cols := cs, vals := vals }])
    | .array vals =>
      let cs := if cols.isEmpty then [a] else cols
      pure (a, cs, vals.map (fun x => { alias := a, cols := cs, vals := [x] }))
    | .null => pure (a, (if cols.isEmpty then [a] else cols), [])
    | x =>
      let cs := if cols.isEmpty then [a] else cols
      pure (a, cs, [{ alias := a, cols := cs, vals := [x] }])
  | _ + 1, _, _, .join .. => throw (.unsupported "nested join on the right-hand side of a join")

def evalSelect : Nat → Env → Select → List OrderItem → M (List String × List OutRow)
  | 0, _, _, _ => throw .fuel
  | n + 1, env, .mk distinct distinctOn items from_ wher groupBy having, order => do
    let te ← typeEnv
    let cb := cbs n
    -- FROM
    let rows0 ← evalFromList n env from_ [[]]
    -- WHERE
    let rows ← match wher with
      | none => pure rows0
      | some c => rows0.filterM (fun L => do
          let v ← evalExpr cb te { env with locals := L } c
          pure ((← liftR v.truth) == some true))
    -- output column names; `*` expands to the columns of the FROM items
    let starCols (q : String) : M (List (String × String)) := do
      -- (alias, column) pairs
      let proto : List Scope ← match rows0 with
        | L :: _ => pure L
        | [] =>
          -- no row to look at: recompute the column lists from the items
          let protoRows ← protoScopes n env from_
          pure protoRows
      if q.isEmpty then pure (proto.foldl (fun acc s => acc ++ s.cols.map (fun c => (s.alias, c))) [])
      else
        match findScope proto (lastComponent q) with
        | some s => pure (s.cols.map (fun c => (s.alias, c)))
        | none => throwPg "42P01" s!"missing FROM-clause entry for table \"{q}\""
    let (outCols, outExprs) ← items.foldlM (fun (acc : List String × List Expr) it =>
      match it with
      | .expr e a => pure (acc.1 ++ [if a.isEmpty then exprOutName e else a], acc.2 ++ [e])
      | .star q => do
        let cs ← starCols q
        pure (acc.1 ++ cs.map (·.2), acc.2 ++ cs.map (fun (a, c) => Expr.col a c))) (([] : List String), ([] : List Expr))
    let aggregated := !groupBy.isEmpty || Expr.anyHasAgg outExprs ||
      (match having with | some h => h.hasAgg | none => false) ||
      order.any (fun o => o.exprOf.hasAgg)
    -- rows to project: (locals, group)
    let units : List (List Scope × Option (List (List Scope))) ←
      if aggregated then do
        -- GROUP BY items name input columns; a name that is not an input column may
        -- name an output column (documentation SELECT, "GROUP BY Clause")
        let groupExprs := groupBy.map (fun g =>
          match g with
          | .col "" name =>
            let isInput := match rows0 with
              | L :: _ => (lookupUnqualified (L ++ env.outer) name).isSome
              | [] => true
            if isInput then g else
              match colIndex outCols name with
              | some i => (outExprs[i]?).getD g
              | none => g
          | .int k => if k ≥ 1 then (outExprs[k.toNat - 1]?).getD g else g
          | g => g)
        if groupExprs.isEmpty then pure [((rows.headD []), some rows)]
        else do
          let keyed ← rows.mapM (fun L => do
            let k ← evalExprs cb te { env with locals := L } groupExprs
            pure (k, L))
          let gs ← liftR (groupRowsBy keyed)
          pure (gs.map (fun (_, members) => (members.headD [], some members)))
      else pure (rows.map (fun L => (L, none)))
    -- HAVING
    let units ← match having with
      | none => pure units
      | some h => units.filterM (fun (L, g) => do
          let v ← evalExpr cb te { env with locals := L, group := g } h
          pure ((← liftR v.truth) == some true))
    -- window functions
    let winSpecs := Expr.winsList outExprs ++ Expr.winsList (order.map OrderItem.exprOf)
    let indexed := (List.range units.length).zip units
    -- per win id: (row index, value)
    let winVals ← winSpecs.foldlM (fun (winVals : List (Nat × List (Nat × Value))) ws =>
      if winVals.any (·.1 == ws.id) then pure winVals
      else do
        let data ← indexed.mapM (fun (i, (L, g)) => do
          let e' : Env := { env with locals := L, group := g }
          let pk ← evalExprs cb te e' ws.partition
          let ok ← evalOrderKeys cb te e' ws.order
          let args ← evalExprs cb te e' ws.args
          pure (i, pk, ok, args))
        let vals ← liftR (computeWindow ws.name data (orderDescs ws.order) (orderNulls ws.order))
        pure (winVals ++ [(ws.id, vals)])) []
    -- projection
    let outRows ← indexed.mapM (fun (i, (L, g)) => do
      let wins := winVals.map (fun (id, vals) => (id, (vals.lookup i).getD .null))
      let vals ← evalExprs cb te { env with locals := L, group := g, wins := wins } outExprs
      let srcs := L.filterMap (·.src)
      pure ({ vals := vals, srcs := srcs, locals := L, group := g, wins := wins } : OutRow))
    -- ORDER BY, then DISTINCT ON / DISTINCT (the first row of each set in ORDER BY
    -- order is kept; documentation SELECT, "DISTINCT Clause")
    let (_, sorted) ← sortOut n env outCols outRows order
    let result ←
      if !distinctOn.isEmpty then do
        let keyed ← sorted.mapM (fun r => do
          let ks ← distinctOn.mapM (fun e => do
            let outRef : Option Nat := match e with
              | .col "" name =>
                -- input column first, then output name
                if (lookupUnqualified (r.locals ++ env.outer) name).isSome then none else colIndex outCols name
              | _ => none
            match outRef with
            | some i => pure ((r.vals[i]?).getD .null)
            | none => evalExpr cb te { env with locals := r.locals, group := r.group, wins := r.wins } e)
          pure (ks, r))
        -- without ORDER BY PostgreSQL sorts by the DISTINCT ON keys (Sort + Unique)
        let keyed ← if order.isEmpty then do
            let ascs := distinctOn.map (fun _ => false)
            let nls := distinctOn.map (fun _ => NullsOrder.dflt)
            let srt ← liftR (sortValuesBy (keyed.map (fun (k, r) => (k, (k, r)))) ascs nls)
            pure srt
          else pure keyed
        let out ← keyed.foldlM (fun (acc : List (List Value × OutRow)) (k, r) => do
          if ← liftR (acc.anyM (fun (k', _) => sameGroupKey k k')) then pure acc else pure (acc ++ [(k, r)])) []
        pure (out.map (·.2))
      else if distinct then do
        let out ← sorted.foldlM (fun (acc : List OutRow) r => do
          if ← liftR (acc.anyM (fun x => sameGroupKey x.vals r.vals)) then pure acc else pure (acc ++ [r])) []
        pure out
      else pure sorted
    pure (outCols, result)

/-- the scopes (with NULL values) a FROM list introduces, for `*` over an empty input -/
def protoScopes : Nat → Env → List FromItem → M (List Scope)
  | 0, _, _ => throw .fuel
  | _, _, [] => pure []
  | n + 1, env, item :: rest => do
    let here ← protoItem n env item
    let more ← protoScopes n env rest
    pure (here ++ more)

def protoItem : Nat → Env → FromItem → M (List Scope)
  | 0, _, _ => throw .fuel
  | n + 1, env, .join _ l r _ => do
    let a ← protoItem n env l
    let b ← protoItem n env r
    pure (a ++ b)
  | n + 1, env, item => do
    if item.isLateral then
      match item with
      | .sub _ alias cols _ => pure [nullScope alias cols]
      | .func _ alias cols _ => pure [nullScope alias cols]
      | _ => pure []
    else
      let (a, cols, _) ← evalPrimary n env [] item
      pure [nullScope a cols]

-- ### statements

def execStmt : Nat → Env → Stmt → M DmlResult
  | 0, _, _ => throw .fuel
  | n + 1, env, .query q => do
    let rel ← evalQuery n env q
    pure { rel := rel, affected := rel.rows.length }
  | n + 1, env, .insert ctes schema table alias cols src conflict returning => do
    let env ← evalCtes n env ctes
    execInsert n env schema table alias cols src conflict returning
  | n + 1, env, .update ctes schema table alias sets from_ wher returning => do
    let env ← evalCtes n env ctes
    execUpdate n env schema table alias sets from_ wher returning
  | n + 1, env, .delete ctes schema table alias using_ wher returning => do
    let env ← evalCtes n env ctes
    execDelete n env schema table alias using_ wher returning
  | n + 1, _, .call schema name args => do
    let te ← typeEnv
    let vs ← evalExprs (cbs n) te {} args
    let _ ← callFunc n schema name vs
    pure {}
  | _ + 1, _, .createSequence schema name ifNot _ => do
    let full ← qualify schema name
    let w ← getW
    if w.seqs.any (·.name == full) then
      if ifNot then pure {} else throwPg "42P07" s!"relation \"{full}\" already exists"
    else
      setW { w with seqs := w.seqs ++ [{ name := full }] }
      pure {}
  | _ + 1, _, .createTrigger name timing event ofCols schema table when_ fschema fname => do
    let full ← qualify schema table
    let t ← getTable full
    if t.triggers.any (·.name == name) then
      throwPg "42710" s!"trigger \"{name}\" for relation \"{full}\" already exists"
    let ffull ← qualify fschema fname
    if !((← getW).funcs.any (·.1 == ffull)) then
      throwPg "42883" s!"function {ffull}() does not exist"
    putTable { t with triggers := t.triggers ++ [{ name := name, timing := timing, event := event, ofCols := ofCols, when_ := when_, fname := ffull }] }
    pure {}
  | _ + 1, _, _ => throw (.unsupported "transaction control inside a statement")

/-- RETURNING list evaluated on one written row -/
def evalReturning : Nat → Env → Table → String → List Value → List Scope → List SelItem → M (List String × List Value)
  | 0, _, _, _, _, _, _ => throw .fuel
  | n + 1, env, t, alias, vals, extra, items => do
    let te ← typeEnv
    let a := if alias.isEmpty then baseName t.name else alias
    let sc : Scope := { alias := a, cols := t.colNames, vals := vals }
    -- PostgreSQL hides the table name behind an alias; `"schema".table.col` resolves by
    -- the last component
    let env' : Env := { env with locals := [sc] ++ extra }
    items.foldlM (fun (acc : List String × List Value) it =>
      match it with
      | .star q =>
        if q.isEmpty || lastComponent q == a then pure (acc.1 ++ t.colNames, acc.2 ++ vals)
        else
          match findScope extra (lastComponent q) with
          | some s => pure (acc.1 ++ s.cols, acc.2 ++ s.vals)
          | none => throwPg "42P01" s!"missing FROM-clause entry for table \"{q}\""
      | .expr e al => do
        let v ← evalExpr (cbs n) te env' e
        pure (acc.1 ++ [if al.isEmpty then exprOutName e else al], acc.2 ++ [v])) ([], [])

/-- run the BEFORE ROW triggers of a table for one row, in name order; `none` =
    a trigger returned NULL and the row is skipped (documentation 39.1).
    The fold state is (current row, skipped). -/
def fireBefore : Nat → Table → TrigEvent → List String → Option (List Value) → Option (List Value) → M (Option (List Value))
  | 0, _, _, _, _, _ => throw .fuel
  | n + 1, t, event, setCols, new, old => do
    let trigs := sortTriggers (t.triggers.filter (fun tr => tr.timing == .before && tr.event == event))
    let st ← trigs.foldlM (fun (st : Option (List Value) × Bool) tr => do
      if st.2 then pure st
      else if st.1.isNone && event != .delete then pure (none, true)
      else if !(← triggerApplies n t tr setCols st.1 old) then pure st
      else
        let r ← runTrigger n tr.fname t st.1 old
        match event with
        | .delete => if r.isNone then pure (none, true) else pure st
        | _ => pure (r, false)) (new, false)
    if st.2 then pure none
    else match event with
      | .delete => pure (some (old.getD []))
      | _ => pure st.1

def triggerApplies : Nat → Table → TriggerDef → List String → Option (List Value) → Option (List Value) → M Bool
  | 0, _, _, _, _, _ => throw .fuel
  | n + 1, t, tr, setCols, new, old => do
    if tr.event == .update && !tr.ofCols.isEmpty && !(tr.ofCols.any setCols.contains) then return false
    match tr.when_ with
    | none => pure true
    | some c =>
      let te ← typeEnv
      let cols := t.colNames
      let sc := (match new with | some v => [({ alias := "new", cols := cols, vals := v } : Scope)] | none => []) ++
                (match old with | some v => [({ alias := "old", cols := cols, vals := v } : Scope)] | none => [])
      let v ← withSearchPath (schemaOf t.name) (evalExpr (cbs n) te { outer := sc } c)
      pure ((← liftR v.truth) == some true)

/-- queue the AFTER ROW triggers of one written row (they run at the end of the
    statement, documentation 39.1: "AFTER … triggers … fire at the end of the statement") -/
def queueAfter : Nat → Table → TrigEvent → List String → Option (List Value) → Option (List Value) → M Unit
  | 0, _, _, _, _, _ => throw .fuel
  | n + 1, t, event, setCols, new, old => do
    let trigs := sortTriggers (t.triggers.filter (fun tr => tr.timing == .after && tr.event == event))
    trigs.foldlM (fun (_ : Unit) tr => do
      -- the WHEN condition of an AFTER trigger is evaluated when the row is written
      if ← triggerApplies n t tr setCols new old then
        modify fun s => { s with afterQ := s.afterQ ++ [{ fname := tr.fname, table := t.name, new := new, old := old }] }
      else pure ()) ()

/-- fire everything queued by the statement that just ran -/
def drainAfter : Nat → M Unit
  | 0 => throw .fuel
  | n + 1 => do
    let q := (← get).afterQ
    if q.isEmpty then pure ()
    else
      modify fun s => { s with afterQ := [] }
      q.foldlM (fun (_ : Unit) p => do
        let t ← getTable p.table
        let _ ← runTrigger n p.fname t p.new p.old
        pure ()) ()
      drainAfter n

/-- run a statement and then its AFTER triggers (used for nested statements in
    PL code; the top-level statement does the same in `Session`) -/
def runStmt : Nat → Env → Stmt → M DmlResult
  | 0, _, _ => throw .fuel
  | n + 1, env, stmt => do
    let saved := (← get).afterQ
    modify fun s => { s with afterQ := [] }
    let r ← execStmt n env stmt
    drainAfter n
    modify fun s => { s with afterQ := saved }
    pure r

/-- full row for INSERT: explicit values cast to the column type (documentation
    INSERT: "automatic type conversion will be attempted"), DEFAULT / omitted
    columns from the column default, else NULL -/
def buildRow : Nat → Table → List String → List (Option Value) → M (List Value)
  | 0, _, _, _ => throw .fuel
  | n + 1, t, cols, vals => do
    let te ← typeEnv
    if cols.length != vals.length then
      throwPg "42601" "INSERT has more expressions than target columns"
    else
      match cols.find? (fun c => !(t.colNames.contains c)) with
      | some c => throwPg "42703" s!"column \"{c}\" of relation \"{baseName t.name}\" does not exist"
      | none =>
        let given := cols.zip vals
        t.cols.mapM (fun cd =>
          match given.lookup cd.name with
          | some (some v) => liftR (castTo te cd.ty v)
          | _ =>
            match cd.dflt with
            | none => pure .null
            | some e => do
              let v ← withSearchPath (schemaOf t.name) (evalExpr (cbs n) te {} e)
              liftR (castTo te cd.ty v))

/-- append the RETURNING values of one written row -/
def accReturning : Nat → Env → Table → String → List Value → List Scope → List SelItem → DmlAcc → M DmlAcc
  | 0, _, _, _, _, _, _, _ => throw .fuel
  | n + 1, env, t, alias, vals, extra, returning, acc =>
    if returning.isEmpty then pure { acc with affected := acc.affected + 1 }
    else do
      let (cs, vs) ← evalReturning n env t alias vals extra returning
      pure { retCols := cs, retRows := acc.retRows ++ [vs], affected := acc.affected + 1 }

/-- `ON CONFLICT … DO UPDATE` applied to the conflicting row `existing` -/
def conflictUpdate : Nat → Env → String → String → String → Table → Ver → List Value →
    List SetItem → Option Expr → List SelItem → DmlAcc → M DmlAcc
  | 0, _, _, _, _, _, _, _, _, _, _, _ => throw .fuel
  | n + 1, env, full, table, alias, t, existing, row, sets, wher, returning, acc => do
    let te ← typeEnv
    let s ← get
    if existing.xmin == s.xid && existing.cmin == s.cid then
      throwPg "21000" "ON CONFLICT DO UPDATE command cannot affect row a second time"
    else
      let a := if alias.isEmpty then table else alias
      let tsc : Scope := { alias := a, cols := t.colNames, vals := existing.vals }
      let exc : Scope := { alias := "excluded", cols := t.colNames, vals := row }
      let env' : Env := { env with locals := [tsc, exc] }
      let pass ← match wher with
        | none => pure true
        | some c => do
          let v ← evalExpr (cbs n) te env' c
          pure ((← liftR v.truth) == some true)
      -- ExecOnConflictUpdate locks the conflicting tuple (heap_lock_tuple, LockTupleExclusive): a row that
      -- another in-progress transaction holds — also through a mere SELECT … FOR UPDATE — makes the
      -- statement wait
      match ← heldByOther existing with
      | some x => throw (.blocked s!"row:{full}:{existing.rid}:xid:{x}" x 0)
      | none => pure ()
      -- the row is locked whether or not the WHERE passes
      lockVersion full existing.rid
      if !pass then pure acc
      else
        let newVals ← applySets n env' t existing.vals sets
        let setCols := sets.map (fun (.mk c _) => c)
        match ← fireBefore n t .update setCols (some newVals) (some existing.vals) with
        | none => pure acc
        | some newVals =>
          let t ← getTable full
          checkConstraints t newVals
          match ← findConflict t t.uniques newVals (some existing.rid) with
          | some (idx, _) => throw (uniqueViolation t idx (keyOf t idx.cols newVals))
          | none =>
            checkForeignKeys t newVals
            updateVersion full existing.rid newVals
            let t ← getTable full
            queueAfter n t .update setCols (some newVals) (some existing.vals)
            accReturning n env t alias newVals [] returning acc

/-- one source row of an INSERT -/
def insertRowStep : Nat → Env → String → String → String → List String → Option OnConflict →
    List SelItem → List (Option Value) → DmlAcc → M DmlAcc
  | 0, _, _, _, _, _, _, _, _, _ => throw .fuel
  | n + 1, env, full, table, alias, tcols, conflict, returning, sr, acc => do
    let t ← getTable full
    let row0 ← buildRow n t tcols sr
    -- BEFORE INSERT row triggers
    match ← fireBefore n t .insert [] (some row0) none with
    | none => pure acc
    | some row =>
      let t ← getTable full
      checkConstraints t row
      -- ON CONFLICT: a conflict on an arbiter index is handled, not raised
      let hit : Option (ConflictAction × Ver) ← match conflict with
        | some (.mk target _tw _cn action) => do
          let arb ← arbiterIndexes t target
          match ← findConflict t arb row none with
          | some (_, existing) => pure (some (action, existing))
          | none => pure none
        | none => pure none
      match hit with
      | some (.nothing, _) => pure acc
      | some (.update sets wher, existing) =>
        conflictUpdate n env full table alias t existing row sets wher returning acc
      | none =>
        match ← findConflict t t.uniques row none with
        | some (idx, _) => throw (uniqueViolation t idx (keyOf t idx.cols row))
        | none =>
          checkForeignKeys t row
          let _ ← insertVersion full row
          let t ← getTable full
          queueAfter n t .insert [] (some row) none
          accReturning n env t alias row [] returning acc

def execInsert : Nat → Env → String → String → String → List String → InsertSrc → Option OnConflict → List SelItem → M DmlResult
  | 0, _, _, _, _, _, _, _, _ => throw .fuel
  | n + 1, env, schema, table, alias, cols, src, conflict, returning => do
    let full ← match (if schema.isEmpty then env.ctes.lookup table else none) with
      | some _ => throwPg "42809" s!"cannot insert into CTE \"{table}\""
      | none => qualify schema table
    let t0 ← getTable full
    -- source rows: `none` = DEFAULT
    let srcRows : List (List (Option Value)) ← match src with
      | .defaultValues => pure [[]]
      | .values rows => rows.mapM (fun r => evalValuesRow n env r)
      | .query q => do
        let rel ← evalQuery n env q
        pure (rel.rows.map (fun r => r.map some))
    let targetCols := match src with
      | .defaultValues => []
      | _ => if cols.isEmpty then t0.colNames else cols
    let acc ← srcRows.foldlM (fun acc sr =>
      insertRowStep n env full table alias (if cols.isEmpty then targetCols.take sr.length else targetCols)
        conflict returning sr acc) ({} : DmlAcc)
    if acc.retCols.isEmpty && !returning.isEmpty then do
      -- no row written: still report the column names
      let t ← getTable full
      let (cs, _) ← evalReturning n env t alias (t.cols.map (fun _ => Value.null)) [] (returning.map (fun it => match it with
        | .expr _ a => if a.isEmpty then it else SelItem.expr .null a
        | it => it))
      pure { rel := { cols := cs, rows := acc.retRows }, affected := acc.affected }
    else pure { rel := { cols := acc.retCols, rows := acc.retRows }, affected := acc.affected }

/-- the expressions of one VALUES row; `none` = DEFAULT -/
def evalValuesRow : Nat → Env → List Expr → M (List (Option Value))
  | 0, _, _ => throw .fuel
  | n + 1, env, row => do
    let te ← typeEnv
    row.mapM (fun e =>
      match e with
      | .dflt => pure none
      | e => do
        let x ← evalExpr (cbs n) te env e
        pure (some x))

/-- evaluate `SET col = expr, …` on the old row; every expression sees the OLD
    values (documentation UPDATE) -/
def applySets : Nat → Env → Table → List Value → List SetItem → M (List Value)
  | 0, _, _, _, _ => throw .fuel
  | n + 1, env, t, old, sets => do
    let te ← typeEnv
    let assigns ← sets.foldlM (fun (assigns : List (String × Value)) (si : SetItem) =>
      match si with
      | .mk c e =>
        match t.cols.find? (·.name == c) with
        | none => throwPg "42703" s!"column \"{c}\" of relation \"{baseName t.name}\" does not exist"
        | some cd => do
          let v ← match e with
            | .dflt =>
              match cd.dflt with
              | some d => withSearchPath (schemaOf t.name) (evalExpr (cbs n) te {} d)
              | none => pure .null
            | e => evalExpr (cbs n) te env e
          let v' ← liftR (castTo te cd.ty v)
          pure (assigns ++ [(c, v')])) []
    pure ((t.cols.zip old).map (fun (cd, o) => (assigns.lookup cd.name).getD o))

/-- WHERE of UPDATE/DELETE on a target row joined with one FROM/USING row -/
def whereHolds : Nat → Env → Option Expr → List Scope → M Bool
  | 0, _, _, _ => throw .fuel
  | n + 1, env, wher, scopes =>
    match wher with
    | none => pure true
    | some c => do
      let te ← typeEnv
      let v ← evalExpr (cbs n) te { env with locals := scopes } c
      pure ((← liftR v.truth) == some true)

/-- first joined row that satisfies WHERE (documentation UPDATE: "a target row
    shouldn't join to more than one row from the other table(s)… only one of the
    join rows will be used") -/
def firstJoinMatch : Nat → Env → Option Expr → Scope → List (List Scope) → M (Option (List Scope))
  | 0, _, _, _, _ => throw .fuel
  | n + 1, env, wher, tsc, fromRows =>
    fromRows.foldlM (fun (hit : Option (List Scope)) F =>
      if hit.isSome then pure hit
      else do
        if ← whereHolds n env wher ([tsc] ++ F) then pure (some F) else pure none) none

/-- one target row of an UPDATE -/
def updateRowStep : Nat → Env → String → String → List SetItem → List (List Scope) → Option Expr →
    List SelItem → Scope → DmlAcc → M DmlAcc
  | 0, _, _, _, _, _, _, _, _, _ => throw .fuel
  | n + 1, env, full, alias, sets, fromRows, wher, returning, tsc, acc => do
    match ← firstJoinMatch n env wher tsc fromRows, tsc.src with
    | some F, some (_, rid) =>
      -- READ COMMITTED: the row may have changed since the snapshot
      let t ← getTable full
      match ← latestVersion t rid with
      | none => pure acc
      | some cur =>
        match ← heldByOther cur with
        | some x => throw (.blocked s!"row:{full}:{rid}:xid:{x}" x 0)
        | none =>
          let curScope : Scope := { tsc with vals := cur.vals }
          -- EvalPlanQual: re-evaluate WHERE on the latest committed version
          -- (documentation 13.2.1 "Read Committed Isolation Level")
          let ok ← if cur.vals == tsc.vals then pure true else whereHolds n env wher ([curScope] ++ F)
          if !ok then pure acc
          else
            let env' : Env := { env with locals := [curScope] ++ F }
            let newVals ← applySets n env' t cur.vals sets
            let setCols := sets.map (fun (.mk c _) => c)
            match ← fireBefore n t .update setCols (some newVals) (some cur.vals) with
            | none => pure acc
            | some newVals =>
              let t ← getTable full
              checkConstraints t newVals
              match ← findConflict t t.uniques newVals (some rid) with
              | some (idx, _) => throw (uniqueViolation t idx (keyOf t idx.cols newVals))
              | none =>
                checkForeignKeys t newVals
                updateVersion full rid newVals
                let t ← getTable full
                queueAfter n t .update setCols (some newVals) (some cur.vals)
                accReturning n env t alias newVals F returning acc
    | _, _ => pure acc

def execUpdate : Nat → Env → String → String → String → List SetItem → List FromItem → Option Expr → List SelItem → M DmlResult
  | 0, _, _, _, _, _, _, _, _ => throw .fuel
  | n + 1, env, schema, table, alias, sets, from_, wher, returning => do
    let full ← qualify schema table
    let t ← getTable full
    let a := if alias.isEmpty then table else alias
    let targets ← scanTable t a
    let fromRows ← evalFromList n env from_ [[]]
    let acc ← targets.foldlM (fun acc tsc =>
      updateRowStep n env full alias sets fromRows wher returning tsc acc) ({} : DmlAcc)
    if acc.retCols.isEmpty && !returning.isEmpty then do
      let t ← getTable full
      let protoF ← protoScopes n env from_
      let (cs, _) ← evalReturning n env t alias (t.cols.map (fun _ => Value.null)) protoF (returning.map (fun it => match it with
        | .expr _ al => if al.isEmpty then it else SelItem.expr .null al
        | it => it))
      pure { rel := { cols := cs, rows := acc.retRows }, affected := acc.affected }
    else pure { rel := { cols := acc.retCols, rows := acc.retRows }, affected := acc.affected }

/-- one target row of a DELETE -/
def deleteRowStep : Nat → Env → String → String → List (List Scope) → Option Expr →
    List SelItem → Scope → DmlAcc → M DmlAcc
  | 0, _, _, _, _, _, _, _, _ => throw .fuel
  | n + 1, env, full, alias, fromRows, wher, returning, tsc, acc => do
    match ← firstJoinMatch n env wher tsc fromRows, tsc.src with
    | some F, some (_, rid) =>
      let t ← getTable full
      match ← latestVersion t rid with
      | none => pure acc
      | some cur =>
        match ← heldByOther cur with
        | some x => throw (.blocked s!"row:{full}:{rid}:xid:{x}" x 0)
        | none =>
          let ok ← if cur.vals == tsc.vals then pure true else whereHolds n env wher ([{ tsc with vals := cur.vals }] ++ F)
          if !ok then pure acc
          else
            match ← fireBefore n t .delete [] none (some cur.vals) with
            | none => pure acc
            | some _ =>
              let cascade ← referencingRows t cur.vals
              deleteVersion full rid
              cascade.foldlM (fun (_ : Unit) (ct, crid) => deleteVersion ct crid) ()
              let t ← getTable full
              queueAfter n t .delete [] none (some cur.vals)
              accReturning n env t alias cur.vals F returning acc
    | _, _ => pure acc

def execDelete : Nat → Env → String → String → String → List FromItem → Option Expr → List SelItem → M DmlResult
  | 0, _, _, _, _, _, _, _ => throw .fuel
  | n + 1, env, schema, table, alias, using_, wher, returning => do
    let full ← qualify schema table
    let t ← getTable full
    let a := if alias.isEmpty then table else alias
    let targets ← scanTable t a
    let fromRows ← evalFromList n env using_ [[]]
    let acc ← targets.foldlM (fun acc tsc =>
      deleteRowStep n env full alias fromRows wher returning tsc acc) ({} : DmlAcc)
    pure { rel := { cols := acc.retCols, rows := acc.retRows }, affected := acc.affected }

-- ### functions, triggers, PL/pgSQL

/-- state-dependent built-ins and user-defined functions -/
def callFunc : Nat → String → String → List Value → M Value
  | 0, _, _, _ => throw .fuel
  | n + 1, schema, name, args => do
    let builtinSchema := schema.isEmpty || schema == "public" || schema == "pg_catalog"
    match (if builtinSchema then callBuiltin name args else none) with
    | some act => act
    | none =>
      let full ← qualify schema name
      -- `transaction_date()`: the per-transaction logical clock. The PL/pgSQL body
      -- (a temporary table `on commit delete rows` holding statement_timestamp() of
      -- the first call in the transaction) is modelled natively; T2 pins its text.
      if name == "transaction_date" && ((← getW).funcs.any (·.1 == full)) then
        let s ← get
        let sess := s.w.session s.sid
        match sess.txDate with
        | some d => pure (.ts d)
        | none =>
          modifyW (fun w => w.setSession { sess with txDate := some s.now })
          pure (.ts s.now)
      else
      match (← getW).funcs.lookup full with
      | none => throwPg "42883" s!"function {full}({", ".intercalate (args.map Value.toText)}) does not exist"
      | some f =>
        if f.params.length != args.length then
          throwPg "42883" s!"function {full} called with {args.length} arguments, expects {f.params.length}"
        let te ← typeEnv
        let pvars ← (f.params.zip args).mapM (fun (p, a) => do
          let v ← match a with
            | .row .. => pure a     -- table row / composite passed as is
            | a => liftR (castTo te p.ty a)
          pure ({ name := p.name, ty := p.ty, val := v } : PlVar))
        withSearchPath (schemaOf full) do
          let pst0 : PlSt := { vars := pvars }
          let dvars ← f.decls.foldlM (fun (acc : List PlVar) d => do
            let v ← match d.init with
              | none => pure Value.null
              | some e =>
                let v ← evalExpr (cbs n) te ({ pst0 with vars := pvars ++ acc } : PlSt).env e
                liftR (castTo te d.ty v)
            pure (acc ++ [{ name := d.name, ty := d.ty, val := v }])) []
          let (_, flow) ← execPl n { pst0 with vars := pvars ++ dvars } f.body
          match flow with
          | .ret (some v) => if f.returns.name' == "void" then pure .null else liftR (castTo te f.returns v)
          | _ => pure .null

/-- run a trigger function for one row; the result is the (possibly modified)
    NEW row, or `none` when the function returned NULL -/
def runTrigger : Nat → String → Table → Option (List Value) → Option (List Value) → M (Option (List Value))
  | 0, _, _, _, _ => throw .fuel
  | n + 1, fname, t, new, old => do
    match (← getW).funcs.lookup fname with
    | none => throwPg "42883" s!"function {fname}() does not exist"
    | some f =>
      let te ← typeEnv
      withSearchPath (schemaOf fname) do
        let pst0 : PlSt := { vars := [], tcols := t.cols, new := new, old := old }
        let dvars ← f.decls.foldlM (fun (acc : List PlVar) d => do
          let v ← match d.init with
            | none => pure Value.null
            | some e =>
              let v ← evalExpr (cbs n) te ({ pst0 with vars := acc } : PlSt).env e
              liftR (castTo te d.ty v)
          pure (acc ++ [{ name := d.name, ty := d.ty, val := v }])) []
        let (pst, flow) ← execPl n { pst0 with vars := dvars } f.body
        match flow with
        | .ret (some (.row _ vals)) =>
          -- `return new` (possibly modified through `new.col = …` assignments, which
          -- are reflected in pst.new) or `return old`
          let _ := vals
          match new with
          | some _ => pure pst.new
          | none => pure (some vals)
        | .ret (some .null) | .ret none => pure none
        | .ret (some _) => throwPg "42804" "trigger function must return a row"
        | _ => throwPg "2F005" "control reached end of trigger procedure without RETURN"

def execPl : Nat → PlSt → List PlStmt → M (PlSt × PlFlow)
  | 0, _, _ => throw .fuel
  | _, pst, [] => pure (pst, .normal)
  | n + 1, pst, s :: rest => do
    let (pst, flow) ← execPlStmt n pst s
    match flow with
    | .normal => execPl n pst rest
    | f => pure (pst, f)

/-- assign a value to a PL target, cast to the declared type -/
def plAssign : Nat → PlSt → PlTarget → Value → M PlSt
  | 0, _, _, _ => throw .fuel
  | _ + 1, pst, target, v => do
    let te ← typeEnv
    match target with
    | .var name =>
      match pst.vars.find? (·.name == name) with
      | some pv =>
        let v' ← match v with
          | .row .. => pure v
          | v => liftR (castTo te pv.ty v)
        pure { pst with vars := pst.vars.map (fun x => if x.name == name then { x with val := v' } else x) }
      | none => throwPg "42601" s!"\"{name}\" is not a known variable"
    | .field var field =>
      if var == "new" || var == "old" then
        let cur := if var == "new" then pst.new else pst.old
        match cur, pst.tcols.find? (·.name == field) with
        | some vals, some cd =>
          let v' ← liftR (castTo te cd.ty v)
          let vals' := (pst.tcols.zip vals).map (fun (c, o) => if c.name == field then v' else o)
          pure (if var == "new" then { pst with new := some vals' } else { pst with old := some vals' })
        | _, _ => throwPg "42703" s!"record \"{var}\" has no field \"{field}\""
      else
        match pst.vars.find? (·.name == var) with
        | some pv =>
          match pv.val with
          | .row names vals =>
            if !names.contains field then throwPg "42703" s!"record \"{var}\" has no field \"{field}\"" else
            let vals' := (names.zip vals).map (fun (nm, o) => if nm == field then v else o)
            pure { pst with vars := pst.vars.map (fun x => if x.name == var then { x with val := .row names vals' } else x) }
          | _ => throwPg "42804" s!"variable \"{var}\" is not a composite value"
        | none => throwPg "42601" s!"\"{var}\" is not a known variable"

/-- `select … into`, `returning … into`: assign the first row (documentation 43.5.3);
    a single composite/record target takes the whole row -/
def plAssignRow : Nat → PlSt → List PlTarget → Rel → M PlSt
  | 0, _, _, _ => throw .fuel
  | n + 1, pst, targets, rel => do
    let te ← typeEnv
    match rel.rows with
    | [] =>
      let pst ← targets.foldlM (fun p t => plAssign n p t .null) pst
      pure { pst with found := false }
    | row :: _ =>
      let wholeRow : Option (PlTarget × List String) := match targets with
        | [.var name] =>
          match pst.vars.find? (·.name == name) with
          | some pv =>
            match te.composites.lookup pv.ty.name' with
            | some fields => some (.var name, fields.map (·.1))
            | none => if pv.ty.name' == "record" then some (.var name, rel.cols) else none
          | none => none
        | _ => none
      let pst ← match wholeRow with
        | some (t, names) =>
          if row.length == 1 then
            match row with
            | [.row _ vals] => plAssign n pst t (.row names vals)
            | [v] => if names.length == 1 then plAssign n pst t (.row names [v]) else plAssign n pst t v
            | _ => pure pst
          else plAssign n pst t (.row names row)
        | none => do
          let mut p := pst
          for (t, v) in targets.zip (row ++ List.replicate (targets.length - row.length) Value.null) do
            p ← plAssign n p t v
          pure p
      pure { pst with found := true }

def execPlStmt : Nat → PlSt → PlStmt → M (PlSt × PlFlow)
  | 0, _, _ => throw .fuel
  | n + 1, pst, stmt => do
    let te ← typeEnv
    match stmt with
    | .null => pure (pst, .normal)
    | .assign target e => do
      let v ← withNewCid (evalExpr (cbs n) te pst.env e)
      let pst ← plAssign n pst target v
      pure (pst, .normal)
    | .selectInto q targets => do
      let rel ← withNewCid (evalQuery n pst.env q)
      let pst ← plAssignRow n pst targets rel
      pure (pst, .normal)
    | .exec s targets => do
      let r ← withNewCid (runStmt n pst.env s)
      let pst ← if targets.isEmpty then pure { pst with found := r.affected > 0 } else do
        let p ← plAssignRow n pst targets r.rel
        pure { p with found := r.affected > 0 }
      pure (pst, .normal)
    | .perform q => do
      let rel ← withNewCid (evalQuery n pst.env q)
      pure ({ pst with found := !rel.rows.isEmpty }, .normal)
    | .ite c thn els => do
      let v ← withNewCid (evalExpr (cbs n) te pst.env c)
      if (← liftR v.truth) == some true then execPl n pst thn else execPl n pst els
    | .loop body => plLoop n pst body
    | .exit when_ =>
      match when_ with
      | none => pure (pst, .exit)
      | some c => do
        let v ← withNewCid (evalExpr (cbs n) te pst.env c)
        pure (pst, if (← liftR v.truth) == some true then .exit else .normal)
    | .ret e =>
      match e with
      | none => pure (pst, .ret none)
      | some e => do
        let v ← withNewCid (evalExpr (cbs n) te pst.env e)
        pure (pst, .ret (some v))
    | .raise level msg =>
      if level == "exception" then throw (.pg "P0001" msg "") else pure (pst, .normal)

/-- `loop … end loop`: each iteration consumes one unit of fuel -/
def plLoop : Nat → PlSt → List PlStmt → M (PlSt × PlFlow)
  | 0, _, _ => throw .fuel
  | n + 1, pst, body => do
    let (pst, flow) ← execPl n pst body
    match flow with
    | .normal => plLoop n pst body
    | .exit => pure (pst, .normal)
    | f => pure (pst, f)

end

end Ledger.Sql
