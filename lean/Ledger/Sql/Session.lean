import Ledger.Sql.Eval

/-!
# Sessions and transactions (READ COMMITTED)

`execTop` runs one top-level statement of one session against the world:

* transaction control (BEGIN / COMMIT / ROLLBACK / SAVEPOINT / RELEASE /
  ROLLBACK TO) — documentation "Transaction Control" and 13.2.1;
* any other statement runs in the session's transaction (an implicit one in
  autocommit mode) with a fresh snapshot — "each statement sees a snapshot of the
  database as of the instant the statement begins" — or, when it is the retry of
  a statement that answered `blocked`, the snapshot it took the first time;
* a failing statement leaves no effect except on sequences (documentation 9.17:
  "nextval … is never rolled back") and puts an explicit transaction into the
  aborted state (every later statement answers 25P02 until ROLLBACK [TO]);
* a statement that would have to wait answers `Err.blocked`, has no effect, and
  remembers its snapshot. (Simplification: row locks a real backend would
  already hold from the part of the statement executed before the wait are not
  retained.)

Core-only.
-/
namespace Ledger.Sql

/-- nesting-depth bound of the evaluator; PL loops use one unit per iteration -/
def topFuel : Nat := 4000

structure StmtResult where
  cols : List String := []
  rows : List (List Value) := []
  affected : Nat := 0
  /-- see `St.tieSensitive` -/
  tieSensitive : Bool := false
  /-- COMMIT of a failed transaction block: the command tag is ROLLBACK -/
  rolledBack : Bool := false
  deriving Inhabited

def freshSnapshot (w : World) (xid : Nat) : Snapshot :=
  { xip := w.active.filter (· != xid), xmax := w.nextXid }

def World.releaseXactLocks (w : World) (sid : Nat) : World :=
  { w with advisory := w.advisory.filter (fun l => !(l.sid == sid && l.xact)) }

/-- begin a transaction for the session -/
def beginTx (w : World) (sess : Session) (explicit : Bool) : World × Session :=
  let xid := w.nextXid
  let sess := { sess with xid := xid, explicit := explicit, aborted := false, cid := 0, savepoints := [],
                          txDate := none, txStart := w.clock }
  let w := { w with nextXid := xid + 1, active := w.active ++ [xid] }
  (w.setSession sess, sess)

def endSession (sess : Session) : Session :=
  { sess with xid := 0, explicit := false, aborted := false, cid := 0, savepoints := [], txDate := none, pending := none,
              waitsFor := 0 }

/-- does following the wait-for edges from `from_` reach `target`? -/
def waitCycle (w : World) (from_ target : Nat) : Nat → Bool
  | 0 => false
  | fuel + 1 =>
    if from_ == 0 then false
    else if from_ == target then true
    else waitCycle w (w.session from_).waitsFor target fuel

/-- nobody waits for a session that just released its locks -/
def World.clearWaiters (w : World) (sid : Nat) : World :=
  { w with sessions := w.sessions.map (fun s => if s.waitsFor == sid then { s with waitsFor := 0 } else s) }

def commitTx (w : World) (sess : Session) : World :=
  let w := w.clearWaiters sess.id
  let w := { w with active := w.active.filter (· != sess.xid) }
  let w := w.releaseXactLocks sess.id
  let w := w.setSession (endSession sess)
  w.vacuum

def rollbackTx (w : World) (sess : Session) : World :=
  let w := w.clearWaiters sess.id
  let w := w.undo sess.xid 0
  let w := { w with active := w.active.filter (· != sess.xid) }
  let w := w.releaseXactLocks sess.id
  let w := w.setSession (endSession sess)
  w.vacuum

/-- A statement failed inside a transaction block. PostgreSQL aborts the current
    (sub)transaction at once — its effects are undone and its locks released
    before the client sends ROLLBACK — and the block stays in the aborted state.
    With savepoints only the work since the latest savepoint is undone. -/
def failTx (w : World) (sess : Session) : World :=
  let w := w.clearWaiters sess.id
  match sess.savepoints with
  | sp :: _ =>
    let w := w.undo sess.xid sp.cid
    let w := { w with advisory := w.advisory.filter (fun l => !(l.sid == sess.id && l.xact && l.cid ≥ sp.cid)) }
    w.setSession { sess with aborted := true, pending := none, waitsFor := 0 }
  | [] =>
    let w := w.undo sess.xid 0
    let w := { w with active := w.active.filter (· != sess.xid) }
    let w := w.releaseXactLocks sess.id
    (w.setSession { sess with aborted := true, pending := none, waitsFor := 0 }).vacuum

def tick (w : World) (now : Option Int) : World :=
  match now with
  | some t => { w with clock := if t > w.clock then t else w.clock + 1 }
  | none => { w with clock := w.clock + 1000 }

/-- One top-level statement. Returns the new world and the answer. -/
def execTop (w : World) (sid : Nat) (stmt : Stmt) (retry : Bool) (now : Option Int) : World × Except Err StmtResult :=
  let w := tick w now
  let sess := w.session sid
  match stmt with
  | .begin =>
    if sess.explicit then (w, .ok {})   -- WARNING: there is already a transaction in progress
    else ((beginTx w sess true).1, .ok {})
  | .commit =>
    if !sess.explicit then (w, .ok {})   -- WARNING: there is no transaction in progress
    else if sess.aborted then (rollbackTx w sess, .ok { rolledBack := true })   -- COMMIT of a failed transaction rolls back
    else (commitTx w sess, .ok {})
  | .rollback =>
    if sess.xid == 0 then (w, .ok {}) else (rollbackTx w sess, .ok {})
  | .savepoint name =>
    if !sess.explicit then (w, .error (pgErr "25P01" "SAVEPOINT can only be used in transaction blocks"))
    else if sess.aborted then (w, .error (pgErr "25P02" "current transaction is aborted, commands ignored until end of transaction block"))
    else (w.setSession { sess with savepoints := { name := name, cid := sess.cid } :: sess.savepoints }, .ok {})
  | .release name =>
    if !sess.explicit then (w, .error (pgErr "25P01" "RELEASE SAVEPOINT can only be used in transaction blocks"))
    else if sess.aborted then (w, .error (pgErr "25P02" "current transaction is aborted, commands ignored until end of transaction block"))
    else
      -- destroys the savepoint and all those established after it
      let rec dropTo : List Savepoint → Option (List Savepoint)
        | [] => none
        | sp :: rest => if sp.name == name then some rest else dropTo rest
      match dropTo sess.savepoints with
      -- an ordinary ERROR inside a transaction block (xact.c ReleaseSavepoint): the block is aborted
      | none => (failTx w sess, .error (pgErr "3B001" s!"savepoint \"{name}\" does not exist"))
      | some rest => (w.setSession { sess with savepoints := rest }, .ok {})
  | .rollbackTo name =>
    if !sess.explicit then (w, .error (pgErr "25P01" "ROLLBACK TO SAVEPOINT can only be used in transaction blocks"))
    else
      let rec keepFrom : List Savepoint → Option (List Savepoint)
        | [] => none
        | sp :: rest => if sp.name == name then some (sp :: rest) else keepFrom rest
      match keepFrom sess.savepoints with
      -- likewise (xact.c RollbackToSavepoint): 25P02 until ROLLBACK [TO an existing savepoint]
      | none => (failTx w sess, .error (pgErr "3B001" s!"savepoint \"{name}\" does not exist"))
      | some (sp :: rest) =>
        let w := w.clearWaiters sid
        let w := w.undo sess.xid sp.cid
        let w := { w with advisory := w.advisory.filter (fun l => !(l.sid == sid && l.xact && l.cid ≥ sp.cid)) }
        (w.setSession { sess with aborted := false, savepoints := sp :: rest, pending := none }, .ok {})
      | some [] => (w, .ok {})
  | stmt =>
    if sess.aborted then
      (w, .error (pgErr "25P02" "current transaction is aborted, commands ignored until end of transaction block"))
    else
      let wBefore := w
      let implicit := sess.xid == 0
      let (w1, sess1) := if implicit then beginTx w sess false else (w, sess)
      let snap := match retry, sess.pending with
        | true, some s => s
        | _, _ => freshSnapshot w1 sess1.xid
      let st : St := { w := w1, sid := sid, xid := sess1.xid, snap := snap, cid := sess1.cid, nextCid := sess1.cid + 1,
                       now := w1.clock }
      let (res, st') := ((runStmt topFuel {} stmt).run).run st
      match res with
      | .ok r =>
        let w2 := st'.w
        let sess2 := { (w2.session sid) with cid := st'.nextCid, pending := none, waitsFor := 0 }
        let w2 := w2.setSession sess2
        -- an advisory unlock may have released what another session waits for
        let w2 := if w2.advisory.length < wBefore.advisory.length then w2.clearWaiters sid else w2
        let w2 := if implicit then commitTx w2 sess2 else w2
        (w2, .ok { cols := r.rel.cols, rows := r.rel.rows, affected := r.affected, tieSensitive := st'.tieSensitive })
      | .error (.blocked on bx bs) =>
        -- no effect; remember the snapshot for the retry and the wait-for edge
        let holder := if bs != 0 then bs else
          match wBefore.sessions.find? (fun x => x.xid == bx && bx != 0) with
          | some h => h.id
          | none => 0
        if waitCycle wBefore holder sid wBefore.sessions.length then
          -- deadlock (documentation 13.3.4): this statement would close a cycle in the
          -- wait-for graph; PostgreSQL aborts one of the transactions involved — here
          -- the one whose wait completes the cycle
          let w' := if implicit then wBefore.setSession { sess with pending := none, waitsFor := 0 }
                    else failTx wBefore sess
          (w', .error (pgErr "40P01" s!"deadlock detected: session {sid} waits for session {holder} ({on})"))
        else
          let w' := wBefore.setSession { sess with pending := some snap, waitsFor := holder }
          (w', .error (.blocked on bx bs))
      | .error e =>
        -- statement rolled back; sequences keep their advance
        let w' := { wBefore with seqs := st'.w.seqs }
        let w' := if implicit then w'.setSession { sess with pending := none, waitsFor := 0 }
                  else failTx w' sess
        (w', .error e)

/-- connection closed / dropped: roll back, release session-level locks -/
def closeSession (w : World) (sid : Nat) : World :=
  let sess := w.session sid
  let w := if sess.xid != 0 then rollbackTx w sess else w
  let w := w.clearWaiters sid
  { w with advisory := w.advisory.filter (·.sid != sid), sessions := w.sessions.filter (·.id != sid) }

/-- fault injection: the running statement failed for an external reason -/
def abortSession (w : World) (sid : Nat) : World :=
  let sess := w.session sid
  if sess.explicit then failTx w sess
  else w.setSession { sess with pending := none, waitsFor := 0 }

/-! ## canonical dump -/

open Lean in
def valueToWire : Value → Json
  | .null => Json.null
  | .bool b => Json.bool b
  | .int n => Json.num ⟨n, 0⟩
  | .text s => Json.str s
  | .ts us => Json.mkObj [("ts", Json.num ⟨us, 0⟩)]
  | .json j => Json.mkObj [("j", Json.str j.render)]
  | .bytes b => Json.mkObj [("b", Json.str (hexOfBytes b))]
  | v@(.row ..) => Json.mkObj [("x", Json.str v.toText)]
  | v@(.array ..) => Json.mkObj [("x", Json.str v.toText)]

open Lean in
/-- canonical value for dumps: numbers as decimal strings, timestamps RFC 3339
    with microseconds, json as nested JSON, bytes as hex -/
partial def valueToDump : Value → Json
  | .null => Json.null
  | .bool b => Json.bool b
  | .int n => Json.str (toString n)
  | .text s => Json.str s
  | .ts us =>
    let s := tsFormat us "T"
    -- pad the fraction to 6 digits
    let (base, frac) := match splitStr s "." with
      | [a, b] => (a, b)
      | _ => (s, "")
    Json.str (base ++ "." ++ frac ++ String.ofList (List.replicate (6 - frac.length) '0') ++ "Z")
  | .json j => Json.mkObj [("json", j.toLean)]
  | .bytes b => Json.mkObj [("hex", Json.str (hexOfBytes b))]
  | .row names vals =>
    Json.mkObj ((names.zip vals).map (fun (n, v) => (n, valueToDump v)))
  | .array vals => Json.arr (vals.map valueToDump).toArray

open Lean in
/-- every table of every bucket restricted to `ledger = name` (committed data
    and nothing else), rows sorted by primary key (else by all columns), columns
    sorted by name (Json objects are key-sorted) -/
def dumpLedger (w : World) (ledger : String) : Json :=
  let view : View := { xid := 0, cid := 0, snap := { xip := w.active, xmax := w.nextXid } }
  let entries := w.tables.filterMap (fun t =>
    if !(t.colNames.contains "ledger") then none else
    let rows := (t.scan view).filter (fun r => (lookupIn t.colNames r.vals "ledger").getD .null == Value.text ledger)
    let pk := match t.uniques.find? (·.primary) with
      | some idx => idx.cols
      | none => t.colNames
    let keyed := rows.map (fun r => (keyOf t pk r.vals, r.vals))
    let sorted := match sortValuesBy keyed (pk.map (fun _ => false)) (pk.map (fun _ => NullsOrder.dflt)) with
      | .ok s => s
      | .error _ => rows.map (fun (r : Ver) => r.vals)
    let objs := sorted.map (fun vals => Json.mkObj ((t.colNames.zip vals).map (fun (c, v) => (c, valueToDump v))))
    some (t.name, Json.arr objs.toArray))
  Json.mkObj entries

end Ledger.Sql
