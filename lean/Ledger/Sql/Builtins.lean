import Ledger.Sql.Value
import Ledger.Sql.Ast
import Ledger.Sql.Sha256

/-!
# Operators, casts and scalar functions of the modelled PostgreSQL subset

Every rule cites the PostgreSQL 15 documentation section it follows. Values are
dynamically typed; an untyped string literal (`Expr.str`) evaluates to
`Value.text` and is converted where PostgreSQL's type resolution would convert
it (column type on INSERT/SET, the other operand's type for operators —
documentation 10.2 "Operators": an unknown-type literal takes the type of the
other operand).

Core-only.
-/
namespace Ledger.Sql

/-- Errors of the model. `pg` = an error PostgreSQL would raise (SQLSTATE);
    `blocked` = the statement must wait for another session; `unsupported` = the
    construct is outside the modelled subset (reported loudly, never guessed). -/
inductive Err where
  | pg (code msg constraint : String)
  /-- `xid` / `sid`: the transaction or session that must finish first (0 = not given) -/
  | blocked (on : String) (xid sid : Nat)
  | unsupported (msg : String)
  | fuel
  deriving Inhabited

def Err.toString : Err → String
  | .pg c m k => s!"ERROR {c}: {m}" ++ (if k.isEmpty then "" else s!" ({k})")
  | .blocked on _ _ => s!"blocked on {on}"
  | .unsupported m => s!"unsupported: {m}"
  | .fuel => "evaluation fuel exhausted"

instance : ToString Err := ⟨Err.toString⟩

def pgErr (code msg : String) : Err := .pg code msg ""

abbrev R := Except Err

def liftStr (code : String) : Except String α → R α
  | .ok a => .ok a
  | .error e => .error (pgErr code e)

/-! ## three-valued logic (documentation 9.1 "Logical Operators") -/

def Value.truth : Value → R (Option Bool)
  | .null => pure none
  | .bool b => pure (some b)
  | .text "t" | .text "true" => pure (some true)
  | .text "f" | .text "false" => pure (some false)
  | v => throw (pgErr "42804" s!"argument of boolean context must be type boolean, got {v.toText}")

def ofTruth : Option Bool → Value
  | none => .null
  | some b => .bool b

def and3 : Option Bool → Option Bool → Option Bool
  | some false, _ => some false
  | _, some false => some false
  | some true, some true => some true
  | _, _ => none

def or3 : Option Bool → Option Bool → Option Bool
  | some true, _ => some true
  | _, some true => some true
  | some false, some false => some false
  | _, _ => none

def not3 : Option Bool → Option Bool
  | none => none
  | some b => some (!b)

/-! ## parsing of literals into typed values -/

def parseIntText (s : String) : R Int :=
  let t := trimStr s
  match parseIntStr t with
  | some n => pure n
  | none =>
    -- "12.000" style numerics that are integers
    match splitStr t "." with
    | [a, b] =>
      if !b.isEmpty && strAll b (· == '0') then
        match parseIntStr a with
        | some n => pure n
        | none => throw (pgErr "22P02" s!"invalid input syntax for type numeric: \"{s}\"")
      else throw (.unsupported s!"non-integer numeric value \"{s}\" (LeanPG models integers only)")
    | _ => throw (pgErr "22P02" s!"invalid input syntax for type numeric: \"{s}\"")

def parseBoolText (s : String) : R Bool :=
  match (trimStr s).toLower with
  | "t" | "true" | "yes" | "on" | "1" | "y" => pure true
  | "f" | "false" | "no" | "off" | "0" | "n" => pure false
  | _ => throw (pgErr "22P02" s!"invalid input syntax for type boolean: \"{s}\"")

/-- split the inside of a composite literal `(a,"b c",)` into raw fields
    (`none` = NULL). Documentation 8.16.6 "Composite Type Input and Output Syntax". -/
def splitComposite (s : String) : R (List (Option String)) :=
  let cs := trimChars s.toList
  match cs with
  | '(' :: rest =>
    let rec go (cs : List Char) (cur : List Char) (quoted inQ : Bool) (acc : List (Option String)) (fuel : Nat) :
        R (List (Option String)) :=
      match fuel with
      | 0 => throw .fuel
      | fuel + 1 =>
      let fin (cur : List Char) (quoted : Bool) : Option String :=
        if cur.isEmpty && !quoted then none else some (String.ofList cur.reverse)
      match cs with
      | [] => throw (pgErr "22P02" s!"malformed record literal: \"{s}\"")
      | c :: rest =>
        if inQ then
          if c == '"' then
            match rest with
            | '"' :: rest' => go rest' ('"' :: cur) quoted true acc fuel
            | _ => go rest cur quoted false acc fuel
          else if c == '\\' then
            match rest with
            | d :: rest' => go rest' (d :: cur) quoted true acc fuel
            | [] => throw (pgErr "22P02" s!"malformed record literal: \"{s}\"")
          else go rest (c :: cur) quoted true acc fuel
        else if c == '"' then go rest cur true true acc fuel
        else if c == ',' then go rest [] false false (fin cur quoted :: acc) fuel
        else if c == ')' then
          if rest.all Char.isWhitespace then pure ((fin cur quoted :: acc).reverse)
          else throw (pgErr "22P02" s!"malformed record literal: \"{s}\"")
        else go rest (c :: cur) quoted false acc fuel
    go rest [] false false [] (cs.length + 2)
  | _ => throw (pgErr "22P02" s!"malformed record literal: \"{s}\"")

/-- split an array literal `{a,"b",NULL}` (one dimension). Documentation 8.15.2. -/
def splitArrayLit (s : String) : R (List (Option String)) :=
  let cs := trimChars s.toList
  match cs with
  | '{' :: rest =>
    if rest == ['}'] then pure [] else
    let rec go (cs : List Char) (cur : List Char) (quoted inQ : Bool) (acc : List (Option String)) (fuel : Nat) :
        R (List (Option String)) :=
      match fuel with
      | 0 => throw .fuel
      | fuel + 1 =>
      let fin (cur : List Char) (quoted : Bool) : Option String :=
        let t := String.ofList cur.reverse
        if !quoted && (trimStr t).toUpper == "NULL" then none else some (if quoted then t else trimStr t)
      match cs with
      | [] => throw (pgErr "22P02" s!"malformed array literal: \"{s}\"")
      | c :: rest =>
        if inQ then
          if c == '"' then go rest cur quoted false acc fuel
          else if c == '\\' then
            match rest with
            | d :: rest' => go rest' (d :: cur) quoted true acc fuel
            | [] => throw (pgErr "22P02" s!"malformed array literal: \"{s}\"")
          else go rest (c :: cur) quoted true acc fuel
        else if c == '"' then go rest cur true true acc fuel
        else if c == ',' then go rest [] false false (fin cur quoted :: acc) fuel
        else if c == '}' then pure ((fin cur quoted :: acc).reverse)
        else if c == '{' then throw (.unsupported "multi-dimensional array literal")
        else go rest (c :: cur) quoted false acc fuel
    go rest [] false false [] (cs.length + 2)
  | _ => throw (pgErr "22P02" s!"malformed array literal: \"{s}\"")

/-- Type environment needed by casts: composite types and enums of the schema. -/
structure TypeEnv where
  /-- composite type name ↦ fields (name, type) -/
  composites : List (String × List (String × SqlType)) := []
  /-- enum type name ↦ labels -/
  enums : List (String × List String) := []
  deriving Inhabited

def isIntType (n : String) : Bool :=
  n == "numeric" || n == "int8" || n == "int4" || n == "int2" || n == "serial" || n == "bigserial"

def intRangeCheck (ty : String) (n : Int) : R Unit :=
  if (ty == "int8" || ty == "bigserial") && (n < -9223372036854775808 || n > 9223372036854775807) then
    throw (pgErr "22003" "bigint out of range")
  else if (ty == "int4" || ty == "serial") && (n < -2147483648 || n > 2147483647) then
    throw (pgErr "22003" "integer out of range")
  else if ty == "int2" && (n < -32768 || n > 32767) then
    throw (pgErr "22003" "smallint out of range")
  else pure ()

mutual
/-- `to_jsonb(v)` (documentation 9.16, table 9.47): numbers → numbers, booleans →
    booleans, timestamps → ISO-8601 strings, arrays → arrays, composites →
    objects, json → itself, anything else → its text as a string. -/
def Value.toJV : Value → JV
  | .null => .null
  | .bool b => .bool b
  | .int n => .num n
  | .text s => .str s
  | .ts us => .str (tsFormat us "T")
  | .json j => j
  | .bytes b => .str ("\\x" ++ hexOfBytes b)
  | .row names vs => .obj (jobjOfList (Value.zipJV names vs 1))
  | .array vs => .arr (Value.toJVs vs)
def Value.toJVs : List Value → List JV
  | [] => []
  | v :: vs => v.toJV :: Value.toJVs vs
def Value.zipJV : List String → List Value → Nat → List (String × JV)
  | _, [], _ => []
  | [], v :: vs, i => (s!"f{i}", v.toJV) :: Value.zipJV [] vs (i + 1)
  | n :: ns, v :: vs, i => (n, v.toJV) :: Value.zipJV ns vs (i + 1)
end

/-- `j ->> k` text: strings unquoted, null → SQL NULL, others → JSON text. -/
def JV.asText : JV → Value
  | .null => .null
  | .str s => .text s
  | j => .text j.render

/-- Cast to a scalar (non-array, non-composite) type. `none` = `name` is not a
    scalar type known here. Documentation 4.2.9 "Type Casts", 8.x input syntaxes. -/
def castScalar (te : TypeEnv) (name mods : String) (v : Value) : Option (R Value) :=
  if isIntType name then some (do
    let n ← match v with
      | .int n => pure n
      | .text s => parseIntText s
      | .bool b => pure (if b then 1 else 0)
      | .json (.num n) => pure n
      | .json (.str s) => throw (pgErr "22023" s!"cannot cast jsonb string to type numeric ({s})")
      | _ => throw (pgErr "42846" s!"cannot cast {v.toText} to {name}")
    intRangeCheck name n
    return .int n)
  else match name with
  | "varchar" | "text" | "bpchar" | "name" | "regclass" | "jsonpath" | "unknown" => some (
    let s := v.toText
    if name == "varchar" && !mods.isEmpty then
      match parseNatStr mods with
      | some lim =>
        -- explicit casts truncate silently, assignments raise 22001; the ledger only assigns
        if s.length > lim then throw (pgErr "22001" s!"value too long for type character varying({lim})")
        else pure (.text s)
      | none => pure (.text s)
    else pure (.text s))
  | "bool" => some (
    match v with
    | .bool b => pure (.bool b)
    | .text s => do return .bool (← parseBoolText s)
    | .int n => pure (.bool (n != 0))
    | .json (.bool b) => pure (.bool b)
    | _ => throw (pgErr "42846" s!"cannot cast {v.toText} to boolean"))
  | "timestamp" | "timestamptz" | "date" => some (
    match v with
    | .ts t => pure (if name == "date" then .ts (t.fdiv 86400000000 * 86400000000) else .ts t)
    | .text s => do return .ts (← liftStr "22007" (tsParse s))
    | _ => throw (pgErr "42846" s!"cannot cast {v.toText} to timestamp"))
  | "jsonb" | "json" => some (
    match v with
    | .json j => pure (.json j)
    | .text s => do return .json (← liftStr "22P02" (JV.parse s))
    | _ => throw (pgErr "42846" s!"cannot cast {v.toText} to jsonb (use to_jsonb)"))
  | "bytea" => some (
    match v with
    | .bytes b => pure (.bytes b)
    | .text s => do return .bytes (← liftStr "22P02" (byteaParse s))
    | _ => throw (pgErr "42846" s!"cannot cast {v.toText} to bytea"))
  | "record" | "anyelement" | "void" | "trigger" => some (pure v)
  | _ =>
    match te.enums.lookup name with
    | some labels => some (
      let s := v.toText
      if labels.contains s then pure (.text s)
      else throw (pgErr "22P02" s!"invalid input value for enum {name}: \"{s}\""))
    | none => none

/-- scalar or (flat) composite -/
def castNonArray (te : TypeEnv) (name mods : String) (v : Value) : R Value :=
  match v with
  | .null => pure .null
  | _ =>
  match castScalar te name mods v with
  | some r => r
  | none =>
    match te.composites.lookup name with
    | some fields =>
      let names := fields.map (·.1)
      let castField (x : Value) (fty : SqlType) : R Value :=
        match x with
        | .null => pure .null
        | _ =>
          let .mk _ fname fmods _ := fty
          match castScalar te fname fmods x with
          | some r => r
          | none => throw (.unsupported s!"nested composite field type {fname}")
      match v with
      | .row _ vs =>
        if vs.length != fields.length then
          throw (pgErr "42846" s!"cannot cast type record to {name}: wrong number of columns")
        else do
          let vs' ← (vs.zip fields).mapM (fun (x, (_, fty)) => castField x fty)
          pure (.row names vs')
      | .text s => do
        let parts ← splitComposite s
        if parts.length != fields.length then
          throw (pgErr "22P02" s!"malformed record literal: \"{s}\"")
        else
          let vs' ← (parts.zip fields).mapM (fun (x, (_, fty)) =>
            match x with
            | none => pure Value.null
            | some t => castField (.text t) fty)
          pure (.row names vs')
      | _ => throw (pgErr "42846" s!"cannot cast {v.toText} to {name}")
    | none => throw (.unsupported s!"cast to unknown type {name}")

/-- Cast `v` to the named type (explicit `::`, assignment to a column, function
    argument). -/
def castTo (te : TypeEnv) (ty : SqlType) (v : Value) : R Value :=
  match v with
  | .null => pure .null
  | _ =>
  let .mk _ name mods isArr := ty
  if isArr then
    match v with
    | .array vs => do return .array (← vs.mapM (castNonArray te name mods))
    | .text s => do
      let parts ← splitArrayLit s
      return .array (← parts.mapM (fun
        | none => pure Value.null
        | some t => castNonArray te name mods (.text t)))
    | _ => throw (pgErr "42846" s!"cannot cast {v.toText} to {name}[]")
  else castNonArray te name mods v

/-! ## comparison (documentation 9.2; unknown literals take the other side's type) -/

def tyName (n : String) : SqlType := .mk "" n "" false

/-- comparison of two non-container values -/
def compareScalar (a b : Value) : R (Option Ordering) := do
  match a, b with
  | .null, _ | _, .null => pure none
  | .int x, .int y => pure (some (cmpInt x y))
  | .text x, .text y => pure (some (cmpStr x y))
  | .ts x, .ts y => pure (some (cmpInt x y))
  | .bool x, .bool y => pure (some (if x == y then .eq else if !x then .lt else .gt))
  | .bytes x, .bytes y => pure (some (cmpBytes x y))
  | .int x, .text s => return some (cmpInt x (← parseIntText s))
  | .text s, .int y => return some (cmpInt (← parseIntText s) y)
  | .ts x, .text s => return some (cmpInt x (← liftStr "22007" (tsParse s)))
  | .text s, .ts y => return some (cmpInt (← liftStr "22007" (tsParse s)) y)
  | .bool x, .text s => do
    let y ← parseBoolText s
    pure (some (if x == y then .eq else if !x then .lt else .gt))
  | .text s, .bool y => do
    let x ← parseBoolText s
    pure (some (if x == y then .eq else if !x then .lt else .gt))
  | .bytes x, .text s => return some (cmpBytes x (← liftStr "22P02" (byteaParse s)))
  | .text s, .bytes y => return some (cmpBytes (← liftStr "22P02" (byteaParse s)) y)
  | .json x, .json y =>
    -- only equality is meaningful for the ledger; order by rendered text otherwise
    if x == y then pure (some .eq) else pure (some (cmpStr x.render y.render))
  | .json x, .text s => do
    let y ← liftStr "22P02" (JV.parse s)
    if x == y then pure (some .eq) else pure (some (cmpStr x.render y.render))
  | .text s, .json y => do
    let x ← liftStr "22P02" (JV.parse s)
    if x == y then pure (some .eq) else pure (some (cmpStr x.render y.render))
  | _, _ => throw (pgErr "42883" s!"operator does not exist for {a.toText} and {b.toText}")

def compareScalarList : List Value → List Value → R (Option Ordering)
  | [], [] => pure (some .eq)
  | [], _ => pure (some .lt)
  | _, [] => pure (some .gt)
  | x :: xs, y :: ys => do
    match ← compareScalar x y with
    | none => pure none
    | some .eq => compareScalarList xs ys
    | some o => pure (some o)

/-- comparison; rows and arrays compare element-wise (one nesting level) -/
def compareValues (a b : Value) : R (Option Ordering) :=
  match a, b with
  | .row _ xs, .row _ ys => compareScalarList xs ys
  | .array xs, .array ys => compareScalarList xs ys
  | _, _ => compareScalar a b

/-- total order used by ORDER BY / DISTINCT / GROUP BY: NULLs compare equal to
    each other and larger than everything (documentation 7.5 "Sorting Rows":
    "By default, null values sort as if larger than any non-null value"). -/
def compareForSort (a b : Value) : R Ordering := do
  match a, b with
  | .null, .null => pure .eq
  | .null, _ => pure .gt
  | _, .null => pure .lt
  | _, _ =>
    match ← compareValues a b with
    | some o => pure o
    | none => pure .eq

/-- grouping equality: NULLs are not distinct (documentation 7.2.3 / SELECT
    "DISTINCT": "two null values are considered equal in this comparison"). -/
def sameGroupKey : List Value → List Value → R Bool
  | [], [] => pure true
  | x :: xs, y :: ys => do
    if (← compareForSort x y) == .eq then sameGroupKey xs ys else pure false
  | _, _ => pure false

/-! ## jsonb operators (documentation 9.16, table 9.46) -/

/-- scalar-or-container dispatch used for array elements: scalars by equality,
    containers recursively (a scalar element never "contains" a container) -/
def jvIsContainer : JV → Bool
  | .obj _ | .arr _ => true
  | _ => false

mutual
/-- `a @> b` — 8.14.3 "jsonb Containment and Existence" (structural on `b`) -/
def jsonContains (a : JV) : JV → Bool
  | .obj bk => match a with
    | .obj ak => jsonKvsContained ak bk
    | _ => false
  | .arr bs => match a with
    | .arr as => jsonElemsContained as bs
    | _ => false
  | .null => match a with | .arr as => as.any (· == JV.null) | a => a == JV.null
  | .bool x => match a with | .arr as => as.any (· == JV.bool x) | a => a == JV.bool x
  | .num x => match a with | .arr as => as.any (· == JV.num x) | a => a == JV.num x
  | .dec x => match a with | .arr as => as.any (· == JV.dec x) | a => a == JV.dec x
  -- "an array may contain a primitive value" special exception
  | .str x => match a with | .arr as => as.any (· == JV.str x) | a => a == JV.str x
def jsonKvsContained (ak : List JKV) : List JKV → Bool
  | [] => true
  | (.mk k v) :: rest =>
    (match jobjLookup k ak with
      | some av => jsonContains av v
      | none => false) && jsonKvsContained ak rest
def jsonElemsContained (as : List JV) : List JV → Bool
  | [] => true
  | y :: ys =>
    as.any (fun x =>
      match x with
      | .obj _ => (match y with | .obj _ => jsonContains x y | _ => false)
      | .arr _ => (match y with | .arr _ => jsonContains x y | _ => false)
      | x => !jvIsContainer y && x == y) && jsonElemsContained as ys
end

/-- `j ? key`: key of an object / string element of an array / equal string scalar -/
def jsonHasKey (j : JV) (k : String) : Bool :=
  match j with
  | .obj kvs => (jobjLookup k kvs).isSome
  | .arr xs => xs.any (fun x => match x with | .str s => s == k | _ => false)
  | .str s => s == k
  | _ => false

def jsonGet (j : JV) (k : Value) : Option JV :=
  match j, k with
  | .obj kvs, .text s => jobjLookup s kvs
  | .arr xs, .int i =>
    let n : Int := xs.length
    let idx := if i < 0 then n + i else i
    if idx < 0 then none else xs[idx.toNat]?
  | .arr xs, .text s =>
    -- `arr -> 'k'` with an unknown literal resolves to the text overload: no match
    let _ := xs; let _ := s; none
  | _, _ => none

/-- `a || b` on jsonb: objects merge (right wins); otherwise both sides are
    treated as arrays and concatenated (table 9.46). -/
def jsonConcat : JV → JV → JV
  | .obj a, .obj b => .obj (jobjMerge a b)
  | .arr a, .arr b => .arr (a ++ b)
  | .arr a, b => .arr (a ++ [b])
  | a, .arr b => .arr (a :: b)
  | a, b => .arr [a, b]

/-- the narrow jsonpath shape the ledger renders: `$[<i>] == "<s>"` -/
def parseJsonPathIdxEq (p : String) : Option (Nat × String) :=
  let cs := trimChars p.toList
  match cs with
  | '$' :: '[' :: rest =>
    let (ds, rest) := takeDigits rest
    if ds.isEmpty then none else
    match rest with
    | ']' :: rest =>
      let rest := rest.dropWhile Char.isWhitespace
      match rest with
      | '=' :: '=' :: rest =>
        let rest := rest.dropWhile Char.isWhitespace
        match rest with
        | '"' :: body =>
          -- body up to the closing quote, with \" and \\ escapes
          let rec go (cs : List Char) (acc : List Char) (fuel : Nat) : Option String :=
            match fuel with
            | 0 => none
            | fuel + 1 =>
            match cs with
            | [] => none
            | '\\' :: c :: rest => go rest (c :: acc) fuel
            | '"' :: rest => if rest.all Char.isWhitespace then some (String.ofList acc.reverse) else none
            | c :: rest => go rest (c :: acc) fuel
          match go body [] (body.length + 1) with
          | some s => some (digitsVal ds, s)
          | none => none
        | _ => none
      | _ => none
    | _ => none
  | _ => none

/-! ## text / array helpers -/

def splitOnStr (s sep : String) : List String :=
  if sep.isEmpty then [s] else splitStr s sep

/-- SQL LIKE with `%` and `_` (documentation 9.7.1), backslash escapes the next
    char. `fuel` ≥ |s| + |p| + 1 suffices (each step consumes a character of one). -/
def likeMatchF : Nat → List Char → List Char → Bool
  | 0, _, _ => false
  | _ + 1, [], [] => true
  | _ + 1, _ :: _, [] => false
  | fuel + 1, s, '%' :: p =>
    likeMatchF fuel s p || (match s with | [] => false | _ :: s' => likeMatchF fuel s' ('%' :: p))
  | _ + 1, [], _ :: _ => false
  | fuel + 1, _ :: s, '_' :: p => likeMatchF fuel s p
  | fuel + 1, c :: s, '\\' :: d :: p => c == d && likeMatchF fuel s p
  | fuel + 1, c :: s, d :: p => c == d && likeMatchF fuel s p

def likeMatch (s p : List Char) : Bool := likeMatchF (s.length + p.length + 1) s p

/-- `hashtext(s)`: the real function is a 32-bit hash (`int4`); only equality of
    lock keys matters to the ledger. Modelled as the bytes of the string read as a
    base-256 number reduced modulo the prime 2^31 - 1, so the result is an `int4`
    like PostgreSQL's (a collision only makes two advisory locks coincide, which
    PostgreSQL's hash allows as well). -/
def hashtext (s : String) : Int :=
  (s.toUTF8.foldl (fun acc b => (acc * 256 + (b.toNat + 1 : Nat)) % 2147483647) (0 : Nat) : Nat)

/-- strip the quoting of a regclass/sequence name argument: `"a"."b"` → `a.b` -/
def unquoteQualified (s : String) : String :=
  String.ofList (s.toList.filter (· != '"'))

/-! ## binary operators -/

def jsonOfValue (v : Value) : R JV :=
  match v with
  | .json j => pure j
  | .text s => liftStr "22P02" (JV.parse s)
  | _ => throw (pgErr "42883" s!"operator does not exist: jsonb operand expected, got {v.toText}")

def textArrayOf (v : Value) : R (List String) :=
  match v with
  | .array vs => pure (vs.filterMap (fun x => match x with | .null => none | x => some x.toText))
  | .text s => do
    let parts ← splitArrayLit s
    pure (parts.filterMap id)
  | _ => throw (pgErr "42883" s!"text[] operand expected, got {v.toText}")

def evalBinop (op : BinOp) (a b : Value) : R Value := do
  match op with
  | .and => return ofTruth (and3 (← a.truth) (← b.truth))
  | .or => return ofTruth (or3 (← a.truth) (← b.truth))
  | .eq => return ofTruth ((← compareValues a b).map (· == .eq))
  | .ne => return ofTruth ((← compareValues a b).map (· != .eq))
  | .lt => return ofTruth ((← compareValues a b).map (· == .lt))
  | .le => return ofTruth ((← compareValues a b).map (· != .gt))
  | .gt => return ofTruth ((← compareValues a b).map (· == .gt))
  | .ge => return ofTruth ((← compareValues a b).map (· != .lt))
  | _ =>
  -- every remaining operator is strict
  if a.isNull || b.isNull then return .null
  match op with
  | .add | .sub | .mul | .div | .mod =>
    match op, a, b with
    -- jsonb - text : delete key (table 9.46); jsonb - int : delete array element
    | .sub, .json (.obj kvs), .text k => pure (.json (.obj (jobjErase k kvs)))
    | .sub, .json (.arr xs), .text k => pure (.json (.arr (xs.filter (fun x => !(x == .str k)))))
    | .sub, .json _, .text _ => throw (pgErr "22023" "cannot delete from scalar")
    | _, _, _ =>
      let x ← match a with | .int n => pure n | .text s => parseIntText s | _ => throw (pgErr "42883" s!"operator does not exist: arithmetic on {a.toText}")
      let y ← match b with | .int n => pure n | .text s => parseIntText s | _ => throw (pgErr "42883" s!"operator does not exist: arithmetic on {b.toText}")
      match op with
      | .add => pure (.int (x + y))
      | .sub => pure (.int (x - y))
      | .mul => pure (.int (x * y))
      | .div =>
        if y == 0 then throw (pgErr "22012" "division by zero")
        else if x % y == 0 then pure (.int (x / y))
        else throw (.unsupported "numeric division with a fractional result (LeanPG models integers only)")
      | .mod =>
        if y == 0 then throw (pgErr "22012" "division by zero") else pure (.int (Int.tmod x y))
      | _ => pure .null
  | .concat =>
    match a, b with
    | .json x, .json y => pure (.json (jsonConcat x y))
    | .json x, .text s => return .json (jsonConcat x (← liftStr "22P02" (JV.parse s)))
    | .text s, .json y => return .json (jsonConcat (← liftStr "22P02" (JV.parse s)) y)
    | .bytes x, .bytes y => pure (.bytes (x ++ y))
    | .bytes x, .text s => pure (.bytes (x ++ s.toUTF8))
    | .text s, .bytes y => pure (.bytes (s.toUTF8 ++ y))
    | .array x, .array y => pure (.array (x ++ y))
    | .array x, y => pure (.array (x ++ [y]))
    | x, .array y => pure (.array (x :: y))
    -- text || anynonarray / anynonarray || text (table 9.10)
    | x, y => pure (.text (x.toText ++ y.toText))
  | .jsonGet =>
    let j ← jsonOfValue a
    pure (match jsonGet j b with | some v => .json v | none => .null)
  | .jsonGetText =>
    let j ← jsonOfValue a
    pure (match jsonGet j b with | some v => v.asText | none => .null)
  | .jsonPath | .jsonPathText =>
    let j ← jsonOfValue a
    let path ← textArrayOf b
    let r := path.foldl (fun (acc : Option JV) k =>
      match acc with
      | none => none
      | some (.obj kvs) => jobjLookup k kvs
      | some (.arr xs) => match parseIntStr k with
        | some i => jsonGet (.arr xs) (.int i)
        | none => none
      | some _ => none) (some j)
    pure (match r with
      | none => .null
      | some v => if op == .jsonPathText then v.asText else .json v)
  | .contains => return .bool (jsonContains (← jsonOfValue a) (← jsonOfValue b))
  | .containedBy => return .bool (jsonContains (← jsonOfValue b) (← jsonOfValue a))
  | .hasKey => return .bool (jsonHasKey (← jsonOfValue a) b.toText)
  | .hasAnyKey =>
    let j ← jsonOfValue a
    return .bool ((← textArrayOf b).any (jsonHasKey j))
  | .hasAllKeys =>
    let j ← jsonOfValue a
    return .bool ((← textArrayOf b).all (jsonHasKey j))
  | .jsonpathMatch =>
    let j ← jsonOfValue a
    match parseJsonPathIdxEq b.toText with
    | some (i, s) =>
      -- `@@` returns NULL when the path yields no boolean… in lax mode a missing
      -- element makes the comparison yield no item, so the predicate is false/NULL;
      -- either way the row is filtered out. Modelled as false.
      match j with
      | .arr xs => pure (.bool (match xs[i]? with | some (.str t) => t == s | _ => false))
      | _ => pure (.bool false)
    | none => throw (.unsupported s!"jsonpath outside the modelled shape: {b.toText}")
  | .like => pure (.bool (likeMatch a.toText.toList b.toText.toList))
  | _ => throw (.unsupported "operator")

/-! ## scalar functions that need no database access -/

def arrayOfValue (v : Value) : R (List Value) :=
  match v with
  | .array vs => pure vs
  | .text s => do
    let parts ← splitArrayLit s
    pure (parts.map (fun | none => Value.null | some t => Value.text t))
  | _ => throw (pgErr "42883" s!"array expected, got {v.toText}")

def bytesOfValue (v : Value) : R ByteArray :=
  match v with
  | .bytes b => pure b
  | .text s => liftStr "22P02" (byteaParse s)
  | _ => throw (pgErr "42883" s!"bytea expected, got {v.toText}")

def buildObject (args : List Value) : R JV := do
  let rec go : List Value → List (String × JV) → R (List (String × JV))
    | [], acc => pure acc.reverse
    | k :: v :: rest, acc =>
      if k.isNull then throw (pgErr "22004" "argument 1: key must not be null")
      else go rest ((k.toText, v.toJV) :: acc)
    | [_], _ => throw (pgErr "22023" "argument list must have even number of elements")
  return .obj (jobjOfList (← go args []))

/-- Pure built-in functions. `none` = not a pure builtin (handled by the evaluator:
    sequences, clock, advisory locks, user-defined functions). -/
def evalPureFn (name : String) (args : List Value) : Option (R Value) :=
  match name, args with
  | "coalesce", _ => some (pure ((args.find? (!·.isNull)).getD .null))
  | "least", _ | "greatest", _ => some (do
      -- documentation 9.18.4: NULL arguments are ignored
      let xs := args.filter (!·.isNull)
      match xs with
      | [] => pure .null
      | x :: rest =>
        rest.foldlM (fun acc y => do
          let o ← compareForSort y acc
          pure (if (name == "least" && o == .lt) || (name == "greatest" && o == .gt) then y else acc)) x)
  | "nullif", [a, b] => some (do
      match ← compareValues a b with
      | some .eq => pure .null
      | _ => pure a)
  | "jsonb_build_object", _ | "json_build_object", _ => some (do return .json (← buildObject args))
  | "to_json", [v] | "to_jsonb", [v] => some (pure (if v.isNull then .null else .json v.toJV))
  | "jsonb_array_length", [v] | "json_array_length", [v] => some (do
      if v.isNull then return .null
      match ← jsonOfValue v with
      | .arr xs => pure (.int xs.length)
      | _ => throw (pgErr "22023" "cannot get array length of a non-array"))
  | "jsonb_typeof", [v] => some (do
      if v.isNull then return .null
      match ← jsonOfValue v with
      | .null => pure (.text "null") | .bool _ => pure (.text "boolean") | .num _ | .dec _ => pure (.text "number")
      | .str _ => pure (.text "string") | .arr _ => pure (.text "array") | .obj _ => pure (.text "object"))
  | "string_to_array", [s, sep] => some (
      if s.isNull then pure .null
      else if sep.isNull then pure (.array (s.toText.toList.map (fun c => .text (String.singleton c))))
      else if s.toText.isEmpty then pure (.array [])
      else pure (.array ((splitOnStr s.toText sep.toText).map .text)))
  | "array_to_string", [a, sep] => some (do
      if a.isNull || sep.isNull then return .null
      let xs ← arrayOfValue a
      pure (.text (sep.toText.intercalate ((xs.filter (!·.isNull)).map Value.toText))))
  | "array_length", [a, d] => some (do
      if a.isNull || d.isNull then return .null
      let xs ← arrayOfValue a
      match d with
      | .int 1 => pure (if xs.isEmpty then .null else .int xs.length)
      | _ => pure .null)
  | "cardinality", [a] => some (do
      if a.isNull then return .null
      return .int (← arrayOfValue a).length)
  | "encode", [b, fmt] => some (do
      if b.isNull || fmt.isNull then return .null
      let bs ← bytesOfValue b
      match fmt.toText.toLower with
      | "escape" => pure (.text (encodeEscape bs))
      | "base64" => pure (.text (encodeBase64 bs))
      | "hex" => pure (.text (hexOfBytes bs))
      | f => throw (pgErr "22023" s!"unrecognized encoding: \"{f}\""))
  | "convert_to", [s, _enc] => some (pure (if s.isNull then .null else .bytes s.toText.toUTF8))
  | "convert_from", [b, _enc] => some (do
      if b.isNull then return .null
      let bs ← bytesOfValue b
      match String.fromUTF8? bs with
      | some s => pure (.text s)
      | none => throw (pgErr "22021" "invalid byte sequence for encoding \"UTF8\""))
  | "digest", [d, alg] => some (do
      if d.isNull || alg.isNull then return .null
      if alg.toText.toLower != "sha256" then throw (.unsupported s!"digest algorithm {alg.toText}")
      let bs ← match d with
        | .bytes b => pure b
        | .text s => pure s.toUTF8
        | _ => throw (pgErr "42883" "digest(bytea|text, text)")
      pure (.bytes (sha256 bs)))
  | "hashtext", [s] => some (pure (if s.isNull then .null else .int (hashtext s.toText)))
  | "length", [s] | "char_length", [s] => some (pure (match s with
      | .null => .null
      | .bytes b => .int b.size
      | v => .int v.toText.length))
  | "lower", [s] => some (pure (if s.isNull then .null else .text s.toText.toLower))
  | "upper", [s] => some (pure (if s.isNull then .null else .text s.toText.toUpper))
  | "concat", _ => some (pure (.text (String.join ((args.filter (!·.isNull)).map Value.toText))))
  | "replace", [s, a, b] => some (pure (if s.isNull || a.isNull || b.isNull then .null
      else if a.toText.isEmpty then .text s.toText else .text (replaceStr s.toText a.toText b.toText)))
  | "timezone", [z, t] => some (
      -- `t AT TIME ZONE z`: every timestamp of the model is UTC wall-clock time
      if z.isNull || t.isNull then pure .null
      else if z.toText.toLower == "utc" then pure t
      else throw (.unsupported s!"AT TIME ZONE {z.toText}"))
  | "abs", [.int n] => some (pure (.int n.natAbs))
  | "abs", [.null] => some (pure .null)
  | _, _ => none

end Ledger.Sql
