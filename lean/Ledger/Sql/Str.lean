/-!
# String helpers that reduce in the kernel

`String.splitOn`, `String.trimAscii`, `String.toInt?`, `String.replace`,
`String.foldl`, `String.any` are implemented with well-founded recursion over
byte positions and do not reduce by `decide`/`rfl`. The model uses these
`List Char` versions instead, so that statements can be evaluated inside proofs.

Core-only.
-/
namespace Ledger.Sql

def isAsciiSpace (c : Char) : Bool :=
  c == ' ' || c == '\t' || c == '\n' || c == '\r' || c == '\x0b' || c == '\x0c'

def trimChars (cs : List Char) : List Char :=
  ((cs.dropWhile isAsciiSpace).reverse.dropWhile isAsciiSpace).reverse

/-- `s` without leading/trailing ASCII white space -/
def trimStr (s : String) : String := String.ofList (trimChars s.toList)

/-- is `p` a prefix of `cs`? returns the rest -/
def stripPrefixChars : List Char → List Char → Option (List Char)
  | [], cs => some cs
  | _ :: _, [] => none
  | p :: ps, c :: cs => if p == c then stripPrefixChars ps cs else none

def splitOnChar (sep : Char) : List Char → List Char → List (List Char)
  | [], cur => [cur.reverse]
  | c :: cs, cur =>
    if c == sep then cur.reverse :: splitOnChar sep cs [] else splitOnChar sep cs (c :: cur)

/-- split on a separator of any length; `fuel` ≥ |cs| + 1 -/
def splitOnSeq (sep : List Char) : Nat → List Char → List Char → List (List Char)
  | 0, cs, cur => [cur.reverse ++ cs]
  | _ + 1, [], cur => [cur.reverse]
  | fuel + 1, c :: cs, cur =>
    match stripPrefixChars sep (c :: cs) with
    | some rest => cur.reverse :: splitOnSeq sep fuel rest []
    | none => splitOnSeq sep fuel cs (c :: cur)

/-- `s.splitOn sep` for a non-empty `sep` -/
def splitStr (s sep : String) : List String :=
  match sep.toList with
  | [] => [s]
  | [c] => (splitOnChar c s.toList []).map String.ofList
  | cs => (splitOnSeq cs (s.length + 1) s.toList []).map String.ofList

def parseNatChars : List Char → Option Nat
  | [] => none
  | cs => if cs.all Char.isDigit then some (Nat.ofDigitChars 10 cs 0) else none

def parseIntChars : List Char → Option Int
  | '-' :: ds => (parseNatChars ds).map (fun n => - (n : Int))
  | '+' :: ds => (parseNatChars ds).map (fun n => (n : Int))
  | ds => (parseNatChars ds).map (fun n => (n : Int))

def parseIntStr (s : String) : Option Int := parseIntChars s.toList
def parseNatStr (s : String) : Option Nat := parseNatChars s.toList

/-- replace every occurrence of a non-empty pattern; `fuel` ≥ |cs| + 1 -/
def replaceChars (pat rep : List Char) : Nat → List Char → List Char
  | 0, cs => cs
  | _ + 1, [] => []
  | fuel + 1, c :: cs =>
    match stripPrefixChars pat (c :: cs) with
    | some rest => rep ++ replaceChars pat rep fuel rest
    | none => c :: replaceChars pat rep fuel cs

def replaceStr (s pat rep : String) : String :=
  if pat.isEmpty then s else String.ofList (replaceChars pat.toList rep.toList (s.length + 1) s.toList)

def strAny (s : String) (p : Char → Bool) : Bool := s.toList.any p
def strAll (s : String) (p : Char → Bool) : Bool := s.toList.all p

/-- last component of a dotted name -/
def lastDotted (q : String) : String :=
  match (splitOnChar '.' q.toList []).getLast? with
  | some cs => String.ofList cs
  | none => q

/-- first component of a dotted name with at least two components, else "" -/
def firstDotted (q : String) : String :=
  match splitOnChar '.' q.toList [] with
  | a :: _ :: _ => String.ofList a
  | _ => ""

end Ledger.Sql
