import Ledger.Proofs.CtrlIk
import Ledger.Proofs.CtrlRetry
import Ledger.Ctrl.Request
import Ledger.Proofs.CtrlExamples

/-!
# C13 — Idempotency keys give exactly-once effects (controller layer, sequential)

`ihash` is `ComputeIdempotencyHash(input)`; that equal inputs have equal hashes
and different inputs different ones is the hash's concern (C10 / collision
resistance), not this layer's.  The concurrent form (two requests racing on one
key) is out of scope here.
-/
namespace Ledger.C13
open Ledger.Ctrl Ledger.Core Ledger.Ctrl.Examples

/-- After any history no two logs carry the same (non-empty) idempotency key: a
    key is applied at most once. -/
theorem ik_at_most_once (strict : Bool) (ops : List Op) :
    (runHist strict {} ops).db.logs.Pairwise (fun a b => b.ik = "" ∨ a.ik ≠ b.ik) :=
  (runHist_inv strict {} ops Inv.empty).ikUnique

/-- Same key, same input (or a legacy log without hash): the original log is
    returned, flagged as a hit, and nothing at all changes — sequences included. -/
theorem ik_hit_returns_original (strict : Bool) (s : State) (op : Op) (l : Log)
    (hk : op.ik ≠ "") (hf : readLogWithIK op.ik s.db = some l) (hh : l.ihash = "" ∨ l.ihash = op.ihash) :
    step strict s op = (s, { hit := true, log := some l }) := by
  refine step_ik_hit strict s op l hk hf ?_
  rintro ⟨h1, h2⟩
  rcases hh with h | h
  · exact h1 h
  · exact h2 h

/-- Same key, different input: a validation error, and nothing at all changes. -/
theorem ik_different_input_validation_error (strict : Bool) (s : State) (op : Op) (l : Log)
    (hk : op.ik ≠ "") (hf : readLogWithIK op.ik s.db = some l) (h1 : l.ihash ≠ "") (h2 : l.ihash ≠ op.ihash) :
    step strict s op = (s, { err := some .invalidIdempotencyInput }) :=
  step_ik_mismatch strict s op l hk hf ⟨h1, h2⟩

/-- **Key reuse with a different input is refused, whatever field differs.**  Let `H` be
    the fingerprint of requests (`ComputeIdempotencyHash` = base64(SHA-256(`json.Marshal`
    of the input))), the log found under the key carry `H r0` (it does: `ik_recorded`) and
    the re-sent request `r` carry `H r`.  ASSUMED about `H`, and nothing else: it is
    injective on requests — i.e. the JSON encoding of the input distinguishes every two
    values of `Request` (every field of every write kind takes part: script, template,
    each variable, timestamp, metadata, reference, account metadata, runtime; force,
    atEffectiveDate, id; address / key / value; version, schema data) and SHA-256 does not
    collide on them — and never the empty string.  Then `r ≠ r0` ⇒ validation error,
    nothing at all changes.  (A `MarshalJSON` that drops a field from the encoding breaks
    exactly the injectivity hypothesis; the `ctrlhist` workload re-sends every request with
    exactly one field changed and checks the real answer.) -/
theorem ik_hash_injective_on_inputs (H : Request → String) (hinj : ∀ a b, H a = H b → a = b)
    (hne0 : ∀ a, H a ≠ "") (strict : Bool) (s : State) (op : Op) (l : Log) (r r0 : Request)
    (hk : op.ik ≠ "") (hf : readLogWithIK op.ik s.db = some l)
    (h0 : l.ihash = H r0) (h1 : op.ihash = H r) (hdiff : r ≠ r0) :
    step strict s op = (s, { err := some .invalidIdempotencyInput }) := by
  refine ik_different_input_validation_error strict s op l hk hf (by rw [h0]; exact hne0 r0) ?_
  rw [h0, h1]
  exact fun h => hdiff (hinj _ _ h).symm

/-- …and the same request under the same key gets the recorded outcome: the original
    log as a hit, nothing changes (needs only that `H` is a function of the request). -/
theorem ik_same_input_recorded_outcome (H : Request → String) (strict : Bool) (s : State) (op : Op) (l : Log)
    (r : Request) (hk : op.ik ≠ "") (hf : readLogWithIK op.ik s.db = some l)
    (h0 : l.ihash = H r) (h1 : op.ihash = H r) :
    step strict s op = (s, { hit := true, log := some l }) :=
  ik_hit_returns_original strict s op l hk hf (Or.inr (by rw [h0, h1]))

/-- A committed write with a key records the key and the input's hash in its log,
    so every later request with that key meets the two theorems above. -/
theorem ik_recorded (strict : Bool) (s : State) (op : Op)
    (he : (step strict s op).2.isError = false) (hh : (step strict s op).2.hit = false) (hd : op.dry = false) :
    ∃ log, (step strict s op).1.db.logs = s.db.logs ++ [log] ∧ log.ik = op.ik ∧ log.ihash = op.ihash := by
  obtain ⟨log, _, hl, hik, hih, _, _⟩ := step_committed_appended strict s op he hh hd
  exact ⟨log, hl, hik, hih⟩

/-- The store refuses a second log with the same key even if the controller's
    lookup were bypassed (`logs_idempotency_key` → ErrIdempotencyKeyConflict). -/
theorem store_refuses_duplicate_key (now : Time) (l : LogIn) (d : Db) (sq : Seqs)
    (hk : l.ik ≠ "") (hdup : ∃ x ∈ d.logs, x.ik = l.ik) (hid : ∀ x ∈ d.logs, x.id ≠ (match l.id with | some i => i | none => sq.log + 1)) :
    (insertLog now l d sq).2 = .error .ikConflict := by
  unfold insertLog
  obtain ⟨x, hx, hxe⟩ := hdup
  have h1 : ¬ (d.logs.any (fun y => decide (y.id = (match l.id with | some i => i | none => sq.log + 1))) = true) := by
    simp only [List.any_eq_true, decide_eq_true_eq, not_exists, not_and]
    exact fun y hy => hid y hy
  have h2 : l.ik ≠ "" ∧ (d.logs.any (fun y => decide (y.ik = l.ik)) = true) :=
    ⟨hk, by simp only [List.any_eq_true, decide_eq_true_eq]; exact ⟨x, hx, hxe⟩⟩
  cases hl : l.id <;> simp only [hl] at h1 ⊢ <;> rw [if_neg h1, if_pos h2]

/-! non-vacuity -/
example : (step false s1 payIK).2.isError = false ∧ (step false s1 payIK).1.db.logs.length = 2 := by decide
example : (step false (step false s1 payIK).1 payIK).2.hit = true ∧
          (step false (step false s1 payIK).1 payIK).1 = (step false s1 payIK).1 := by decide +kernel
example : (step false (step false s1 payIK).1 { payIK with ihash := "h2" }).2.err = some .invalidIdempotencyInput := by
  decide +kernel

/-- The idempotency-key conflict branch of `forgeLogRetry` (a concurrent request
    committed the same key first: the store reports the unique violation, the
    controller re-reads the log on the root handle): under the store contract that
    re-read finds the log, so `panic("incoherent error, received duplicate IK but log
    not found in database")` is unreachable — unless the conflict was injected by the
    test harness rather than reported by the store (`hnof`). -/
theorem ik_conflict_refetch_finds_log (strict : Bool) (op : Op) (f : Faults) (cf : Bool) (s : State) (i tx : Nat)
    (seq : Seqs) (n : Nat) (trace : List String) (seq' : Seqs) (n' : Nat) (trace' : List String)
    (hnof : ∀ x ∈ f, x.kind ≠ .ikConflict)
    (h : runTx strict op f cf s i tx seq n trace = .failed (.store .ikConflict) seq' n' trace') :
    (fetchAfterConflict op f s seq' (n' + 1) trace').resp.err ≠ some .panic :=
  conflict_panic_unreachable strict op f cf s i tx seq n trace seq' n' trace' hnof h

end Ledger.C13
