import Ledger.Reads.RunQuery
import Ledger.Props.C37

/-!
C37 (end to end) — running a stored query template equals the direct list query it describes.

Only property theorems and non-vacuity examples.  `Reads.runQueryVia` is `DefaultController.RunQuery`
(no cursor) stated over builder-query's model — `Query.resolveTemplate` (ResolveFilterTemplate),
`Query.overwrite` (QueryTemplateParams.Overwrite), `Query.templateParamsToQuery` — ending in an
arbitrary list endpoint `paginate : resource → ListQuery → R`; the `runquery` workload instantiates
`paginate` with the listing `Ledger.Reads` computes from the Spec and compares with the REAL RunQuery
over LeanPG (the modelled Postgres) page by page, and the real RunQuery with the real direct list
call (tested, not proved).
-/
namespace Ledger.C37r
open Ledger.Query Ledger.Reads

/-- **RunQuery = the list call at the resolved query**: whenever the template resolves to the
    filter `b` under the call variables and the defaults overwritten by the template's and then the
    request's params give `p`, running the template returns, for the template's resource, exactly
    what the list endpoint returns for the query with filter `b`, PIT / OOT / expand / sort /
    page size (capped) / volumes options of `p` — for ANY list endpoint. -/
theorem runquery_eq_list {R : Type} (paginate : String → ListQuery → R)
    (t : StoredTemplate) (vars : Vars) (params : Option ParamsJson) (b : Option Filter) (d p : Params)
    (hres : resolveTemplate parseRFC3339 t.tmpl vars = .ok b)
    (hdef : defaultParams t.tmpl.resource rqDefaultPageSize = some d)
    (hpar : overwrite parseRFC3339 d [t.params, params] = .ok p) :
    runQueryVia paginate t vars params =
      .ok (t.tmpl.resource, paginate t.tmpl.resource (ListQuery.ofInitial (templateParamsToQuery p b rqMaxPageSize))) := by
  unfold runQueryVia
  rw [Ledger.C37.runQuery_eq_list parseRFC3339 _ _ rqDefaultPageSize rqMaxPageSize t vars params b d p hres hdef hpar]

/-- The list call RunQuery makes, field by field. -/
theorem runquery_list_fields (p : Params) (b : Option Filter) :
    let q := ListQuery.ofInitial (templateParamsToQuery p b rqMaxPageSize)
    q.filter = b ∧ q.pit = p.pit ∧ q.oot = p.oot ∧ q.expand = p.expand ∧ q.sort = p.sortColumn ∧
    q.order = p.sortOrder ∧ q.pageSize = min p.pageSize rqMaxPageSize ∧
    q.insertionDate = p.opts.useInsertionDate ∧ q.groupLvl = p.opts.groupLvl.toNat := by
  have h := Ledger.C37.runQuery_query_fields p b rqMaxPageSize
  refine ⟨rfl, rfl, rfl, rfl, rfl, rfl, ?_, rfl, rfl⟩
  exact h.2.2.1

/-- A template that does not resolve (missing / ill-typed variable, …) is rejected, never run. -/
theorem runquery_unresolved_rejected {R : Type} (paginate : String → ListQuery → R)
    (t : StoredTemplate) (vars : Vars) (params : Option ParamsJson) (e : TErr)
    (hres : resolveTemplate parseRFC3339 t.tmpl vars = .error e) :
    runQueryVia paginate t vars params = .error (.resolve e) := by
  simp [runQueryVia, runQuery, runQueryTarget, hres]

/-- Non-vacuity: a volumes template with an int variable bound as a float64 (2^64), a template
    page size / groupBy and a request sort order: the list call made has the substituted filter,
    page size 2, group level 1, descending order. -/
example :
    (runQueryVia (fun _ q => (q.filter.map Filter.leaves == some [(.lt, "balance[USD/2]", .sc (.int 18446744073709551616))],
                              q.pageSize, q.groupLvl, q.order == some .desc))
        { tmpl := { resource := "volumes", vars := [("v_big", { type := .numeric })],
                    body := some (.leaf .lt "balance[USD/2]" (.sc (.str "${v_big}"))) },
          params := some { pageSize := some 2, groupBy := some 1 } }
        [("v_big", .float 18446744073709551616 0)] (some { sort := some "account:desc" })).toOption.map (·.2) =
      some (true, 2, 1, true) := by
  decide +kernel

end Ledger.C37r
