import Ledger.Proofs.SchedUnique
import Ledger.Proofs.SchedChain
import Ledger.Proofs.SchedHandles
import Ledger.Proofs.SchedWitnesses

/-!
# C16 (schedule part) — ids unique; commit order vs. id order

Over ALL schedules and programs: the unique indexes `(ledger, id)` on
transactions and logs keep ids unique per ledger; per-ledger sequences are
independent. FALSE on the unchanged code: "a later commit never receives a smaller id"
— transaction ids are taken (`nextval` inside InsertTransaction) before any lock that is
held to commit, and so are log ids when HASH_LOGS ≠ SYNC: `…_counterexample`s with two
writers on disjoint accounts.
-/
namespace Ledger.C16s
open Ledger.Sched

/-- `ids_unique`: for every schedule and every programs, transaction ids and log ids are unique per
    ledger among all rows (committed or in progress). -/
theorem ids_unique (σ : Schedule) (w₀ : World) (h₀ : UniqInv w₀) :
    (run σ w₀).txs.Pairwise (fun a b => a.l = b.l → a.id ≠ b.id) ∧
    (run σ w₀).logs.Pairwise (fun a b => a.l = b.l → a.id ≠ b.id) := by
  have h := uniq_run σ w₀ h₀
  exact ⟨h.1.imp (fun hab hl => (hab hl).1), h.2.imp (fun hab hl => (hab hl).1)⟩

example : UniqInv {} := ⟨List.Pairwise.nil, List.Pairwise.nil⟩

/-- `ledgers_independent`: an insert on ledger `l` draws from `transaction_id_l` / `log_id_l` only -/
theorem ledgers_independent (w w' : World) (s : Sid) (l ref : Nat) (o : Out)
    (h : insTx w s l ref none = .done w' o) :
    o.vals = [((w.txSeq l + 1 : Nat) : Int)] ∧ w'.txSeq l = w.txSeq l + 1 ∧ ∀ l', l' ≠ l → w'.txSeq l' = w.txSeq l' := by
  unfold insTx at h
  dsimp only at h
  cases h1 : w.txs.find? (fun t => decide (t.l = l) && decide (t.id = (none : Option Nat).getD (w.txSeq l + 1))) with
  | some t => rw [h1] at h; dsimp only at h; split at h <;> cases h
  | none =>
    rw [h1] at h; dsimp only at h
    cases h2 : (if ref = 0 then none else w.txs.find? (fun t => decide (t.l = l) && decide (t.ref = ref))) with
    | some t => rw [h2] at h; dsimp only at h; split at h <;> cases h
    | none =>
      rw [h2] at h; dsimp only at h
      injection h with hw ho
      subst hw; subst ho
      refine ⟨rfl, by simp, ?_⟩
      intro l' hne
      simp [hne]

/-- `log_ids_commit_order_sync`: HASH_LOGS=SYNC — for every schedule and all programs following the
    discipline of `Ledger.C09s.chain_linear_any_schedule` (log INSERT under `pg_advisory_xact_lock`,
    held to commit; proved for the real create path on a ledger in use), the log ids of the ledger are
    strictly increasing in COMMIT order. -/
theorem log_ids_commit_order_sync (l₀ : Nat) (σ : Schedule) (w₀ : World)
    (hg : GInv ⟨logKey l₀, l₀, true⟩ w₀) (hc : ChainInv ⟨logKey l₀, l₀, true⟩ w₀) :
    (((run σ w₀).logCommits.filter (fun c => c.1 = l₀)).map (·.2.1)).Pairwise (· < ·) :=
  (chainInv_run ⟨logKey l₀, l₀, true⟩ rfl σ w₀ hg hc).2.cinc

/-! ## counterexamples: two writers on disjoint accounts -/



/-- Even with HASH_LOGS=SYNC the earlier commit (B) holds the larger transaction id. -/
theorem tx_ids_commit_order_counterexample :
    (run cxTxSchedule (cxWorld true)).commits = [2, 1] ∧
    (run cxTxSchedule (cxWorld true)).resp 2 = some { tx := 2, log := 1 } ∧
    (run cxTxSchedule (cxWorld true)).resp 1 = some { tx := 1, log := 2 } := by
  decide


/-- Without the advisory lock (HASH_LOGS ≠ SYNC) log ids are not in commit order either. -/
theorem log_ids_commit_order_async_counterexample :
    (run cxLogSchedule (cxWorld false)).commits = [2, 1] ∧
    (run cxLogSchedule (cxWorld false)).logCommits = [(1, 2, 2), (1, 1, 1)] := by
  decide

/-- With HASH_LOGS=SYNC the same attempt makes B wait at the advisory lock: log ids follow commit order
    (a test of the SYNC protocol on this schedule; the general statement is `log_ids_commit_order_sync`). -/
example :
    (run ([1, 1, 1, 1, 1, 1] ++ [2, 2, 2, 2, 2] ++ [1] ++ [2, 2, 2]) (cxWorld true)).logCommits.map (·.2.1) = [1, 2] := by
  decide

/-- tie (regenerated): `InsertTransaction` (where `nextval(transaction_id)` is evaluated) precedes the
    advisory lock, which precedes the log INSERT (where `nextval(log_id)` is evaluated), in the real
    SYNC create path; the ASYNC path has no advisory lock at all -/
theorem id_allocation_order_follows_generated_handles :
    modelledKinds Generated.Handles.sendSyncUnbounded = [.begin, .updateVolumes, .insertTx, .upsertAccounts, .advLockLog, .insertLog, .commit] ∧
    modelledKinds Generated.Handles.sendAsyncBounded = [.begin, .getBalances, .updateVolumes, .insertTx, .upsertAccounts, .insertLog, .commit] := by
  decide

end Ledger.C16s
