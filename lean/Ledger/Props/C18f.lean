import Ledger.Proofs.SqlCommit4Refine

/-!
C18f — `UpsertAccounts` and the whole of transaction creation against the Spec (`upsertAccounts = true`).

* `metadata_concat_is_merge` / `metadata_contains_is_contains`: on jsonb objects of strings with distinct keys (`IsMeta`; what ledger
  metadata is), LeanPG's `a || d` (`jsonConcat`, jsonb key order) read as `Core.Metadata` (`metaOfJV`, `<` order) is `Spec.metaMerge`, and
  `a @> d` (`jsonContains`) is `Spec.metaContains`.
* `upsertAccounts_refines`: the WHOLE regenerated UpsertAccounts statement (C18b `upsertAccounts_sem`), on ANY `accounts` table whose
  visible rows abstract for the ledger to the Spec accounts `m` (`AcAbsTo`), ANY batch with distinct addresses carrying one date and no
  default metadata: afterwards the table abstracts to `m` with `Spec.upsertAccount` folded over the batch.
* `commitTransaction_full_refines`: UpdateVolumes; InsertTransaction; InsertMoves (with the `moves` triggers); UpsertAccounts, run as
  successive commands of one transaction, refine `Spec.applyTx st t` with `t.upsertAccounts = true`: volumes, moves (up to order),
  ACCOUNTS, the two sequences; invariants re-established; other ledgers untouched. The batch passed by the Go layer is assumed to be
  `acctBatch t` (the accounts of the postings with their metadata, then the metadata-only accounts), first_usage = the transaction's
  timestamp, insertion/update date = its insertion date.

Hypotheses: those of C01e / C18b / C18e (in particular TRANSACTION_METADATA_HISTORY and ACCOUNT_METADATA_HISTORY off — C01h lifts the first
for the three-statement sequence), stored and passed metadata are objects of strings with distinct keys, no default metadata.
-/
namespace Ledger.C18f
open Ledger Ledger.Sql Ledger.Generated Ledger.Core Ledger.Base
open Ledger.Generated.WriteSql
open Ledger.Spec

theorem metadata_concat_is_merge (a d : JV) (ha : IsMeta a) (hd : IsMeta d) :
    metaOfJV (jsonConcat a d) = metaMerge (metaOfJV a) (metaOfJV d) := metaOfJV_concat a d ha hd

theorem metadata_contains_is_contains (a d : JV) (ha : IsMeta a) (hd : IsMeta d) :
    jsonContains a d = metaContains (metaOfJV a) (metaOfJV d) := jsonContains_meta a d ha hd

theorem upsertAccounts_refines (k : Nat) (env : Env) (b l : String) (id : Nat) (trigs : List TriggerDef) (nr : Nat) (rows : List Ver)
    (s : St) (hst : UpsertState s b trigs nr rows) (henv : env.ctes = [])
    (pm : List (P.AccountRow × DbR)) (hlits : ∀ x ∈ pm, DbLit s.w.types x.1 x.2) (hnd : ((pm.map (·.2)).map (·.address)).Nodup)
    (m : Map String Spec.AccountRow) (habs : AcAbsTo l (acAbs (latestView s.w s.xid) rows) m)
    (hmeta : ∀ a ∈ acAbs (latestView s.w s.xid) rows, IsMeta a.md)
    (hdmeta : ∀ d ∈ pm.map (·.2), IsMeta d.md ∧ d.dm = JV.obj [])
    (date : Int) (hdate : ∀ d ∈ pm.map (·.2), d.ins = date ∧ d.upd = date) :
    ∃ (res : DmlResult) (rows' : List Ver) (n' : Nat),
      ((P.upsertAccounts b l id (pm.map (·.1))).mapM (runStmt (k + 19) env)).exec s =
        (.ok [res], s.withTable ((acT b trigs (nr + n')).withRows rows')) ∧
      AcAbsTo l (acAbs (latestView s.w s.xid) rows')
        ((pm.map (·.2)).foldl (fun acc d => Spec.upsertAccount acc d.address (some d.fu) date (metaOfJV d.md)) m) ∧
      AcInv (latestView s.w s.xid) (nr + n') rows' :=
  Ledger.Sql.upsertAccounts_refines k env b l id trigs nr rows s hst henv pm hlits hnd m habs hmeta hdmeta date hdate

theorem commitTransaction_full_refines (k : Nat) (env : Env) (henv : env.ctes = []) (b l : String) (id : Nat)
    (rsA : List Ver) (nrA : Nat) (trigsT : List TriggerDef) (nrT : Nat) (rowsT : List Ver) (fullT : String) (sqT : Seq)
    (trigsM : List TriggerDef) (B1 B2 : List TriggerDef) (trB : TriggerDef) (A1 A2 : List TriggerDef) (trA : TriggerDef)
    (item wher dflt_ : Expr) (fB : PlFunc) (setE whereU : Expr) (fA : PlFunc) (nrM : Nat) (rowsM : List Ver) (sqM : Seq)
    (trigsC : List TriggerDef) (nrC : Nat) (rowsC : List Ver) (s : St)
    (hst : CommitState s b l rsA nrA trigsT nrT rowsT fullT sqT trigsM B1 B2 trB A1 A2 trA item wher dflt_ fB setE whereU fA nrM rowsM sqM)
    (hac : CommitAccounts s b trigsC nrC rowsC)
    -- the Spec store the state abstracts to
    (st st' : Spec.Store) (t : Spec.TxIn) (hup : t.upsertAccounts = true) (happly : Spec.applyTx st t = .ok st')
    (hwf : Map.WF st.accountsVolumes) (habsA : ∀ key, avAbs s b l key = st.accountsVolumes.get? key)
    (habsM : st.moves.Perm (ledgerMoves l (mvAbs (latestView s.w s.xid) rowsM)))
    (habsC : AcAbsTo l (acAbs (latestView s.w s.xid) rowsC) st.accounts)
    (hmetaC : ∀ a ∈ acAbs (latestView s.w s.xid) rowsC, IsMeta a.md)
    (hidT : (st.nextTxId : Int) = sqT.next) (hidM : (st.nextSeq : Int) = sqM.next)
    -- what the Go layer passes
    (vrows : List P.VolumeRow) (hvu : vuOf vrows = volumeUpdates t.postings) (hvne : vrows ≠ []) (hvnd : (vrows.map avKeyOf).Nodup)
    (L : TxLits) (hl : SeqLit (txSeqLit b id) fullT) (x : TxR) (hlit : TxLit s.w.types l L x) (hid : x.id = st.nextTxId)
    (href : ∀ r ∈ rowsT, r.visible (latestView s.w s.xid) = true → ∀ x', r.vals = txVals x' → txConf2 x x' = false)
    (pm : List (P.MoveRow × Spec.MoveRow)) (hne : pm ≠ []) (hlits : ∀ y ∈ pm, MvLit s.w.types y.1 y.2)
    (hpm : ∀ ms, movesOf (Spec.upsertVolumes st.accountsVolumes (volumeUpdates t.postings)).2 t.postings = .ok ms →
      pm.map (·.2) = toRows st.nextSeq st.nextTxId t.insertedAt t.timestamp ms)
    (hrange : sqM.next + pm.length ≤ 9223372036854775808) (hnc : s.nextCid + 4 + 4 * pm.length ≤ 1000000000)
    (am : List (P.AccountRow × DbR)) (halits : ∀ y ∈ am, DbLit s.w.types y.1 y.2) (hand : ((am.map (·.2)).map (·.address)).Nodup)
    (hbatch : (am.map (·.2)).map (fun d => (d.address, metaOfJV d.md)) = acctBatch t)
    (hdmeta : ∀ d ∈ am.map (·.2), IsMeta d.md ∧ d.dm = JV.obj [])
    (hdates : ∀ d ∈ am.map (·.2), d.fu = t.timestamp ∧ d.ins = t.insertedAt ∧ d.upd = t.insertedAt) :
    ∃ (rsA' : List Ver) (nrA' : Nat) (rowsM' : List Ver) (seqs' : List Seq) (rowsC' : List Ver) (nC : Nat) (res : List DmlResult),
      (seqRun (k + 19) env (P.updateVolumes b l id vrows ++
          P.insertTransaction b l id L.postings L.metadata L.timestamp L.reference L.inserted_at L.updated_at L.post_commit_volumes
            L.template L.sources L.destinations L.sources_arrays L.destinations_arrays ++
          P.insertMoves b l id (pm.map (·.1)) ++ P.upsertAccounts b l id (am.map (·.1)))).exec s =
        (.ok res, (((((s.bump (4 + 4 * pm.length)).withSeqs seqs').withTable (avT b rsA' nrA')).withTable
              ((txT b trigsT (nrT + 1)).withRows (newVer s.xid (s.nextCid + 1) nrT (txVals x) :: rowsT))).withTable
              ((mvT b trigsM (nrM + pm.length)).withRows rowsM')).withTable ((acT b trigsC (nrC + nC)).withRows rowsC')) ∧
      (∀ key, avView (latestView s.w s.xid) rsA' l key = st'.accountsVolumes.get? key) ∧
      (∀ l', l' ≠ l → ∀ key, avView (latestView s.w s.xid) rsA' l' key = avView (latestView s.w s.xid) rsA l' key) ∧
      (ledgerMoves l (mvAbs (latestView s.w s.xid) rowsM')).Perm st'.moves ∧
      (∀ l', l' ≠ l → (ledgerMoves l' (mvAbs (latestView s.w s.xid) rowsM')).Perm (ledgerMoves l' (mvAbs (latestView s.w s.xid) rowsM))) ∧
      AcAbsTo l (acAbs (latestView s.w s.xid) rowsC') st'.accounts ∧
      AvInv (latestView s.w s.xid) rsA' nrA' ∧ MvInv (latestView s.w s.xid) (st'.nextSeq : Int) rowsM' ∧
      AcInv (latestView s.w s.xid) (nrC + nC) rowsC' ∧
      (∃ sq', seqs'.find? (·.name == mvSeqFull b) = some sq' ∧ sq'.next = (st'.nextSeq : Int)) ∧
      (∃ sq', seqs'.find? (·.name == fullT) = some sq' ∧ sq'.next = (st'.nextTxId : Int)) :=
  commit4_refines_applyTx k env henv b l id rsA nrA trigsT nrT rowsT fullT sqT trigsM B1 B2 trB A1 A2 trA item wher dflt_ fB setE whereU fA nrM rowsM sqM trigsC nrC rowsC s hst hac st st' t hup happly hwf habsA habsM habsC hmetaC hidT hidM vrows hvu hvne hvnd L hl x hlit hid href pm hne hlits hpm hrange hnc am halits hand hbatch hdmeta hdates

end Ledger.C18f
