import Ledger.Proofs.SqlCommit

/-!
C01e — end-to-end refinement: the generated statements of `CommitTransaction` (UpdateVolumes; InsertTransaction; InsertMoves with the
row triggers of `moves`), run one after the other as commands of one transaction by LeanPG, refine `Ledger.Spec.applyTx` (the case
`upsertAccounts = false`, i.e. `CommitTransaction` proper; the account upsert is the object of C18b). This is the theorem that carries
the Spec-level properties C01–C04 (conservation, volumes, moves, effective volumes) to the SQL text.

* `commitTransaction_sem`: the SQL-level statement — outcome, RETURNING rows and final state of the three statements, for ANY rows /
  literals, ANY contents of the three tables satisfying the storage invariants, ANY other ledgers in the bucket.
* `commitTransaction_refines`: the Spec-level statement — if the state abstracts to the Spec store `st` and the parameters passed by
  the Go layer denote what `applyTx` computes from them, the final state abstracts to `applyTx st t`.

Hypotheses (all explicit in `Ledger.Sql.CommitState`, `TxLit`, `MvLit`, `SeqLit`):
- inside a transaction, no other transaction in progress (`TxState.solo`) — concurrency is checked elsewhere;
- storage invariants of the three tables (`AvInv`, `TxInv`, `MvInv`), command ids fresh, fewer than 10⁹ command ids;
- `moves`: exactly one BEFORE and one AFTER INSERT row trigger for the ledger, with the generated function bodies (C04b
  `triggerBodies_sem`), none on UPDATE; `transactions`: only `set_transaction_updated_at`-like BEFORE INSERT triggers and NO AFTER INSERT
  row trigger (feature TRANSACTION_METADATA_HISTORY off — with the feature on, the history row is an additional effect not covered here);
- the rendered literals parse to the typed values (`TxLit`, `MvLit`: the Go driver's rendering of timestamps, jsonb and composites is not
  modelled); the sequence literal names the ledger's sequence (`SeqLit`); no visible transaction of the ledger carries the same
  non-empty reference;
- the Spec store is taken with `nextSeq` = the next value of the BUCKET's `moves` sequence (in a bucket shared by several ledgers the
  sequence numbers of a ledger have gaps; `Spec.applyTx` does not depend on their being consecutive);
- results on `moves` are up to the order of the table (`List.Perm`); `seqRun` runs the statements as the session layer does (each under a
  new command id); the correspondence with `Ledger.Sql.execTop` is exercised by the kernel scenarios of C04b / C18b, not proved.
-/
namespace Ledger.C01e
open Ledger Ledger.Sql Ledger.Generated Ledger.Core Ledger.Base
open Ledger.Generated.WriteSql

theorem commitTransaction_sem (p : Nat) (env : Env) (b l : String) (id : Nat)
    (rsA : List Ver) (nrA : Nat) (trigsT : List TriggerDef) (nrT : Nat) (rowsT : List Ver) (fullT : String) (sqT : Seq)
    (trigsM : List TriggerDef) (B1 B2 : List TriggerDef) (trB : TriggerDef) (A1 A2 : List TriggerDef) (trA : TriggerDef)
    (item wher dflt_ : Expr) (fB : PlFunc) (setE whereU : Expr) (fA : PlFunc) (nrM : Nat) (rowsM : List Ver) (sqM : Seq) (s : St)
    (hst : CommitState s b l rsA nrA trigsT nrT rowsT fullT sqT trigsM B1 B2 trB A1 A2 trA item wher dflt_ fB setE whereU fA nrM rowsM sqM)
    (vrows : List P.VolumeRow) (hvne : vrows ≠ []) (hvnd : (vrows.map avKeyOf).Nodup)
    (av : PCV) (hwf : Map.WF av) (habs : ∀ k, avAbs s b l k = av.get? k)
    (L : TxLits) (hl : SeqLit (txSeqLit b id) fullT) (x : TxR) (hlit : TxLit s.w.types l L x) (hid : x.id = sqT.next)
    (href : ∀ r ∈ rowsT, r.visible (latestView s.w s.xid) = true → ∀ x', r.vals = txVals x' → txConf2 x x' = false)
    (pm : List (P.MoveRow × Spec.MoveRow)) (hne : pm ≠ []) (hlits : ∀ y ∈ pm, MvLit s.w.types y.1 y.2)
    (hsf : SeqFrom sqM.next (pm.map (·.2))) (hrange : sqM.next + pm.length ≤ 9223372036854775808)
    (hnc : s.nextCid + 3 + 4 * pm.length ≤ 1000000000)
    (T : List Spec.MoveRow) (hT : T.Perm (ledgerMoves l (mvAbs (latestView s.w s.xid) rowsM))) :
    ∃ (rsA' : List Ver) (nrA' : Nat) (rowsM' : List Ver) (seqs' : List Seq) (s' : St),
      (seqRun (p + 15) env (P.updateVolumes b l id vrows ++
          P.insertTransaction b l id L.postings L.metadata L.timestamp L.reference L.inserted_at L.updated_at L.post_commit_volumes
            L.template L.sources L.destinations L.sources_arrays L.destinations_arrays ++
          P.insertMoves b l id (pm.map (·.1)))).exec s =
        (.ok [{ rel := { cols := ["input", "output"],
                         rows := (Spec.upsertVolumes av (vuOf vrows)).2.map (fun e => [.int e.2.input, .int e.2.output]) },
                affected := vrows.length },
              { rel := { cols := ["id", "timestamp", "inserted_at", "updated_at"],
                         rows := [[.int x.id, .ts x.timestamp, optTs x.insertedAt, .ts x.updatedAt]] }, affected := 1 },
              { rel := { cols := ["post_commit_volumes", "post_commit_effective_volumes"],
                         rows := (Spec.insertedRows T (pm.map (·.2))).map retOf }, affected := pm.length }], s') ∧
      s' = ((((s.bump (3 + 4 * pm.length)).withSeqs seqs').withTable (avT b rsA' nrA')).withTable
              ((txT b trigsT (nrT + 1)).withRows (newVer s.xid (s.nextCid + 1) nrT (txVals x) :: rowsT))).withTable
              ((mvT b trigsM (nrM + pm.length)).withRows rowsM') ∧
      AvInv (latestView s.w s.xid) rsA' nrA' ∧
      (∀ k, avView (latestView s.w s.xid) rsA' l k = (Spec.upsertVolumes av (vuOf vrows)).1.get? k) ∧
      (∀ l', l' ≠ l → ∀ k, avView (latestView s.w s.xid) rsA' l' k = avView (latestView s.w s.xid) rsA l' k) ∧
      (ledgerMoves l (mvAbs (latestView s.w s.xid) rowsM')).Perm (Spec.insertMoves T (pm.map (·.2))) ∧
      (∀ l', l' ≠ l → (ledgerMoves l' (mvAbs (latestView s.w s.xid) rowsM')).Perm (ledgerMoves l' (mvAbs (latestView s.w s.xid) rowsM))) ∧
      MvInv (latestView s.w s.xid) (sqM.next + pm.length) rowsM' ∧
      seqs'.find? (·.name == mvSeqFull b) = some { sqM with last := sqM.next + pm.length - 1, called := true } ∧
      seqs'.find? (·.name == fullT) = some { sqT with last := sqT.next, called := true } :=
  exec_commit3 p env b l id rsA nrA trigsT nrT rowsT fullT sqT trigsM B1 B2 trB A1 A2 trA item wher dflt_ fB setE whereU fA nrM rowsM sqM s
    hst vrows hvne hvnd av hwf habs L hl x hlit hid href pm hne hlits hsf hrange hnc T hT

theorem commitTransaction_refines (p : Nat) (env : Env) (b l : String) (id : Nat)
    (rsA : List Ver) (nrA : Nat) (trigsT : List TriggerDef) (nrT : Nat) (rowsT : List Ver) (fullT : String) (sqT : Seq)
    (trigsM : List TriggerDef) (B1 B2 : List TriggerDef) (trB : TriggerDef) (A1 A2 : List TriggerDef) (trA : TriggerDef)
    (item wher dflt_ : Expr) (fB : PlFunc) (setE whereU : Expr) (fA : PlFunc) (nrM : Nat) (rowsM : List Ver) (sqM : Seq) (s : St)
    (hst : CommitState s b l rsA nrA trigsT nrT rowsT fullT sqT trigsM B1 B2 trB A1 A2 trA item wher dflt_ fB setE whereU fA nrM rowsM sqM)
    (st st' : Spec.Store) (t : Spec.TxIn) (hup : t.upsertAccounts = false) (happly : Spec.applyTx st t = .ok st')
    (hwf : Map.WF st.accountsVolumes) (habsA : ∀ k, avAbs s b l k = st.accountsVolumes.get? k)
    (habsM : st.moves.Perm (ledgerMoves l (mvAbs (latestView s.w s.xid) rowsM)))
    (hidT : (st.nextTxId : Int) = sqT.next) (hidM : (st.nextSeq : Int) = sqM.next)
    (vrows : List P.VolumeRow) (hvu : vuOf vrows = volumeUpdates t.postings) (hvne : vrows ≠ []) (hvnd : (vrows.map avKeyOf).Nodup)
    (L : TxLits) (hl : SeqLit (txSeqLit b id) fullT) (x : TxR) (hlit : TxLit s.w.types l L x) (hid : x.id = st.nextTxId)
    (href : ∀ r ∈ rowsT, r.visible (latestView s.w s.xid) = true → ∀ x', r.vals = txVals x' → txConf2 x x' = false)
    (pm : List (P.MoveRow × Spec.MoveRow)) (hne : pm ≠ []) (hlits : ∀ y ∈ pm, MvLit s.w.types y.1 y.2)
    (hpm : ∀ ms, movesOf (Spec.upsertVolumes st.accountsVolumes (volumeUpdates t.postings)).2 t.postings = .ok ms →
      pm.map (·.2) = Spec.toRows st.nextSeq st.nextTxId t.insertedAt t.timestamp ms)
    (hrange : sqM.next + pm.length ≤ 9223372036854775808) (hnc : s.nextCid + 3 + 4 * pm.length ≤ 1000000000) :
    ∃ (rsA' : List Ver) (nrA' : Nat) (rowsM' : List Ver) (seqs' : List Seq) (res : List DmlResult),
      (seqRun (p + 15) env (P.updateVolumes b l id vrows ++
          P.insertTransaction b l id L.postings L.metadata L.timestamp L.reference L.inserted_at L.updated_at L.post_commit_volumes
            L.template L.sources L.destinations L.sources_arrays L.destinations_arrays ++
          P.insertMoves b l id (pm.map (·.1)))).exec s =
        (.ok res, ((((s.bump (3 + 4 * pm.length)).withSeqs seqs').withTable (avT b rsA' nrA')).withTable
              ((txT b trigsT (nrT + 1)).withRows (newVer s.xid (s.nextCid + 1) nrT (txVals x) :: rowsT))).withTable
              ((mvT b trigsM (nrM + pm.length)).withRows rowsM')) ∧
      (∀ k, avView (latestView s.w s.xid) rsA' l k = st'.accountsVolumes.get? k) ∧
      (∀ l', l' ≠ l → ∀ k, avView (latestView s.w s.xid) rsA' l' k = avView (latestView s.w s.xid) rsA l' k) ∧
      (ledgerMoves l (mvAbs (latestView s.w s.xid) rowsM')).Perm st'.moves ∧
      (∀ l', l' ≠ l → (ledgerMoves l' (mvAbs (latestView s.w s.xid) rowsM')).Perm (ledgerMoves l' (mvAbs (latestView s.w s.xid) rowsM))) ∧
      AvInv (latestView s.w s.xid) rsA' nrA' ∧ MvInv (latestView s.w s.xid) (st'.nextSeq : Int) rowsM' ∧
      (∃ sq', seqs'.find? (·.name == mvSeqFull b) = some sq' ∧ sq'.next = (st'.nextSeq : Int)) ∧
      (∃ sq', seqs'.find? (·.name == fullT) = some sq' ∧ sq'.next = (st'.nextTxId : Int)) :=
  commit_refines_applyTx p env b l id rsA nrA trigsT nrT rowsT fullT sqT trigsM B1 B2 trB A1 A2 trA item wher dflt_ fB setE whereU fA nrM rowsM sqM s
    hst st st' t hup happly hwf habsA habsM hidT hidM vrows hvu hvne hvnd L hl x hlit hid href pm hne hlits hpm hrange hnc

end Ledger.C01e
