import Ledger.Proofs.ReadsSqlRun

/-!
C04 / C05 (SQL leg), BOUNDED obligations (see `Props/C05q.lean` for what these are): the
`first_value(post_commit_[effective_]volumes) over (partition by … order by …)` shapes of the
aggregated balances at a point in time, on a history with two moves of one (account, asset) at the
same latest effective date and a later back-dated insert (the AFTER-INSERT trigger
`update_effective_volumes` of the regenerated schema must have shifted the later moves).
-/
namespace Ledger.C04q
open Ledger.Reads.SqlRun

set_option maxRecDepth 100000

/-- effective mode at the tie (5), just before it (4) and at the back-dated date (1); insertion
    mode after the second and after the first transaction -/
theorem aggregated_pit_scenC :
    checkMovesFamily none false scenC [] [.effPit 5, .effPit 4, .effPit 1, .insPit 8, .insPit 7] = true := by
  decide +kernel

end Ledger.C04q
