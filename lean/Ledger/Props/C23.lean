import Ledger.Proofs.MachineAsset
import Ledger.Proofs.MachineBC16

/-!
C23 — Numscript never overdraws a bounded source.

`StmtsBound env a c B stmts` is the hypothesis "account `a` is not declared
unbounded anywhere in the script and every `allowing overdraft up to X` clause on
it (in asset `c`) has X ≤ B" — evaluated on the resolved variables `env`, so that
an account reached through a variable counts.  World is excluded.
-/
namespace Ledger.C23
open Ledger.Machine

variable {cfg : Cfg}

/-- In any successful execution, a tracked pair `(a, c)` of a non-world account that
    is never used as an unbounded source ends with
    `initial + postings ≥ min initial (-B)`. -/
theorem bounded_source_floor (s : Script) (inp : Input) (r : Result) (h : sem cfg s inp = .ok r)
    (env : Env) (henv : resolvedEnv cfg s inp = some env)
    (a c : String) (ha : a ≠ "world") (B : Int) (hB : 0 ≤ B)
    (hb : StmtsBound env a c B s.stmts) (v0 : Int) (hv : trackedInit cfg s inp a c = some v0) :
    min (inp.balance a c) (-B) ≤ inp.balance a c + flowIn a c r.postings - flowOut a c r.postings := by
  obtain ⟨ds, env', bal, pairs, st, _, hp, hst, rfl⟩ := sem_ok_iff h
  obtain ⟨hgood, hwf, hbal⟩ := prepare_ok hp
  simp only [trackedInit, hp] at hv
  simp only [resolvedEnv, hp, Option.some.injEq] at henv
  subst henv
  have e0 := hbal a c v0 hv
  obtain ⟨new, hpost, _, hr⟩ := runStmts_ok hgood.nonneg s.stmts (initState bal) st hst hwf
  obtain ⟨v', g, e, _, fl⟩ := hr a c v0 ha hv
  have := fl B hB (by simp [initState]) hb
  simp only [initState, List.nil_append] at hpost e this
  simp only [hpost, ← e0]
  omega

/-- `bounded_source_floor` at the byte-code level, for every compiled program (compiler
    correctness `semBytecode_eq_sem_full`): the VM model `exec` running the compiled
    opcodes never takes a bounded tracked balance below `min initial (-B)`. -/
theorem bounded_source_floor_bytecode (s : Script) (p : Program)
    (hc : compile s = .ok p) (inp : Input) (r : Result) (h : semBytecode Cfg.fixed s inp = .ok r)
    (env : Env) (henv : resolvedEnv Cfg.fixed s inp = some env)
    (a c : String) (ha : a ≠ "world") (B : Int) (hB : 0 ≤ B)
    (hb : StmtsBound env a c B s.stmts) (v0 : Int) (hv : trackedInit Cfg.fixed s inp a c = some v0) :
    min (inp.balance a c) (-B) ≤ inp.balance a c + flowIn a c r.postings - flowOut a c r.postings := by
  rw [semBytecode_eq_sem_full hc inp] at h
  exact bounded_source_floor s inp r h env henv a c ha B hB hb v0 hv

/-- Per-send form: one send statement never takes a bounded tracked balance below
    `min (balance before) (-B)`. -/
theorem send_source_floor (env : Env) (s : Stmt) (hs : s.isSend = true) (st st' : State)
    (h : evalStmt cfg env s st = .ok st') (hwf : st.bal.WF)
    (a c : String) (ha : a ≠ "world") (B : Int) (hB : 0 ≤ B) (hb : StmtBound env a c B s)
    (v : Int) (hv : st.bal.get a c = some v) :
    ∃ v', st'.bal.get a c = some v' ∧ min v (-B) ≤ v' := by
  obtain ⟨new, ok⟩ := evalStmt_ok h
  exact ok.floorSend hs a c B ha hB hwf hb v hv

/-- `withdrawAll` (OP_TAKE_ALL) leaves exactly `-overdraft` when it takes anything. -/
theorem withdrawAll_floor (b b' : Balances) (acc asset : String) (od : Option Int) (p : Part)
    (h : withdrawAll b acc asset od = .ok (p, b')) (v : Int) (hv : b.get acc asset = some v) :
    ∃ v', b'.get acc asset = some v' ∧ min v (-(nilAsZero od)) ≤ v' :=
  (withdrawAll_spec h).2.2.2.2.2 v hv

/-! Non-vacuity (kernel-evaluated tests): a bounded source with an overdraft
    allowance of 10 ends exactly at -10. -/

def exScript : Script :=
  { vars := [],
    stmts := [.send (.mon (.asset "USD") 35)
      (.src (.account (.acct "b") (.upTo (.mon (.asset "USD") 10)))) (.account (.acct "y"))] }

def exInput : Input :=
  { vars := [], balance := fun a c => if a = "b" ∧ c = "USD" then 25 else 0, accountMeta := fun _ => none }

example : postingsOf (sem Cfg.fixed exScript exInput) = some [⟨"b", "y", "USD", 35⟩] := by decide +kernel
example : trackedInit Cfg.fixed exScript exInput "b" "USD" = some 25 := by decide +kernel
example : StmtsBound [] "b" "USD" 10 exScript.stmts := by
  intro s hs
  simp only [exScript, List.mem_singleton] at hs
  subst hs
  simp only [StmtBound, SrcBound, leafOK]
  intro _ c' ov hm hc
  simp [evalMonetary, evalExpr] at hm
  obtain ⟨_, rfl⟩ := hm
  simp [nilAsZero]

end Ledger.C23
