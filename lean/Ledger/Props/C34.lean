import Ledger.Sched.Writers
import Ledger.Proofs.SchedHandles
import Ledger.Proofs.SchedWitnesses

/-!
# C34 — async log blocks (HASH_LOGS=ASYNC)

`create_blocks` (migration 38) builds blocks from the logs with `id > previous.max_log_id`
that are COMMITTED when it runs. With HASH_LOGS=ASYNC no advisory lock orders log-id
allocation and commit, so a log can commit after a higher id was already put into a
block: it is never hashed (`…_counterexample`). What holds: the blocks built by one
call form a contiguous chain over exactly the committed logs above the previous block
(`blocks_contiguous`, `block_covers_committed_at_build_time`); completeness needs commit
order = id order, which only the SYNC protocol gives.
PostgreSQL (snapshot of the procedure call) is MODELLED (LeanPG).
-/
namespace Ledger.C34
open Ledger.Sched


/-- `blocks_contiguous`: the blocks appended by one `create_blocks` call form a contiguous chain
    starting at the previous block's end, for any committed ids, block size and fuel. -/
theorem blocks_contiguous (l size : Nat) (ids : List Nat) :
    ∀ (fuel last : Nat), ChainedFrom last (mkBlocks l size fuel last ids) := by
  intro fuel
  induction fuel with
  | zero => intro last; simp [mkBlocks, ChainedFrom]
  | succ n ih =>
    intro last
    unfold mkBlocks
    simp only
    split
    · simp [ChainedFrom]
    · rename_i top htop
      refine ⟨rfl, ?_, ih top⟩
      have hmem : top ∈ (ids.filter (· > last)).take size := List.mem_of_getLast? htop
      have := List.mem_of_mem_take hmem
      simp only [List.mem_filter, decide_eq_true_eq] at this
      exact this.2

/-- `block_covers_committed_at_build_time`: the hash of a block covers exactly the committed ids above
    the previous block's end, up to the block size, as they were when the call ran -/
theorem block_covers_committed_at_build_time (l size fuel last : Nat) (ids : List Nat) (b : Blk) (r : List Blk)
    (h : mkBlocks l size (fuel + 1) last ids = b :: r) :
    b.ids = (ids.filter (· > last)).take size ∧ b.from_ = last := by
  unfold mkBlocks at h
  simp only at h
  split at h
  · cases h
  · injection h with hb _
    subst hb
    exact ⟨rfl, rfl⟩

example : mkBlocks 1 2 5 0 [1, 2, 4] =
    [{ l := 1, from_ := 0, to := 2, ids := [1, 2] }, { l := 1, from_ := 2, to := 4, ids := [4] }] := by decide

/-! ## the counterexample: a log that commits after a higher id was put into a block -/



/-- After quiescence both logs are committed, the only block spans ids (0, 2], and its hash covers
    log 2 alone: log 1 is skipped for ever. `blocks_partition_committed_logs` is false. -/
theorem blocks_partition_counterexample :
    (run cxSchedule cxWorld).logs.map (fun e => (e.id, e.com)) = [(1, true), (2, true)] ∧
    (run cxSchedule cxWorld).blocks = [{ l := 1, from_ := 0, to := 2, ids := [2] }] := by
  decide

/-- the same requests when commit order = id order: the blocks cover every log -/
example :
    (run [1, 1, 1, 1, 1, 1, 3, 2, 2, 2, 2, 2, 2, 4] cxWorld).blocks =
      [{ l := 1, from_ := 0, to := 1, ids := [1] }, { l := 1, from_ := 1, to := 2, ids := [2] }] := by
  decide

/-- tie (regenerated): the ASYNC write path takes no advisory lock between the log-id allocation
    (`insertLog`) and COMMIT, and the block builder is one autocommit call -/
theorem async_path_follows_generated_handles :
    (sendProg { cxA with allow := .bounded 0 } true).pathK okAnswers 40 = modelledKinds Generated.Handles.sendAsyncBounded ∧
    (blocksProg 1 10).pathK okAnswers 5 = modelledKinds Generated.Handles.createBlocks ∧
    ¬ (Kind.advLockLog ∈ modelledKinds Generated.Handles.sendAsyncBounded) := by
  decide

end Ledger.C34
