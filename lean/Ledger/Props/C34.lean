import Ledger.Sched.Writers
import Ledger.Proofs.SchedBlocks
import Ledger.Proofs.SchedHandles
import Ledger.Proofs.SchedWitnesses

/-!
# C34 — async log blocks (HASH_LOGS=ASYNC)

`create_blocks` (migration 38) builds blocks from the logs with `id > previous.max_log_id`
that are COMMITTED when it runs. With HASH_LOGS=ASYNC no advisory lock orders log-id
allocation and commit, so a log can commit after a higher id was already put into a
block: it is never hashed (`…_counterexample`). What holds: the blocks built by one
call form a contiguous chain over exactly the committed logs above the previous block
(`blocks_contiguous`, `block_covers_committed_at_build_time`); and, over ALL schedules,
`blocks_partition_partial`: IF the writers follow the discipline that makes commit order =
id order (log INSERT under the advisory lock held to commit — what HASH_LOGS=SYNC does and
ASYNC does not), every block covers exactly the committed log ids of its range for ever, and
the ranges are disjoint and ordered.
PostgreSQL (snapshot of the procedure call) is MODELLED (LeanPG).
-/
namespace Ledger.C34
open Ledger.Sched


/-- `blocks_contiguous`: the blocks appended by one `create_blocks` call form a contiguous chain
    starting at the previous block's end, for any committed ids, block size and fuel. -/
theorem blocks_contiguous (l size : Nat) (ids : List Nat) :
    ∀ (fuel last : Nat), ChainedFrom last (mkBlocks l size fuel last ids) := by
  intro fuel
  induction fuel with
  | zero => intro last; simp [mkBlocks, ChainedFrom]
  | succ n ih =>
    intro last
    unfold mkBlocks
    simp only
    split
    · simp [ChainedFrom]
    · rename_i top htop
      refine ⟨rfl, ?_, ih top⟩
      have hmem : top ∈ (ids.filter (· > last)).take size := List.mem_of_getLast? htop
      have := List.mem_of_mem_take hmem
      simp only [List.mem_filter, decide_eq_true_eq] at this
      exact this.2

/-- `block_covers_committed_at_build_time`: the hash of a block covers exactly the committed ids above
    the previous block's end, up to the block size, as they were when the call ran -/
theorem block_covers_committed_at_build_time (l size fuel last : Nat) (ids : List Nat) (b : Blk) (r : List Blk)
    (h : mkBlocks l size (fuel + 1) last ids = b :: r) :
    b.ids = (ids.filter (· > last)).take size ∧ b.from_ = last := by
  unfold mkBlocks at h
  simp only at h
  split at h
  · cases h
  · injection h with hb _
    subst hb
    exact ⟨rfl, rfl⟩

example : mkBlocks 1 2 5 0 [1, 2, 4] =
    [{ l := 1, from_ := 0, to := 2, ids := [1, 2] }, { l := 1, from_ := 2, to := 4, ids := [4] }] := by decide

/-- `blocks_partition_partial`: for every schedule, for programs following the lock discipline of
    `Ledger.C09s.chain_linear_any_schedule` (commit order = id order), with any number of block-builder
    calls interleaved anywhere: every block's digest input is exactly the set of committed log ids of its
    range `(from, to]` — at that moment and at every later one —, no log in progress has an id inside a
    built range, and the ranges are disjoint and ordered. -/
theorem blocks_partition_partial (l₀ : Nat) (σ : Schedule) (w₀ : World)
    (hg : GInv ⟨logKey l₀, l₀, true⟩ w₀) (hc : ChainInv ⟨logKey l₀, l₀, true⟩ w₀) (hb : BInv l₀ w₀) :
    let w := run σ w₀
    (∀ b ∈ w.blocks, b.l = l₀ → ∀ i, i ∈ b.ids ↔ (i ∈ Cids l₀ w ∧ b.from_ < i ∧ i ≤ b.to)) ∧
    (∀ b ∈ w.blocks, b.l = l₀ → ∀ e ∈ w.logs, e.l = l₀ → e.com = false → b.to < e.id) ∧
    (w.blocks.filter (fun b => b.l = l₀)).Pairwise (fun a b => a.to ≤ b.from_) := by
  intro w
  have h := binv_run ⟨logKey l₀, l₀, true⟩ rfl σ w₀ hg hc hb
  refine ⟨h.bi, ?_, h.bd⟩
  intro b hb' hbl e he hel hec
  exact h.bu b hb' hbl e (by unfold Lof; exact List.mem_filter.mpr ⟨he, by simpa using hel⟩) hec

/-- non-vacuity: two SYNC-disciplined writers and two block-builder calls satisfy the hypotheses; under the
    schedule of the counterexample the second writer now waits for the lock and the blocks are complete -/
example :
    let w₀ : World := { sess := fun s =>
      if s = 1 then { prog := sendProg { cxA with sync := true } true } else if s = 2 then { prog := sendProg { cxB with sync := true } true }
      else if s = 3 ∨ s = 4 then { prog := blocksProg 1 100 } else {} }
    GInv ⟨logKey 1, 1, true⟩ w₀ ∧ ChainInv ⟨logKey 1, 1, true⟩ w₀ ∧ BInv 1 w₀ ∧
    (run ([1, 1, 1, 1, 1, 1] ++ [2, 2, 2, 2, 2] ++ [3, 1] ++ [2, 2, 2, 4]) w₀).blocks =
      [{ l := 1, from_ := 0, to := 2, ids := [1, 2] }] := by
  intro w₀
  refine ⟨⟨(by intro a ha; cases ha), fun s => ⟨{}, ⟨?_, ?_, ?_, ?_, ?_, ?_⟩, ?_⟩⟩, ?_, ?_, by decide⟩
  · intro h; cases h
  · intro h; cases h
  · intro h; cases h
  · intro _ e he; cases he
  · intro h; cases h
  · intro h; cases h
  · show Safe _ _ (if s = 1 then _ else _ : Session).prog
    split
    · exact safe_sendProg_inUse _ _ (fun _ => ⟨rfl, rfl⟩) {}
    · split
      · exact safe_sendProg_inUse _ _ (fun _ => ⟨rfl, rfl⟩) {}
      · split
        · exact ⟨trivial, fun _ _ => trivial⟩
        · trivial
  · refine ⟨List.Pairwise.nil, ?_, trivial, List.Pairwise.nil, List.Pairwise.nil, ?_, ?_, ?_⟩ <;> intro e he <;> cases he
  · refine ⟨?_, ?_, ?_, List.Pairwise.nil⟩ <;> intro b hb <;> cases hb

/-! ## the counterexample: a log that commits after a higher id was put into a block -/



/-- After quiescence both logs are committed, the only block spans ids (0, 2], and its hash covers
    log 2 alone: log 1 is skipped for ever. `blocks_partition_committed_logs` is false. -/
theorem blocks_partition_counterexample :
    (run cxSchedule cxWorld).logs.map (fun e => (e.id, e.com)) = [(1, true), (2, true)] ∧
    (run cxSchedule cxWorld).blocks = [{ l := 1, from_ := 0, to := 2, ids := [2] }] := by
  decide

/-- the same requests when commit order = id order: the blocks cover every log -/
example :
    (run [1, 1, 1, 1, 1, 1, 3, 2, 2, 2, 2, 2, 2, 4] cxWorld).blocks =
      [{ l := 1, from_ := 0, to := 1, ids := [1] }, { l := 1, from_ := 1, to := 2, ids := [2] }] := by
  decide

/-- tie (regenerated): the ASYNC write path takes no advisory lock between the log-id allocation
    (`insertLog`) and COMMIT, and the block builder is one autocommit call -/
theorem async_path_follows_generated_handles :
    (sendProg { cxA with allow := .bounded 0 } true).pathK okAnswers 40 = modelledKinds Generated.Handles.sendAsyncBounded ∧
    (blocksProg 1 10).pathK okAnswers 5 = modelledKinds Generated.Handles.createBlocks ∧
    ¬ (Kind.advLockLog ∈ modelledKinds Generated.Handles.sendAsyncBounded) := by
  decide

end Ledger.C34
