import Ledger.Proofs.Reads
import Ledger.Props.C21

/-!
C21 (real tables) — cursor pagination enumerates each result exactly once, in order.

Only property theorems and non-vacuity examples.  `Reads.walkPages` cuts the pages of a listing
with builder-query's paginator model (`Query.walkNextCol` / `walkNextOff`); the theorems
instantiate builder-query's `column_pagination_complete` / `offset_pagination_complete` on it:
the concatenated pages are the whole sorted listing, each row exactly once.

Tested (not proved): that the REAL `Paginate` / `BuildCursor` / cursor encode–decode over the real
tables on LeanPG (the MODELLED Postgres) produce exactly these pages for every paginated resource
(transactions and logs by id — column paginator; accounts by address and volumes, grouped or not,
by account — offset paginator), page sizes 1..N+1, both orders, filters, PIT — workload `page`.
-/
namespace Ledger.C21r
open Ledger.Query Ledger.Reads

/-- **Column-paginated listings (numeric / date sort column with unique keys)**: following `next`
    from the first page yields pages whose concatenation is the listing in the requested order,
    for every page size (0 = default 15). -/
theorem pages_concat_eq_list (o : Order) (pageSize : Nat) (T : List Row) (hT : KeysDistinct T) :
    ((walkPages true o pageSize T).1.map (·.tags)).flatten = (orderBy o T).map (·.tag) := by
  unfold walkPages
  simp only [if_true]
  have h := (Ledger.C21.column_pagination_complete () o T hT pageSize (T.length + 2) (by omega)).1
  rw [← h]
  simp only [List.map_map, List.map_flatten]
  congr 1

/-- … and every row appears exactly once. -/
theorem pages_each_once (o : Order) (pageSize : Nat) (T : List Row) (hT : KeysDistinct T) :
    (((walkPages true o pageSize T).1.map (·.tags)).flatten).Perm (T.map (·.tag)) := by
  rw [pages_concat_eq_list o pageSize T hT]
  exact (orderBy_perm o T).map _

/-- **Offset-paginated listings (string sort column: accounts by address, volumes by account)**:
    the same, under *StableTies* (`orderBy` fixes one total order for the whole walk — volumes
    are sorted by account only, ties among the assets of an account included). -/
theorem offset_pages_concat_eq_list (o : Order) (pageSize : Nat) (T : List Row) (hmax : T.length ≤ maxInt32) :
    ((walkPages false o pageSize T).1.map (·.tags)).flatten = (orderBy o T).map (·.tag) := by
  unfold walkPages
  simp only [Bool.false_eq_true, if_false]
  have h := (Ledger.C21.offset_pagination_complete () o T hmax pageSize (T.length + 2) (by omega)).1
  rw [← h]
  simp only [List.map_map, List.map_flatten]
  congr 1

/-- Non-vacuity: five transactions listed by id descending with page size 2: the hypothesis holds
    and the pages concatenate to `5 4 3 2 1` (tags 4 3 2 1 0). -/
example :
    let T : List Row := [⟨1, 0⟩, ⟨2, 1⟩, ⟨3, 2⟩, ⟨4, 3⟩, ⟨5, 4⟩]
    ((walkPages true .desc 2 T).1.map (·.tags)).flatten = [4, 3, 2, 1, 0] := by
  intro T
  have hs : T.Pairwise (fun a b => a.key < b.key) := by decide
  have hd : KeysDistinct T := by unfold KeysDistinct; decide
  rw [pages_concat_eq_list .desc 2 T hd, (Ledger.C21.orderBy_of_sorted T hs).2]
  rfl

end Ledger.C21r
