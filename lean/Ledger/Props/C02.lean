import Ledger.Proofs.CoreHistory

/-!
C02 — Account volumes equal the fold of committed postings.

The `accounts_volumes` table of the abstract store (hand-written image of the upsert of
`UpdateVolumes` and of the zero rows of `GetBalances`; NOT yet tied to the rendered SQL)
against the Spec fold `volumesOf`.
-/
namespace Ledger.C02
open Ledger.Base Ledger.Core Ledger.Spec

/-- The store's transaction list is exactly the committed history (ids 1, 2, … in commit
    order), up to the `revertedAt` marks. -/
theorem history_of_store (ops : List StoreOp) (st : Store) (h : runOps ops = .ok st) :
    st.txRecs.map TxRec.clearReverted = recsFrom 1 (commitsOf ops) := by
  have := (runOpsFrom_txs ops h).1
  simpa [Store.txRecs] using this

/-- For every (account, asset): the row, if any, holds (Σ postings crediting, Σ postings
    debiting) over the committed history; no row means the fold is (0, 0).  A zero row
    created by the balance lock equals the empty fold. -/
theorem volumes_eq_fold (ops : List StoreOp) (st : Store) (h : runOps ops = .ok st) (k : Key) :
    st.accountsVolumes.get? k = some (volumesOf st.txRecs k) ∨
    (st.accountsVolumes.get? k = none ∧ volumesOf st.txRecs k = Volumes.zero) := by
  rcases (StoreInv_runOps h).av k with h1 | ⟨h1, h2⟩
  · exact Or.inl h1
  · exact Or.inr ⟨h1, foldVolumes_untouched h2⟩

/-- A pair touched by a committed posting has a row. -/
theorem row_of_touched (ops : List StoreOp) (st : Store) (h : runOps ops = .ok st) (k : Key)
    (ht : touches k (allPostings st.txRecs) = true) :
    st.accountsVolumes.get? k = some (volumesOf st.txRecs k) := by
  rcases (StoreInv_runOps h).av k with h1 | ⟨_, h2⟩
  · exact h1
  · rw [h2] at ht; exact absurd ht (by simp)

/-- The table stays key-sorted without duplicates. -/
theorem accounts_volumes_wf (ops : List StoreOp) (st : Store) (h : runOps ops = .ok st) :
    Map.WF st.accountsVolumes := (StoreInv_runOps h).wf

/-- The balance of a row is input − output of the fold. -/
theorem balance_eq_fold (ops : List StoreOp) (st : Store) (h : runOps ops = .ok st) (k : Key) (v : Volumes)
    (hv : st.accountsVolumes.get? k = some v) : v.balance = balanceOf st.txRecs k := by
  rcases volumes_eq_fold ops st h k with h1 | ⟨h1, _⟩
  · rw [h1] at hv; cases hv; rfl
  · rw [h1] at hv; cases hv

example : (runOps [.commit { postings := [⟨"world", "a", 10, "USD"⟩, ⟨"a", "b", 4, "USD"⟩, ⟨"a", "a", 1, "USD"⟩], timestamp := 5, insertedAt := 7 },
                   .lock [("c", "USD")]]).toOption.map (fun st => (st.accountsVolumes.get? ("a", "USD"), st.accountsVolumes.get? ("c", "USD"),
                      st.accountsVolumes.get? ("d", "USD"))) = some (some ⟨11, 5⟩, some ⟨0, 0⟩, none) := by
  decide

end Ledger.C02
