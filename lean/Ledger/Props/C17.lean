import Ledger.Proofs.CtrlAcc
import Ledger.Proofs.CtrlExamples

/-!
# C17 — Current metadata = the saves in order minus the deletes, chart defaults on
first creation only (controller layer; metadata HISTORY / point-in-time reads are
the SQL layer's concern and out of scope here)

Proved: the store-contract facts the statement rests on (later save wins, chart
defaults only when the row is created and below the explicit values, delete
removes exactly the key), for all inputs.  The equality of the tables with the
fold of the journal (`specOf`) over every history is stated below and, at this
stage, TESTED after every operation of every generated history against the real
code, not proved.
-/
namespace Ledger.C17
open Ledger.Ctrl Ledger.Core Ledger.Ctrl.Examples

/-- On an existing account the chart's default metadata plays no role at all. -/
theorem defaults_only_on_creation (now : Time) (accounts : Ledger.Base.Map String Account) (r : AccIn) (d' : Meta)
    (acc : Account) (hex : accounts.get? r.address = some acc) :
    upsertAccount now accounts r = upsertAccount now accounts { r with defaults := d' } := by
  unfold upsertAccount
  simp only [hex]

/-- On creation the metadata is the defaults overridden by the explicit values. -/
theorem creation_merges_defaults_below (now : Time) (accounts : Ledger.Base.Map String Account) (r : AccIn)
    (hnew : accounts.get? r.address = none) :
    ∃ acc, (upsertAccount now accounts r).get? r.address = some acc ∧ acc.metadata = metaMerge r.defaults r.metadata := by
  unfold upsertAccount
  simp only [hnew]
  exact ⟨_, get?_insert_self _ _ _, rfl⟩

/-- A save on an existing account: the new metadata is the old one overridden by
    the saved values (later write wins), or the row is untouched when they are
    already there. -/
theorem save_overrides (now : Time) (accounts : Ledger.Base.Map String Account) (a : String) (m defaults : Meta)
    (acc : Account) (hex : accounts.get? a = some acc) :
    (metaContains acc.metadata m = true ∧
      upsertAccount now accounts { address := a, metadata := m, defaults := defaults } = accounts) ∨
    (∃ acc', (upsertAccount now accounts { address := a, metadata := m, defaults := defaults }).get? a = some acc' ∧
      acc'.metadata = metaMerge acc.metadata m) := by
  unfold upsertAccount
  simp only [hex, Bool.false_or]
  by_cases hc : metaContains acc.metadata m = true
  · left; simp only [hc, Bool.not_true, Bool.false_eq_true, ↓reduceIte, and_self]
  · right
    simp only [Bool.not_eq_true] at hc
    simp only [hc, Bool.not_false, ↓reduceIte]
    exact ⟨_, get?_insert_self _ _ _, rfl⟩

/-- A delete removes exactly that key of that account. -/
theorem delete_removes_key (d : Db) (a key : String) (acc : Account) (hex : d.accounts.get? a = some acc) :
    ∃ acc', (deleteAccountMeta a key d).accounts.get? a = some acc' ∧ acc'.metadata = acc.metadata.erase key := by
  unfold deleteAccountMeta
  simp only [hex]
  exact ⟨_, get?_insert_self _ _ _, rfl⟩

/-- The full statement (tested, not proved here). -/
def current_meta_eq_fold_statement : Prop :=
  ∀ (strict : Bool) (ops : List Op),
    (projAccounts (runHist strict {} ops).db).map (fun e => (e.1, e.2.metadata)) =
      ((specOf (runHist strict {} ops).db.logs).accounts).map (fun e => (e.1, e.2.metadata)) ∧
    projTxMeta (runHist strict {} ops).db = (specOf (runHist strict {} ops).db.logs).txMeta

/-! tests of the full statement on concrete histories -/
example : projTxMeta (runHist false s1 [pay false, overdraw]).db = (specOf (runHist false s1 [pay false, overdraw]).db.logs).txMeta := by
  decide +kernel
example : (projAccounts (runHist true {} histDefaults).db).map (fun e => (e.1, e.2.metadata)) =
    ((specOf (runHist true {} histDefaults).db.logs).accounts).map (fun e => (e.1, e.2.metadata)) := by decide +kernel

end Ledger.C17
