import Ledger.Proofs.CtrlSpec
import Ledger.Proofs.CtrlExamples

/-!
# C17 — Current metadata = the saves in order minus the deletes, chart defaults on
first creation only (controller layer; metadata HISTORY / point-in-time reads are
the SQL layer's concern and out of scope here)

Proved for ALL histories: the tables' metadata equal the fold of the journal
(`current_meta_eq_fold`), plus the store-contract facts behind it (later save
wins, chart defaults only when the row is created and below the explicit values,
delete removes exactly the key).
-/
namespace Ledger.C17
open Ledger.Ctrl Ledger.Core Ledger.Ctrl.Examples

/-- On an existing account the chart's default metadata plays no role at all. -/
theorem defaults_only_on_creation (now : Time) (accounts : Ledger.Base.Map String Account) (r : AccIn) (d' : Meta)
    (acc : Account) (hex : accounts.get? r.address = some acc) :
    upsertAccount now accounts r = upsertAccount now accounts { r with defaults := d' } := by
  unfold upsertAccount
  simp only [hex]

/-- On creation the metadata is the defaults overridden by the explicit values. -/
theorem creation_merges_defaults_below (now : Time) (accounts : Ledger.Base.Map String Account) (r : AccIn)
    (hnew : accounts.get? r.address = none) :
    ∃ acc, (upsertAccount now accounts r).get? r.address = some acc ∧ acc.metadata = metaMerge r.defaults r.metadata := by
  unfold upsertAccount
  simp only [hnew]
  exact ⟨_, get?_insert_self _ _ _, rfl⟩

/-- A save on an existing account: the new metadata is the old one overridden by
    the saved values (later write wins), or the row is untouched when they are
    already there. -/
theorem save_overrides (now : Time) (accounts : Ledger.Base.Map String Account) (a : String) (m defaults : Meta)
    (acc : Account) (hex : accounts.get? a = some acc) :
    (metaContains acc.metadata m = true ∧
      upsertAccount now accounts { address := a, metadata := m, defaults := defaults } = accounts) ∨
    (∃ acc', (upsertAccount now accounts { address := a, metadata := m, defaults := defaults }).get? a = some acc' ∧
      acc'.metadata = metaMerge acc.metadata m) := by
  unfold upsertAccount
  simp only [hex, Bool.false_or]
  by_cases hc : metaContains acc.metadata m = true
  · left; simp only [hc, Bool.not_true, Bool.false_eq_true, ↓reduceIte, and_self]
  · right
    simp only [Bool.not_eq_true] at hc
    simp only [hc, Bool.not_false, ↓reduceIte]
    exact ⟨_, get?_insert_self _ _ _, rfl⟩

/-- A delete removes exactly that key of that account. -/
theorem delete_removes_key (now : Time) (d : Db) (a key : String) (acc : Account) (hex : d.accounts.get? a = some acc) :
    ∃ acc', (deleteAccountMeta now a key d).accounts.get? a = some acc' ∧ acc'.metadata = acc.metadata.erase key := by
  unfold deleteAccountMeta
  simp only [hex]
  exact ⟨_, get?_insert_self _ _ _, rfl⟩

/-- After ANY sequential history (failing, dry-run, idempotent operations included)
    the current metadata of every account and of every transaction is exactly the
    reference reading of the journal (`specOf`, Ledger/Ctrl/Spec.lean): the saves in
    order (later values win) minus the deletes, chart defaults added below the
    explicit values when the account is first created and never again. -/
theorem current_meta_eq_fold (strict : Bool) (ops : List Op) :
    projAccounts (runHist strict {} ops).db = (specOf (runHist strict {} ops).db.logs).accounts ∧
    projTxMeta (runHist strict {} ops).db = (specOf (runHist strict {} ops).db.logs).txMeta := by
  have h := runHist_spec strict {} ops SpecOk.empty
  unfold SpecOk at h
  rw [h]
  exact ⟨rfl, rfl⟩

/-- The same for one more operation on any state that agrees with its journal, under
    any injected fault. -/
theorem current_meta_eq_fold_step (strict : Bool) (s : State) (op : Op) (f : Option Fault) (cf : Bool)
    (h : SpecOk s.db) : SpecOk (stepF strict s op f cf).1.db :=
  forgeLog_spec strict op f cf s h

/-! tests of the full statement on concrete histories -/
example : projTxMeta (runHist false s1 [pay false, overdraw]).db = (specOf (runHist false s1 [pay false, overdraw]).db.logs).txMeta := by
  decide +kernel
example : (projAccounts (runHist true {} histDefaults).db).map (fun e => (e.1, e.2.metadata)) =
    ((specOf (runHist true {} histDefaults).db.logs).accounts).map (fun e => (e.1, e.2.metadata)) := by decide +kernel

end Ledger.C17
