import Ledger.Proofs.CtrlSpec
import Ledger.Proofs.CtrlDefaults
import Ledger.Proofs.CtrlExamples

/-!
# C17 — Current metadata = the saves in order minus the deletes, chart defaults on
first creation only (controller layer; metadata HISTORY / point-in-time reads are
the SQL layer's concern and out of scope here)

Proved for ALL histories: the tables' metadata equal the fold of the journal
(`current_meta_eq_fold`), plus the store-contract facts behind it (later save
wins, chart defaults only when the row is created and below the explicit values,
delete removes exactly the key).
-/
namespace Ledger.C17
open Ledger.Ctrl Ledger.Core Ledger.Ctrl.Examples

/-- On an existing account the chart's default metadata plays no role at all. -/
theorem defaults_only_on_creation (now : Time) (accounts : Ledger.Base.Map String Account) (r : AccIn) (d' : Meta)
    (acc : Account) (hex : accounts.get? r.address = some acc) :
    upsertAccount now accounts r = upsertAccount now accounts { r with defaults := d' } := by
  unfold upsertAccount
  simp only [hex]

/-- On creation the metadata is the defaults overridden by the explicit values. -/
theorem creation_merges_defaults_below (now : Time) (accounts : Ledger.Base.Map String Account) (r : AccIn)
    (hnew : accounts.get? r.address = none) :
    ∃ acc, (upsertAccount now accounts r).get? r.address = some acc ∧ acc.metadata = metaMerge r.defaults r.metadata := by
  unfold upsertAccount
  simp only [hnew]
  exact ⟨_, get?_insert_self _ _ _, rfl⟩

/-- `upsertTransactionAccounts` (the `UpsertAccounts` batch of a create, rows from
    `tx.AccountsWithDefaultMetadata(schema, …)` = `accountRows`): whatever chart the
    operation's schema carries — or none — every account that already had a row ends
    up with the same row. Together with `creation_merges_defaults_below` (a created row
    gets `defaults` below the explicit values): chart defaults are applied exactly when
    this call CREATES the account. -/
theorem tx_accounts_defaults_only_on_creation (now : Time) (schema schema' : Option Schema) (tx : Ledger.Ctrl.Tx)
    (am : Ledger.Base.Map String Meta) (d : Db) (a : String) (x : Account) (hex : d.accounts.get? a = some x) :
    (upsertAccounts now (accountRows schema tx am) d).accounts.get? a =
    (upsertAccounts now (accountRows schema' tx am) d).accounts.get? a := by
  unfold upsertAccounts accountRows
  exact upsertAccounts_existing_ignores_defaults now _ _ (fun _ => rfl) (fun _ => rfl) _ _ _ a x hex hex

/-- `saveAccountMetadata` (`saveAccMetaBody`: one `UpsertAccounts` row with NULL dates
    and the chart defaults of the operation's schema): on an existing account the
    schema plays no role; on a new one the row is created with the defaults below the
    saved values. -/
theorem save_defaults_exactly_on_creation (now : Time) (schema schema' : Option Schema) (a : String) (m : Meta) (d : Db) :
    (∀ x, d.accounts.get? a = some x →
      upsertAccounts now [{ address := a, metadata := m, defaults := defaultsOf schema a }] d =
      upsertAccounts now [{ address := a, metadata := m, defaults := defaultsOf schema' a }] d) ∧
    (d.accounts.get? a = none →
      ∃ acc, (upsertAccounts now [{ address := a, metadata := m, defaults := defaultsOf schema a }] d).accounts.get? a = some acc ∧
        acc.metadata = metaMerge (defaultsOf schema a) m) := by
  constructor
  · intro x hx
    unfold upsertAccounts
    simp only [List.foldl_cons, List.foldl_nil]
    rw [defaults_only_on_creation now d.accounts { address := a, metadata := m, defaults := defaultsOf schema a }
      (defaultsOf schema' a) x hx]
  · intro hn
    exact creation_merges_defaults_below now d.accounts { address := a, metadata := m, defaults := defaultsOf schema a } hn

/-- The journal-level reading of the same fact: in the reference fold `specOf`
    (`Ledger/Ctrl/Spec.lean`) `specTouch` and `specSave` consult the chart
    (`specDefaults`) only in their "no row yet" branch; `current_meta_eq_fold` below
    proves the tables equal that fold after every history. -/
theorem spec_defaults_only_on_creation (schemas schemas' : List Schema) (v v' : String) (ts ins : Time)
    (accounts : Ledger.Base.Map String AccSpec) (a : String) (m : Meta) (x : AccSpec) (hex : accounts.get? a = some x) :
    specTouch schemas v ts ins accounts a m = specTouch schemas' v' ts ins accounts a m ∧
    specSave schemas v ts accounts a m = specSave schemas' v' ts accounts a m := by
  unfold specTouch specSave
  simp only [hex, and_self]

/-- A save on an existing account: the new metadata is the old one overridden by
    the saved values (later write wins), or the row is untouched when they are
    already there. -/
theorem save_overrides (now : Time) (accounts : Ledger.Base.Map String Account) (a : String) (m defaults : Meta)
    (acc : Account) (hex : accounts.get? a = some acc) :
    (metaContains acc.metadata m = true ∧
      upsertAccount now accounts { address := a, metadata := m, defaults := defaults } = accounts) ∨
    (∃ acc', (upsertAccount now accounts { address := a, metadata := m, defaults := defaults }).get? a = some acc' ∧
      acc'.metadata = metaMerge acc.metadata m) := by
  unfold upsertAccount
  simp only [hex, Bool.false_or]
  by_cases hc : metaContains acc.metadata m = true
  · left; simp only [hc, Bool.not_true, Bool.false_eq_true, ↓reduceIte, and_self]
  · right
    simp only [Bool.not_eq_true] at hc
    simp only [hc, Bool.not_false, ↓reduceIte]
    exact ⟨_, get?_insert_self _ _ _, rfl⟩

/-- A delete removes exactly that key of that account. -/
theorem delete_removes_key (now : Time) (d : Db) (a key : String) (acc : Account) (hex : d.accounts.get? a = some acc) :
    ∃ acc', (deleteAccountMeta now a key d).accounts.get? a = some acc' ∧ acc'.metadata = acc.metadata.erase key := by
  unfold deleteAccountMeta
  simp only [hex]
  exact ⟨_, get?_insert_self _ _ _, rfl⟩

/-- After ANY sequential history (failing, dry-run, idempotent operations included)
    the current metadata of every account and of every transaction is exactly the
    reference reading of the journal (`specOf`, Ledger/Ctrl/Spec.lean): the saves in
    order (later values win) minus the deletes, chart defaults added below the
    explicit values when the account is first created and never again. -/
theorem current_meta_eq_fold (strict : Bool) (ops : List Op) :
    projAccounts (runHist strict {} ops).db = (specOf (runHist strict {} ops).db.logs).accounts ∧
    projTxMeta (runHist strict {} ops).db = (specOf (runHist strict {} ops).db.logs).txMeta := by
  have h := runHist_spec strict {} ops SpecOk.empty
  unfold SpecOk at h
  rw [h]
  exact ⟨rfl, rfl⟩

/-- The same for one more operation on any state that agrees with its journal, under
    any injected fault. -/
theorem current_meta_eq_fold_step (strict : Bool) (s : State) (op : Op) (f : Faults) (cf : Bool)
    (h : SpecOk s.db) : SpecOk (stepF strict s op f cf).1.db :=
  forgeLog_spec strict op f cf s h

/-! tests of the full statement on concrete histories -/
example : projTxMeta (runHist false s1 [pay false, overdraw]).db = (specOf (runHist false s1 [pay false, overdraw]).db.logs).txMeta := by
  decide +kernel
example : (projAccounts (runHist true {} histDefaults).db).map (fun e => (e.1, e.2.metadata)) =
    ((specOf (runHist true {} histDefaults).db.logs).accounts).map (fun e => (e.1, e.2.metadata)) := by decide +kernel

end Ledger.C17
