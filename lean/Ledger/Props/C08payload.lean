import Ledger.Proofs.LogPayload

/-!
C08 — The log is a complete, ordered journal: PAYLOAD PART ONLY (names prefixed
`payload_`).  "…the log payloads alone determine the ledger state: replaying them
reproduces …" needs, first of all, that a stored / exported payload decodes back to
the payload that was written.  This file proves that round trip for every payload
type at the level of JSON trees (Ledger/Log/PayloadJson.lean: `encodePayload` =
`json.Marshal(payload)`, `decodePayload` = `HydrateLog`), for every CANONICAL payload
(`canonicalPayload`: exactly the values the decoder itself can produce — well-formed
UTF-8, `ParseTime`-normalised dates, `uint64` ids, no empty non-nil volume map,
target id of the type announced by `targetType`, map entries presented in key order).
Outside that set the round trip is lossy by construction of `encoding/json` /
go-libs `time` (modelled: `sanitize`, `normTime`); those cases are compared with the
real code by the `payload` workload, not proved.

The replay part of C08 (one log per write, ordering, `replay_reproduces`) belongs to
another area and, if added, lives in a different file.
Only theorems and non-vacuity examples here.
-/
namespace Ledger.C08payload
open Ledger.Log

/-- `HydrateLog(type, json.Marshal(payload)) = payload` for every canonical payload of
    every type (new transaction, reverted transaction, saved / deleted metadata,
    inserted schema). -/
theorem payload_decode_encode (p : Payload) (h : canonicalPayload p = true) :
    decodePayload p.type (encodePayload p) = .ok p :=
  decodePayload_encodePayload p h

/-- The memento (what the hash chain covers) of the decoded payload is the memento of
    the original: re-inserting an exported log stores the same `memento` bytes, which is
    what the import path's hash comparison relies on. -/
theorem payload_memento_stable (p : Payload) (h : canonicalPayload p = true) :
    (decodePayload p.type (encodePayload p)).toOption.map mementoBytes = some (mementoBytes p) :=
  memento_decode_encode p h

/-- Component form used by replay: a canonical transaction decodes to itself
    (postings, metadata, timestamp, reference, id, inserted/updated/reverted dates,
    post-commit volumes, template). -/
theorem payload_transaction_decode_encode (tx : Transaction) (h : canonTransaction tx = true) :
    decTransaction (encTransactionJ tx) = .ok tx :=
  decTransaction_enc tx h

/-- Strings are the only lossy text leaf: well-formed UTF-8 survives, anything else is
    changed by the encoder (U+FFFD), so the round trip cannot hold there. -/
theorem payload_string_roundtrip (s : Bytes) (h : validUtf8 s = true) : decStr (encStr s) = .ok s :=
  decStr_enc s h

/-- …and it is genuinely lossy outside: an ill-formed byte does not come back. -/
theorem payload_string_roundtrip_counterexample : decStr (encStr [0x61, 0xff]) ≠ .ok [0x61, 0xff] := by
  decide

/-- An EMPTY (non-nil) post-commit-volumes map comes back as nil (`omitempty`). -/
theorem payload_empty_volumes_counterexample :
    decPcv (encPcvJ (some [])) = .ok none := by
  decide

/-- A transaction-typed target whose id is given for an ACCOUNT target type comes back
    as a `float64` (reported as `floatTarget`): the dynamic type of `TargetID` is lost. -/
theorem payload_target_type_counterexample :
    decodePayload .setMetadata (encodePayload (.savedMetadata b!"ACCOUNT" (.transaction 7) none)) = .error .floatTarget := by
  decide

/-- non-vacuity: a canonical payload of each type, with non-ASCII text, quotes,
    backslashes, a reverted date, volumes and account metadata. -/
example :
    canonicalPayload (.createdTransaction
      { postings := some [{ source := b!"world", destination := b!"users:é\"\\", amount := some 100000000000000000000, asset := b!"USD/2" }],
        metadata := some [(b!"a", b!"1"), (b!"b<", b!"日本")],
        timestamp := wDateC, reference := b!"ref-1", id := some 18446744073709551615,
        insertedAt := wDateC, updatedAt := wDateC, revertedAt := some wDateC,
        postCommitVolumes := some [(b!"world", [(b!"USD/2", { input := 0, output := 100 })])],
        postCommitEffectiveVolumes := none, template := [] }
      (some [(b!"users:1", some [(b!"k", b!"v")]), (b!"users:2", none)])) = true ∧
    canonicalPayload (.savedMetadata b!"account" (.account b!"users:1") (some [])) = true ∧
    canonicalPayload (.deletedMetadata b!"TRANSACTION" (.transaction 3) b!"k") = true := by
  decide +kernel

end Ledger.C08payload
