import Ledger.Proofs.SqlCommit4

/-!
C18e — end-to-end, transaction creation: the generated statements UpdateVolumes; InsertTransaction; InsertMoves; UpsertAccounts, run
one after the other as commands of one transaction by LeanPG (`Ledger.Sql.seqRun`), on ANY state satisfying the storage invariants of
the four tables (`CommitState`, `CommitAccounts`): outcome of each statement, the EXPLICIT final state (four tables, two sequences,
command counter; nothing else changes) and what the transaction sees afterwards — volumes = `Spec.upsertVolumes`, moves =
`Spec.insertMoves` (up to order), accounts = `insRow` / `updOf` of C18b (up to order; metadata as jsonb values — the correspondence
jsonb ↔ `Spec.Metadata` is not proved, see C18b), other ledgers untouched.
Hypotheses: those of C01e and C18b (in particular TRANSACTION_METADATA_HISTORY and ACCOUNT_METADATA_HISTORY off).
-/
namespace Ledger.C18e
open Ledger Ledger.Sql Ledger.Generated Ledger.Core Ledger.Base
open Ledger.Generated.WriteSql

theorem commitWithAccounts_sem (k : Nat) (env : Env) (henv : env.ctes = []) (b l : String) (id : Nat)
    (rsA : List Ver) (nrA : Nat) (trigsT : List TriggerDef) (nrT : Nat) (rowsT : List Ver) (fullT : String) (sqT : Seq)
    (trigsM : List TriggerDef) (B1 B2 : List TriggerDef) (trB : TriggerDef) (A1 A2 : List TriggerDef) (trA : TriggerDef)
    (item wher dflt_ : Expr) (fB : PlFunc) (setE whereU : Expr) (fA : PlFunc) (nrM : Nat) (rowsM : List Ver) (sqM : Seq)
    (trigsC : List TriggerDef) (nrC : Nat) (rowsC : List Ver) (s : St)
    (hst : CommitState s b l rsA nrA trigsT nrT rowsT fullT sqT trigsM B1 B2 trB A1 A2 trA item wher dflt_ fB setE whereU fA nrM rowsM sqM)
    (hac : CommitAccounts s b trigsC nrC rowsC)
    (vrows : List P.VolumeRow) (hvne : vrows ≠ []) (hvnd : (vrows.map avKeyOf).Nodup)
    (av : PCV) (hwf : Map.WF av) (habs : ∀ key, avAbs s b l key = av.get? key)
    (L : TxLits) (hl : SeqLit (txSeqLit b id) fullT) (x : TxR) (hlit : TxLit s.w.types l L x) (hid : x.id = sqT.next)
    (href : ∀ r ∈ rowsT, r.visible (latestView s.w s.xid) = true → ∀ x', r.vals = txVals x' → txConf2 x x' = false)
    (pm : List (P.MoveRow × Spec.MoveRow)) (hne : pm ≠ []) (hlits : ∀ y ∈ pm, MvLit s.w.types y.1 y.2)
    (hsf : SeqFrom sqM.next (pm.map (·.2))) (hrange : sqM.next + pm.length ≤ 9223372036854775808)
    (hnc : s.nextCid + 4 + 4 * pm.length ≤ 1000000000)
    (T : List Spec.MoveRow) (hT : T.Perm (ledgerMoves l (mvAbs (latestView s.w s.xid) rowsM)))
    (am : List (P.AccountRow × DbR)) (halits : ∀ y ∈ am, DbLit s.w.types y.1 y.2) (hand : ((am.map (·.2)).map (·.address)).Nodup) :
    ∃ (rsA' : List Ver) (nrA' : Nat) (rowsM' : List Ver) (seqs' : List Seq) (rowsC' : List Ver) (nC : Nat) (resA : DmlResult) (s' : St),
      (seqRun (k + 19) env (P.updateVolumes b l id vrows ++
          P.insertTransaction b l id L.postings L.metadata L.timestamp L.reference L.inserted_at L.updated_at L.post_commit_volumes
            L.template L.sources L.destinations L.sources_arrays L.destinations_arrays ++
          P.insertMoves b l id (pm.map (·.1)) ++ P.upsertAccounts b l id (am.map (·.1)))).exec s =
        (.ok [{ rel := { cols := ["input", "output"],
                         rows := (Spec.upsertVolumes av (vuOf vrows)).2.map (fun e => [.int e.2.input, .int e.2.output]) },
                affected := vrows.length },
              { rel := { cols := ["id", "timestamp", "inserted_at", "updated_at"],
                         rows := [[.int x.id, .ts x.timestamp, optTs x.insertedAt, .ts x.updatedAt]] }, affected := 1 },
              { rel := { cols := ["post_commit_volumes", "post_commit_effective_volumes"],
                         rows := (Spec.insertedRows T (pm.map (·.2))).map retOf }, affected := pm.length },
              resA], s') ∧
      s' = (((((s.bump (4 + 4 * pm.length)).withSeqs seqs').withTable (avT b rsA' nrA')).withTable
              ((txT b trigsT (nrT + 1)).withRows (newVer s.xid (s.nextCid + 1) nrT (txVals x) :: rowsT))).withTable
              ((mvT b trigsM (nrM + pm.length)).withRows rowsM')).withTable ((acT b trigsC (nrC + nC)).withRows rowsC') ∧
      AvInv (latestView s.w s.xid) rsA' nrA' ∧
      (∀ key, avView (latestView s.w s.xid) rsA' l key = (Spec.upsertVolumes av (vuOf vrows)).1.get? key) ∧
      (∀ l', l' ≠ l → ∀ key, avView (latestView s.w s.xid) rsA' l' key = avView (latestView s.w s.xid) rsA l' key) ∧
      (ledgerMoves l (mvAbs (latestView s.w s.xid) rowsM')).Perm (Spec.insertMoves T (pm.map (·.2))) ∧
      (∀ l', l' ≠ l → (ledgerMoves l' (mvAbs (latestView s.w s.xid) rowsM')).Perm (ledgerMoves l' (mvAbs (latestView s.w s.xid) rowsM))) ∧
      MvInv (latestView s.w s.xid) (sqM.next + pm.length) rowsM' ∧
      (acAbs (latestView s.w s.xid) rowsC').Perm
        (((am.map (·.2)).filter (fun d => !hasAccount l (acAbs (latestView s.w s.xid) rowsC) d.address)).map (insRow l) ++
          (acAbs (latestView s.w s.xid) rowsC).map (updOf l (am.map (·.2)))) ∧
      AcInv (latestView s.w s.xid) (nrC + nC) rowsC' ∧
      seqs'.find? (·.name == mvSeqFull b) = some { sqM with last := sqM.next + pm.length - 1, called := true } ∧
      seqs'.find? (·.name == fullT) = some { sqT with last := sqT.next, called := true } :=
  exec_commit4 k env henv b l id rsA nrA trigsT nrT rowsT fullT sqT trigsM B1 B2 trB A1 A2 trA item wher dflt_ fB setE whereU fA nrM rowsM sqM
    trigsC nrC rowsC s hst hac vrows hvne hvnd av hwf habs L hl x hlit hid href pm hne hlits hsf hrange hnc T hT am halits hand

end Ledger.C18e
