import Ledger.Proofs.SchedLocks
import Ledger.Proofs.SchedImport
import Ledger.Proofs.SchedHandles
import Ledger.Proofs.SchedWitnesses

/-!
# C12 (schedule part) — Import and concurrent writes on one ledger never interleave

Mechanism: `Import` takes the SESSION-scoped advisory lock `hashtext('ledger:<id>')`
for its whole run (several SQL transactions); a write on a ledger whose state
tracker still says `initializing` takes the TRANSACTION-scoped lock on the same key
inside its transaction, before the state update and the operation. Proved for ALL
schedules: `lock_excludes` for that key; the step-level facts (a second locker waits;
the state update re-evaluates its WHERE on the latest version), and
`import_write_never_interleave_any_schedule`: for every schedule and all programs following the
discipline "a log INSERT on the ledger runs inside a transaction while the ledger lock is held;
the session lock is released only when no log of the session is uncommitted" (`Safe`), while
one session holds the ledger lock no other session has an uncommitted log of the ledger nor
commits one. `Import` is proved to follow the discipline for every answer of every statement
(`import_is_safe`); for the state tracker's first-write path the discipline is NOT proved (its
lock must survive failed statements inside the savepoint, which needs one more monitor fact) —
that path is covered by the regenerated tie, kernel-evaluated examples and the `import` workload.
-/
namespace Ledger.C12s
open Ledger.Sched

/-- `lock_excludes` for the ledger key, any schedule of other sessions -/
theorem ledger_lock_excludes (s : Sid) (l : Nat) (σ : Schedule) (w : World)
    (hwf : AdvWf w) (hheld : Holds w s (ledgerKey l)) (hσ : ∀ t ∈ σ, t ≠ s) :
    Holds (run σ w) s (ledgerKey l) ∧ ∀ t, t ≠ s → ¬ Holds (run σ w) t (ledgerKey l) := by
  have h : HeldBy s (ledgerKey l) (run σ w) := by
    induction σ generalizing w with
    | nil => exact ⟨hwf, hheld⟩
    | cons t σ ih =>
      have ht : t ≠ s := hσ t (List.mem_cons_self ..)
      have h1 := heldBy_step s t (ledgerKey l) ht w ⟨hwf, hheld⟩
      exact ih (step w t) h1.1 h1.2 (fun u hu => hσ u (List.mem_cons_of_mem _ hu))
  exact ⟨h.2, fun t ht => heldBy_excl s t _ ht _ h⟩

example : AdvWf {} := by intro a ha; cases ha

/-- `import_write_never_interleave_any_schedule`: for every schedule, in every world reached from one
    satisfying the ledger-lock discipline, while session `s` holds the ledger lock of `l₀` (an Import
    between its lock and unlock, or a first write inside its transaction) any other session `t` has no
    uncommitted log of `l₀`, and a step of `t` commits no log of `l₀`. -/
theorem import_write_never_interleave_any_schedule (l₀ : Nat) (σ : Schedule) (w₀ : World)
    (hg : GInv (impDisc l₀) w₀) (s t : Sid) (hts : t ≠ s) (hheld : Holds (run σ w₀) s (ledgerKey l₀)) :
    (∀ e ∈ (run σ w₀).logs, e.l = l₀ → e.by_ = t → e.com = true) ∧
    (step (run σ w₀) t).logCommits.filter (fun c => c.1 = l₀) = (run σ w₀).logCommits.filter (fun c => c.1 = l₀) :=
  holder_excludes_log_commits (impDisc l₀) (run σ w₀) (ginv_run (impDisc l₀) σ w₀ hg) s t hts hheld

/-- `Import` follows the discipline, for every answer of every statement -/
theorem import_is_safe (l : Nat) (sync : Bool) (logs : List ImpLog) :
    Safe (impDisc l) {} (importProg l sync logs) := safe_importProg l sync logs {} rfl

/-- non-vacuity: two concurrent Imports into the same initializing ledger satisfy the hypothesis; the one
    that locks second waits through all of the first one's transactions and is then rejected -/
example :
    let w₀ : World := { state := fun l => if l = 1 then { com := some false } else {}
                        sess := fun s => if s = 1 ∨ s = 2 then { prog := importProg 1 false exImp } else {} }
    GInv (impDisc 1) w₀ ∧
    (run ([1, 2] ++ List.replicate 15 1 ++ List.replicate 4 2) w₀).logCommits = [(1, 1, 1), (1, 2, 1)] ∧
    (run ([1, 2] ++ List.replicate 15 1 ++ List.replicate 4 2) w₀).resp 2 = some { err := "import" } := by
  intro w₀
  refine ⟨⟨(by intro a ha; cases ha), fun s => ⟨{}, ⟨?_, ?_, ?_, ?_, ?_, ?_⟩, ?_⟩⟩, by decide, by decide⟩
  · intro h; cases h
  · intro h; cases h
  · intro h; cases h
  · intro _ e he; cases he
  · intro h; cases h
  · intro h; cases h
  · show Safe _ _ (if s = 1 ∨ s = 2 then _ else _ : Session).prog
    split
    · exact import_is_safe 1 false exImp
    · trivial

/-- the session lock of Import and the transaction lock of a first write are the same key, distinct
    from the log-insert lock -/
theorem import_and_write_lock_same_key (w : World) (s t : Sid) (l : Nat)
    (h : holder? w.adv (ledgerKey l) s = some t) :
    exec w s (.lockLedgerX l) = .blocked t ∧ exec w s (.lockLedgerS l) = .blocked t ∧ logKey l ≠ ledgerKey l := by
  refine ⟨by simp only [exec, h], by simp only [exec, h], ?_⟩
  unfold logKey ledgerKey
  omega

/-- `import_requires_initializing`: once `_system.ledgers.state` is committed `in-use`, Import's state
    read answers "not initializing" and the program unlocks and answers the import error -/
theorem import_requires_initializing (w : World) (s : Sid) (l : Nat) (hst : (w.state l).com = some true)
    (hown : (w.state l).own ≠ some s) :
    exec w s (.readState l) = .done w { flag := false } := by
  simp [exec, hown, hst]

/-- the state update of `handleState` re-evaluates `state = 'initializing'` on the latest version:
    on a committed in-use ledger it updates nothing (so the sequences are not reset) -/
theorem state_update_is_once (w : World) (s : Sid) (l : Nat) (hst : (w.state l).com = some true) :
    exec w s (.updateState l) = .done w { flag := false } := by
  simp [exec, hst]

/-- tie (regenerated): Import takes the session lock first and releases it last; a first write takes
    the transaction lock right after BEGIN, before the state update and the operation; since /repo
    17dbc4b an atomic bulk does the same inside its transaction (savepoint) -/
theorem lock_first_in_generated_handles :
    (modelledKinds Generated.Handles.importTwoLogs).head? = some .lockLedgerS ∧
    (modelledKinds Generated.Handles.importTwoLogs).getLast? = some .unlockLedgerS ∧
    (modelledKinds Generated.Handles.sendFirstWrite).take 3 = [.begin, .lockLedgerX, .updateState] ∧
    (importProg 1 true exImp).pathK okAnswers 60 = modelledKinds Generated.Handles.importTwoLogs ∧
    (sendProg (exSend true .unbounded 0 0) false).pathK okAnswers 40 = modelledKinds Generated.Handles.sendFirstWrite := by
  decide

/-! ## examples (tests) -/


/-- Import first: the writer waits at the ledger lock through both of Import's transactions, then sees
    the imported state (ids continue after the imported ones) -/
example :
    let w := run ([1, 2, 2] ++ List.replicate 15 1 ++ List.replicate 14 2) (exWorld (sendProg exW false))
    w.logCommits = [(1, 1, 1), (1, 2, 1), (1, 3, 2)] ∧ w.resp 1 = some {} ∧ w.resp 2 = some { tx := 3, log := 3 } := by
  decide

/-- the writer first: Import waits, then finds the ledger in use and is rejected with no effect -/
example :
    let w := run ([2, 2, 1] ++ List.replicate 12 2 ++ List.replicate 6 1) (exWorld (sendProg exW false))
    w.logCommits = [(1, 1, 2)] ∧ w.resp 1 = some { err := "import" } ∧ w.resp 2 = some { tx := 1, log := 1 } := by
  decide

/-- a write that bypasses the state tracker (the atomic bulk BEFORE /repo 17dbc4b: no lock, no state
    update, no sequence reset) interleaves with Import and its `nextval` id collides with an imported one -/
example :
    let bypass : Prog := .stmt .begin fun _ => forgeLog nestedTx 1 0 0 (sendBody exW) fun r =>
      if r.err = "" then .stmt .commit fun _ => .done r else .stmt .rollback fun _ => .done r
    let w := run (List.replicate 9 1 ++ List.replicate 6 2) (exWorld bypass)
    w.resp 2 = some { err := "panic" } := by
  decide

end Ledger.C12s
