import Ledger.Proofs.SchedLocks
import Ledger.Proofs.SchedHandles
import Ledger.Proofs.SchedWitnesses

/-!
# C12 (schedule part) — Import and concurrent writes on one ledger never interleave

Mechanism: `Import` takes the SESSION-scoped advisory lock `hashtext('ledger:<id>')`
for its whole run (several SQL transactions); a write on a ledger whose state
tracker still says `initializing` takes the TRANSACTION-scoped lock on the same key
inside its transaction, before the state update and the operation. Proved for ALL
schedules: `lock_excludes` for that key; the step-level facts (a second locker waits;
the state update re-evaluates its WHERE on the latest version). The tie facts show the
real programs take the lock first. The all-schedules statement
`import_write_never_interleave_any_schedule` itself is NOT proved yet (kernel-evaluated
examples + the `import` correspondence workload).
-/
namespace Ledger.C12s
open Ledger.Sched

/-- `lock_excludes` for the ledger key, any schedule of other sessions -/
theorem ledger_lock_excludes (s : Sid) (l : Nat) (σ : Schedule) (w : World)
    (hwf : AdvWf w) (hheld : Holds w s (ledgerKey l)) (hσ : ∀ t ∈ σ, t ≠ s) :
    Holds (run σ w) s (ledgerKey l) ∧ ∀ t, t ≠ s → ¬ Holds (run σ w) t (ledgerKey l) := by
  have h : HeldBy s (ledgerKey l) (run σ w) := by
    induction σ generalizing w with
    | nil => exact ⟨hwf, hheld⟩
    | cons t σ ih =>
      have ht : t ≠ s := hσ t (List.mem_cons_self ..)
      have h1 := heldBy_step s t (ledgerKey l) ht w ⟨hwf, hheld⟩
      exact ih (step w t) h1.1 h1.2 (fun u hu => hσ u (List.mem_cons_of_mem _ hu))
  exact ⟨h.2, fun t ht => heldBy_excl s t _ ht _ h⟩

example : AdvWf {} := by intro a ha; cases ha

/-- the session lock of Import and the transaction lock of a first write are the same key, distinct
    from the log-insert lock -/
theorem import_and_write_lock_same_key (w : World) (s t : Sid) (l : Nat)
    (h : holder? w.adv (ledgerKey l) s = some t) :
    exec w s (.lockLedgerX l) = .blocked t ∧ exec w s (.lockLedgerS l) = .blocked t ∧ logKey l ≠ ledgerKey l := by
  refine ⟨by simp only [exec, h], by simp only [exec, h], ?_⟩
  unfold logKey ledgerKey
  omega

/-- `import_requires_initializing`: once `_system.ledgers.state` is committed `in-use`, Import's state
    read answers "not initializing" and the program unlocks and answers the import error -/
theorem import_requires_initializing (w : World) (s : Sid) (l : Nat) (hst : (w.state l).com = some true)
    (hown : (w.state l).own ≠ some s) :
    exec w s (.readState l) = .done w { flag := false } := by
  simp [exec, hown, hst]

/-- the state update of `handleState` re-evaluates `state = 'initializing'` on the latest version:
    on a committed in-use ledger it updates nothing (so the sequences are not reset) -/
theorem state_update_is_once (w : World) (s : Sid) (l : Nat) (hst : (w.state l).com = some true) :
    exec w s (.updateState l) = .done w { flag := false } := by
  simp [exec, hst]

/-- tie (regenerated): Import takes the session lock first and releases it last; a first write takes
    the transaction lock right after BEGIN, before the state update and the operation; since /repo
    17dbc4b an atomic bulk does the same inside its transaction (savepoint) -/
theorem lock_first_in_generated_handles :
    (modelledKinds Generated.Handles.importTwoLogs).head? = some .lockLedgerS ∧
    (modelledKinds Generated.Handles.importTwoLogs).getLast? = some .unlockLedgerS ∧
    (modelledKinds Generated.Handles.sendFirstWrite).take 3 = [.begin, .lockLedgerX, .updateState] ∧
    (importProg 1 true exImp).pathK okAnswers 60 = modelledKinds Generated.Handles.importTwoLogs ∧
    (sendProg (exSend true .unbounded 0 0) false).pathK okAnswers 40 = modelledKinds Generated.Handles.sendFirstWrite := by
  decide

/-! ## examples (tests) -/


/-- Import first: the writer waits at the ledger lock through both of Import's transactions, then sees
    the imported state (ids continue after the imported ones) -/
example :
    let w := run ([1, 2, 2] ++ List.replicate 15 1 ++ List.replicate 14 2) (exWorld (sendProg exW false))
    w.logCommits = [(1, 1, 1), (1, 2, 1), (1, 3, 2)] ∧ w.resp 1 = some {} ∧ w.resp 2 = some { tx := 3, log := 3 } := by
  decide

/-- the writer first: Import waits, then finds the ledger in use and is rejected with no effect -/
example :
    let w := run ([2, 2, 1] ++ List.replicate 12 2 ++ List.replicate 6 1) (exWorld (sendProg exW false))
    w.logCommits = [(1, 1, 2)] ∧ w.resp 1 = some { err := "import" } ∧ w.resp 2 = some { tx := 1, log := 1 } := by
  decide

/-- a write that bypasses the state tracker (the atomic bulk BEFORE /repo 17dbc4b: no lock, no state
    update, no sequence reset) interleaves with Import and its `nextval` id collides with an imported one -/
example :
    let bypass : Prog := .stmt .begin fun _ => forgeLog nestedTx 1 0 0 (sendBody exW) fun r =>
      if r.err = "" then .stmt .commit fun _ => .done r else .stmt .rollback fun _ => .done r
    let w := run (List.replicate 9 1 ++ List.replicate 6 2) (exWorld bypass)
    w.resp 2 = some { err := "panic" } := by
  decide

end Ledger.C12s
