import Ledger.Proofs.CoreTxPcev

/-!
C04 — Effective volumes honour back-dated inserts (Spec / algebra part).

`Spec.setEffective`, `Spec.updateEffective`, `Spec.insertMoves` are hand-written pure images
of the triggers `set_effective_volumes` (BEFORE INSERT FOR EACH ROW) and
`update_effective_volumes` (AFTER INSERT FOR EACH ROW) of migration 11 and of the multi-row
`INSERT INTO moves` (BEFORE-ROW triggers see the rows of the same statement already inserted;
AFTER-ROW triggers fire once all rows are in).  They are NOT yet tied to the migration text
(the MiniPL bridge lemmas belong to the SQL area).
-/
namespace Ledger.C04
open Ledger.Base Ledger.Core Ledger.Spec

/-- Inserting the moves of one transaction — whatever its effective date: back-dated, tied
    with existing moves, or in the future — preserves `PCEV_Inv`: every move's effective
    volumes are the sum of the deltas of the moves of its account/asset that are not after it
    in (effective_date, seq) order.  Hypothesis `FreshBatch`: the rows of one statement share
    one effective date and get increasing sequence numbers above all existing ones. -/
theorem insert_preserves_PCEV_Inv (table news : List MoveRow) (e : Int) (hinv : PCEV_Inv table)
    (hb : FreshBatch table news e) : PCEV_Inv (insertMoves table news) :=
  PCEV_Inv_insertMoves hinv hb

/-- Hence the invariant holds in every reachable store (any sequence of commits with arbitrary
    timestamps, balance locks, reverted marks). -/
theorem PCEV_Inv_all_histories (ops : List StoreOp) (st : Store) (h : runOps ops = .ok st) :
    PCEV_Inv st.moves :=
  (MovesInv_runOpsFrom ops MovesInv_empty h).pcev

/-- The property at transaction level: in every reachable store, the post-commit effective
    volumes a read of transaction `T` reports (`ComputePostCommitEffectiveVolumes` over the
    moves of `T`: the last move per account/asset) hold, for exactly the (account, asset)
    pairs `T` touches, the fold of all postings of the transactions whose effective timestamp is
    earlier than `T`'s, or equal and inserted before `T` (smaller id), plus `T`'s own — whatever
    was inserted later in the past. -/
theorem tx_effective_volumes_eq_fold (ops : List StoreOp) (st : Store) (h : runOps ops = .ok st)
    (T : TxRec) (hT : T ∈ st.txRecs) :
    ∃ R, txEffectiveVolumes st.moves T.id = .ok R ∧
      ∀ k, R.get? k = if touches k T.postings then some (volumesOf (st.txRecs.filter (notAfterTx T)) k) else none :=
  txEffectiveVolumes_fold h T hT

example : (runOps [.commit { postings := [⟨"world", "a", 10, "USD"⟩], timestamp := 5, insertedAt := 7 },
                   .commit { postings := [⟨"a", "b", 4, "USD"⟩], timestamp := 1, insertedAt := 8 }]).toOption.map
            (fun st => [(txEffectiveVolumes st.moves 1).toOption, (txEffectiveVolumes st.moves 2).toOption]) =
          some [some [(("a", "USD"), ⟨10, 4⟩), (("world", "USD"), ⟨0, 10⟩)],
                some [(("a", "USD"), ⟨0, 4⟩), (("b", "USD"), ⟨4, 0⟩)]] := by decide

/-- Non-vacuity / test: a back-dated transaction shifts the effective volumes of the later
    moves (tx 2 at t=1 is inserted after tx 1 at t=5; tx 3 ties with tx 1): the move of tx 1
    crediting `a` ends with effective volumes (11, 5) although its post-commit volumes are (10, 0). -/
example : (runOps [.commit { postings := [⟨"world", "a", 10, "USD"⟩], timestamp := 5, insertedAt := 7 },
                   .commit { postings := [⟨"a", "b", 4, "USD"⟩, ⟨"a", "a", 1, "USD"⟩], timestamp := 1, insertedAt := 8 },
                   .commit { postings := [⟨"world", "a", 2, "USD"⟩], timestamp := 5, insertedAt := 9 }]).toOption.map
            (fun st => (st.moves.length, (st.moves.find? (fun m => m.seq == 2)).map (fun m => (m.pcv, m.pcev)),
                        pcevInvCheck st.moves)) =
          some (8, some (⟨10, 0⟩, ⟨11, 5⟩), true) := by
  decide

/-- The statement without the single-effective-date hypothesis is false for this trigger pair:
    two rows of one statement with different effective dates double-count (kept type-checked;
    unreachable from the ledger, where a statement inserts the moves of one transaction). -/
def insert_preserves_PCEV_Inv_any_batch : Prop :=
  ∀ (table news : List MoveRow), PCEV_Inv table →
    (∀ m ∈ table, ∀ r ∈ news, m.seq < r.seq) → news.Pairwise (fun a b => a.seq < b.seq) →
    PCEV_Inv (insertMoves table news)

theorem insert_preserves_PCEV_Inv_any_batch_counterexample : ¬ insert_preserves_PCEV_Inv_any_batch := by
  intro h
  have h1 := h [] mixedBatch (by intro m hm; simp at hm) (by intro m hm; simp at hm) (by decide)
  have h2 : pcevInvCheck (insertMoves [] mixedBatch) = false := by decide
  rw [(pcevInvCheck_iff _).mpr h1] at h2
  exact absurd h2 (by simp)

end Ledger.C04
