import Ledger.Proofs.ChartEnforce

/-!
C29 — Schema enforcement and chart semantics.

Only property theorems and non-vacuity examples live here. The model
(`Ledger/Chart/Enforce.lean`) mirrors `logProcessor.runLog`,
`DefaultController.createTransaction`, `Transaction.AccountsWithDefaultMetadata`
and the SQL merge of `Store.UpsertAccounts`; it is tied to the real controller by
the `enforce` workload (real controller + compiler + VM over an in-memory store)
and, for `FindAccountSchema`, by `chartrt` / `classify`. All statements are about
the decision and merge functions, for every ledger state, request and chart;
`ops` stands for Go's `regexp` on segment patterns.

Deviation from the wording of the property, modelled as the code behaves: a write
that names a schema version that does not exist is rejected in audit mode too
(`version_must_exist` holds for both modes); audit mode accepts a missing version,
a missing template and chart violations (`audit_accepts`).

Atomicity of a rejection ("no effect") is the SQL transaction's rollback: in the
model a rejected decision leaves the state unchanged by definition
(`rejected_no_effect`); on the real code the `enforce` workload checks that a
rejected write is rolled back, never committed, and leaves the store unchanged.
-/
namespace Ledger.C29
open Ledger.Chart

/-- Strict mode, ledger with at least one schema: a write that names no schema
    version is rejected. -/
theorem strict_requires_version (ops : RegexOps) (st : State) (req : TxRequest)
    (hs : st.schemas ≠ []) (hv : req.schemaVersion = "") :
    enforce ops .strict st req = .reject .schemaNotSpecified := by
  have : st.schemas.isEmpty = false := by cases h : st.schemas <;> simp_all
  simp [enforce, resolveSchema, hv, this, throw, throwThe, MonadExceptOf.throw]

/-- Any mode: naming a version that does not exist is rejected. -/
theorem version_must_exist (ops : RegexOps) (mode : Mode) (st : State) (req : TxRequest)
    (hv : req.schemaVersion ≠ "") (hf : findSchema st.schemas req.schemaVersion = none) :
    enforce ops mode st req = .reject .schemaNotFound := by
  simp [enforce, resolveSchema, hv, hf, throw, throwThe, MonadExceptOf.throw]

/-- Strict mode: every posting of an accepted write under schema `s` has source and
    destination accepted by the chart of `s`. -/
theorem strict_rejects_unknown_account (ops : RegexOps) (st : State) (req : TxRequest) (s : Schema)
    (hv : req.schemaVersion ≠ "") (hf : findSchema st.schemas req.schemaVersion = some s)
    (ps : List Posting) (ups : List Upsert) (w : List Warning)
    (h : enforce ops .strict st req = .accept ps ups w) :
    ∀ p ∈ ps, (classifyAddr ops s.chart p.source).isSome = true ∧
      (classifyAddr ops s.chart p.destination).isSome = true := by
  simp only [enforce, resolveSchema, hv, hf, ne_eq, not_false_eq_true, ite_true, pure, Except.pure] at h
  split at h
  · cases h
  · rename_i ps' w2 hsel
    split at h
    · cases h
    · split at h
      · rename_i hval
        cases h
        intro p hp
        exact validatePosting_classify ops s.chart _ _ (validatePostings_mem ops s.chart ps hval p hp)
      · cases h

/-- … and conversely a posting outside the chart makes strict mode reject with the
    chart's error, whatever else the request contains. -/
theorem strict_chart_violation_rejected (ops : RegexOps) (st : State) (req : TxRequest) (s : Schema)
    (hv : req.schemaVersion ≠ "") (hf : findSchema st.schemas req.schemaVersion = some s)
    (ps : List Posting) (w : List Warning) (hsel : selectScript .strict (some s) req = .ok (ps, w))
    (hne : ps ≠ []) (e : FindErr) (hval : validatePostings ops s.chart ps = .error e) :
    enforce ops .strict st req = .reject (.chart e) := by
  have : ps.isEmpty = false := by cases ps <;> simp_all
  simp [enforce, resolveSchema, hv, hf, hsel, this, hval, pure, Except.pure]

/-- Strict mode: when the schema defines templates, a write without template is
    rejected. -/
theorem strict_requires_template (ops : RegexOps) (st : State) (req : TxRequest) (s : Schema)
    (hv : req.schemaVersion ≠ "") (hf : findSchema st.schemas req.schemaVersion = some s)
    (ht : s.templates ≠ []) (hreq : req.template = "") :
    enforce ops .strict st req = .reject .templateRequired := by
  have : s.templates.isEmpty = false := by cases h : s.templates <;> simp_all
  simp [enforce, resolveSchema, selectScript, hv, hf, this, hreq, pure, Except.pure, throw, throwThe,
    MonadExceptOf.throw]

/-- Audit mode never rejects for a missing version, a missing template or a chart
    violation: the only rejections left are an unknown version, an unknown
    template, a template on a schema without templates, and a script that does not
    run. -/
theorem audit_accepts (ops : RegexOps) (st : State) (req : TxRequest) (r : Reject)
    (h : enforce ops .audit st req = .reject r) :
    r = .schemaNotFound ∨ r = .templateNotFound ∨ r = .noTemplateDefinitions ∨ r = .compile := by
  unfold enforce at h
  split at h
  · rename_i r' hres
    cases h
    unfold resolveSchema at hres
    split at hres
    · split at hres
      · cases hres
      · cases hres; exact .inl rfl
    · split at hres
      · cases hres
      · cases hres
  · rename_i schema w1 hres
    split at h
    · rename_i r' hsel
      cases h
      unfold selectScript at hsel
      split at hsel
      · split at hsel
        · split at hsel
          · cases hsel
          · split at hsel
            · cases hsel
            · cases hsel; exact .inr (.inl rfl)
        · split at hsel
          · cases hsel; exact .inr (.inr (.inl rfl))
          · cases hsel
      · split at hsel
        · cases hsel; exact .inr (.inr (.inl rfl))
        · cases hsel
    · split at h
      · cases h; exact .inr (.inr (.inr rfl))
      · split at h
        · cases h
        · split at h
          · cases h
          · cases h

/-- Audit mode, concretely: a plain script that produces postings is accepted on a
    ledger with schemas when no version is named … -/
theorem audit_accepts_missing_version (ops : RegexOps) (st : State) (req : TxRequest)
    (hv : req.schemaVersion = "") (ht : req.template = "") (hp : req.plain ≠ []) :
    ∃ ups w, enforce ops .audit st req = .accept req.plain ups w := by
  have : req.plain.isEmpty = false := by cases h : req.plain <;> simp_all
  cases hs : st.schemas.isEmpty <;>
    simp [enforce, resolveSchema, selectScript, hv, ht, hs, this, pure, Except.pure]

/-- … and under a named schema it is accepted whatever the chart says and whether
    or not the schema defines templates. -/
theorem audit_accepts_violations (ops : RegexOps) (st : State) (req : TxRequest) (s : Schema)
    (hv : req.schemaVersion ≠ "") (hf : findSchema st.schemas req.schemaVersion = some s)
    (ht : req.template = "") (hp : req.plain ≠ []) :
    ∃ ups w, enforce ops .audit st req = .accept req.plain ups w := by
  have : req.plain.isEmpty = false := by cases h : req.plain <;> simp_all
  cases hts : s.templates.isEmpty <;> cases hval : validatePostings ops s.chart req.plain <;>
    simp [enforce, resolveSchema, selectScript, hv, hf, ht, hts, this, hval, pure, Except.pure]

/-- A rejected write has no effect on the ledger. -/
theorem rejected_no_effect (st : State) (r : Reject) : applyDecision st (.reject r) = st := rfl

/-- Default metadata: on first creation a key gets the explicit value if there is
    one, else the chart's default; on an existing account defaults play no role at
    all – every key keeps its stored value unless the write sets it explicitly. -/
theorem defaults_on_first_creation_only (u : Upsert) (m : Meta) (k : List Char) :
    (upsertMeta none u).lookup k =
        (match u.explicit.lookup k with | some v => some v | none => u.defaults.lookup k) ∧
    (upsertMeta (some m) u).lookup k =
        (match u.explicit.lookup k with | some v => some v | none => m.lookup k) := by
  simp only [upsertMeta, lookup_mergeMeta]
  exact ⟨rfl, rfl⟩

/-- In particular an existing value is never overwritten by a default. -/
theorem defaults_never_overwrite (u : Upsert) (m : Meta) (k : List Char) (v : String)
    (hm : m.lookup k = some v) (he : u.explicit.lookup k = none) :
    (upsertMeta (some m) u).lookup k = some v := by
  rw [(defaults_on_first_creation_only u m k).2, he, hm]

/-- The defaults handed to the store are the chart's defaults of the account's
    schema (none when the write runs without schema or the chart rejects the
    address). -/
theorem upserts_carry_chart_defaults (ops : RegexOps) (schema : Option Schema) (ps : List Posting)
    (am : List (List Char × Meta)) :
    ∀ u ∈ upsertsFor ops schema ps am, u.defaults = defaultsFor ops schema u.address := by
  intro u hu
  simp only [upsertsFor, List.mem_map] at hu
  obtain ⟨a, _, rfl⟩ := hu
  rfl

/-- The defect repaired by fix 8ad9995, on the old lookup: audit mode rejected a
    template-less write on a schema with templates. -/
theorem audit_template_legacy_counterexample :
    (match selectScriptLegacy .audit (some sampleSchema)
        { schemaVersion := "v1", template := "", plain := [samplePosting "bank" "bank"], accountMetadata := [] } with
      | .error .templateNotFound => true | _ => false) = true ∧
    (match selectScript .audit (some sampleSchema)
        { schemaVersion := "v1", template := "", plain := [samplePosting "bank" "bank"], accountMetadata := [] } with
      | .ok (ps, [.templateRequired]) => ps == [samplePosting "bank" "bank"] | _ => false) = true := by
  constructor <;> decide

/-! ### non-vacuity -/

-- strict: no version on a ledger with schemas
example : sampleState.schemas ≠ [] := by decide
-- strict: a posting outside the chart is rejected with the chart's error, inside it is accepted
example : (match enforce sampleOps .strict sampleState
    { schemaVersion := "v0", template := "", plain := [samplePosting "bank" "users:x1:main"], accountMetadata := [] } with
    | .reject (.chart _) => true | _ => false) = true := by decide
example : (match enforce sampleOps .strict sampleState
    { schemaVersion := "v0", template := "", plain := [samplePosting "bank" "users:42:main"], accountMetadata := [] } with
    | .accept _ ups _ => ups.map (·.defaults) | _ => []) = [[], [("kind".toList, "wallet")]] := by decide
-- audit accepts the same violation
example : (match enforce sampleOps .audit sampleState
    { schemaVersion := "v0", template := "", plain := [samplePosting "bank" "users:x1:main"], accountMetadata := [] } with
    | .accept _ _ w => w.length | _ => 0) = 1 := by decide
-- template rules
example : (match enforce sampleOps .strict sampleState
    { schemaVersion := "v1", template := "pay", plain := [], accountMetadata := [] } with
    | .accept ps _ _ => ps.length | _ => 0) = 1 := by decide
-- merge
example : upsertMeta (some [("kind".toList, "old")])
    { address := "a".toList, explicit := [("x".toList, "1")], defaults := [("kind".toList, "wallet"), ("tier".toList, "0")] }
    = [("x".toList, "1"), ("kind".toList, "old")] := by decide
example : upsertMeta none
    { address := "a".toList, explicit := [("x".toList, "1")], defaults := [("kind".toList, "wallet")] }
    = [("x".toList, "1"), ("kind".toList, "wallet")] := by decide

end Ledger.C29
