import Ledger.Proofs.Gates

/-!
C17 (metadata-history gates of reads) — theorem over the REGENERATED read-shape matrix
(`Ledger.Generated.readShapeCodes`, rebuilt from /repo on every run by
`tools/t1_readshapes`: the real store read paths rendered over a recording
driver for every resource × call × PIT/OOT × date mode × expand × filter ×
feature set × alone-in-bucket).  The quantifier is a finite table regenerated
from the source, so `decide +kernel` over the whole table is a proof about the
current tree, not a sample.
-/
namespace Ledger.C17gates
open Ledger.Gates Ledger.Generated Ledger.GatesProps

/-- Metadata history tables are joined exactly when the corresponding
    *_METADATA_HISTORY feature is SYNC and the read is time-scoped. -/
theorem every_read_meta_history_ok :
    ∀ c ∈ readShapeCodes, (Shape.ofCode c).metaHistoryOk = true :=
  all_of_chunks (fun c => (Shape.ofCode c).metaHistoryOk) (by decide +kernel)

/-- Non-vacuity: both history tables are joined by some shape, and some PIT read
    of transactions runs with the transaction history feature off. -/
example :
    (readShapeChunks.any fun ch => ch.any fun c => (Shape.ofCode c).tTxMeta) = true ∧
    (readShapeChunks.any fun ch => ch.any fun c => (Shape.ofCode c).tAccMeta) = true ∧
    (readShapeChunks.any fun ch => ch.any fun c =>
      (Shape.ofCode c).resource == .transactions && (Shape.ofCode c).pit && !(Shape.ofCode c).tmh && (Shape.ofCode c).amh) = true := by
  decide +kernel

end Ledger.C17gates
