import Ledger.Proofs.CoreRevert

/-!
C15 — Revert is an exact, single inverse (Go-side and Spec algebra parts).

`Core.reversePostings`, `Core.Tx.reverse`, `Core.markReverts`, `Core.buildRevertTx` model
`Postings.Reverse`, `Transaction.Reverse`, `MarkReverts` and the construction in
`DefaultController.revertTransaction`; tied by the `reverse` differential workload, which
calls the real `revertTransaction` over a stub store.  The "marked reverted exactly once
under concurrency" part (`UPDATE … WHERE reverted_at IS NULL`) belongs to the SQL/schedule
layer and is not covered here.
-/
namespace Ledger.C15
open Ledger.Base Ledger.Core Ledger.Spec

/-- `Postings.Reverse` swaps source and destination of every posting and reverses the
    order; doing it twice gives the original back. -/
theorem reverse_postings (ps : List Posting) :
    reversePostings ps = (ps.map Posting.swap).reverse ∧
    reversePostings (reversePostings ps) = ps ∧
    (reversePostings ps).length = ps.length :=
  ⟨rfl, reversePostings_involutive ps, by simp [reversePostings]⟩

example : reversePostings [⟨"a", "b", 1, "USD"⟩, ⟨"b", "c", 2, "EUR"⟩] = [⟨"c", "b", 2, "EUR"⟩, ⟨"b", "a", 1, "USD"⟩] := by
  decide

/-- What the reversed postings do to any (account, asset): inputs and outputs trade places. -/
theorem reverse_volumes (ps : List Posting) (k : Key) :
    foldVolumes k (reversePostings ps) = ⟨(foldVolumes k ps).output, (foldVolumes k ps).input⟩ := by
  simp [foldVolumes, inSum_reversePostings, outSum_reversePostings]

/-- T plus its revert leave every balance unchanged, wherever they sit in the history. -/
theorem tx_plus_revert_balance_neutral (h1 h2 h3 : List TxRec) (T R : TxRec)
    (hR : R.postings = reversePostings T.postings) (k : Key) :
    balanceOf (h1 ++ [T] ++ h2 ++ [R] ++ h3) k = balanceOf (h1 ++ h2 ++ h3) k := by
  simp only [balanceOf, volumesOf, allPostings_append, foldVolumes_append, balance_add, allPostings,
    List.append_nil, hR, reverse_volumes]
  simp only [Volumes.balance]
  omega

/-- … and so do the stored volumes: once T and its revert R are committed (with anything
    in between and after), each row's balance is what the history without T and R gives. -/
theorem store_balance_neutral (ops : List StoreOp) (st : Store) (h : runOps ops = .ok st)
    (h1 h2 h3 : List TxRec) (T R : TxRec) (hh : st.txRecs = h1 ++ [T] ++ h2 ++ [R] ++ h3)
    (hR : R.postings = reversePostings T.postings) (k : Key) (v : Volumes)
    (hv : st.accountsVolumes.get? k = some v) : v.balance = balanceOf (h1 ++ h2 ++ h3) k := by
  rw [C02_balance ops st h k v hv, hh]
  exact tx_plus_revert_balance_neutral h1 h2 h3 T R hR k

example : balanceOf [{ id := 1, postings := [⟨"world", "a", 10, "USD"⟩], timestamp := 1, insertedAt := 1 },
                     { id := 2, postings := [⟨"a", "b", 4, "USD"⟩, ⟨"b", "c", 1, "USD"⟩], timestamp := 2, insertedAt := 2 },
                     { id := 3, postings := reversePostings [⟨"a", "b", 4, "USD"⟩, ⟨"b", "c", 1, "USD"⟩], timestamp := 3, insertedAt := 3 }]
            ("b", "USD") = 0 := by decide

/-- Shape of the revert transaction `revertTransaction` hands to `CommitTransaction`:
    reversed postings, the client metadata plus the mark
    `com.formance.spec/state/reverts = <id of T>` (overriding a client value for that key),
    T's timestamp when reverting at the effective date and T's `reverted_at` otherwise,
    no id, no reference. -/
theorem revert_tx_shape (orig : Tx) (inp : RevertInput) (balances : Balances) (tx : Tx)
    (hm : Map.WF inp.metadata) (h : buildRevertTx orig inp balances = .ok tx) :
    tx.postings = reversePostings orig.postings ∧
    (∃ id, orig.id = some id ∧ tx.metadata.get? revertMetaKey = some (toString id)) ∧
    (∀ key, key ≠ revertMetaKey → tx.metadata.get? key = inp.metadata.get? key) ∧
    tx.timestamp = (if inp.atEffectiveDate then orig.timestamp else orig.revertedAt) ∧
    (inp.atEffectiveDate = false → orig.revertedAt ≠ none) ∧
    tx.id = none ∧ tx.reference = "" ∧ tx.revertedAt = none :=
  buildRevertTx_shape .current orig inp balances tx hm h

example : (buildRevertTx { id := some 7, postings := [⟨"a", "b", 4, "USD"⟩], timestamp := some 5, revertedAt := some 9 }
             { force := false, atEffectiveDate := false, metadata := [("x", "y")] } [(("b", "USD"), 4)]).toOption.map
            (fun t => (t.postings, t.metadata, t.timestamp)) =
          some ([⟨"b", "a", 4, "USD"⟩], [("com.formance.spec/state/reverts", "7"), ("x", "y")], some 9) := by
  decide

/-- A revert whose inputs come from the store (id and `reverted_at` set; `balances` holding
    exactly the (destination, asset) pairs of the original transaction, as `GetBalances`
    returns them) never panics: it builds the revert transaction or reports insufficient funds. -/
theorem revert_nonforced_total (orig : Tx) (inp : RevertInput) (balances : Balances)
    (hid : orig.id ≠ none) (hrev : orig.revertedAt ≠ none)
    (hb : balances.keys = involvedDestinations orig.postings) :
    buildRevertTx orig inp balances ≠ .error .nilDeref :=
  buildRevertTx_total orig inp balances hid hrev hb

example : buildRevertTx { id := some 1, postings := [⟨"a", "b", 10, "USD"⟩, ⟨"b", "c", 5, "EUR"⟩], timestamp := some 1, revertedAt := some 2 }
    { force := false, atEffectiveDate := false, metadata := [] } [(("b", "USD"), 10), (("c", "EUR"), 5)] =
    .ok { postings := [⟨"c", "b", 5, "EUR"⟩, ⟨"b", "a", 10, "USD"⟩], timestamp := some 2,
          metadata := [("com.formance.spec/state/reverts", "1")] } := by decide

/-- The same claim for the check as it was before commit fe6217d (kept type-checked; it was
    FALSE: found by the `reverse` workload, fixed in /repo). -/
def revert_nonforced_total_preFix : Prop :=
  ∀ (orig : Tx) (inp : RevertInput) (balances : Balances),
    orig.id ≠ none → orig.revertedAt ≠ none →
    balances.keys = involvedDestinations orig.postings →
    buildRevertTxV .preFix orig inp balances ≠ .error .nilDeref

/-- Witness: `[a→b 10 USD, b→c 5 EUR]`.  `balances` holds (b,USD) and (c,EUR); undoing the
    second posting credits `b` in EUR — `balances["b"]` exists but `balances["b"]["EUR"]`
    was a nil `*big.Int` and `Add` dereferenced it. -/
theorem revert_nonforced_total_preFix_counterexample : ¬ revert_nonforced_total_preFix := by
  intro h
  exact h { id := some 1, postings := [⟨"a", "b", 10, "USD"⟩, ⟨"b", "c", 5, "EUR"⟩], timestamp := some 1, revertedAt := some 2 }
    { force := false, atEffectiveDate := false, metadata := [] }
    [(("b", "USD"), 10), (("c", "EUR"), 5)] (by decide) (by decide) (by decide) (by decide)

/-- What did hold before the fix: no panic when forced, or when `balances` is closed for the
    transaction (every (destination, asset) pair and, for every posting whose source account
    appears in it, the (source, asset) pair too — e.g. every single-asset transaction). -/
theorem revert_nonforced_total_preFix_partial (orig : Tx) (inp : RevertInput) (balances : Balances)
    (hid : orig.id ≠ none) (hrev : orig.revertedAt ≠ none)
    (hc : inp.force = true ∨ ∀ p ∈ orig.postings, balances.contains p.dstKey = true ∧
            (hasAccount balances p.source = true → balances.contains p.srcKey = true)) :
    buildRevertTxV .preFix orig inp balances ≠ .error .nilDeref :=
  buildRevertTx_preFix_no_panic orig inp balances hid hrev hc

end Ledger.C15
