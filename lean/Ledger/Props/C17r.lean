import Ledger.Proofs.ReadsTxMeta

/-!
C17 (read path) — metadata reads reflect the latest write, history reflects the past.

Only property theorems and non-vacuity examples.  `accountMetaRead` / `txMetaRead`
(`Reads/Views.lean`) are the metadata a read at `pit` returns: the current metadata when no point in
time is given or the `*_METADATA_HISTORY` feature is not SYNC, otherwise the metadata of the latest
revision of `accounts_metadata` / `transactions_metadata` dated at or before `pit`, where the
revisions are the fold `acctRowOf` / `txRowOf` of the triggers of migration 11 over the journal.

Tested (not proved): that the real PIT reads over LeanPG (the MODELLED Postgres, which executes the
regenerated triggers) return exactly these values — workload `meta` of `vrreads`, all four
feature combinations.

FOUND AND REPAIRED (fix 2c0d233, exhibited by workload `meta` on the real code over LeanPG): before
it `DeleteAccountMetadata` did not touch `updated_at`, so the history trigger stamped the post-delete
revision with the date of the *previous* write and a read at `t` between that write and the delete
already showed the key deleted — kept as `account_meta_delete_backdated_counterexample` about the
explicitly parameterised `DeleteVariant.preFix`.
-/
namespace Ledger.C17r
open Ledger.Base Ledger.Core Ledger.Spec Ledger.Reads

/-- **History DISABLED ⇒ a read at any `t` returns the current metadata** (accounts). -/
theorem meta_at_t_disabled_is_current (feat : Features) (l : Ledger) (a : String) (pit : Option Int)
    (h : feat.acctMetaHist = false) :
    accountMetaRead feat l a pit = metaAt l (.account a) none := by
  unfold accountMetaRead accountMetaReadV
  cases pit <;> simp [h]

/-- The same for transactions. -/
theorem tx_meta_at_t_disabled_is_current (feat : Features) (l : Ledger) (id : Nat) (pit : Option Int)
    (h : feat.txMetaHist = false) :
    txMetaRead feat l id pit = metaAt l (.tx id) none := by
  unfold txMetaRead
  cases pit <;> simp [h]

/-- Without a point in time every read returns the current metadata, whatever the features. -/
theorem meta_no_pit_is_current (feat : Features) (l : Ledger) (a : String) (id : Nat) :
    accountMetaRead feat l a none = metaAt l (.account a) none ∧
    txMetaRead feat l id none = metaAt l (.tx id) none := ⟨rfl, rfl⟩

/-- **History SYNC ⇒ a read at `t` returns the latest revision dated ≤ t** (accounts / transactions). -/
theorem meta_at_t_sync_latest_revision (feat : Features) (l : Ledger) (a : String) (t : Int) (r : AcctRow)
    (h : feat.acctMetaHist = true) (hr : acctRowOf l a = some r) :
    accountMetaRead feat l a (some t) = revisionAt r.revisions t := by
  unfold accountMetaRead accountMetaReadV
  unfold acctRowOf at hr
  simp [h, hr]

theorem tx_meta_at_t_sync_latest_revision (feat : Features) (l : Ledger) (id : Nat) (t : Int) (r : Reads.TxRow)
    (h : feat.txMetaHist = true) (hr : txRowOf l id = some r) :
    txMetaRead feat l id (some t) = revisionAt r.revisions t := by
  unfold txMetaRead
  simp [h, hr]

/-- A write that appends the revision `(d, m)` is seen by exactly the reads at `t ≥ d`; earlier
    reads keep seeing the past. -/
theorem revision_lookup_append (revs : List Revision) (d : Int) (m : Metadata) (t : Int) :
    revisionAt (revs ++ [(d, m)]) t = if d ≤ t then m else revisionAt revs t :=
  revisionAt_append revs d m t

/-- **History SYNC ⇒ a read at `t` returns the metadata as it was at `t`** (accounts), for every
    journal in date order (dates may repeat; back-dated and future-dated *timestamps* are
    unrestricted — only the write dates are ordered, as a sequential history produces them), every
    account, every instant: the latest revision dated ≤ t carries exactly the Spec's fold of the
    writes dated ≤ t — metadata carried by transactions, saves, deletes, no-op saves (no new
    revision), first-usage-only updates (a revision with unchanged metadata) included. -/
theorem meta_at_t_sync (feat : Features) (l : Ledger) (a : String) (t : Int) (h : feat.acctMetaHist = true)
    (hc : Chrono l.events) (hrev : RevertsCarryNoMeta a l.events) :
    accountMetaRead feat l a (some t) = metaAt l (.account a) (some t) := by
  unfold accountMetaRead accountMetaReadV acctRowOfV metaAt
  simp only [h, if_true]
  have key : ∃ lb', AcctInv t (l.events.foldl (acctStepV .current a) none)
      (l.events.foldl (metaStep (.account a) none) []) (l.events.foldl (metaStep (.account a) (some t)) []) lb' := by
    cases hes : l.events with
    | nil => exact ⟨0, fun _ => rfl, Map.WF_nil, rfl, rfl⟩
    | cons e es =>
      rw [hes] at hc hrev
      have hch' := List.pairwise_cons.mp hc
      exact AcctInv_fold t a (e :: es) none [] [] (eventDate e) ⟨fun _ => rfl, Map.WF_nil, rfl, rfl⟩
        (fun x hx => by
          rcases List.mem_cons.mp hx with rfl | hx
          · exact Int.le_refl _
          · exact hch'.1 x hx) hc hrev
  obtain ⟨lb', _, _, hk⟩ := key
  cases hrow : l.events.foldl (acctStepV .current a) none with
  | none => rw [hrow] at hk; exact hk.2.symm
  | some r => rw [hrow] at hk; exact hk.2.1

/-- … and the current metadata of the row is the fold of all writes (last write wins per key,
    deleted keys removed). -/
theorem current_meta_eq_fold (l : Ledger) (a : String) (r : AcctRow)
    (hc : Chrono l.events) (hrev : RevertsCarryNoMeta a l.events) (hr : acctRowOf l a = some r) :
    r.metadata = metaAt l (.account a) none := by
  unfold acctRowOf acctRowOfV at hr
  unfold metaAt
  have key : ∃ lb', AcctInv 0 (l.events.foldl (acctStepV .current a) none)
      (l.events.foldl (metaStep (.account a) none) []) (l.events.foldl (metaStep (.account a) (some 0)) []) lb' := by
    cases hes : l.events with
    | nil => exact ⟨0, fun _ => rfl, Map.WF_nil, rfl, rfl⟩
    | cons e es =>
      rw [hes] at hc hrev
      have hch' := List.pairwise_cons.mp hc
      exact AcctInv_fold 0 a (e :: es) none [] [] (eventDate e) ⟨fun _ => rfl, Map.WF_nil, rfl, rfl⟩
        (fun x hx => by
          rcases List.mem_cons.mp hx with rfl | hx
          · exact Int.le_refl _
          · exact hch'.1 x hx) hc hrev
  obtain ⟨lb', _, _, hk⟩ := key
  rw [hr] at hk
  exact hk.1

/-- **Transactions, history SYNC ⇒ the read at `t` is builder-core's `Spec.metaAt`** (the highest
    `transactions_metadata` revision dated ≤ t: revision 1 dated by the transaction's timestamp,
    later ones — changing saves, deletes of existing keys, reverts — by the write's date), for
    every journal in which the transaction is committed once, before any write on it, with JSON
    objects as metadata (`TxJournalOK`); no ordering of the dates is assumed. The SQL predicates
    `not (metadata @> m)` / `metadata -> key is not null` that decide whether a revision is written
    are shown equivalent to "the metadata changed". -/
theorem tx_meta_at_t_sync (feat : Features) (l : Ledger) (id : Nat) (t : Int)
    (h : feat.txMetaHist = true) (hok : TxJournalOK id false l.events) :
    txMetaRead feat l id (some t) = metaAt l (.tx id) (some t) :=
  txMetaRead_eq_metaAt feat l id t h hok

/-- Non-vacuity: the hypothesis holds on a journal with a back-dated commit, a save, a no-op save, a
    delete and a revert. -/
example : TxJournalOK 1 false [
    .committed { id := 1, postings := [⟨"world", "a", 1, "USD"⟩], timestamp := 2, insertedAt := 5, metadata := [("k", "v")] } [] true,
    .metaWrite ⟨.tx 1, 10, .save [("x", "y")]⟩, .metaWrite ⟨.tx 1, 11, .save [("x", "y")]⟩,
    .metaWrite ⟨.tx 1, 20, .delete "k"⟩, .reverted 1 30] := by
  simp [TxJournalOK, Map.WF]

/-- **Counterexample (code before fix 2c0d233) to "a read at time t returns the metadata as it was
    at t"** for accounts with history SYNC: `k` saved at 10, deleted at 20; the read at 15 already
    misses `k`, because the delete did not move `updated_at` and its revision was stamped 10. -/
theorem account_meta_delete_backdated_counterexample :
    ∃ (l : Ledger) (a : String) (t : Int),
      accountMetaReadV .preFix { acctMetaHist := true } l a (some t) ≠ metaAt l (.account a) (some t) :=
  ⟨{ events := [.metaWrite ⟨.account "a", 10, .save [("k", "v")]⟩, .metaWrite ⟨.account "a", 20, .delete "k"⟩] },
   "a", 15, by decide⟩

/-- The same journal before and after the fix: `{}` at 15 before, `{k: v}` after — equal to the
    Spec's fold at 15. -/
example :
    let l : Ledger := { events := [.metaWrite ⟨.account "a", 10, .save [("k", "v")]⟩,
                                    .metaWrite ⟨.account "a", 20, .delete "k"⟩] }
    (accountMetaReadV .preFix {} l "a" (some 15), accountMetaRead {} l "a" (some 15), metaAt l (.account "a") (some 15),
     accountMetaRead {} l "a" (some 9), accountMetaRead {} l "a" (some 20)) =
    ([], [("k", "v")], [("k", "v")], [], []) := by decide

/-- Transactions: the delete moves `updated_at`, so the history is faithful. -/
example :
    let l : Ledger := { events := [
      .committed { id := 1, postings := [⟨"world", "a", 1, "USD"⟩], timestamp := 5, insertedAt := 5, metadata := [("k", "v")] } [] true,
      .metaWrite ⟨.tx 1, 10, .save [("x", "y")]⟩, .metaWrite ⟨.tx 1, 20, .delete "k"⟩] }
    (txMetaRead {} l 1 (some 5), txMetaRead {} l 1 (some 15), txMetaRead {} l 1 (some 20)) =
    ([("k", "v")], [("k", "v"), ("x", "y")], [("x", "y")]) := by decide

end Ledger.C17r
