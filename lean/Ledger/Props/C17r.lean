import Ledger.Proofs.Reads

/-!
C17 (read path) — metadata reads reflect the latest write, history reflects the past.

Only property theorems and non-vacuity examples.  `accountMetaRead` / `txMetaRead`
(`Reads/Views.lean`) are the metadata a read at `pit` returns: the current metadata when no point in
time is given or the `*_METADATA_HISTORY` feature is not SYNC, otherwise the metadata of the latest
revision of `accounts_metadata` / `transactions_metadata` dated at or before `pit`, where the
revisions are the fold `acctRowOf` / `txRowOf` of the triggers of migration 11 over the journal.

Tested (not proved): that the real PIT reads over LeanPG (the MODELLED Postgres, which executes the
regenerated triggers) return exactly these values — workload `meta` of `vrreads`, all four
feature combinations.

FOUND AND REPAIRED (fix 2c0d233, exhibited by workload `meta` on the real code over LeanPG): before
it `DeleteAccountMetadata` did not touch `updated_at`, so the history trigger stamped the post-delete
revision with the date of the *previous* write and a read at `t` between that write and the delete
already showed the key deleted — kept as `account_meta_delete_backdated_counterexample` about the
explicitly parameterised `DeleteVariant.preFix`.
-/
namespace Ledger.C17r
open Ledger.Base Ledger.Core Ledger.Spec Ledger.Reads

/-- **History DISABLED ⇒ a read at any `t` returns the current metadata** (accounts). -/
theorem meta_at_t_disabled_is_current (feat : Features) (l : Ledger) (a : String) (pit : Option Int)
    (h : feat.acctMetaHist = false) :
    accountMetaRead feat l a pit = metaAt l (.account a) none := by
  unfold accountMetaRead accountMetaReadV
  cases pit <;> simp [h]

/-- The same for transactions. -/
theorem tx_meta_at_t_disabled_is_current (feat : Features) (l : Ledger) (id : Nat) (pit : Option Int)
    (h : feat.txMetaHist = false) :
    txMetaRead feat l id pit = metaAt l (.tx id) none := by
  unfold txMetaRead
  cases pit <;> simp [h]

/-- Without a point in time every read returns the current metadata, whatever the features. -/
theorem meta_no_pit_is_current (feat : Features) (l : Ledger) (a : String) (id : Nat) :
    accountMetaRead feat l a none = metaAt l (.account a) none ∧
    txMetaRead feat l id none = metaAt l (.tx id) none := ⟨rfl, rfl⟩

/-- **History SYNC ⇒ a read at `t` returns the latest revision dated ≤ t** (accounts / transactions). -/
theorem meta_at_t_sync_latest_revision (feat : Features) (l : Ledger) (a : String) (t : Int) (r : AcctRow)
    (h : feat.acctMetaHist = true) (hr : acctRowOf l a = some r) :
    accountMetaRead feat l a (some t) = revisionAt r.revisions t := by
  unfold accountMetaRead accountMetaReadV
  unfold acctRowOf at hr
  simp [h, hr]

theorem tx_meta_at_t_sync_latest_revision (feat : Features) (l : Ledger) (id : Nat) (t : Int) (r : Reads.TxRow)
    (h : feat.txMetaHist = true) (hr : txRowOf l id = some r) :
    txMetaRead feat l id (some t) = revisionAt r.revisions t := by
  unfold txMetaRead
  simp [h, hr]

/-- A write that appends the revision `(d, m)` is seen by exactly the reads at `t ≥ d`; earlier
    reads keep seeing the past. -/
theorem revision_lookup_append (revs : List Revision) (d : Int) (m : Metadata) (t : Int) :
    revisionAt (revs ++ [(d, m)]) t = if d ≤ t then m else revisionAt revs t :=
  revisionAt_append revs d m t

/-- The documented transaction metadata at `t` is the Spec's `metaAt` whenever the transaction
    was inserted at or before `t` (they differ only on back-dated transactions read between their
    timestamp and their insertion, where the read — in effective time — shows the initial metadata). -/
theorem tx_meta_doc_eq_metaAt (l : Ledger) (id : Nat) (t : Int)
    (h : ∀ tx am up, Event.committed tx am up ∈ l.events → tx.id = id → tx.insertedAt ≤ t) :
    txMetaDoc l id (some t) = metaAt l (.tx id) (some t) := by
  unfold txMetaDoc metaAt
  apply foldl_congr_mem
  intro m e he
  cases e with
  | committed tx am up =>
    by_cases hid : tx.id = id
    · have := h tx am up he hid
      simp [txMetaDocStep, metaStep, hid, this]
    · simp [txMetaDocStep, metaStep, hid]
  | reverted i d => rfl
  | metaWrite ev => simp [txMetaDocStep, metaStep]

/-- Current metadata: the two folds coincide. -/
theorem tx_meta_doc_current (l : Ledger) (id : Nat) : txMetaDoc l id none = metaAt l (.tx id) none := by
  unfold txMetaDoc metaAt
  apply foldl_congr_mem
  intro m e _
  cases e with
  | committed tx am up => by_cases hid : tx.id = id <;> simp [txMetaDocStep, metaStep, hid]
  | reverted i d => rfl
  | metaWrite ev => simp [txMetaDocStep, metaStep]

/-- **Counterexample (code before fix 2c0d233) to "a read at time t returns the metadata as it was
    at t"** for accounts with history SYNC: `k` saved at 10, deleted at 20; the read at 15 already
    misses `k`, because the delete did not move `updated_at` and its revision was stamped 10. -/
theorem account_meta_delete_backdated_counterexample :
    ∃ (l : Ledger) (a : String) (t : Int),
      accountMetaReadV .preFix { acctMetaHist := true } l a (some t) ≠ metaAt l (.account a) (some t) :=
  ⟨{ events := [.metaWrite ⟨.account "a", 10, .save [("k", "v")]⟩, .metaWrite ⟨.account "a", 20, .delete "k"⟩] },
   "a", 15, by decide⟩

/-- The same journal before and after the fix: `{}` at 15 before, `{k: v}` after — equal to the
    Spec's fold at 15. -/
example :
    let l : Ledger := { events := [.metaWrite ⟨.account "a", 10, .save [("k", "v")]⟩,
                                    .metaWrite ⟨.account "a", 20, .delete "k"⟩] }
    (accountMetaReadV .preFix {} l "a" (some 15), accountMetaRead {} l "a" (some 15), metaAt l (.account "a") (some 15),
     accountMetaRead {} l "a" (some 9), accountMetaRead {} l "a" (some 20)) =
    ([], [("k", "v")], [("k", "v")], [], []) := by decide

/-- Transactions: the delete moves `updated_at`, so the history is faithful. -/
example :
    let l : Ledger := { events := [
      .committed { id := 1, postings := [⟨"world", "a", 1, "USD"⟩], timestamp := 5, insertedAt := 5, metadata := [("k", "v")] } [] true,
      .metaWrite ⟨.tx 1, 10, .save [("x", "y")]⟩, .metaWrite ⟨.tx 1, 20, .delete "k"⟩] }
    (txMetaRead {} l 1 (some 5), txMetaRead {} l 1 (some 15), txMetaRead {} l 1 (some 20)) =
    ([("k", "v")], [("k", "v"), ("x", "y")], [("x", "y")]) := by decide

end Ledger.C17r
