import Ledger.Proofs.InterpAgree

/-!
C26 (model layer) — Machine and interpreter runtimes agree on the shared language.

`Machine.sem` is the model of the default machine runtime (tied to the real compiler + VM
by C22's `prog` workload and, again, by `interpmodel`); `Interp.run` is the model of the
`numscript` v0.0.24 interpreter (hand-written from the library source, tied to the real
interpreter by the `interpmodel` / `interpedge` / `interpfuzz` workloads, error kinds
included).  Both run on the same abstract syntax (`Ledger.Machine.Ast`), the same
variables, balances and account metadata (`Machine.Input`).

`machine_interp_agree_F2` (and its allotment-free special case `machine_interp_agree_F1`):
for EVERY program and input of the fragment (`Ledger/Interp/Fragment.lean`: `InF2` / `InF1`,
decidable, evaluated on every generated case) the two models both fail, or yield the same
non-zero postings in the same order, the same transaction metadata and the same account
metadata.  The proof is a simulation by
structural induction over sources and destinations between the machine's fundings and the
interpreter's funds queue, both read as lists of units (`Ledger/Proofs/Interp*.lean`).

Outside F1 the full statement is false: `machine_interp_agree_full` is a `def … : Prop`
and the `…_counterexample_*` theorems refute it on the witnesses of the divergence classes
(each class is a condition F1 excludes; each was confirmed on the two REAL runtimes).
-/
namespace Ledger.C26i
open Ledger.Machine Ledger.Interp

/-! ## Agreement on F1 and F2 -/

/-- F1 (no allotment), in the relation the differential applies to the two real runtimes. -/
theorem machine_interp_agree_F1 (p : Script) (inp : Input) (h : InF1 p inp = true) :
    SameResult p inp :=
  sameResult_of_agree (agree_F1 p inp h)

/-- F2 = F1 + allotment sources and destinations (literal portions, `remaining`). -/
theorem machine_interp_agree_F2 (p : Script) (inp : Input) (h : InF2 p inp = true) :
    SameResult p inp :=
  sameResult_of_agree (agree_F2 p inp h)

/-- F2, unfolded (see `machine_interp_agree_F1_units`). -/
theorem machine_interp_agree_F2_units (p : Script) (inp : Input) (h : InF2 p inp = true) :
    match sem Cfg.fixed p inp, Ledger.Interp.run p inp with
    | .error _, .error _ => True
    | .ok rm, .ok ri =>
      unitsP rm.postings = unitsP ri.postings ∧
      (∀ q ∈ rm.postings, 0 ≤ q.amount) ∧ (∀ q ∈ ri.postings, 0 ≤ q.amount) ∧
      rm.txMeta = ri.txMeta ∧
      rm.accMeta.map (fun x => (x.1, x.2.1, valStr x.2.2)) = ri.accMeta
    | _, _ => False :=
  agree_F2 p inp h

/-- No front-end hypothesis for programs WITHOUT variable declarations: if the machine
    compiles the program, the input passes no variable, and every statement is a statement of
    F2 (`stmtWf []`: a condition on the program text alone, the environment being empty), the
    two models agree — for all balances and account metadata. -/
theorem machine_interp_agree_F2_novars (p : Script) (inp : Input) (hv : p.vars = [])
    (hi : inp.vars = []) (htc : compiles p = true) (hwf : ∀ st ∈ p.stmts, stmtWf [] st = true) :
    SameResult p inp :=
  sameResult_of_agree (agree_F2_novars p inp hv hi htc hwf)

/-- … because there the two front ends provably agree. -/
theorem front_ends_agree_novars (p : Script) (inp : Input) (hv : p.vars = []) (hi : inp.vars = [])
    (hwf : ∀ st ∈ p.stmts, stmtWf [] st = true) : FrontAgree p inp = true :=
  frontAgree_novars p inp hv hi hwf

/-- Allotments: on an allotment of F2 both runtimes compute the same shares
    (`Allotment.Allocate` = the interpreter's `makeAllotment`). -/
theorem allotment_shares_agree {env : Env} (ienv : Env) {ps : List PortionE}
    (h : allotOK env ps = true) :
    ∃ a, Machine.makeAllotment env ps = .ok a ∧ a.sum = 1 ∧
      ∀ amt, Ledger.Interp.makeAllotment ienv amt ps = .ok (allocate a amt) := by
  obtain ⟨a, h1, h2, _, h4⟩ := makeAllotment_agree ienv h
  exact ⟨a, h1, h2, h4⟩

/-- F1, unfolded: both models fail, or the postings are the same lists of units (one
    (source, destination, asset) triple per unit of amount, in order), every amount is ≥ 0,
    the transaction metadata are the same values under the same keys in the same order, and
    the account metadata agree once rendered. -/
theorem machine_interp_agree_F1_units (p : Script) (inp : Input) (h : InF1 p inp = true) :
    match sem Cfg.fixed p inp, Ledger.Interp.run p inp with
    | .error _, .error _ => True
    | .ok rm, .ok ri =>
      unitsP rm.postings = unitsP ri.postings ∧
      (∀ q ∈ rm.postings, 0 ≤ q.amount) ∧ (∀ q ∈ ri.postings, 0 ≤ q.amount) ∧
      rm.txMeta = ri.txMeta ∧
      rm.accMeta.map (fun x => (x.1, x.2.1, valStr x.2.2)) = ri.accMeta
    | _, _ => False :=
  agree_F1 p inp h

/-- The comparison of the differential only depends on the units: zero-amount postings and
    the way a run of units is cut into postings are invisible to it. -/
theorem same_units_same_normal_form {ps qs : List Posting} (hp : ∀ p ∈ ps, 0 ≤ p.amount)
    (hq : ∀ p ∈ qs, 0 ≤ p.amount) (h : unitsP ps = unitsP qs) :
    Ledger.Api.Interp.norm (toP ps) = Ledger.Api.Interp.norm (toP qs) :=
  norm_eq_of_units hp hq h

/-- One send of F1: from related states (`SRel`: tracked balances of the machine = cached
    balances of the interpreter on the tracked pairs, same postings as units, same metadata,
    empty funds queue) both models fail or end in related states. -/
theorem send_agrees {env ienv : Env} (heq : EnvEq env ienv) (henv : EnvOK env)
    {P : List (String × String)} {mon : Expr} {s : Source} {dst : Dest} {st : State} {ist : IState}
    (hwf : stmtWf env (.send mon (.src s) dst) = true)
    (hin : stmtLeavesIn P env (.send mon (.src s) dst) = true) (h : SRel P st ist) :
    StmtAgree P (Machine.evalStmt Cfg.fixed env (.send mon (.src s) dst) st)
      (Ledger.Interp.evalStmt ienv (.send mon (.src s) dst) ist) :=
  send_sim heq henv hwf hin h

/-- Sources: the interpreter's `tryTakingUpTo s amt` pushes exactly the first `amt` units of
    the funding the machine's `evalSource s` yields, topped up from the unbounded fallback
    account of `s` when it has one — the units the machine's `TakeMax amt` keeps. -/
theorem source_agrees {env ienv : Env} (heq : EnvEq env ienv) (henv : EnvOK env)
    {P : List (String × String)} {c : String} (s : Source) (hwf : srcWf env c s = true)
    (hin : LeavesIn P env c s.neededAccts) (b : Balances) (ist : IState) (amt : Int)
    (hamt : 0 ≤ amt) (hc : ist.asset = c) (hb : b.WF) (hrel : Rel P b ist.bal) :
    ∃ f b1, evalSource Cfg.fixed env c s b = .ok (f, b1) ∧ f.asset = c ∧
      ∃ sent ist', tryUpTo ienv s amt ist = .ok (sent, ist') ∧
        Pushed c ist ist' (takeExt amt.toNat (units f.parts) (fbOf env s.fallback)) ∧
        sent = ((takeExt amt.toNat (units f.parts) (fbOf env s.fallback)).length : Int) := by
  obtain ⟨f, b1, h1, h2, _, _, sent, ist', h4, h5, h6⟩ :=
    src_sim heq henv s hwf hin b ist amt hamt hc hb hrel.hasP (fun _ => hrel)
  exact ⟨f, b1, h1, h2, sent, ist', h4, h5, h6⟩

/-- Expressions: where the machine's `evalExpr` yields a value the interpreter's
    `evaluateExpr` yields the same one (same bindings, literals both parsers read alike). -/
theorem expr_agrees {env ienv : Env} (heq : EnvEq env ienv) (henv : EnvOK env) (e : Expr)
    (v : Value) (hl : litsOK e = true) (h : Machine.evalExpr env e = .ok v) :
    Ledger.Interp.evalExpr ienv e = .ok v :=
  evalExpr_agree heq henv e v hl h

/-! ## Non-vacuity -/

-- a funded program of F1 with variables, capped / overdraft / unbounded sources, nested
-- in-order destinations, `send [A *]`, both metadata statements
example : InF1 wF1 wF1In = true := by decide +kernel
example : mSum wF1 wF1In = some
    ([⟨"a", "x", "COIN", 15⟩, ⟨"a", "y", "COIN", 15⟩, ⟨"a2", "y", "COIN", 28⟩, ⟨"world", "y", "COIN", 57⟩,
      ⟨"world", "z", "COIN", 55⟩, ⟨"x", "a2", "COIN", 18⟩, ⟨"a", "a2", "COIN", 5⟩],
     [("k", "COIN 3")], [("a2", "tag", "3/4")]) := by decide +kernel
example : iSum wF1 wF1In = mSum wF1 wF1In := by decide +kernel
-- a program of F2 (allotment source over in-order / capped-unbounded / overdraft sources,
-- allotment destination with a nested in-order destination), not in F1
example : InF2 wF2 wF2In = true := by decide +kernel
example : InF1 wF2 wF2In = false := by decide +kernel
example : mSum wF2 wF2In = some
    ([⟨"a", "x", "COIN", 20⟩, ⟨"world", "x", "COIN", 6⟩, ⟨"world", "y", "COIN", 7⟩, ⟨"world", "z", "COIN", 1⟩,
      ⟨"b", "z", "COIN", 10⟩, ⟨"c", "z", "COIN", 45⟩, ⟨"c", "x", "COIN", 12⟩], [], []) := by
  decide +kernel
example : SameResult wF2 wF2In := by unfold SameResult; decide +kernel
-- … and one where both fail (insufficient funds)
example : InF1 wF1Poor (coinInput [("a", 50), ("a2", 8)]) = true := by decide +kernel
example : mSum wF1Poor (coinInput [("a", 50), ("a2", 8)]) = none := by decide +kernel
example : iSum wF1Poor (coinInput [("a", 50), ("a2", 8)]) = none := by decide +kernel
-- the witnesses below are all compiled by the machine
example : compiles wKept = true ∧ compiles wSaveOd = true ∧ compiles wPortions = true := by decide +kernel

/-! ## The full statement is false -/

/-- `kept`: `send [COIN 10] from {@alice(5) @carol(5)} to {max [COIN 4] kept, remaining to @bob}`:
    the machine keeps carol's funds, the interpreter alice's. -/
theorem machine_interp_agree_full_counterexample_kept : ¬ machine_interp_agree_full := by
  intro h
  have := h wKept wKeptIn (by decide +kernel)
  revert this; unfold SameResult; decide +kernel

theorem kept_witness_machine : mSum wKept wKeptIn =
    some ([⟨"alice", "bob", "COIN", 5⟩, ⟨"carol", "bob", "COIN", 1⟩], [], []) := by decide +kernel

theorem kept_witness_interp : iSum wKept wKeptIn =
    some ([⟨"alice", "bob", "COIN", 1⟩, ⟨"carol", "bob", "COIN", 5⟩], [], []) := by decide +kernel

/-- `save` + bounded overdraft: `save [COIN 112] from @alice(15)` then
    `send [COIN 17] from @alice allowing overdraft up to [COIN 36]`: the machine's tracked
    balance is −97 (insufficient funds), the interpreter's is 0 (posts 17). -/
theorem machine_interp_agree_full_counterexample_save_overdraft : ¬ machine_interp_agree_full := by
  intro h
  have := h wSaveOd wSaveOdIn (by decide +kernel)
  revert this; unfold SameResult; decide +kernel

theorem save_overdraft_witness_machine : mSum wSaveOd wSaveOdIn = none := by decide +kernel

theorem save_overdraft_witness_interp : iSum wSaveOd wSaveOdIn =
    some ([⟨"alice", "bob", "COIN", 17⟩], [], []) := by decide +kernel

/-- Portions over 100 %: `{$p(1/2) to @a, 25% to @b, 1/2 to @c, remaining to @d}`: the machine
    rejects the allotment at run time, the interpreter allocates (a negative `remaining`). -/
theorem machine_interp_agree_full_counterexample_portions : ¬ machine_interp_agree_full := by
  intro h
  have := h wPortions wPortionsIn (by decide +kernel)
  revert this; unfold SameResult; decide +kernel

theorem portions_witness_machine : mSum wPortions wPortionsIn = none := by decide +kernel

theorem portions_witness_interp : iSum wPortions wPortionsIn =
    some ([⟨"world", "a", "COIN", 50⟩, ⟨"world", "b", "COIN", 25⟩, ⟨"world", "c", "COIN", 25⟩], [], []) := by
  decide +kernel

/-- A cap that evaluates negative (`max [COIN 5] - [COIN 9] from @a`): refused by the machine,
    read as 0 by the interpreter. -/
theorem negative_cap_witness_machine : mSum wNegCap wNegCapIn = none := by decide +kernel

theorem negative_cap_witness_interp : iSum wNegCap wNegCapIn =
    some ([⟨"b", "d", "COIN", 7⟩, ⟨"world", "d", "COIN", 13⟩], [], []) := by decide +kernel

/-- An account variable holding `world` in source position: refused by the machine. -/
theorem world_variable_witness_machine : mSum wWorldVar wWorldVarIn = none := by decide +kernel

theorem world_variable_witness_interp : iSum wWorldVar wWorldVarIn =
    some ([⟨"world", "d", "COIN", 20⟩], [], []) := by decide +kernel

/-- `save` of more than the balance: the machine's tracked balance goes to −20, the
    interpreter's stops at 0; of the 25 received afterwards 5 resp. 25 can be sent on. -/
theorem save_clamp_witness_machine : mSum wSaveClamp wSaveClampIn =
    some ([⟨"world", "a", "COIN", 25⟩, ⟨"a", "d", "COIN", 5⟩], [], []) := by decide +kernel

theorem save_clamp_witness_interp : iSum wSaveClamp wSaveClampIn =
    some ([⟨"world", "a", "COIN", 25⟩, ⟨"a", "d", "COIN", 25⟩], [], []) := by decide +kernel

/-- `save [COIN 5] + [COIN 3]`: the machine saves 5 (leftmost atom), the interpreter 8. -/
theorem save_expression_witness_machine : mSum wSaveExpr wSaveExprIn =
    some ([⟨"a", "d", "COIN", 14⟩], [], []) := by decide +kernel

theorem save_expression_witness_interp : iSum wSaveExpr wSaveExprIn = none := by decide +kernel

/-- The portion literal `010/100`: 8/100 for the machine (octal numerator), 1/10 for the
    interpreter. -/
theorem octal_portion_witness_machine : mSum wOctal (coinInput []) =
    some ([], [("k", "2/25")], []) := by decide +kernel

theorem octal_portion_witness_interp : iSum wOctal (coinInput []) =
    some ([], [("k", "1/10")], []) := by decide +kernel

/-- A destination maximum in another asset after the funds are exhausted: only the machine
    looks at it. -/
theorem asset_mismatch_witness_machine : mSum wLateAsset (coinInput []) = none := by decide +kernel

theorem asset_mismatch_witness_interp : iSum wLateAsset (coinInput []) =
    some ([⟨"world", "b", "COIN", 10⟩], [], []) := by decide +kernel

/-- `balance(@world, COIN)`: the machine reads the store (negative: refused), the interpreter
    never queries `@world` and yields 0. -/
theorem balance_world_witness_machine : mSum wBalWorld wBalWorldIn = none := by decide +kernel

theorem balance_world_witness_interp : iSum wBalWorld wBalWorldIn =
    some ([], [("k", "COIN 0")], []) := by decide +kernel

/-- Front ends: an undeclared variable is refused by the machine only … -/
theorem extraneous_variable_witness_machine : mSum wPlain wExtraIn = none := by decide +kernel

theorem extraneous_variable_witness_interp : iSum wPlain wExtraIn =
    some ([⟨"world", "d", "COIN", 10⟩], [], []) := by decide +kernel

/-- … and `"007"` is a number for the interpreter only. -/
theorem variable_format_witness_machine : mSum wNumFmt wNumFmtIn = none := by decide +kernel

theorem variable_format_witness_interp : iSum wNumFmt wNumFmtIn =
    some ([], [("k", "7")], []) := by decide +kernel

end Ledger.C26i
