import Ledger.Proofs.ReadsSqlRun

/-!
C05 / C17 / C18 (SQL leg), BOUNDED obligations, part 3 (see `Props/C05q.lean` for what these are):
the transactions listing at a point in time (timestamp ≤ pit, reverted mask, metadata-history join),
the accounts listing (first_usage ≤ pit, metadata-history join) and GetAccount with both volume
expansions, on the FULL world of a history (transactions, moves, accounts and the history rows the
regenerated triggers write) with metadata, a back-dated transaction and a revert.
-/
namespace Ledger.C05q3
open Ledger.Reads.SqlRun

set_option maxRecDepth 100000

theorem listings_scenD :
    checkFullFamily none scenD
      [.txPit 8, .txPit 9, .txPit 4, .acctPit 4, .acctPit 5, .acctGetPit 5 "a", .acctGetPit 8 "a"] = true := by
  decide +kernel

end Ledger.C05q3
