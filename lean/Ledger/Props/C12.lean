import Ledger.Proofs.CtrlImport
import Ledger.Proofs.CtrlExamples

/-!
# C12 — Import only on pristine ledgers, ids must follow (controller layer, sequential)

`facadeImport` / `facadeWrite` model the state tracker
(controller/system/state_tracker.go) over the controller's `Import`.  Exclusivity
against concurrent writers (advisory locks) is out of scope of this layer.
-/
namespace Ledger.C12
open Ledger.Ctrl Ledger.Core Ledger.Ctrl.Examples

/-- Import is refused on a ledger that is not in the initializing state, with no effect. -/
theorem import_requires_initializing (now : Time) (l : Ledger) (stream : List Log) (h : l.inUse = true) :
    facadeImport now l stream = (l, some .notInitializing) := by
  unfold facadeImport; rw [if_pos h]

/-- A committed write makes the ledger in-use … -/
theorem write_makes_in_use (strict : Bool) (l : Ledger) (op : Op)
    (he : (facadeWrite strict l op).2.isError = false) (hd : op.dry = false) :
    (facadeWrite strict l op).1.inUse = true := by
  unfold facadeWrite at *
  by_cases hu : l.inUse = true
  · simp only [hu, ↓reduceIte] at *
  · simp only [hu, Bool.false_eq_true, ↓reduceIte, hd, Bool.or_false] at he ⊢
    by_cases hb : (step strict (resync l.state) op).2.isError = true
    · rw [if_pos hb] at he
      simp only at he
      rw [hb] at he
      exact absurd he (by decide)
    · rw [if_neg hb]

/-- … so a later import is refused. -/
theorem write_then_import_rejected (strict : Bool) (now : Time) (l : Ledger) (op : Op) (stream : List Log)
    (he : (facadeWrite strict l op).2.isError = false) (hd : op.dry = false) :
    (facadeImport now (facadeWrite strict l op).1 stream).2 = some .notInitializing := by
  rw [import_requires_initializing now _ stream (write_makes_in_use strict l op he hd)]

/-- The imported ids must follow the existing ones: a stream whose first log id is
    not above the ledger's last log id is refused before anything is applied. -/
theorem import_ids_must_follow (now : Time) (s : State) (m : Nat) (l : Log) (r : List Log)
    (hmax : maxLogId s.db = some m) (h : l.id ≤ m) :
    importLogs now s (l :: r) = (s, some (.alreadyExists l.id)) := by
  unfold importLogs
  rw [hmax]
  exact importFrom_reject_first now s m l r h

/-- … and inside a stream every id must be above the previous one. -/
theorem import_ids_must_increase (now : Time) (s : State) (m : Nat) (l : Log) (r : List Log) (h : l.id ≤ m) :
    importFrom now s (some m) (l :: r) = (s, some (.alreadyExists l.id)) :=
  importFrom_reject_first now s m l r h

/-- `rejected_import_no_effect` is FALSE for a rejection in mid-stream: every log is
    applied in its own SQL transaction, logs 1..k−1 stay. -/
theorem rejected_import_no_effect_counterexample :
    let logs := exportLogs s1
    (importLogs 0 {} (logs ++ logs)).2 = some (.alreadyExists 1) ∧ (importLogs 0 {} (logs ++ logs)).1.db ≠ ({} : Db) := by
  decide +kernel

/-- What holds: rejections decided before the first log is applied have no effect. -/
theorem rejected_import_no_effect_partial (now : Time) (l : Ledger) (stream : List Log) :
    (l.inUse = true → (facadeImport now l stream).1 = l) ∧
    (∀ m x r, stream = x :: r → maxLogId l.state.db = some m → x.id ≤ m → l.inUse = false →
      (facadeImport now l stream).1 = l) := by
  constructor
  · intro h; rw [import_requires_initializing now l stream h]
  · intro m x r hs hmax hle hu
    unfold facadeImport
    rw [if_neg (by rw [hu]; decide), hs, import_ids_must_follow now l.state m x r hmax hle]

/-! non-vacuity -/
example : (facadeWrite false {} { kind := .createP {} [⟨"world", "bank", 100, "USD"⟩] false, now := 10 }).1.inUse = true := by
  decide
example : (importLogs 0 {} (exportLogs s1)).2 = none ∧ (importLogs 0 {} (exportLogs s1)).1.db = s1.db := by decide +kernel
example : (importLogs 0 (importLogs 0 {} (exportLogs s1)).1 (exportLogs s1)).2 = some (.alreadyExists 1) := by decide +kernel

end Ledger.C12
