import Ledger.Proofs.CtrlAcc
import Ledger.Proofs.CtrlExamples

/-!
# C18 — Account existence and first usage follow the history (controller layer)

Proved for all states / operations / faults: accounts are never removed, the
insertion date is constant, the first usage never rises.  The exact
characterisation against the journal (`specOf`, Ledger/Ctrl/Spec.lean: listed iff
involved or metadata-saved; first usage = creation date of a metadata-created
account, else the earliest transaction timestamp) is stated below
(`account_table_eq_journal_statement`) and, at this stage, TESTED on every
operation of every generated history against the real code, not proved.
-/
namespace Ledger.C18
open Ledger.Ctrl Ledger.Core Ledger.Ctrl.Examples

/-- An account, once listed, stays listed; its insertion date never changes; its
    first usage never rises — across any write operation, failing or not, with or
    without an injected fault. -/
theorem insertion_date_constant (strict : Bool) (s : State) (op : Op) (f : Option Fault) (cf : Bool)
    (a : String) (acc : Account) (h : s.db.accounts.get? a = some acc) :
    ∃ acc', (stepF strict s op f cf).1.db.accounts.get? a = some acc' ∧
      acc'.insertionDate = acc.insertionDate ∧ acc'.firstUsage ≤ acc.firstUsage :=
  forgeLog_accLe strict op f cf s a acc h

/-- The same along a whole history. -/
theorem account_rows_monotone (strict : Bool) (s : State) (ops : List Op) (a : String) (acc : Account)
    (h : s.db.accounts.get? a = some acc) :
    ∃ acc', (runHist strict s ops).db.accounts.get? a = some acc' ∧
      acc'.insertionDate = acc.insertionDate ∧ acc'.firstUsage ≤ acc.firstUsage := by
  induction ops generalizing s acc with
  | nil => exact ⟨acc, h, rfl, Int.le_refl _⟩
  | cons op r ih =>
    obtain ⟨x, hx, hi, hf⟩ := forgeLog_accLe strict op none false s a acc h
    obtain ⟨y, hy, hi2, hf2⟩ := ih (step strict s op).1 x hx
    exact ⟨y, hy, hi2.trans hi, Int.le_trans hf2 hf⟩

/-- A back-dated transaction lowers the first usage of an existing account to its
    timestamp (store contract of `UpsertAccounts`). -/
theorem first_usage_lowered_by_backdated (now ts : Time) (accounts : Ledger.Base.Map String Account) (a : String)
    (acc : Account) (m : Meta) (hex : accounts.get? a = some acc) (hlt : ts < acc.firstUsage) :
    ∃ acc', (upsertAccount now accounts { address := a, metadata := m, firstUsage := some ts }).get? a = some acc' ∧
      acc'.firstUsage = ts ∧ acc'.insertionDate = acc.insertionDate := by
  unfold upsertAccount
  simp only [hex, hlt, decide_true, Bool.true_or, ↓reduceIte]
  exact ⟨_, get?_insert_self _ _ _, rfl, rfl⟩

/-- The full characterisation (tested, not proved here): the accounts table equals
    the reference reading of the journal. -/
def account_table_eq_journal_statement : Prop :=
  ∀ (strict : Bool) (ops : List Op),
    projAccounts (runHist strict {} ops).db = (specOf (runHist strict {} ops).db.logs).accounts

/-! tests of the full statement on concrete histories, and non-vacuity -/
example : projAccounts (runHist true {} histDates).db = (specOf (runHist true {} histDates).db.logs).accounts := by
  decide +kernel
example : projAccounts (runHist true {} histDefaults).db = (specOf (runHist true {} histDefaults).db.logs).accounts := by
  decide +kernel
example : (s1.db.accounts.get? "bank").isSome = true := by decide

end Ledger.C18
