import Ledger.Proofs.CtrlListed
import Ledger.Proofs.CtrlExamples

/-!
# C18 — Account existence and first usage follow the history (controller layer)

Proved for all states / operations / faults: accounts are never removed, the
insertion date is constant, the first usage never rises; and for ALL histories
the accounts table equals the reference reading of the journal (`specOf`,
Ledger/Ctrl/Spec.lean: listed iff involved or metadata-saved; first usage =
creation date of a metadata-created account, else the earliest transaction
timestamp).
-/
namespace Ledger.C18
open Ledger.Ctrl Ledger.Core Ledger.Ctrl.Examples

/-- An account, once listed, stays listed; its insertion date never changes; its
    first usage never rises — across any write operation, failing or not, with or
    without an injected fault. -/
theorem insertion_date_constant (strict : Bool) (s : State) (op : Op) (f : Faults) (cf : Bool)
    (a : String) (acc : Account) (h : s.db.accounts.get? a = some acc) :
    ∃ acc', (stepF strict s op f cf).1.db.accounts.get? a = some acc' ∧
      acc'.insertionDate = acc.insertionDate ∧ acc'.firstUsage ≤ acc.firstUsage :=
  forgeLog_accLe strict op f cf s a acc h

/-- The same along a whole history. -/
theorem account_rows_monotone (strict : Bool) (s : State) (ops : List Op) (a : String) (acc : Account)
    (h : s.db.accounts.get? a = some acc) :
    ∃ acc', (runHist strict s ops).db.accounts.get? a = some acc' ∧
      acc'.insertionDate = acc.insertionDate ∧ acc'.firstUsage ≤ acc.firstUsage := by
  induction ops generalizing s acc with
  | nil => exact ⟨acc, h, rfl, Int.le_refl _⟩
  | cons op r ih =>
    obtain ⟨x, hx, hi, hf⟩ := forgeLog_accLe strict op [] false s a acc h
    obtain ⟨y, hy, hi2, hf2⟩ := ih (step strict s op).1 x hx
    exact ⟨y, hy, hi2.trans hi, Int.le_trans hf2 hf⟩

/-- A back-dated transaction lowers the first usage of an existing account to its
    timestamp (store contract of `UpsertAccounts`). -/
theorem first_usage_lowered_by_backdated (now ts : Time) (accounts : Ledger.Base.Map String Account) (a : String)
    (acc : Account) (m : Meta) (hex : accounts.get? a = some acc) (hlt : ts < acc.firstUsage) :
    ∃ acc', (upsertAccount now accounts { address := a, metadata := m, firstUsage := some ts }).get? a = some acc' ∧
      acc'.firstUsage = ts ∧ acc'.insertionDate = acc.insertionDate := by
  unfold upsertAccount
  simp only [hex, hlt, decide_true, Bool.true_or, ↓reduceIte]
  exact ⟨_, get?_insert_self _ _ _, rfl, rfl⟩

/-- After ANY sequential history the accounts table is exactly the reference reading
    of the journal (`specOf`): an account is listed iff some committed transaction
    involves it (source, destination or account-metadata key) or metadata was saved
    on it (`specTouch` / `specSave` are the only steps that add a row); its first
    usage is the date of the metadata save that created it, or the timestamp of the
    creating transaction, lowered by every later transaction with an earlier
    timestamp and by nothing else; its insertion date is the one of its creation. -/
theorem account_table_eq_journal (strict : Bool) (ops : List Op) :
    projAccounts (runHist strict {} ops).db = (specOf (runHist strict {} ops).db.logs).accounts := by
  have h := runHist_spec strict {} ops SpecOk.empty
  unfold SpecOk at h
  rw [h]
  rfl

/-- An account is listed iff the journal involves it: some committed transaction
    has it as source, destination or account-metadata key, or metadata was saved on it. -/
theorem account_listed_iff (strict : Bool) (ops : List Op) (a : String) :
    ((runHist strict {} ops).db.accounts.get? a).isSome = true ↔
      ∃ l ∈ (runHist strict {} ops).db.logs, l.involves a := by
  rw [← projAccounts_listed, account_table_eq_journal strict ops, specOf_listed]

/-- First usage is a running minimum: a transaction touching an existing account
    sets it to `min(timestamp, previous)`, keeps the insertion date, and a metadata
    save never moves it (reference reading; equal to the tables by
    `account_table_eq_journal`). -/
theorem first_usage_is_min (schemas : List Schema) (v : String) (ts ins date : Time)
    (acc : Ledger.Base.Map String AccSpec) (b : String) (m : Meta) (x : AccSpec) (hx : acc.get? b = some x) :
    (∃ y, (specTouch schemas v ts ins acc b m).get? b = some y ∧
        y.firstUsage = (if ts < x.firstUsage then ts else x.firstUsage) ∧ y.insertionDate = x.insertionDate) ∧
    (∃ y, (specSave schemas v date acc b m).get? b = some y ∧
        y.firstUsage = x.firstUsage ∧ y.insertionDate = x.insertionDate) := by
  constructor
  · unfold specTouch
    simp only [hx]
    split
    · exact ⟨_, get?_insert_self _ _ _, rfl, rfl⟩
    · rename_i hc
      refine ⟨x, hx, ?_, rfl⟩
      simp only [Bool.or_eq_true, decide_eq_true_eq, not_or] at hc
      rw [if_neg hc.1]
  · unfold specSave
    simp only [hx]
    split
    · exact ⟨x, hx, rfl, rfl⟩
    · exact ⟨_, get?_insert_self _ _ _, rfl, rfl⟩

/-! tests on concrete histories, and non-vacuity -/
example : projAccounts (runHist true {} histDates).db = (specOf (runHist true {} histDates).db.logs).accounts := by
  decide +kernel
example : projAccounts (runHist true {} histDefaults).db = (specOf (runHist true {} histDefaults).db.logs).accounts := by
  decide +kernel
example : (s1.db.accounts.get? "bank").isSome = true := by decide

end Ledger.C18
