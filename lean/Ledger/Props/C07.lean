import Ledger.Proofs.CtrlDry
import Ledger.Proofs.CtrlExamples

/-!
# C07 — Failed and dry-run writes leave no trace (controller layer)

Statements about `Ledger.Ctrl.step` / `stepF`: the model of `forgeLog` +
`runLog` + the seven write operations of `DefaultController`, over the abstract
store contract (`Ledger.Ctrl.exec`).  `observe` = all tables; the two id
sequences are the documented exception (gaps).  For ALL states, operations,
fault positions and fault kinds.
-/
namespace Ledger.C07
open Ledger.Ctrl Ledger.Core Ledger.Ctrl.Examples

/-- A write that answers with an error leaves every table as it was. -/
theorem failed_write_no_effect (strict : Bool) (s : State) (op : Op)
    (h : (step strict s op).2.isError = true) : observe (step strict s op).1 = observe s := by
  unfold step observe
  rcases forgeLog_ending strict op none false s with ⟨hu, _, _⟩ | ⟨_, st, log, _, _, _, _, _, _, _, hc⟩
  · exact hu
  · exfalso
    have : (forgeLog strict op none false s).resp.isError = false := by rw [hc.2]; rfl
    simp [step] at h
    rw [this] at h
    exact Bool.false_ne_true h

/-- A dry run leaves every table as it was and answers exactly what the real
    run (same request without the flag) answers. -/
theorem dryrun_no_effect_same_answer (strict : Bool) (s : State) (op : Op) (h : op.dry = true) :
    observe (step strict s op).1 = observe s ∧ (step strict s op).2 = (step strict s op.wet).2 := by
  refine ⟨?_, (forgeLog_resp_wet strict op s).symm⟩
  unfold step observe
  rcases forgeLog_ending strict op none false s with ⟨hu, _, _⟩ | ⟨_, st, log, _, _, _, hd, _, _, _, _⟩
  · exact hu
  · rw [h] at hd; exact absurd hd (by decide)

/-- An idempotency hit leaves every table as it was. -/
theorem idempotent_hit_no_effect (strict : Bool) (s : State) (op : Op)
    (h : (step strict s op).2.hit = true) : observe (step strict s op).1 = observe s := by
  unfold step observe
  rcases forgeLog_ending strict op none false s with ⟨hu, _, _⟩ | ⟨_, st, log, _, _, _, _, _, _, _, hc⟩
  · exact hu
  · exfalso
    simp [step] at h
    rw [hc.2] at h
    exact Bool.false_ne_true h

/-- A store failure injected at ANY store call `k` (generic error, deadlock or
    cancelled context; `BeginTX`, `Commit` and `Rollback` included), optionally
    combined with a failing `COMMIT`: whenever the operation answers with an
    error, every table is as it was. (A deadlock is retried: if the retry
    succeeds the operation is an ordinary successful write.) -/
theorem fault_anywhere_no_effect (strict : Bool) (s : State) (op : Op) (k : Nat) (kind : FaultKind)
    (commitFault : Bool)
    (h : (stepF strict s op (some ⟨k, kind⟩) commitFault).2.isError = true) :
    observe (stepF strict s op (some ⟨k, kind⟩) commitFault).1 = observe s := by
  unfold stepF observe
  rcases forgeLog_ending strict op (some ⟨k, kind⟩) commitFault s with ⟨hu, _, _⟩ | ⟨_, st, log, _, _, _, _, _, _, _, hc⟩
  · exact hu
  · exfalso
    have : (forgeLog strict op (some ⟨k, kind⟩) commitFault s).resp.isError = false := by rw [hc.2]; rfl
    simp [stepF] at h
    rw [this] at h
    exact Bool.false_ne_true h

/-- The only way the tables change: the operation succeeded, is not a dry run and
    not an idempotency hit (with or without faults). -/
theorem effect_only_on_committed_success (strict : Bool) (s : State) (op : Op) (f : Option Fault) (cf : Bool)
    (h : observe (stepF strict s op f cf).1 ≠ observe s) :
    (stepF strict s op f cf).2.isError = false ∧ (stepF strict s op f cf).2.hit = false ∧ op.dry = false := by
  unfold stepF observe at *
  rcases forgeLog_ending strict op f cf s with ⟨hu, _, _⟩ | ⟨_, st, log, _, _, _, hd, _, _, _, hc⟩
  · exact absurd hu h
  · refine ⟨?_, ?_, hd⟩
    · show (forgeLog strict op f cf s).resp.isError = false
      rw [hc.2]; rfl
    · show (forgeLog strict op f cf s).resp.hit = false
      rw [hc.2]

/-- A failing `COMMIT` is reported as an error and nothing is kept. -/
theorem commit_failure_is_error (s : State) (st : RunSt) (h : String) (f : Option Fault) (log : Log) :
    (commitOrFail s st h f true log).resp.isError = true ∧ (commitOrFail s st h f true log).state.db = s.db := by
  unfold commitOrFail
  split
  · exact ⟨rfl, rfl⟩
  · exact ⟨rfl, rfl⟩

/-! ### non-vacuity: the hypotheses are satisfiable on concrete, non-trivial values -/

example : s1.db.txs.length = 1 ∧ s1.db.logs.length = 1 := by decide
example : (step false s1 overdraw).2.err = some .insufficientFunds := by decide
example : (step false s1 overdraw).1.db = s1.db := by decide
example : (step false s1 (pay true)).2.isError = false ∧ (step false s1 (pay true)).1.db = s1.db := by decide
example : (step false s1 (pay false)).1.db.txs.length = 2 := by decide
-- a fault at the InsertLog call (call 5 of this op) of an otherwise successful write
example : (stepF false s1 (pay false) (some ⟨5, .error⟩) false).2.err = some (.store .injected) := by decide +kernel
-- a deadlock there is retried and the write succeeds, with a gap in the transaction ids
example : (stepF false s1 (pay false) (some ⟨5, .deadlock⟩) false).2.isError = false ∧
          ((stepF false s1 (pay false) (some ⟨5, .deadlock⟩) false).1.db.txs.map (·.id)) = [1, 3] := by decide +kernel

end Ledger.C07
