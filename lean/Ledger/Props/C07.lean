import Ledger.Proofs.CtrlDry
import Ledger.Proofs.CtrlFault
import Ledger.Proofs.CtrlExamples

/-!
# C07 — Failed and dry-run writes leave no trace (controller layer)

Statements about `Ledger.Ctrl.step` / `stepF`: the model of `forgeLog` +
`runLog` + the seven write operations of `DefaultController`, over the abstract
store contract (`Ledger.Ctrl.exec`).  `observe` = all tables; the two id
sequences are the documented exception (gaps).  For ALL states, operations,
fault positions and fault kinds.
-/
namespace Ledger.C07
open Ledger.Ctrl Ledger.Core Ledger.Ctrl.Examples

/-- A write that answers with an error leaves every table as it was. -/
theorem failed_write_no_effect (strict : Bool) (s : State) (op : Op)
    (h : (step strict s op).2.isError = true) : observe (step strict s op).1 = observe s := by
  unfold step observe
  rcases forgeLog_ending strict op [] false s with ⟨hu, _, _⟩ | ⟨_, st, log, _, _, _, _, _, _, _, hc⟩
  · exact hu
  · exfalso
    have : (forgeLog strict op [] false s).resp.isError = false := by rw [hc.2]; rfl
    simp [step] at h
    rw [this] at h
    exact Bool.false_ne_true h

/-- A dry run leaves every table as it was and answers exactly what the real
    run (same request without the flag) answers. -/
theorem dryrun_no_effect_same_answer (strict : Bool) (s : State) (op : Op) (h : op.dry = true) :
    observe (step strict s op).1 = observe s ∧ (step strict s op).2 = (step strict s op.wet).2 := by
  refine ⟨?_, (forgeLog_resp_wet strict op s).symm⟩
  unfold step observe
  rcases forgeLog_ending strict op [] false s with ⟨hu, _, _⟩ | ⟨_, st, log, _, _, _, hd, _, _, _, _⟩
  · exact hu
  · rw [h] at hd; exact absurd hd (by decide)

/-- An idempotency hit leaves every table as it was. -/
theorem idempotent_hit_no_effect (strict : Bool) (s : State) (op : Op)
    (h : (step strict s op).2.hit = true) : observe (step strict s op).1 = observe s := by
  unfold step observe
  rcases forgeLog_ending strict op [] false s with ⟨hu, _, _⟩ | ⟨_, st, log, _, _, _, _, _, _, _, hc⟩
  · exact hu
  · exfalso
    simp [step] at h
    rw [hc.2] at h
    exact Bool.false_ne_true h

/-- Store failures injected at ANY store calls — any plan `f` of one-shot faults
    (generic error, deadlock, cancelled context, idempotency-key conflict; `BeginTX`,
    `Commit`, `Rollback` and the `recordedOutcome` lookup included; any number of
    deadlocks, each retried by `forgeLogRetry`), optionally combined with a failing
    `COMMIT`: whenever the operation answers with an error, every table is as it was. -/
theorem fault_anywhere_no_effect (strict : Bool) (s : State) (op : Op) (f : Faults) (commitFault : Bool)
    (h : (stepF strict s op f commitFault).2.isError = true) :
    observe (stepF strict s op f commitFault).1 = observe s := by
  unfold stepF observe
  rcases forgeLog_ending strict op f commitFault s with ⟨hu, _, _⟩ | ⟨_, st, log, _, _, _, _, _, _, _, hc⟩
  · exact hu
  · exfalso
    have : (forgeLog strict op f commitFault s).resp.isError = false := by rw [hc.2]; rfl
    simp [stepF] at h
    rw [this] at h
    exact Bool.false_ne_true h

/-- A dry run leaves every table as it was under any fault plan (any number of
    deadlocks and retries included). -/
theorem dryrun_no_effect_any_faults (strict : Bool) (s : State) (op : Op) (f : Faults) (cf : Bool)
    (h : op.dry = true) : observe (stepF strict s op f cf).1 = observe s := by
  unfold stepF observe
  rcases forgeLog_ending strict op f cf s with ⟨hu, _, _⟩ | ⟨_, st, log, _, _, _, hd, _, _, _, _⟩
  · exact hu
  · rw [h] at hd; exact absurd hd (by decide)

/-- A failing `COMMIT` — of the first attempt or of any retried one, for every
    write kind, also when the failure ends in `recordedOutcome` — is never answered
    with a committed write: tables as before, and the answer is an error unless the
    operation never reaches `COMMIT` (idempotency hit, dry run). -/
theorem commit_failure_no_effect (strict : Bool) (s : State) (op : Op) (f : Faults) :
    observe (stepF strict s op f true).1 = observe s ∧
    ((stepF strict s op f true).2.isError = true ∨ (stepF strict s op f true).2.hit = true ∨ op.dry = true) :=
  forgeLog_commitFault strict op f s

/-- **A non-retryable fault is never swallowed.** Under any plan of generic errors
    and cancelled contexts the operation either answers an error, or state and
    response are exactly those of the fault-free run (the fault did not fire, or hit a
    `Rollback`, whose failure cannot change anything). -/
theorem fault_surfaces (strict : Bool) (s : State) (op : Op) (f : Faults) (cf : Bool) (hnr : NonRetry f) :
    (stepF strict s op f cf).2.isError = true ∨ stepF strict s op f cf = stepF strict s op [] cf := by
  rcases fault_surfaces_or_harmless strict op f cf s hnr with h | ⟨h1, h2⟩
  · exact Or.inl h
  · right
    show ((forgeLog strict op f cf s).state, (forgeLog strict op f cf s).resp) = _
    rw [h1, h2]
    rfl

/-- The model of `forgeLogRetry` (loop until a non-deadlock outcome) is faithful for
    every fault plan: its recursion bound is never hit. -/
theorem retry_loop_terminates (strict : Bool) (s : State) (op : Op) (f : Faults) (cf : Bool) :
    (stepF strict s op f cf).2.err ≠ some .outOfFuel :=
  forgeLog_never_outOfFuel strict op f cf s

/-- The `panic("incoherent error, received duplicate IK but log not found")` of the
    retry loop is unreachable under the store contract: an attempt that fails with a
    conflict reported by the store (not an injected one) finds the log on the root handle. -/
theorem conflict_panic_unreachable (strict : Bool) (op : Op) (f : Faults) (cf : Bool) (s : State) (i tx : Nat)
    (seq : Seqs) (n : Nat) (trace : List String) (seq' : Seqs) (n' : Nat) (trace' : List String)
    (hnof : ∀ x ∈ f, x.kind ≠ .ikConflict)
    (h : runTx strict op f cf s i tx seq n trace = .failed (.store .ikConflict) seq' n' trace') :
    (fetchAfterConflict op f s seq' (n' + 1) trace').resp.err ≠ some .panic :=
  Ledger.Ctrl.conflict_panic_unreachable strict op f cf s i tx seq n trace seq' n' trace' hnof h

/-- The only way the tables change: the operation succeeded, is not a dry run and
    not an idempotency hit (with or without faults). -/
theorem effect_only_on_committed_success (strict : Bool) (s : State) (op : Op) (f : Faults) (cf : Bool)
    (h : observe (stepF strict s op f cf).1 ≠ observe s) :
    (stepF strict s op f cf).2.isError = false ∧ (stepF strict s op f cf).2.hit = false ∧ op.dry = false := by
  unfold stepF observe at *
  rcases forgeLog_ending strict op f cf s with ⟨hu, _, _⟩ | ⟨_, st, log, _, _, _, hd, _, _, _, hc⟩
  · exact absurd hu h
  · refine ⟨?_, ?_, hd⟩
    · show (forgeLog strict op f cf s).resp.isError = false
      rw [hc.2]; rfl
    · show (forgeLog strict op f cf s).resp.hit = false
      rw [hc.2]

/-- A failing `COMMIT` is reported as an error and nothing is kept. -/
theorem commit_failure_is_error (s : State) (st : RunSt) (h : String) (f : Faults) (log : Log) :
    (commitOrFail s st h f true log).resp.isError = true ∧ (commitOrFail s st h f true log).state.db = s.db := by
  unfold commitOrFail
  split
  · exact ⟨rfl, rfl⟩
  · exact ⟨rfl, rfl⟩

/-! ### non-vacuity: the hypotheses are satisfiable on concrete, non-trivial values -/

example : s1.db.txs.length = 1 ∧ s1.db.logs.length = 1 := by decide
example : (step false s1 overdraw).2.err = some .insufficientFunds := by decide
example : (step false s1 overdraw).1.db = s1.db := by decide
example : (step false s1 (pay true)).2.isError = false ∧ (step false s1 (pay true)).1.db = s1.db := by decide
example : (step false s1 (pay false)).1.db.txs.length = 2 := by decide
-- a fault at the InsertLog call (call 5 of this op) of an otherwise successful write
example : (stepF false s1 (pay false) [⟨5, .error⟩] false).2.err = some (.store .injected) := by decide +kernel
-- a deadlock there is retried and the write succeeds, with a gap in the transaction ids
example : (stepF false s1 (pay false) [⟨5, .deadlock⟩] false).2.isError = false ∧
          ((stepF false s1 (pay false) [⟨5, .deadlock⟩] false).1.db.txs.map (·.id)) = [1, 3] := by decide +kernel
-- two deadlocks (first attempt, then the retried one): two retries, two gaps
example : (stepF false s1 (pay false) [⟨5, .deadlock⟩, ⟨11, .deadlock⟩] false).2.isError = false ∧
          ((stepF false s1 (pay false) [⟨5, .deadlock⟩, ⟨11, .deadlock⟩] false).1.db.txs.map (·.id)) = [1, 4] := by
  decide +kernel
-- a deadlock, then a failing COMMIT of the retried attempt
example : (stepF false s1 (pay false) [⟨5, .deadlock⟩] true).2.err = some .commitFailed ∧
          (stepF false s1 (pay false) [⟨5, .deadlock⟩] true).1.db = s1.db := by decide +kernel

end Ledger.C07
