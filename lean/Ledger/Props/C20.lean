import Ledger.Proofs.QueryPushdown
import Ledger.Proofs.QueryPaginatePrev
import Ledger.Query.Date

/-!
C20 — List filters select exactly the matching entities (pure-Go part).

Only property theorems and non-vacuity examples.  Models:
`Ledger/Query/{Address,Filter,Pushdown}.lean`, hand-written from
`internal/storage/ledger/utils.go`, `transactions.go`,
`internal/storage/common/resource.go`, `internal/queries/*.go`, and tied to the
real functions by the `addrmatch` and `pushdown` correspondence workloads.

NOT covered here: the evaluation of the rendered SQL (`ResolveFilter` fragments on
real tables) — it needs the Postgres model; `Filter.eval` is the specification
side these theorems speak about.
-/
namespace Ledger.C20
open Ledger.Query

/-- An account-like row: no transaction sources / destinations. -/
def IsAccountRow (e : Entity) : Prop := e.sources = [] ∧ e.destinations = []

theorem isAddressKey_iff (k : String) : isAddressKey k = true ↔ k = "address" ∨ k = "account" := by
  simp [isAddressKey]

/-- On an account row, a leaf on `address` / `account` means `addrLeaf`: the
    address pattern (any operator but `$in`) or membership (`$in`). -/
theorem leafSem_address (pd : String → Option Int) (e : Entity) (he : IsAccountRow e)
    (op : Op) (k : String) (v : Val) (hk : isAddressKey k = true) :
    leafSem pd e op k v = addrLeaf false v [e.address] := by
  rcases (isAddressKey_iff k).mp hk with rfl | rfl
  · have : splitKey "address" = ("address", none) := by decide
    simp [leafSem, this]
  · have : splitKey "account" = ("account", none) := by decide
    simp [leafSem, this, he.1, he.2]

/-- **The lateral pushdown is sound** (current code, `$in` members collected): if
    `canPushAddressFilterToLateral` accepts the filter and the filter selects the
    row, then either no address was collected (nothing is pushed) or the row's
    account matches one of the collected addresses — the lateral join, which keeps
    exactly the accounts matching one of them, does not drop the row.
    For every filter (any nesting), every row, every date parser. -/
theorem lateral_pushdown_sound (pd : String → Option Int) (f : Filter) (e : Entity)
    (he : IsAccountRow e) (hpush : canPush (some f) = true)
    (heval : Filter.eval (leafSem pd e) f = true) :
    addrs f = [] ∨ ∃ a ∈ addrs f, matchesAddress (Pattern.ofString a) e.address = true := by
  apply pushdown_sound_core true (leafSem pd e) e.address _ f hpush heval
  intro op k v hk ht
  rw [leafSem_address pd e he op k v hk] at ht
  exact addrLeaf_witness v e.address ht

/-- In terms of the join: a selected row survives the pushed lateral filter. -/
theorem lateral_keeps_selected (pd : String → Option Int) (f : Filter) (e : Entity)
    (he : IsAccountRow e) (hpush : canPush (some f) = true)
    (heval : Filter.eval (leafSem pd e) f = true) (hne : addrs f ≠ []) :
    lateralKeeps (addrs f) e.address = true := by
  rcases lateral_pushdown_sound pd f e he hpush heval with h | ⟨a, ha, hm⟩
  · exact absurd h hne
  · simp only [lateralKeeps, List.any_eq_true]
    exact ⟨a, ha, hm⟩

/-- **Before fix `df74127`** (`collectAddressFilters` skipped `$in` arrays while
    `nodeContainsAddressFilter` counted them) the statement was false: the minimal
    witness `$or[$in address [x], $match address "a:"]` on the account `x`. -/
theorem lateral_pushdown_counterexample :
    let f : Filter := .or [.leaf .in_ "address" (.arr [.str "x"]),
                           .leaf .match_ "address" (.sc (.str "a:"))]
    let e : Entity := { address := [['x']] }
    canPush (some f) = true ∧ Filter.eval (leafSem parseRFC3339 e) f = true ∧
    addrsPreFix f = ["a:"] ∧
    ¬ (addrsPreFix f = [] ∨
       ∃ a ∈ addrsPreFix f, matchesAddress (Pattern.ofString a) e.address = true) := by
  decide

/-- What held before the fix: soundness for filters whose address leaves carry no
    array (no `$in` on an address). -/
theorem lateral_pushdown_sound_partial (pd : String → Option Int) (f : Filter) (e : Entity)
    (he : IsAccountRow e) (hpush : canPush (some f) = true)
    (heval : Filter.eval (leafSem pd e) f = true)
    (hnoArr : ∀ l ∈ f.leaves, isAddressKey l.2.1 = true → ∀ a, l.2.2 ≠ .arr a) :
    addrsPreFix f = [] ∨
      ∃ a ∈ addrsPreFix f, matchesAddress (Pattern.ofString a) e.address = true := by
  by_cases hc : containsAddr f = true
  · right
    obtain ⟨l, hl, hk, ht⟩ := true_addr_leaf (leafSem pd e) f hpush heval hc
    rw [leafSem_address pd e he l.1 l.2.1 l.2.2 hk] at ht
    obtain ⟨s, hs, hm⟩ := addrLeaf_witness_preFix l.2.2 e.address (hnoArr l hl hk) ht
    exact ⟨s, (mem_addrsWith false f s).mpr ⟨l, hl, hk, hs⟩, hm⟩
  · left
    exact addrsWith_nil_of_noAddr false f (by simpa using hc)

/-- An address filter under a `$not` is never pushed. -/
theorem not_address_never_pushed (op : Op) (k : String) (v : Val) (hk : isAddressKey k = true) :
    canPush (some (.not (.leaf op k v))) = false := by
  simp [canPush, safeLateral, hk]

/-- A `$or` mixing an address branch with a non-address branch is never pushed. -/
theorem mixed_or_never_pushed (g h : Filter) (hg : containsAddr g = true)
    (hh : containsAddr h = false) : canPush (some (.or [g, h])) = false := by
  simp [canPush, safeLateral, mixesAddr, hg, hh]

-- Address matching ------------------------------------------------------------

/-- Exact address: the filter selects the account with exactly that address. -/
theorem matches_exact (src a : List Seg) (h : isPartial src = false) :
    matchesAddress (Pattern.ofSegs src) a = true ↔ a = src :=
  Ledger.Query.matches_exact src a h

/-- Partial address `a::c`: same number of segments, every non-empty segment equal. -/
theorem matches_partial (src a : List Seg) (hp : isPartial src = true)
    (hl : (src.getLast? == some dots) = false) :
    matchesAddress (Pattern.ofSegs src) a = true ↔
      a.length = src.length ∧
      ∀ (i : Nat) (s : Seg), src[i]? = some s → s.isEmpty = false → (s == dots) = false →
        a[i]? = some s :=
  Ledger.Query.matches_partial src a hp hl

/-- Prefix address `a:b:...`: the account's segments start with `a, b`. -/
theorem matches_prefix (q a : List Seg)
    (hq : ∀ s ∈ q, s.isEmpty = false ∧ (s == dots) = false) :
    matchesAddress (Pattern.ofSegs (q ++ [dots])) a = true ↔ q <+: a :=
  Ledger.Query.matches_prefix q a hq

/-- Splitting an address into segments loses nothing (`account = 'a:b'` and
    equality of segment arrays are the same test). -/
theorem segments_injective {a b : List Char} (h : segments a = segments b) : a = b :=
  Ledger.Query.segments_injective h

/-- Transactions: `sources_arrays @> '[{…}]'` on the exploded address is the same
    condition as the length / per-segment form used for accounts. -/
theorem tx_containment_eq_matches (len : Option Nat) (cs : List (Nat × Seg)) (a : List Seg) :
    mapContains (Pattern.toMap (.part len cs)) (explode a) = matchesAddress (.part len cs) a :=
  mapContains_explode len cs a

-- Count -------------------------------------------------------------------------

/-- **Count equals the number of listed entities** (model level): `Count` runs over
    the same filtered dataset `T` as the listing (tied by the `cursor` workload), and
    the pages of the listing enumerate `T` exactly once. -/
theorem count_eq_length {φ : Type} (rest : φ) (o : Order) (T : List Row) (hT : KeysDistinct T)
    (pageSize fuel : Nat) (hfuel : fuel ≥ T.length + 1) :
    (((walkNextCol fuel (ColQuery.initial pageSize o rest) T).map (·.data)).flatten).length =
      T.length := by
  obtain ⟨h1, _, _⟩ := walk_fwd (φ := φ) o T hT (orderBy o T).length (orderBy o T) []
    (ColQuery.initial pageSize o rest) fuel (Nat.le_refl _) (by simp) rfl rfl (Or.inl ⟨rfl, rfl⟩)
    (by rw [(orderBy_perm o T).length_eq]; omega)
  rw [h1, (orderBy_perm o T).length_eq]

-- Non-vacuity -----------------------------------------------------------------------

/-- The hypotheses of `lateral_pushdown_sound` hold on a concrete nested filter with
    an `$in`, and the conclusion names the matching collected address. -/
example :
    let f : Filter := .and [.or [.leaf .in_ "address" (.arr [.str "x", .str "bank:1"]),
                                 .leaf .match_ "account" (.sc (.str "users::main"))],
                            .not (.leaf .match_ "metadata[k]" (.sc (.str "v")))]
    let e : Entity := { address := [['b','a','n','k'], ['1']] }
    canPush (some f) = true ∧ Filter.eval (leafSem parseRFC3339 e) f = true ∧
    addrs f = ["x", "bank:1", "users::main"] ∧ lateralKeeps (addrs f) e.address = true := by
  decide

example : matchesAddress (Pattern.ofString "users::main") [['u','s','e','r','s'], ['4','2'], ['m','a','i','n']] = true
    ∧ matchesAddress (Pattern.ofString "users:...") [['u','s','e','r','s']] = true
    ∧ matchesAddress (Pattern.ofString "users:...") [['b','a','n','k'], ['u','s','e','r','s']] = false := by
  decide

end Ledger.C20
