import Ledger.Proofs.E2eFeatures
import Ledger.Proofs.LogHashMain

/-!
# C35 (end-to-end leg) — feature flags change only what they are documented to change

Controller-level model parameterised by a feature set (`Ledger.E2e.runHistWith f`): the core
state (transactions, accounts with their current metadata, current volumes / balances, logs,
schemas, sequences) and the answers are those of the unparameterised model
`Ledger.Ctrl.runHist`; the feature set reaches only the DERIVED tables (`moves` and their
effective volumes, log hashes, the two metadata histories).

LEVEL: these theorems are about the controller-level model. That the SQL statements and
triggers of each feature set keep the core tables equal is covered by the `features`
correspondence workload over the MODELLED Postgres (LeanPG) — where it FAILS for one input
class: `features_preserve_core_sql_counterexample`. Only theorems and examples here.
-/
namespace Ledger.C35e
open Ledger.Ctrl Ledger.E2e

/-- The projection C35 names — transactions, logs (sans hash), current volumes / balances,
    current metadata, and every answer — is the same under any two feature sets, for every
    history from the same core state (whatever the derived tables hold). -/
theorem features_preserve_core (f f' : FeatureSet) (strict : Bool) (s s' : FState) (ops : List Op)
    (h : s.core = s'.core) :
    project (runHistWith f strict s ops) = project (runHistWith f' strict s' ops) := by
  simp only [project, runHistWith_core, runHistWith_resps, h]

/-- Precisely: the core component and the answers are those of the feature-free controller model. -/
theorem core_is_feature_free (f : FeatureSet) (strict : Bool) (s : FState) (ops : List Op) :
    (runHistWith f strict s ops).1.core = runHist strict s.core ops ∧
    (runHistWith f strict s ops).2 = respsHist strict s.core ops :=
  ⟨runHistWith_core f strict s ops, runHistWith_resps f strict s ops⟩

/-- Hashes are present iff HASH_LOGS=SYNC: after any history on a fresh ledger the hashed logs
    are exactly all the logs (SYNC) or none (ASYNC before any block is built, DISABLED). -/
theorem hash_present_iff_sync (f : FeatureSet) (strict : Bool) (ops : List Op) (id : Nat) :
    id ∈ (runHistWith f strict {} ops).1.derived.hashed ↔
      (f.hashLogs = .sync ∧ ∃ l ∈ (runHistWith f strict {} ops).1.core.db.logs, l.id = id) := by
  have h := runHistWith_hashInv f strict {} ops (by simp [HashInv])
  unfold HashInv at h
  rw [h]
  by_cases hs : f.hashLogs = .sync
  · simp [hs]
  · simp [hs]

/-- A feature that is off leaves its derived table empty; every `moves` row carries effective
    volumes iff the set says SYNC. -/
theorem disabled_features_leave_no_rows (f : FeatureSet) (strict : Bool) (ops : List Op) :
    (f.movesHistory = false → (runHistWith f strict {} ops).1.derived.moves = []) ∧
    (f.accMetaHist = false → (runHistWith f strict {} ops).1.derived.accHist = []) ∧
    (f.txMetaHist = false → (runHistWith f strict {} ops).1.derived.txHist = []) ∧
    (∀ m ∈ (runHistWith f strict {} ops).1.derived.moves, m.hasPcev = f.pcev) :=
  runHistWith_offInv f strict {} ops ⟨fun _ => rfl, fun _ => rfl, fun _ => rfl, by intro m hm; cases hm⟩

/-- At the level of the SQL statements the property is FALSE on the unchanged tree (root cause:
    C10's `C10:ik-backslash`): the trigger `set_log_hash` — installed only under HASH_LOGS=SYNC,
    here as regenerated from the migrations — casts its hand-built JSON text to `bytea`; for the
    idempotency key `ik4\n2` the cast is invalid, the INSERT of the log fails (SQLSTATE 22P02)
    and the write is refused, while under ASYNC / DISABLED the same write commits. Replay: the
    `features` workload, sig `C35:hash-sync-rejects-idempotency-key-with-backslash`. -/
theorem features_preserve_core_sql_counterexample :
    Ledger.Log.sqlPreimage (Ledger.Log.wLog b!"ik4\\n2" []) none = .error .invalidByteaInput := by decide +kernel

/-- What holds at that level for this input class is the controller-level statement above, and the
    SQL side never fails for an idempotency key without backslash (C10's `hash_preimages_agree_safe`
    covers its hypotheses): witness of the success side. -/
theorem features_preserve_core_sql_partial :
    (Ledger.Log.sqlPreimage (Ledger.Log.wLog b!"ík-3/\"q" []) none).toBool = true := by decide +kernel

/-! ### non-vacuity -/

/-- a history with two committed transactions, a revert and a metadata write -/
def exampleOps : List Op :=
  [ { kind := .createP {} [⟨"world", "bank", 100, "USD/2"⟩] false, now := 10 },
    { kind := .createP { reference := "r1" } [⟨"bank", "users:001", 40, "USD/2"⟩, ⟨"bank", "fees", 1, "USD/2"⟩] false, now := 20 },
    { kind := .saveAccMeta "users:001" [("role", "vip")], now := 30 },
    { kind := .revert 2 false false [], now := 40 } ]

def allOn : FeatureSet := ⟨true, true, .sync, true, true⟩
def allOff : FeatureSet := ⟨false, false, .disabled, false, false⟩

/-- the example history commits three transactions and four logs; with everything on the derived
    tables are populated (10 moves, 4 hashes, history revisions), with everything off they are empty,
    and the projections coincide -/
example :
    (runHistWith allOn false {} exampleOps).1.core.db.txs.length = 3 ∧
    (runHistWith allOn false {} exampleOps).1.core.db.logs.length = 4 ∧
    (runHistWith allOn false {} exampleOps).1.derived.moves.length = 10 ∧
    (runHistWith allOn false {} exampleOps).1.derived.hashed = [1, 2, 3, 4] ∧
    (runHistWith allOn false {} exampleOps).1.derived.accHist.length = 5 ∧
    (runHistWith allOn false {} exampleOps).1.derived.txHist = [1, 2, 3, 2] ∧
    (runHistWith allOff false {} exampleOps).1.derived = {} ∧
    project (runHistWith allOn false {} exampleOps) = project (runHistWith allOff false {} exampleOps) := by
  decide +kernel

example : allFeatureSets.length = 48 := by decide

end Ledger.C35e
