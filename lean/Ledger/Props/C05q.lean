import Ledger.Proofs.ReadsSqlRun

/-!
C05 (SQL leg, bridge to the regenerated read SQL) — BOUNDED obligations, part 1: the `sum(case when …)` window shapes (feature
gates: `Props/C35q.lean`).

`Ledger.Generated.ReadSql` (translator `t1_readsql`) holds the statements the REAL store renders for
every read shape. Each theorem below is a finite fact checked by kernel evaluation
(`decide +kernel`): the regenerated statement, evaluated by LeanPG (`Ledger.Sql.execTop`, the MODEL of
PostgreSQL) on the world obtained by running the regenerated WRITE statements
(`Generated.WriteSql.P.insertMoves` with the `moves` triggers of `Generated.Schema`) for a small
history, answers exactly what `Ledger.Reads` computes from the Spec journal of that history. They
are regression obligations on concrete worlds — NOT general theorems; the general statements about
`Ledger.Reads` are in `Props/C05r.lean`. They re-check on every run against the current tree and
break when the rendered SQL changes meaning (wrong date column, dropped bound, `<`/`<=`, wrong
window order, dropped ledger scope), not when it is merely re-arranged.
-/
namespace Ledger.C05q
open Ledger.Reads.SqlRun Ledger.Generated

set_option maxRecDepth 100000

/-- **Window volumes, history A** (back-dated transaction, tied timestamps, a repeated account and a
    self-posting in one transaction, two assets): PIT on / before the tie, PIT+OOT and OOT alone in
    effective dates; PIT, PIT+OOT and OOT alone in insertion dates. -/
theorem window_volumes_scenA :
    checkMovesFamily none false scenA
      [.effPit 5, .effPit 4, .effPitOot 5 2, .effOot 5, .insPit 8, .insPitOot 9 8, .insOot 8] [] = true := by
  decide +kernel

end Ledger.C05q
