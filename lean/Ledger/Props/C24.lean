import Ledger.Proofs.Allotment

/-!
C24 — Allotments split amounts exactly.

Only property theorems and their non-vacuity examples live here.  The model is
`Ledger/Machine/Allotment.lean` (hand-written from allotment.go / portion.go and
tied to the real `Allotment.Allocate`, `NewAllotment`, `ParsePortionSpecific` by
the `allot` correspondence workload).
-/
namespace Ledger.C24
open Ledger.Machine

/-- One result per portion. -/
theorem allocate_length (a : List Rat) (amt : Int) : (allocate a amt).length = a.length := by
  simp [allocate, length_distribute]

/-- Portions summing to 100 %: the leftover `r = amt − Σ⌊amt·pᵢ⌋` satisfies
    `0 ≤ r < k` and part `i` is `⌊amt·pᵢ⌋ + 1` for `i < r`, `⌊amt·pᵢ⌋` otherwise
    (leftover units go to the earliest parts).  No sign hypothesis on `amt` or on
    the portions is needed. -/
theorem allocate_leftover_first (a : List Rat) (amt : Int) (hsum : a.sum = 1) :
    ∃ r : Int, 0 ≤ r ∧ r < a.length ∧
      ∀ (i : Nat) (h : i < a.length),
        (allocate a amt)[i]'(by rw [allocate_length]; exact h) =
          ⌊(amt : ℚ) * a[i]⌋ + (if (i : Int) < r then 1 else 0) := by
  obtain ⟨h0, h1⟩ := leftover_bounds a amt hsum
  have hne : a ≠ [] := by rintro rfl; simp at hsum
  refine ⟨amt - (a.map (floorPart amt)).sum, h0, ?_, ?_⟩
  · rcases h1 with h | h
    · exact h
    · exact absurd h hne
  · intro i h
    unfold allocate
    simp only []
    rw [getElem_distribute _ _ i (by simpa using h)]
    simp [floorPart_eq_floor]

/-- Each part lies between the floor of `amt·pᵢ` and that floor plus one. -/
theorem allocate_bounds (a : List Rat) (amt : Int) (hsum : a.sum = 1)
    (i : Nat) (h : i < a.length) :
    ⌊(amt : ℚ) * a[i]⌋ ≤ (allocate a amt)[i]'(by rw [allocate_length]; exact h) ∧
    (allocate a amt)[i]'(by rw [allocate_length]; exact h) ≤ ⌊(amt : ℚ) * a[i]⌋ + 1 := by
  obtain ⟨r, _, _, hr⟩ := allocate_leftover_first a amt hsum
  rw [hr i h]
  split <;> constructor <;> omega

/-- The allocated parts sum exactly to the amount. -/
theorem allocate_sum (a : List Rat) (amt : Int) (hsum : a.sum = 1) :
    (allocate a amt).sum = amt := by
  obtain ⟨h0, h1⟩ := leftover_bounds a amt hsum
  have hne : a ≠ [] := by rintro rfl; simp at hsum
  unfold allocate
  simp only []
  rw [sum_distribute _ _ h0 (by
    rcases h1 with h | h
    · simp; omega
    · exact absurd h hne)]
  omega

/-- Parts of a non-negative amount with non-negative portions are non-negative. -/
theorem allocate_nonneg (a : List Rat) (amt : Int) (hsum : a.sum = 1) (hamt : 0 ≤ amt)
    (hpos : ∀ p ∈ a, 0 ≤ p) (i : Nat) (h : i < a.length) :
    0 ≤ (allocate a amt)[i]'(by rw [allocate_length]; exact h) := by
  have hb := (allocate_bounds a amt hsum i h).1
  have : (0 : ℤ) ≤ ⌊(amt : ℚ) * a[i]⌋ := by
    apply Int.floor_nonneg.mpr
    exact mul_nonneg (by exact_mod_cast hamt) (hpos _ (List.getElem_mem h))
  omega

/-- `NewAllotment` with `remaining` (exactly one) always yields portions summing to 100 %. -/
theorem newAllotment_remaining_sum_one (ps : List Portion) (a : List Rat)
    (h : newAllotment ps = .ok a) (hrem : countRemaining ps = 1) : a.sum = 1 := by
  unfold newAllotment at h
  split at h
  · cases h
  · simp only [] at h
    split at h
    · cases h
    · cases h
      rw [sum_newAllotment_specificTotal, hrem]; push_cast; ring

/-- `NewAllotment` without `remaining` keeps the portions; they sum to 100 % iff the
    explicit portions do. -/
theorem newAllotment_explicit_sum (ps : List Portion) (a : List Rat)
    (h : newAllotment ps = .ok a) (hrem : countRemaining ps = 0) : a.sum = specificTotal ps := by
  unfold newAllotment at h
  split at h
  · cases h
  · simp only [] at h
    split at h
    · cases h
    · cases h
      rw [sum_newAllotment_specificTotal, hrem]; push_cast; ring

/-- Non-vacuity: a concrete allotment meets the hypotheses and the conclusion is
    the expected split (1/3, 1/3, remaining of 10 → 4, 3, 3). -/
example : ([1/3, 1/3, 1/3] : List Rat).sum = 1 ∧ allocate [1/3, 1/3, 1/3] 10 = [4, 3, 3] := by
  constructor
  · norm_num
  · decide +kernel

example : newAllotment [.specific (1/2), .remaining, .specific (1/8)] = .ok [1/2, 3/8, 1/8] := by
  decide +kernel

end Ledger.C24
