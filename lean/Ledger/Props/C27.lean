import Ledger.Proofs.MachineBC16

/-!
C27 — Compiling and running any input never crashes.

What is proved here is about the model `sem` (typecheck + resolve + run).  The
ANTLR parser and the byte-code level are NOT modelled: arbitrary bytes are covered
only by the `malformed` workload (real compiler + VM under recover and a timeout).
The real code used to panic on two kinds of valid programs (repaired by commits
9fd408d and e8d28b8); the pre-fix variant of the model predicts both.
-/
namespace Ledger.C27
open Ledger.Machine

variable {cfg : Cfg}

/-- The error of a run, for `decide`-able statements. -/
def errOf (r : Except Err Result) : Option Err :=
  match r with
  | .ok _ => none
  | .error e => some e

/-- `exec_total`, honestly: the model `sem` is a total Lean function (every recursion
    is structural on the syntax, accepted by the termination checker, no fuel), so every
    script and input yields a result or an explicit error value.  This says nothing
    about the Go code by itself; the tie is the correspondence run. -/
theorem exec_total (s : Script) (inp : Input) :
    (∃ r, sem cfg s inp = .ok r) ∨ (∃ e, sem cfg s inp = .error e) := by
  cases h : sem cfg s inp with
  | ok r => exact Or.inl ⟨r, rfl⟩
  | error e => exact Or.inr ⟨e, rfl⟩

/-- Byte-code level: the VM model `exec` (the real opcodes, decoded instruction list,
    no fuel: the VM has no jumps so the recursion is structural on the instruction list)
    is a total function — every program, environment and balances give a final state
    or an explicit error (typed-pop faults of the Go code are `Err.fault`). -/
theorem exec_total_bytecode (p : Program) (env : Env) (bal : Balances) :
    (∃ st, exec p env bal = .ok st) ∨ (∃ e, exec p env bal = .error e) := by
  cases h : exec p env bal with
  | ok st => exact Or.inl ⟨st, rfl⟩
  | error e => exact Or.inr ⟨e, rfl⟩

/-- Same for compilation: `compile` is total on the syntax. -/
theorem compile_total (s : Script) :
    (∃ p, compile s = .ok p) ∨ (∃ e, compile s = .error e) := by
  cases h : compile s with
  | ok p => exact Or.inl ⟨p, rfl⟩
  | error e => exact Or.inr ⟨e, rfl⟩

/-- A failing byte-code run returns no result either. -/
theorem error_leaves_no_postings_bytecode (s : Script) (inp : Input) (e : Err)
    (h : semBytecode cfg s inp = .error e) : postingsOf (semBytecode cfg s inp) = none := by
  rw [h]; rfl

/-- Stage (f), full statement: the byte-code pipeline (`compile`, then the VM model `exec`
    over the real opcodes) computes exactly what the big-step semantics `sem` computes —
    result (postings, metadata, final tracked balances) or error. -/
def exec_compile_eq_sem : Prop :=
  ∀ (s : Script) (p : Program) (inp : Input), compile s = .ok p →
    semBytecode Cfg.fixed s inp = sem Cfg.fixed s inp

/-- Stage (f) is PROVED for every program, every input: all statements (`print`, `fail`,
    `set_tx_meta`, `set_account_meta`, `save`, `send`, `send [A *]`), all sources (account —
    plain, bounded / unbounded overdraft, `@world` —, `max … from`, in-order lists, source
    allotments), all destinations (account, in-order with `max … to/kept` and `remaining`,
    allotments, `kept`), all declarations (plain, `meta()`, `balance()`), all expressions.
    Proof: per-opcode stack lemmas (`opK_*`, Proofs/MachineBC7, 12, 13), a sequencing
    framework for compile steps (`Sim`, MachineBC6), mutual structural recursion over sources
    (`cSource_gen`, MachineBC12; `sim_allotsrc`, MachineBC15) and destinations
    (`sim_dest_gen`, MachineBC14), statements (`cStmt_full`, MachineBC16), expressions and
    resources (`cExpr_ok`, `resolveRes_exists`, MachineBC1–5). -/
theorem exec_compile_eq_sem_holds : exec_compile_eq_sem :=
  fun _ _ inp hc => semBytecode_eq_sem_full hc inp

/-- Transfer to the byte-code level: a compiled program never hits a typed-pop / stack
    fault nor a panic of the VM model `exec`, whatever the variables, balances, metadata. -/
theorem welltyped_no_stack_fault_bytecode (s : Script) (p : Program)
    (hc : compile s = .ok p) (inp : Input) (w : String) :
    semBytecode Cfg.fixed s inp ≠ .error (.fault w) ∧ semBytecode Cfg.fixed s inp ≠ .error (.panic w) := by
  obtain ⟨ds, htc⟩ := compile_typechecks hc
  rw [semBytecode_eq_sem_full hc inp]
  exact sem_nf htc inp w

/-- A failing run returns no result at all: no postings, no metadata (the adapter
    returns `nil, err`; `resultNil` is checked on the real code for every failing case). -/
theorem error_leaves_no_postings (s : Script) (inp : Input) (e : Err) (h : sem cfg s inp = .error e) :
    postingsOf (sem cfg s inp) = none := by
  rw [h]; rfl

/-- Expression level: an expression the compiler typed evaluates to a value of that
    type, or stops with one of the VM's own runtime errors (asset mismatch of `+` / `-`);
    it never hits a typed-pop fault. -/
theorem welltyped_expr_no_fault (ds : Decls) (env : Env) (henv : EnvTyped ds env) (e : Expr) (t : Ty)
    (h : typeExpr ds e = .ok t) :
    (∃ v, evalExpr env e = .ok v ∧ valueTy v = t) ∨ (∃ k, evalExpr env e = .error (.run "exec" k)) := by
  rcases evalExpr_typed ds env henv e t h with ⟨v, hv, hty, _⟩ | ⟨k, hk⟩
  · exact Or.inl ⟨v, hv, hty⟩
  · exact Or.inr ⟨k, hk⟩

/-- The full claim "a compiled program never panics / faults", for a variant `cfg` of
    the code. -/
def welltyped_no_stack_fault (cfg : Cfg) : Prop :=
  ∀ (s : Script) (inp : Input) (ds : Decls), typecheck s = .ok ds →
    ∀ w, sem cfg s inp ≠ .error (.panic w) ∧ sem cfg s inp ≠ .error (.fault w)

/-- `welltyped_no_stack_fault` holds in full for the current code (`Cfg.fixed`): whatever the
    variables, balances and metadata, a program the compiler's checks accept never hits a
    typed-pop / stack fault nor a panic in `sem` — variable resolution, balance resolution
    and every statement included.  (Induction over declarations, sources, destinations.) -/
theorem welltyped_no_stack_fault_holds : welltyped_no_stack_fault Cfg.fixed := by
  intro s inp ds htc w
  exact ⟨(sem_nf htc inp w).2, (sem_nf htc inp w).1⟩

/-- Defect 1 (confirmed on the real code: nil-pointer dereference in OP_TAKE): two
    `balance()` variables on one account leave the first one with a nil amount. -/
def nilAmountScript : Script :=
  { vars := [⟨.monetary, "x", .balance (.acct "a") (.asset "USD")⟩,
             ⟨.monetary, "y", .balance (.acct "a") (.asset "EUR")⟩],
    stmts := [.send (.var "x") (.src (.account (.acct "world") .none)) (.account (.acct "b"))] }

/-- Defect 2 (confirmed on the real code: "value method MonetaryInt.GetType called
    using nil *MonetaryInt pointer" in ResolveResources): a `number` variable whose
    JSON value is `null`. -/
def nilNumberScript : Script :=
  { vars := [⟨.number, "n", .none⟩], stmts := [.setTxMeta "k" (.var "n")] }

def emptyInput (vars : List (String × String)) : Input :=
  { vars := vars, balance := fun _ _ => 0, accountMeta := fun _ => none }

/-- The two defects, as statements about the PRE-FIX variant of the model (both were
    confirmed on the real code before commits 9fd408d / e8d28b8); the current variant
    runs the first script and rejects the second with an ordinary error. -/
theorem welltyped_no_stack_fault_prefix_counterexample :
    errOf (sem Cfg.preFix nilAmountScript (emptyInput [])) = some (.panic "nil-amount") ∧
    errOf (sem Cfg.preFix nilNumberScript (emptyInput [("n", "null")])) = some (.panic "nil-number") ∧
    errOf (sem Cfg.fixed nilAmountScript (emptyInput [])) = none ∧
    errOf (sem Cfg.fixed nilNumberScript (emptyInput [("n", "null")])) = some (.run "vars" "invalid") := by
  refine ⟨?_, ?_, ?_, ?_⟩ <;> decide +kernel

theorem welltyped_no_stack_fault_prefix_false : ¬ welltyped_no_stack_fault Cfg.preFix := by
  intro h
  have hp := welltyped_no_stack_fault_prefix_counterexample.2.1
  have htc : ∃ ds, typecheck nilNumberScript = .ok ds := by
    cases ht : typecheck nilNumberScript with
    | ok ds => exact ⟨ds, rfl⟩
    | error e =>
      exfalso
      have : errOf (sem Cfg.preFix nilNumberScript (emptyInput [("n", "null")])) = some (.compile e) := by
        simp [sem, ht, errOf]
      rw [this] at hp; cases hp
  obtain ⟨ds, hds⟩ := htc
  have := (h nilNumberScript (emptyInput [("n", "null")]) ds hds "nil-number").1
  apply this
  cases hs : sem Cfg.preFix nilNumberScript (emptyInput [("n", "null")]) with
  | ok r => rw [hs] at hp; cases hp
  | error e => rw [hs] at hp; simp [errOf] at hp; rw [hp]

/-! Non-vacuity (kernel-evaluated tests). -/
def covScript : Script :=
  { vars := [⟨.monetary, "m", .none⟩, ⟨.monetary, "b", .balance (.acct "a") (.asset "USD")⟩],
    stmts := [.setTxMeta "k" (.add (.var "m") (.var "b")), .save (.var "m") (.acct "a"),
      .setAccountMeta (.acct "a") "n" (.sub (.num 7) (.num 9)),
      .send (.var "m") (.src (.account (.acct "a") (.upTo (.mon (.asset "USD") 5)))) (.account (.acct "x")),
      .sendAll (.asset "USD") (.src (.account (.acct "x") .none)) (.account (.acct "world"))] }
example : (compile covScript).toOption.isSome = true := by decide +kernel

def bcScript : Script :=
  { vars := [⟨.monetary, "m", .none⟩],
    stmts := [.send (.var "m")
      (.src (.inorder (.cons (.account (.acct "a") .none) (.cons (.account (.acct "world") .none) .nil))))
      (.inorder (.cons (.mon (.asset "USD") 10) (.to (.account (.acct "x"))) .nil) .kept)] }
def bcInput : Input :=
  { vars := [("m", "USD 30")], balance := fun a _ => if a = "a" then 7 else 0, accountMeta := fun _ => none }
example : postingsOf (semBytecode Cfg.fixed bcScript bcInput) = postingsOf (sem Cfg.fixed bcScript bcInput) ∧
    postingsOf (sem Cfg.fixed bcScript bcInput) = some [⟨"a", "x", "USD", 7⟩, ⟨"world", "x", "USD", 3⟩] := by
  constructor <;> decide +kernel
example : errOf (sem Cfg.fixed nilNumberScript (emptyInput [("n", "12")])) = none := by decide +kernel
example : typeExpr [("m", .monetary)] (.add (.var "m") (.mon (.asset "USD") 3)) = .ok .monetary := by
  decide +kernel

end Ledger.C27
