import Ledger.Proofs.QueryPaginatePrev
import Ledger.Proofs.QueryPaginateOffset
import Ledger.Query.Cursor

/-!
C21 — Cursor pagination enumerates each result exactly once, in order.

Only property theorems and non-vacuity examples.  The model is
`Ledger/Query/Paginate.lean` + `Cursor.lean` (hand-written from
`paginator_column.go`, `paginator_offset.go`, `cursor.go`, `resource.go`), tied to
the real `PaginatedResourceRepository.Paginate` / `BuildCursor` / cursor codec by
the `cursor` correspondence workload.

`T` is the filtered dataset in any order; `orderBy o T` is its `ORDER BY key o`.
`KeysDistinct T` is the "unique key" hypothesis; `fuel` only bounds the number of
pages followed (any value ≥ `T.length + 1` works: the walk stops by itself).
-/
namespace Ledger.C21
open Ledger.Query

/-- **Column pagination is complete and duplicate-free, in order, for every page
    size** (`pageSize = 0` means the default 15): following `next` from the first
    page yields pages whose concatenation is the whole listing in the requested
    order; the last page has no `next`; no page is longer than the page size. -/
theorem column_pagination_complete {φ : Type} (rest : φ) (o : Order) (T : List Row)
    (hT : KeysDistinct T) (pageSize fuel : Nat) (hfuel : fuel ≥ T.length + 1) :
    ((walkNextCol fuel (ColQuery.initial pageSize o rest) T).map (·.data)).flatten = orderBy o T ∧
    (∃ last, (walkNextCol fuel (ColQuery.initial pageSize o rest) T).getLast? = some last ∧
      last.next = none ∧ last.hasMore = false) ∧
    (∀ p ∈ walkNextCol fuel (ColQuery.initial pageSize o rest) T,
      p.data.length ≤ effPageSize pageSize) := by
  have hlen : (orderBy o T).length = T.length := (orderBy_perm o T).length_eq
  obtain ⟨h1, ⟨last, h2, h3⟩, h4⟩ := walk_fwd (φ := φ) o T hT (orderBy o T).length (orderBy o T) []
    (ColQuery.initial pageSize o rest) fuel (Nat.le_refl _) (by simp) rfl rfl (Or.inl ⟨rfl, rfl⟩) (by omega)
  refine ⟨h1, ⟨last, h2, h3, ?_⟩, h4⟩
  -- `hasMore` is `next != nil` on forward pages
  have hmem : last ∈ walkNextCol fuel (ColQuery.initial pageSize o rest) T :=
    List.mem_of_getLast? h2
  rw [walk_hasMore_eq fuel _ T rfl last hmem, h3]; rfl

/-- Every row is listed exactly once: the concatenated pages are a permutation of
    the dataset (and, by `column_pagination_complete`, in order). -/
theorem column_pagination_each_once {φ : Type} (rest : φ) (o : Order) (T : List Row)
    (hT : KeysDistinct T) (pageSize fuel : Nat) (hfuel : fuel ≥ T.length + 1) :
    (((walkNextCol fuel (ColQuery.initial pageSize o rest) T).map (·.data)).flatten).Perm T := by
  rw [(column_pagination_complete rest o T hT pageSize fuel hfuel).1]
  exact orderBy_perm o T

/-- On a table already sorted by its unique key the listing is the table itself
    (ascending) or its reverse (descending). -/
theorem orderBy_of_sorted (T : List Row) (h : T.Pairwise (fun a b => a.key < b.key)) :
    orderBy .asc T = T ∧ orderBy .desc T = T.reverse := by
  have hT : KeysDistinct T := by
    unfold KeysDistinct
    rw [List.Nodup, List.pairwise_map]
    exact h.imp (fun hab => by omega)
  have h1 : orderBy .asc T = T := by
    unfold orderBy
    apply List.mergeSort_of_pairwise
    exact h.imp (fun hab => by simp [Order.le]; omega)
  refine ⟨h1, ?_⟩
  have := orderBy_rev .asc T hT
  simpa [Order.rev, h1] using this

/-- **The previous cursor of a forward page returns the page before**: for a page
    that starts at row `x` with `pre` the rows listed before it, `previous` is absent
    iff `pre` is empty; otherwise following it returns the `pageSize` rows immediately
    before `x` (all of `pre` when there are fewer), its `next` cursor is the current
    page's query again, and its own `previous` (present iff more rows precede) is
    positioned on its first row. `b` is `bottom`: the first key of the listing. -/
theorem previous_is_page_before {φ : Type} (o : Order) (T : List Row) (hT : KeysDistinct T)
    (q : ColQuery φ) (pre suf : List Row) (x : Row) (b : Int)
    (hS : orderBy o T = pre ++ x :: suf) (ho : q.order = some o) (hrev : q.reverse = false)
    (hpid : q.paginationID = some x.key) (hb : q.bottom = some b)
    (hbot : ∀ y ∈ (pre ++ [x]).head?, b = y.key) :
    ∃ p, paginateCol q T = .ok p ∧
      (pre = [] → p.previous = none) ∧
      (pre ≠ [] → ∃ qp pp, p.previous = some qp ∧ paginateCol qp T = .ok pp ∧
        pp.data = pre.drop (pre.length - effPageSize q.pageSize) ∧ pp.next = some q ∧
        (pre.length ≤ effPageSize q.pageSize → pp.previous = none) ∧
        (effPageSize q.pageSize < pre.length →
          ∃ z, (pre.drop (pre.length - effPageSize q.pageSize)).head? = some z ∧
            pp.previous = some { qp with paginationID := some z.key })) :=
  page_previous o T hT q pre suf x b hS ho hrev hpid hb hbot

/-- **Offset pagination is complete** (string-sorted listings: accounts by address,
    volumes by account): following `next` from offset 0 yields the whole listing in
    order, for every page size (`0` = no limit). The listing order is the one
    `orderBy` fixes for the whole walk (*StableTies*: every page sees the same total
    order even when the sort column has ties, as for volumes sorted by `account`).
    The code refuses offsets above `MaxInt32`, hence the bound on the table. -/
theorem offset_pagination_complete {φ : Type} (rest : φ) (o : Order) (T : List Row)
    (hmax : T.length ≤ maxInt32) (pageSize fuel : Nat) (hfuel : fuel ≥ T.length + 1) :
    ((walkNextOff fuel (OffQuery.initial pageSize o rest) T).map (·.data)).flatten = orderBy o T ∧
    (∃ last, (walkNextOff fuel (OffQuery.initial pageSize o rest) T).getLast? = some last ∧
      last.next = none) := by
  have hlen := orderBy_length o T
  have := walk_off (φ := φ) o T hmax (orderBy o T).length (OffQuery.initial pageSize o rest) fuel
    (by simp [OffQuery.initial]) (by simp [OffQuery.initial]) rfl (by simp [OffQuery.initial]; omega)
  simpa [OffQuery.initial] using this

/-- Cursors survive encoding: decoding the JSON tree of a column / offset query
    gives the query back. -/
theorem cursor_roundtrip_col (q : ColQuery CursorRest) :
    decodeCursor (encodeCol q) = .ok (.column q) := by
  obtain ⟨ps, ord, bot, pid, rev, ⟨col, fl⟩⟩ := q
  have hps : ¬ ((ps : Int) < 0) := by omega
  cases ord with
  | none => cases bot <;> cases pid <;> simp [decodeCursor, encodeCol, J.get, List.lookup, decStr, decOrder, decNat, decOptInt, decBool, optJ, bind, Except.bind, pure, Except.pure, hps]
  | some o => cases o <;> cases bot <;> cases pid <;> simp [decodeCursor, encodeCol, J.get, List.lookup, decStr, decOrder, decNat, decOptInt, decBool, optJ, Order.toJ, bind, Except.bind, pure, Except.pure, hps]

theorem cursor_roundtrip_off (q : OffQuery CursorRest) :
    decodeCursor (encodeOff q) = .ok (.offset q) := by
  obtain ⟨ps, ord, off, ⟨col, fl⟩⟩ := q
  have hps : ¬ ((ps : Int) < 0) := by omega
  have hoff : ¬ ((off : Int) < 0) := by omega
  cases ord with
  | none => simp [decodeCursor, encodeOff, J.get, List.lookup, decStr, decOrder, decNat, optJ, bind, Except.bind, pure, Except.pure, hps, hoff]
  | some o => cases o <;> simp [decodeCursor, encodeOff, J.get, List.lookup, decStr, decOrder, decNat, optJ, Order.toJ, bind, Except.bind, pure, Except.pure, hps, hoff]

/-- Non-vacuity: the hypotheses hold on a concrete seven-row table given out of
    order, and the theorem then says the pages of size 3 in descending order
    concatenate to the sorted listing and that the walk stops. -/
example : KeysDistinct [⟨4, 0⟩, ⟨9, 1⟩, ⟨1, 2⟩, ⟨7, 3⟩, ⟨2, 4⟩, ⟨6, 5⟩, ⟨5, 6⟩] := by unfold KeysDistinct; decide

example :
    let T : List Row := [⟨1, 2⟩, ⟨2, 4⟩, ⟨4, 0⟩, ⟨5, 6⟩, ⟨6, 5⟩, ⟨7, 3⟩, ⟨9, 1⟩]
    ((walkNextCol 8 (ColQuery.initial 3 .desc ()) T).map (·.data)).flatten = T.reverse := by
  intro T
  have hs : T.Pairwise (fun a b => a.key < b.key) := by decide
  have hd : KeysDistinct T := by unfold KeysDistinct; decide
  rw [(column_pagination_complete () .desc T hd 3 8 (by decide)).1, (orderBy_of_sorted T hs).2]

/-- A single page computed by hand on an already ordered three-row listing: page
    size 2 keeps two rows, `hasMore`, and positions `next` on the third row. -/
example :
    (buildCursorCol (ColQuery.initial 2 .asc ()) .asc [⟨1, 0⟩, ⟨2, 1⟩, ⟨3, 2⟩]).toOption.map
      (fun p => (p.data.map (·.key), p.hasMore, p.next.bind (·.paginationID), p.next.bind (·.bottom)))
    = some ([1, 2], true, some 3, some 1) := by decide

end Ledger.C21
