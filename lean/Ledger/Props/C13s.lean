import Ledger.Proofs.SchedUnique
import Ledger.Proofs.SchedHandles
import Ledger.Proofs.SchedWitnesses

/-!
# C13 (schedule part) — idempotency keys under concurrency

Over ALL schedules and ALL programs: the unique index `logs (ledger, idempotency_key)`
keeps a key on at most one log. The answers of the losers depend on the
controller: `forgeLogG false` is the code before /repo 0fbf80e (a loser that missed the
key in its first lookup re-runs the whole operation and can answer its own business
error — `…_counterexample`), `forgeLogG true` = `forgeLog` the repaired code (a failed
attempt carrying a key looks the key up once more).
-/
namespace Ledger.C13s
open Ledger.Sched

/-- `ik_at_most_once_any_schedule`: for every schedule and every programs, no two logs of one
    ledger — committed or in progress — carry the same idempotency key. -/
theorem ik_at_most_once_any_schedule (σ : Schedule) (w₀ : World) (h₀ : UniqInv w₀) :
    (run σ w₀).logs.Pairwise (fun a b => a.l = b.l → a.ik ≠ 0 → a.ik ≠ b.ik) := by
  refine (uniq_run σ w₀ h₀).2.imp ?_
  intro a b hab hl
  exact (hab hl).2

example : UniqInv { logs := [{ l := 1, id := 1, ik := 3, hash := 0, prev := 0, tx := 1, by_ := 1, com := true }] } :=
  ⟨List.Pairwise.nil, List.pairwise_singleton _ _⟩

/-- `ik_hit_returns_original` / `ik_different_input_validation_error`: what `fetchLogWithIK` answers -/
theorem ik_hit_returns_original (hash id tx : Nat) :
    ikAnswer hash { flag := true, vals := [id, hash, tx] } = { tx := tx, log := id, hit := true } := by
  simp [ikAnswer]

theorem ik_different_input_validation_error (hash h' id tx : Nat) (hne : h' ≠ hash) :
    ikAnswer hash { flag := true, vals := [id, h', tx] } = { err := "invalid-idempotency-input" } := by
  simp [ikAnswer, hne]

/-- a second INSERT with a key that a committed log carries fails with the key conflict and inserts
    nothing; while the holder is in progress it waits -/
theorem ik_conflict_or_wait :
    let e : Lg := { l := 1, id := 7, ik := 3, hash := 0, prev := 0, tx := 1, by_ := 9, com := true }
    (∃ w', insLog { logs := [e] } 2 1 3 0 false none 2 = .failed w' .uniqueIK ∧ w'.logs = [e]) ∧
    insLog { logs := [{ e with com := false }] } 2 1 3 0 false none 2 = .blocked 9 := by
  refine ⟨?_, rfl⟩
  unfold insLog
  simp

/-- (repaired code) an attempt carrying a key that fails for a non-retryable reason looks the key
    up once more; if a log is recorded the caller gets the recorded outcome, not its own error -/
theorem failed_attempt_rechecks_key (l ik hash : Nat) (hik : ik ≠ 0) (fin : Resp → Prog) (own : Resp) (o : Out)
    (ho : o.flag = true) :
    (recordedOutcome true l ik hash fin own).next = some (.readIK l ik) ∧
    (recordedOutcome true l ik hash fin own).cont o = fin (ikAnswer hash o) := by
  unfold recordedOutcome
  simp [hik, Prog.next, Prog.cont, ho]

/-! ## the counterexample on the code before /repo 0fbf80e -/





/-- Before the repair the loser answers `insufficient-funds` although the key is committed with a
    success: `ik_no_contradicting_business_error` was false. -/
theorem ik_no_contradicting_business_error_counterexample :
    (run cxSchedule (cxWorld false)).resp 1 = some { tx := 1, log := 1 } ∧
    (run cxSchedule (cxWorld false)).resp 2 = some { err := "insufficient-funds" } ∧
    (run cxSchedule (cxWorld false)).logs.map (fun e => (e.ik, e.com)) = [(1, true)] := by
  decide

/-- On the repaired code the same schedule answers the loser with the original log. -/
theorem ik_loser_gets_recorded_outcome :
    (run cxSchedule (cxWorld true)).resp 1 = some { tx := 1, log := 1 } ∧
    (run cxSchedule (cxWorld true)).resp 2 = some { tx := 1, log := 1, hit := true } := by
  decide

/-- tie (regenerated): the key lookup comes first, inside the transaction, and a hit rolls back -/
theorem ik_hit_path_follows_generated_handles :
    (sendProg (exSend true (.bounded 0) 1 0) true).pathK
        (fun st => match st with | .readIK _ _ => { flag := true, vals := [1, 7, 1] } | _ => {}) 40
      = modelledKinds Generated.Handles.sendIkHit ∧
    (sendProg (exSend true (.bounded 0) 1 0) true).answer
        (fun st => match st with | .readIK _ _ => { flag := true, vals := [1, 7, 1] } | _ => {}) 40
      = some { tx := 1, log := 1, hit := true } := by
  decide

end Ledger.C13s
