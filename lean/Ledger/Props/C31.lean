import Ledger.Proofs.WrapStack
import Ledger.Proofs.WrapSpec

/-!
C31 — Events are published exactly for committed writes, after commit.

Only property theorems and their non-vacuity examples live here.  The model is
`Ledger/Wrap/{Trace,Events,Stack,Discipline}.lean`: `ControllerWithEvents`
(`handleEvent`, the write methods, `BeginTX`, `LockLedger`, `Commit`, `Rollback`),
the state tracker's `handleState` and the sequential `Bulker.Run` on top of it,
over a model of the scripted fake controller; tied to the real code by the
`events` correspondence workload (global trace equality).

`c31Ok` is the decidable predicate on a global trace (`Ledger/Wrap/Trace.lean`):
the specification fold `Spec` computes from the underlying calls alone which
writes are durable (outside a transaction: at once; inside: when the outermost
enclosing transaction commits; never for failed, dry-run, rolled-back or
commit-failed writes) and checks every listener call against it.

`St.lockTx` is how `LockLedger` sets `hasTx` on the wrapper it returns: the code
is `lockHasTx` (keeps the receiver's flag, since commit 79c17ec); the snapshot
originally dropped it (`lockHasTxBuggy`), which is what `events_counterexample`
is about.
-/
namespace Ledger.C31
open Ledger.Wrap List

/-- **Meaning of the predicate, part 1 (after commit, only for durable writes).**
    On a trace accepted by `c31Ok`, at the moment of each listener call the write it
    describes is durable — made outside any transaction, or the outermost
    transaction containing it has committed — and has been published fewer times
    than it is durable. -/
theorem publish_only_when_durable (tr pre rest : List Item) (k : Kind) (w : Nat)
    (hok : c31Ok tr = true) (hsplit : tr = pre ++ .publish k w :: rest) :
    (specOf pre).pub.count (k, w) < (specOf pre).dur.count (k, w) := by
  by_contra hlt
  have hbad : ((specOf pre).step (.publish k w)).bad = true := by
    simp [Spec.step, hlt]
  have : (specOf tr).bad = true := by
    rw [hsplit, specOf, Spec.run_append]
    show (Spec.run ((Spec.run {} pre).step (.publish k w)) rest).bad = true
    exact bad_sticky _ _ hbad
  simp [c31Ok, this] at hok

/-- **Meaning of the predicate, part 2 (exactly once).**  On a trace accepted by
    `c31Ok`, every durable write has been published exactly as many times as it is
    durable. -/
theorem durable_published_exactly_once (tr : List Item) (hok : c31Ok tr = true) :
    ∀ x ∈ (specOf tr).dur, (specOf tr).pub.count x = (specOf tr).dur.count x := by
  simp only [c31Ok, Bool.and_eq_true, List.all_eq_true, beq_iff_eq] at hok
  exact hok.2

/-- **Only successful non-dry-run writes ever become durable**: failed writes and
    dry runs contribute nothing to the durable set of the specification fold. -/
theorem durable_only_from_successful_writes (tr : List Item) (x : Ev)
    (hx : x ∈ (specOf tr).dur) : ∃ t, Item.write t x.1 false x.2 .ok ∈ tr := by
  have h0 : Src {} [] := by
    constructor
    · intro y hy; exact absurd hy (by simp)
    · intro t y hy; exact absurd hy (by simp)
  have := src_run {} [] tr h0
  simpa using this.1 x hx

/-- **Failed writes and dry runs publish nothing**: on a trace accepted by `c31Ok`
    every listener call describes a successful non-dry-run write of the trace. -/
theorem published_only_for_successful_writes (tr : List Item) (k : Kind) (w : Nat)
    (hok : c31Ok tr = true) (hp : Item.publish k w ∈ tr) :
    ∃ t, Item.write t k false w .ok ∈ tr := by
  obtain ⟨pre, rest, hsplit⟩ := List.append_of_mem hp
  have hlt := publish_only_when_durable tr pre rest k w hok hsplit
  have hmem : (k, w) ∈ (specOf pre).dur := by
    apply List.count_pos_iff.1
    omega
  obtain ⟨t, ht⟩ := durable_only_from_successful_writes pre (k, w) hmem
  exact ⟨t, by rw [hsplit]; exact List.mem_append_left _ ht⟩

/-- **C31 for the code.**  For every ledger state (`inUse` or initializing) and
    every program — any sequence of writes through the state tracker (all seven
    kinds, dry-run or not, succeeding or failing, with `BeginTX` / `LockLedger` /
    SQL / `Commit` / `Rollback` failures injected), sequential bulks through
    `Bulker.Run` (atomic or not, `continueOnFailure` or not, any element list) and
    raw calls on any wrapper handle, interleaved in any way — that respects the
    calling discipline (a *raw* `BeginTX` only outside a transaction, no `Commit`
    through a wrapper returned by `LockLedger` inside a transaction; the nested
    `BeginTX` that `handleState` itself issues inside an atomic bulk's transaction is
    part of the model and covered), the global trace
    satisfies `c31Ok`: every event is published after the successful commit of
    the outermost transaction containing its write, failed / dry-run / rolled-back /
    commit-failed writes publish nothing, every committed write publishes exactly once. -/
theorem events_iff_committed_and_after (inUse : Bool) (ops : List Op)
    (hd : disciplined true ({ inUse := inUse } : St) ops = true) :
    c31Ok (runOps ({ inUse := inUse } : St) ops).2.trace = true := by
  have hinit := inv_init lockHasTx rfl inUse
  exact c31Ok_of_inv (runOps_pres (lockInTx := true) ops _ hinit.1 hinit.2 (fun _ => rfl) hd)

/-- The programs made only of state-tracker writes and bulks (what the API does)
    are always within the discipline. -/
theorem api_programs_disciplined (s : St) (ops : List Op)
    (h : ∀ op ∈ ops, match op with | .raw _ => False | _ => True) :
    disciplined true s ops = true := by
  induction ops generalizing s with
  | nil => rfl
  | cons op ops ih =>
    simp only [disciplined, Bool.and_eq_true]
    refine ⟨?_, ih _ (fun o ho => h o (List.mem_cons_of_mem _ ho))⟩
    have := h op (List.mem_cons_self ..)
    cases op with
    | raw c => exact absurd this id
    | swrite k dry ok w f => simp [opOk]
    | bulk a c e f => simp [opOk]

/-- Known finding (fixed by 79c17ec): with the pre-fix `LockLedger` (returned
    wrapper without `hasTx`) the first write on an initializing ledger publishes
    its event before the enclosing transaction commits — and still publishes it
    when that commit fails (second program: nothing is durable, one event out). -/
theorem events_counterexample :
    let s0 : St := { lockTx := lockHasTxBuggy, inUse := false }
    let first : List Op := [.swrite .createTx false true 1 {}]
    let commitFails : List Op := [.swrite .createTx false true 1 { commit := true }]
    disciplined true s0 first = true ∧
    c31Ok (runOps s0 first).2.trace = false ∧
    (runOps s0 first).2.trace =
      [.begin 1 0 .ok, .lock 1 .ok, .sql 1 1 .ok, .sql 1 2 .ok, .sql 1 3 .ok,
       .write 1 .createTx false 1 .ok, .publish .createTx 1, .release 1, .commit 1 .ok] ∧
    c31Ok (runOps s0 commitFails).2.trace = false ∧
    (specOf (runOps s0 commitFails).2.trace).dur = [] ∧
    (specOf (runOps s0 commitFails).2.trace).pub = [(.createTx, 1)] ∧
    -- the same programs on the code as it is now
    c31Ok (runOps ({ inUse := false } : St) first).2.trace = true ∧
    c31Ok (runOps ({ inUse := false } : St) commitFails).2.trace = true := by
  decide

/-- What held for the pre-fix code as well: C31 for every disciplined program
    that never calls `LockLedger` inside a transaction — in particular every
    program on a ledger that is already in use. -/
theorem events_partial (inUse : Bool) (ops : List Op)
    (hd : disciplined false ({ lockTx := lockHasTxBuggy, inUse := inUse } : St) ops = true) :
    c31Ok (runOps ({ lockTx := lockHasTxBuggy, inUse := inUse } : St) ops).2.trace = true := by
  have hinit := inv_init lockHasTxBuggy rfl inUse
  exact c31Ok_of_inv (runOps_pres (lockInTx := false) ops _ hinit.1 hinit.2
    (fun h => by cases h) hd)

-- Non-vacuity: disciplined programs with committed, rolled-back, failed and dry-run writes.

example :
    let ops : List Op := [
      .swrite .saveAccMeta false true 1 {},                       -- first write: BeginTX+LockLedger+Commit
      .swrite .createTx true true 2 {},                           -- dry run
      .bulk true false [⟨.createTx, true, 3⟩, ⟨.revertTx, false, 4⟩, ⟨.createTx, true, 5⟩] {},  -- rolled back
      .bulk true false [⟨.createTx, true, 6⟩, ⟨.delTxMeta, true, 7⟩] {},                         -- committed
      .bulk true false [⟨.createTx, true, 8⟩] { commit := true },                                 -- commit fails
      .raw (.begin 0 true), .raw (.lock 1 true), .raw (.write 2 .insertSchema false true 9),
      .raw (.commit 1 true)]
    disciplined true ({ inUse := false } : St) ops = true ∧
    (specOf (runOps ({ inUse := false } : St) ops).2.trace).pub =
      [(.saveAccMeta, 1), (.createTx, 6), (.delTxMeta, 7), (.insertSchema, 9)] := by
  decide

/-- Non-vacuity for the nested shape: an atomic bulk on an initializing ledger — the
    first element runs `handleState` inside the bulk's transaction (savepoint 2 in
    transaction 1); its event waits for the OUTER commit; when a later element
    fails, or the outer commit fails, nothing is published. -/
example :
    let ok : List Op := [.bulk true false [⟨.createTx, true, 1⟩, ⟨.saveAccMeta, true, 2⟩] {}]
    let laterFails : List Op := [.bulk true false [⟨.createTx, true, 1⟩, ⟨.saveAccMeta, false, 2⟩] {}]
    let outerCommitFails : List Op := [.bulk true false [⟨.createTx, true, 1⟩] { commitTop := true }]
    (runOps ({ inUse := false } : St) ok).2.trace =
      [.begin 1 0 .ok, .begin 2 1 .ok, .lock 2 .ok, .sql 2 1 .ok, .sql 2 2 .ok, .sql 2 3 .ok,
       .write 2 .createTx false 1 .ok, .release 2, .commit 2 .ok,
       .write 1 .saveAccMeta false 2 .ok, .commit 1 .ok,
       .publish .createTx 1, .publish .saveAccMeta 2] ∧
    (specOf (runOps ({ inUse := false } : St) laterFails).2.trace).pub = [] ∧
    (specOf (runOps ({ inUse := false } : St) laterFails).2.trace).dur = [] ∧
    (specOf (runOps ({ inUse := false } : St) outerCommitFails).2.trace).pub = [] ∧
    (specOf (runOps ({ inUse := false } : St) outerCommitFails).2.trace).dur = [] := by
  decide

end Ledger.C31
