import Ledger.Proofs.SqlRevertExpr
import Ledger.Proofs.SqlRunAccounts

/-!
C15b — bridge: `RevertTransaction` (the SQL, under LeanPG) against `Ledger.Spec.markReverted`; the
transaction-metadata statements.

* PROVED for every row (`revertTransaction_sem`, `revertTransactionAt_sem`): the UPDATE inside the CTE of
  the regenerated statement sets `reverted_at` and `updated_at` and its WHERE clause, under LeanPG's
  expression evaluator, holds exactly when the row is transaction `txid` of this ledger AND
  `reverted_at IS NULL` — the guard of `Spec.markReverted` (the `reverted_at is null` part is what makes a
  second revert a no-op).
* NOT proved in general: the CTE / UPDATE loop / UNION ALL … LIMIT 1 plumbing that turns the guard into
  "mark once, answer `modified = true` once", and the per-ledger AFTER UPDATE trigger
  (`update_transaction_metadata_history`) that fires on the revert. Fallback, labelled below: BOUNDED
  REGRESSION OBLIGATIONS by kernel evaluation on concrete scenarios.
-/
namespace Ledger.C15b
open Ledger Ledger.Sql Ledger.Generated Ledger.Generated.WriteSql

/-- `RevertTransaction`: the statement is `WITH upd AS (UPDATE transactions SET reverted_at = transaction_date(),
    updated_at = transaction_date() WHERE wher RETURNING …) SELECT … LIMIT 1`, and `wher` holds iff
    `id = txid ∧ reverted_at IS NULL ∧ ledger = l`, for any row in which these columns resolve. -/
theorem revertTransaction_sem (cb : Callbacks) (te : TypeEnv) (env : Env) (b l : String) (id : Nat) (txid i : Int) (ra : Option Int) (lr : String) (s : St)
    (h1 : lookupColumn env "" "id" = .ok (.int i)) (h2 : lookupColumn env "" "reverted_at" = .ok (optTs ra))
    (h3 : lookupColumn env "" "ledger" = .ok (.text lr)) :
    ∃ (wher : Expr) (ret : List SelItem) (body : SetExpr),
      P.revertTransaction b l id txid =
        [Stmt.query (Query.mk [Cte.mk "upd" [] (Stmt.update [] b "transactions" ""
            [SetItem.mk "reverted_at" (Expr.call b "transaction_date" []), SetItem.mk "updated_at" (Expr.call b "transaction_date" [])]
            [] (some wher) ret)] body [] (some (Expr.int 1)) none LockMode.none)] ∧
      (evalExpr cb te env wher).exec s = (.ok (.bool (decide (i = txid ∧ ra = none ∧ lr = l))), s) :=
  revertTransaction_exprs cb te env b l id txid i ra lr s h1 h2 h3

/-- the same for the variant with an explicit date -/
theorem revertTransactionAt_sem (cb : Callbacks) (te : TypeEnv) (env : Env) (b l : String) (id : Nat) (txid i : Int) (atTs : String)
    (ra : Option Int) (lr : String) (s : St)
    (h1 : lookupColumn env "" "id" = .ok (.int i)) (h2 : lookupColumn env "" "reverted_at" = .ok (optTs ra))
    (h3 : lookupColumn env "" "ledger" = .ok (.text lr)) :
    ∃ (wher : Expr) (ret : List SelItem) (body : SetExpr),
      P.revertTransactionAt b l id txid atTs =
        [Stmt.query (Query.mk [Cte.mk "upd" [] (Stmt.update [] b "transactions" ""
            [SetItem.mk "reverted_at" (Expr.str atTs), SetItem.mk "updated_at" (Expr.str atTs)]
            [] (some wher) ret)] body [] (some (Expr.int 1)) none LockMode.none)] ∧
      (evalExpr cb te env wher).exec s = (.ok (.bool (decide (i = txid ∧ ra = none ∧ lr = l))), s) :=
  revertTransactionAt_exprs cb te env b l id txid i atTs ra lr s h1 h2 h3

/-! ### BOUNDED REGRESSION OBLIGATIONS (kernel evaluation on concrete scenarios; not general theorems) -/

open Ledger.Sql.Run

/-- Two transactions; revert #1 at t=20, again at t=30, and a non-existent #3: the table equals
    `Spec.markReverted` applied in order (the first date is kept), and the answers carry `modified = true`
    the first time, `false` the second time, no row for #3. -/
example : (let r := run w1 (on 1 (mkTx 1 10 "{\"k\":\"v\"}" ++ mkTx 2 11 "{}" ++ revertAt 1 20 ++ revertAt 1 30 ++ revertAt 3 31))
    (revertedAbs r.1, lastCols (r.2.drop 2))) =
    (specReverted [1, 2] [(1, 20), (1, 30), (3, 31)], [["true"], ["false"], []]) := by
  decide +kernel

end Ledger.C15b
