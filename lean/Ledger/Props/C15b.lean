import Ledger.Proofs.SqlRevertExpr
import Ledger.Proofs.SqlTxStmts
import Ledger.Proofs.SqlRunAccounts

/-!
C15b — bridge: `RevertTransaction` (the SQL, under LeanPG) against `Ledger.Spec.markReverted`; the
transaction-metadata statements.

* PROVED for every row (`revertTransaction_sem`, `revertTransactionAt_sem`): the UPDATE inside the CTE of
  the regenerated statement sets `reverted_at` and `updated_at` and its WHERE clause, under LeanPG's
  expression evaluator, holds exactly when the row is transaction `txid` of this ledger AND
  `reverted_at IS NULL` — the guard of `Spec.markReverted` (the `reverted_at is null` part is what makes a
  second revert a no-op).
* PROVED in general (`revertTransaction_update_sem`, `revertTransactionAt_update_sem`): the data-modifying CTE
  of the statement — LeanPG's whole UPDATE loop (scan under the statement's snapshot, WHERE, latest version,
  row lock check, SET, constraints, both unique indexes of `transactions`, new row version) — for ANY
  contents of `transactions` satisfying the storage invariants `TxTblState` (typed rows, primary key and
  reference index unique among the versions the transaction sees, fresh command id, no other transaction in
  progress): exactly the rows with `id = txid ∧ reverted_at IS NULL ∧ ledger = l` get `reverted_at =
  updated_at = date`, every other row and every other table is untouched, the invariants are kept, and
  RETURNING holds the new rows. Restriction: `transactions` carries no UPDATE trigger (ledger without
  TRANSACTION_METADATA_HISTORY); for the plain variant the transaction's `transaction_date()` is already set.
* NOT proved in general: the outer `SELECT … UNION ALL … LIMIT 1` that turns RETURNING into the `modified`
  flag, and the per-ledger AFTER UPDATE trigger (`update_transaction_metadata_history`) that fires on the
  revert when metadata history is on. Fallback, labelled below: BOUNDED REGRESSION OBLIGATIONS by kernel
  evaluation on concrete scenarios.
-/
namespace Ledger.C15b
open Ledger Ledger.Sql Ledger.Generated Ledger.Generated.WriteSql

/-- `RevertTransaction`: the statement is `WITH upd AS (UPDATE transactions SET reverted_at = transaction_date(),
    updated_at = transaction_date() WHERE wher RETURNING …) SELECT … LIMIT 1`, and `wher` holds iff
    `id = txid ∧ reverted_at IS NULL ∧ ledger = l`, for any row in which these columns resolve. -/
theorem revertTransaction_sem (cb : Callbacks) (te : TypeEnv) (env : Env) (b l : String) (id : Nat) (txid i : Int) (ra : Option Int) (lr : String) (s : St)
    (h1 : lookupColumn env "" "id" = .ok (.int i)) (h2 : lookupColumn env "" "reverted_at" = .ok (optTs ra))
    (h3 : lookupColumn env "" "ledger" = .ok (.text lr)) :
    ∃ (wher : Expr) (ret : List SelItem) (body : SetExpr),
      P.revertTransaction b l id txid =
        [Stmt.query (Query.mk [Cte.mk "upd" [] (Stmt.update [] b "transactions" ""
            [SetItem.mk "reverted_at" (Expr.call b "transaction_date" []), SetItem.mk "updated_at" (Expr.call b "transaction_date" [])]
            [] (some wher) ret)] body [] (some (Expr.int 1)) none LockMode.none)] ∧
      (evalExpr cb te env wher).exec s = (.ok (.bool (decide (i = txid ∧ ra = none ∧ lr = l))), s) :=
  revertTransaction_exprs cb te env b l id txid i ra lr s h1 h2 h3

/-- the same for the variant with an explicit date -/
theorem revertTransactionAt_sem (cb : Callbacks) (te : TypeEnv) (env : Env) (b l : String) (id : Nat) (txid i : Int) (atTs : String)
    (ra : Option Int) (lr : String) (s : St)
    (h1 : lookupColumn env "" "id" = .ok (.int i)) (h2 : lookupColumn env "" "reverted_at" = .ok (optTs ra))
    (h3 : lookupColumn env "" "ledger" = .ok (.text lr)) :
    ∃ (wher : Expr) (ret : List SelItem) (body : SetExpr),
      P.revertTransactionAt b l id txid atTs =
        [Stmt.query (Query.mk [Cte.mk "upd" [] (Stmt.update [] b "transactions" ""
            [SetItem.mk "reverted_at" (Expr.str atTs), SetItem.mk "updated_at" (Expr.str atTs)]
            [] (some wher) ret)] body [] (some (Expr.int 1)) none LockMode.none)] ∧
      (evalExpr cb te env wher).exec s = (.ok (.bool (decide (i = txid ∧ ra = none ∧ lr = l))), s) :=
  revertTransactionAt_exprs cb te env b l id txid i atTs ra lr s h1 h2 h3

/-- General: the UPDATE of `RevertTransaction … AT`. `visLookup lv rows rid` = the values of the version of row
    `rid` the transaction sees; on a typed row `txG g (txVals x) = g x` and `txF f (txVals x) = txVals (f x)`
    (`Ledger.Sql.tx_row_effect`), with `revG l txid x = (x.id = txid ∧ x.revertedAt = none ∧ x.ledger = l)` and
    `revF T x = { x with revertedAt := some T, updatedAt := T }` — the guard and effect of `Spec.markReverted`. -/
theorem revertTransactionAt_update_sem (n : Nat) (env : Env) (b l : String) (id : Nat) (txid : Int) (atTs : String) (T : Int)
    (hb : b.isEmpty = false) (hT : tsParse atTs = .ok T)
    (trigs : List TriggerDef) (nr : Nat) (rows : List Ver) (s : St) (hs : TxTblState s b trigs nr rows)
    (hnb : trigs.filter (fun tr => tr.timing == .before && tr.event == .update) = [])
    (hna : trigs.filter (fun tr => tr.timing == .after && tr.event == .update) = []) :
    ∃ rows', (((P.revertTransactionAt b l id txid atTs).flatMap cteStmts).mapM (execStmt (n + 7) env)).exec s =
        (.ok [txUpdResult (latestView s.w s.xid) rows (revG l txid) (revF T)], s.withTable ((txT b trigs nr).withRows rows')) ∧
      (∀ rid, visLookup (latestView s.w s.xid) rows' rid =
        (visLookup (latestView s.w s.xid) rows rid).map (fun v => if txG (revG l txid) v then txF (revF T) v else v)) ∧
      TxInv (latestView s.w s.xid) rows' ∧ RidInj (latestView s.w s.xid) rows' :=
  revertAt_update_bridge n env b l id txid atTs T hb hT trigs nr rows s hs hnb hna

/-- General: the UPDATE of `RevertTransaction` (date = the transaction's `transaction_date()`, already set to `d`). -/
theorem revertTransaction_update_sem (n : Nat) (env : Env) (b l : String) (id : Nat) (txid : Int) (d : Int)
    (hbs : (b.isEmpty || b == "public" || b == "pg_catalog") = false)
    (trigs : List TriggerDef) (nr : Nat) (rows : List Ver) (s : St) (hs : TxTblState s b trigs nr rows) (hd : TxDateSet b d s)
    (hnb : trigs.filter (fun tr => tr.timing == .before && tr.event == .update) = [])
    (hna : trigs.filter (fun tr => tr.timing == .after && tr.event == .update) = []) :
    ∃ rows', (((P.revertTransaction b l id txid).flatMap cteStmts).mapM (execStmt (n + 7) env)).exec s =
        (.ok [txUpdResult (latestView s.w s.xid) rows (revG l txid) (revF d)], s.withTable ((txT b trigs nr).withRows rows')) ∧
      (∀ rid, visLookup (latestView s.w s.xid) rows' rid =
        (visLookup (latestView s.w s.xid) rows rid).map (fun v => if txG (revG l txid) v then txF (revF d) v else v)) ∧
      TxInv (latestView s.w s.xid) rows' ∧ RidInj (latestView s.w s.xid) rows' :=
  revert_update_bridge n env b l id txid d hbs trigs nr rows s hs hd hnb hna

/-- a reverted row stays as it is: the guard is false on it (the second revert is a no-op) -/
theorem revert_guard_false_on_reverted (l : String) (txid : Int) (x : TxR) (T : Int) (h : x.revertedAt = some T) :
    revG l txid x = false := by
  simp [revG, h]

/-! ### BOUNDED REGRESSION OBLIGATIONS (kernel evaluation on concrete scenarios; not general theorems) -/

open Ledger.Sql.Run

/-- Two transactions; revert #1 at t=20, again at t=30, and a non-existent #3: the table equals
    `Spec.markReverted` applied in order (the first date is kept), and the answers carry `modified = true`
    the first time, `false` the second time, no row for #3. -/
example : (let r := run w1 (on 1 (mkTx 1 10 "{\"k\":\"v\"}" ++ mkTx 2 11 "{}" ++ revertAt 1 20 ++ revertAt 1 30 ++ revertAt 3 31))
    (revertedAbs r.1, lastCols (r.2.drop 2))) =
    (specReverted [1, 2] [(1, 20), (1, 30), (3, 31)], [["true"], ["false"], []]) := by
  decide +kernel

end Ledger.C15b
