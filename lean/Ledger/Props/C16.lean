import Ledger.Proofs.CtrlIk
import Ledger.Proofs.CtrlExamples

/-!
# C16 — Ids are unique and increase (controller layer, sequential histories)

For every sequential history of write operations (failing, dry-run, idempotent
and faulted ones included) starting from the empty ledger.  "Commit order" of a
sequential history is the order of the operations.  The concurrent (any-schedule)
form is out of scope of this layer.
-/
namespace Ledger.C16
open Ledger.Ctrl Ledger.Core Ledger.Ctrl.Examples

/-- Transaction ids and log ids are strictly increasing in insertion (= commit)
    order — hence unique — after any history. -/
theorem ids_unique_increasing (strict : Bool) (ops : List Op) :
    (runHist strict {} ops).db.txs.Pairwise (fun a b => a.id < b.id) ∧
    (runHist strict {} ops).db.logs.Pairwise (fun a b => a.id < b.id) :=
  let h := runHist_inv strict {} ops Inv.empty
  ⟨h.txSorted, h.logSorted⟩

/-- Every id in the tables was issued by its sequence: later ids are larger. -/
theorem ids_below_sequences (strict : Bool) (ops : List Op) :
    (∀ t ∈ (runHist strict {} ops).db.txs, t.id ≤ (runHist strict {} ops).seq.tx) ∧
    (∀ l ∈ (runHist strict {} ops).db.logs, l.id ≤ (runHist strict {} ops).seq.log) :=
  let h := runHist_inv strict {} ops Inv.empty
  ⟨h.txIds, h.logIds⟩

/-- One more operation — whatever it is, whatever fault hits it — keeps all of
    this (so ids issued later are above every id issued before). -/
theorem ids_step (strict : Bool) (s : State) (op : Op) (f : Faults) (cf : Bool) (h : Inv s.db s.seq) :
    Inv (stepF strict s op f cf).1.db (stepF strict s op f cf).1.seq :=
  forgeLog_inv strict op f cf s h

/-- Sequences are never rolled back: a failed write may leave a gap, never a reuse. -/
theorem sequences_never_decrease (strict : Bool) (s : State) (op : Op) (f : Faults) (cf : Bool) :
    s.seq.tx ≤ (stepF strict s op f cf).1.seq.tx ∧ s.seq.log ≤ (stepF strict s op f cf).1.seq.log := by
  unfold stepF
  rcases forgeLog_ending strict op f cf s with ⟨_, hs, _⟩ | ⟨st0, st, log, hn, f', n, _, _, hs0, hrun, hc⟩
  · exact hs
  · have := run_seq op.now hn f' (runLog strict op.kind op.ik op.ihash op.sv n) st0
    rw [hrun] at this
    show SeqLe s.seq (forgeLog strict op f cf s).state.seq
    rw [hc.1]
    exact SeqLe.trans hs0 this

example : ((runHist false {} [pay false, overdraw, pay false]).db.txs.map (·.id)) = [] := by decide
example : ((runHist false s1 [pay false, overdraw, pay false]).db.txs.map (·.id)) = [1, 2, 3] := by decide
-- a reference conflict consumes a transaction id: a gap, never a reuse
example : ((runHist false s1 [payRef, { payRef with now := 40 }, pay false]).db.txs.map (·.id)) = [1, 2, 4] := by
  decide +kernel

end Ledger.C16
