import Ledger.Proofs.ReadsConserve

/-!
C01 (read path) — double-entry conservation per asset of every volumes table a read works on.

Only property theorems and non-vacuity examples.  `volumesTable txs w mode` is what
`GetVolumesWithBalances(PIT, OOT, UseInsertionDate)`, the `expand=volumes|effectiveVolumes` of the
accounts at PIT and `GetAggregatedBalances(PIT)` list / sum; `currentVolumes` what they work on
without a point in time (`Reads/Views.lean`).  The theorems hold for ALL histories, windows and both
date modes.  That the REAL answers over LeanPG (the modelled Postgres) are these tables is tested
(workload `pit -prop C01`, which also evaluates the same predicate on the real answers).
-/
namespace Ledger.C01r
open Ledger.Base Ledger.Core Ledger.Spec Ledger.Reads

/-- **At every point in time / window and in both date modes, the balances (input − output) of the
    listed rows of each asset sum to zero.** -/
theorem pit_listing_conserved (txs : List TxRec) (w : Window) (mode : DateMode) (s : String) :
    netIn s (volumesTable txs w mode) = 0 :=
  volumesTable_conserved txs w mode s

/-- The same without a point in time (`accounts_volumes`). -/
theorem current_listing_conserved (txs : List TxRec) (s : String) : netIn s (currentVolumes txs) = 0 :=
  currentVolumes_conserved txs s

/-- The listing has one row per touched pair (no duplicates to double-count). -/
theorem listing_keys_nodup (txs : List TxRec) (w : Window) (mode : DateMode) :
    (volumesTable txs w mode).keys.Nodup := by
  unfold volumesTable Map.keys
  rw [List.map_map]
  have : ((fun (e : Key × Volumes) => e.1) ∘ fun k => (k, volumesAt txs w mode k)) = id := by funext x; rfl
  rw [this, List.map_id]
  exact touchedKeys_nodup _

example :
    let txs : List TxRec := [
      { id := 1, postings := [⟨"world", "a", 10, "USD"⟩, ⟨"a", "b", 4, "USD"⟩], timestamp := 5, insertedAt := 7 },
      { id := 2, postings := [⟨"a", "b", 3, "EUR"⟩], timestamp := 1, insertedAt := 8 }]
    (netIn "USD" (volumesTable txs (pitWindow (some 5)) .effective), netIn "EUR" (volumesTable txs (pitWindow (some 7)) .insertion),
     (volumesTable txs (pitWindow (some 1)) .effective).length) = (0, 0, 2) := by decide

end Ledger.C01r
