import Ledger.Proofs.ChartPosting

/-!
C28 — Stored transactions only contain well-formed postings (chart / grammar part).

Only property theorems and non-vacuity examples live here. The regex ASTs
(`Ledger.Generated.Grammar`) are regenerated on every check by `tools/t4_grammar`
from `NumScript.g4` and from the Go pattern constants; a change on either side
changes the terms these theorems are about. `Lang` is the denotational semantics
of `Ledger/Base/Regex.lean`; `accepts` (used by `validAddress` / `validAsset`) is
proved equivalent to it (`Ledger.Regex.accepts_iff`).

What is NOT proved here: that every path of the ledger that creates a
transaction runs these validators (postings path: `Postings.Validate`; script
variables: `machine.ValidateAsset` / `ValidateAccountAddress`; import) – that is
the controller / machine builders' part. Literals of a script are covered:
account literals by the grammar itself (`account_literal_ok`), asset literals by
the compiler's call of `machine.ValidateAsset` (`asset_literal_ok`; the lexer rule
alone is too wide, `asset_literal_counterexample`, which is why the call is
needed – before fix 6f26ac5 it was missing, `asset_literal_legacy_counterexample`).
-/
namespace Ledger.C28
open Ledger.Regex Ledger.Chart Ledger.Generated.Grammar

/-- Whatever `Postings.Validate` lets through is well-formed: amount present and
    non-negative, source and destination in the language of the account pattern,
    asset in the language of the asset pattern. Any list, any position. -/
theorem validate_ok_wellformed (ps : List RawPosting) (i : Nat)
    (h : postingsValidate ps i = none) : ∀ p ∈ ps, WellFormed p := by
  induction ps generalizing i with
  | nil => intro p hp; cases hp
  | cons q rest ih =>
    unfold postingsValidate at h
    split at h
    · cases h
    · rename_i a ha
      split at h
      · cases h
      · rename_i hneg
        split at h
        · cases h
        · rename_i hsrc
          split at h
          · cases h
          · rename_i hdst
            split at h
            · cases h
            · rename_i hasset
              intro p hp
              rcases List.mem_cons.1 hp with rfl | hp
              · have hsrc' : validAddress p.source = true := by simpa using hsrc
                have hdst' : validAddress p.destination = true := by simpa using hdst
                have hasset' : validAsset p.asset = true := by simpa using hasset
                obtain ⟨b1, hb1, hl1⟩ := matchAnchored_lang hsrc'
                obtain ⟨b2, hb2, hl2⟩ := matchAnchored_lang hdst'
                obtain ⟨b3, hb3, hl3⟩ := matchAnchored_lang hasset'
                have : b2 = b1 := Option.some.inj (hb2.symm.trans hb1)
                subst this
                exact ⟨⟨a, ha, by omega⟩, ⟨b2, hb1, hl1, hl2⟩, ⟨b3, hb3, hl3⟩⟩
              · exact ih _ h p hp

/-- The body of the lexer rule `ACCOUNT` (after the `@`) and the account pattern
    between its anchors are the same expression, hence the same language: every
    account literal a script can contain is a valid address. -/
theorem account_literal_ok (lexBody patBody : Re)
    (hl : lexAccount.dropFirstChr '@' = some lexBody) (hp : accountPattern.unanchor = some patBody)
    (s : List Char) : Lang lexBody s ↔ Lang patBody s := by
  have e : lexAccount.dropFirstChr '@' = accountPattern.unanchor := by decide
  have : lexBody = patBody := Option.some.inj (hl.symm.trans (e.trans hp))
  rw [this]

/-- The same statement on the executable validator: the text of a token of the
    lexer rule `ACCOUNT`, stripped of its first character as the compiler does
    (`c.GetText()[1:]`), passes `accounts.ValidateAddress`. -/
theorem account_literal_valid (tok : List Char) (h : Lang lexAccount tok) :
    validAddress (compileAccountLiteral tok) = true := by
  obtain ⟨lexBody, hl⟩ : ∃ b, lexAccount.dropFirstChr '@' = some b := ⟨_, rfl⟩
  obtain ⟨patBody, hp⟩ : ∃ b, accountPattern.unanchor = some b := ⟨_, rfl⟩
  have hcat : lexAccount = .cat (Re.chr '@') lexBody := dropFirstChr_spec hl
  rw [hcat] at h
  obtain ⟨s1, s2, hs, h1, h2⟩ := lang_cat.1 h
  obtain ⟨c, rfl, _⟩ := lang_cls.1 h1
  subst hs
  have := (account_literal_ok lexBody patBody hl hp s2).1 h2
  unfold validAddress matchAnchored compileAccountLiteral
  rw [hp]
  exact (accepts_iff patBody s2).2 this

/-- An asset literal the compiler accepts is the token text unchanged and lies in
    the language of the asset pattern (`VisitLit` calls `machine.ValidateAsset`). -/
theorem asset_literal_ok (tok a : List Char) (h : compileAssetLiteral tok = .ok a) :
    a = tok ∧ ∃ body, assetPattern.unanchor = some body ∧ Lang body a := by
  unfold compileAssetLiteral at h
  split at h
  · rename_i hv
    cases h
    exact ⟨rfl, matchAnchored_lang hv⟩
  · cases h

/-- A posting whose operands are all literals of a script that compiles is
    well-formed (tokens of `ACCOUNT`, `ASSET`, `NUMBER`). -/
theorem literal_posting_wellformed (srcTok dstTok assetTok numTok : List Char) (p : RawPosting)
    (hs : Lang lexAccount srcTok) (hd : Lang lexAccount dstTok)
    (h : literalPosting srcTok dstTok assetTok numTok = .ok p) : WellFormed p := by
  unfold literalPosting at h
  cases ha : compileAssetLiteral assetTok with
  | error e => rw [ha] at h; cases h
  | ok a =>
    rw [ha] at h
    cases h
    obtain ⟨_, body, hb, hl⟩ := asset_literal_ok assetTok a ha
    obtain ⟨b1, hb1, hl1⟩ := matchAnchored_lang (account_literal_valid srcTok hs)
    obtain ⟨b2, hb2, hl2⟩ := matchAnchored_lang (account_literal_valid dstTok hd)
    have : b2 = b1 := Option.some.inj (hb2.symm.trans hb1)
    subst this
    exact ⟨⟨_, rfl, Int.natCast_nonneg _⟩, ⟨b2, hb1, hl1, hl2⟩, ⟨body, hb, hl⟩⟩

/-- Script variables (JSON vars, and accounts read from account metadata with
    `meta()`): a value the variable parser accepts satisfies its pattern as it is
    stored, so any posting built from accepted account / monetary variables is
    well-formed. -/
theorem variable_posting_wellformed (src dst mon : List Char) (p : RawPosting)
    (h : variablePosting src dst mon = .ok p) : WellFormed p := by
  unfold variablePosting at h
  cases hs : newValueAccount src with
  | error e => rw [hs] at h; cases h
  | ok s =>
    cases hd : newValueAccount dst with
    | error e => rw [hs, hd] at h; cases h
    | ok d =>
      cases hm : newValueMonetary mon with
      | error e => rw [hs, hd, hm] at h; cases h
      | ok an =>
        obtain ⟨asset, n⟩ := an
        rw [hs, hd, hm] at h
        cases h
        -- accounts
        have hs' : validAddress s = true := by
          unfold newValueAccount at hs; split at hs <;> cases hs; assumption
        have hd' : validAddress d = true := by
          unfold newValueAccount at hd; split at hd <;> cases hd; assumption
        -- monetary
        have hm' : validAsset asset = true ∧ 0 ≤ n := by
          unfold newValueMonetary at hm
          split at hm
          · cases hm
          · split at hm
            · cases hm
            · split at hm
              · cases hm
              · rename_i hva
                split at hm
                · cases hm
                · rename_i hneg
                  cases hm
                  exact ⟨by simpa using hva, by omega⟩
        obtain ⟨b1, hb1, hl1⟩ := matchAnchored_lang hs'
        obtain ⟨b2, hb2, hl2⟩ := matchAnchored_lang hd'
        obtain ⟨b3, hb3, hl3⟩ := matchAnchored_lang hm'.1
        have : b2 = b1 := Option.some.inj (hb2.symm.trans hb1)
        subst this
        exact ⟨⟨n, rfl, hm'.2⟩, ⟨b2, hb1, hl1, hl2⟩, ⟨b3, hb3, hl3⟩⟩

/-- The same with an `asset` variable and a literal amount. -/
theorem asset_variable_posting_wellformed (src dst asset numTok : List Char) (p : RawPosting)
    (h : assetVariablePosting src dst asset numTok = .ok p) : WellFormed p := by
  unfold assetVariablePosting at h
  cases hs : newValueAccount src with
  | error e => rw [hs] at h; cases h
  | ok s =>
    cases hd : newValueAccount dst with
    | error e => rw [hs, hd] at h; cases h
    | ok d =>
      cases ha : newValueAsset asset with
      | error e => rw [hs, hd, ha] at h; cases h
      | ok a =>
        rw [hs, hd, ha] at h
        cases h
        have hs' : validAddress s = true := by
          unfold newValueAccount at hs; split at hs <;> cases hs; assumption
        have hd' : validAddress d = true := by
          unfold newValueAccount at hd; split at hd <;> cases hd; assumption
        have ha' : validAsset a = true := by
          unfold newValueAsset at ha; split at ha <;> cases ha; assumption
        obtain ⟨b1, hb1, hl1⟩ := matchAnchored_lang hs'
        obtain ⟨b2, hb2, hl2⟩ := matchAnchored_lang hd'
        obtain ⟨b3, hb3, hl3⟩ := matchAnchored_lang ha'
        have : b2 = b1 := Option.some.inj (hb2.symm.trans hb1)
        subst this
        exact ⟨⟨_, rfl, Int.natCast_nonneg _⟩, ⟨b2, hb1, hl1, hl2⟩, ⟨b3, hb3, hl3⟩⟩

/-- A padded value is not accepted: trailing newline, trailing blank, leading blank. -/
theorem padded_values_rejected :
    (newValueAccount "users:001\n".toList).toOption = none ∧
    (newValueAccount "users:053 ".toList).toOption = none ∧
    (newValueAsset " USD/2".toList).toOption = none ∧
    (newValueMonetary " USD/2 10".toList).toOption = none := by decide

/-- Import with the posting check in `importLog` (proposed fix): every transaction
    the import commits is well-formed, whatever the stream contains. -/
theorem import_preserves_wellformed (txs : List (List RawPosting)) :
    ∀ ps ∈ (importTxs true txs).1, ∀ p ∈ ps, WellFormed p := by
  induction txs with
  | nil => intro ps hps; cases hps
  | cons q rest ih =>
    intro ps hps
    unfold importTxs at hps
    split at hps
    · cases hps
    · rename_i hv
      have hv : postingsValidate q 0 = none := by
        cases h : postingsValidate q 0 with
        | none => rfl
        | some x => simp [h] at hv
      rcases List.mem_cons.1 hps with rfl | h
      · exact validate_ok_wellformed _ 0 hv
      · exact ih ps h

/-- EXPECTED FALSE without the check (the code as it is): a stream whose
    NEW_TRANSACTION log carries a negative amount, a padded source and an asset
    outside the pattern is committed as it is. Confirmed on the real `Import` over
    the real SQL store (workload `importlog`). -/
theorem import_unvalidated_counterexample :
    (importTxs false [[badPosting]]).1 = [[badPosting]] ∧
    (importTxs true [[badPosting]]).1 = [] ∧ (importTxs true [[badPosting]]).2 = true ∧
    (postingsValidate [badPosting] 0).isSome = true := by
  refine ⟨rfl, by decide, by decide, by decide⟩

/-- The grammar alone does not guarantee valid assets: `A/B` is a token of the
    lexer rule `ASSET` (`[A-Z/0-9]+`) but not in the language of the asset pattern
    (so are `/`, `1A`, 18 letters, `USD/1234567`). Lexer language ⊄ pattern. -/
theorem asset_literal_counterexample :
    Lang lexAsset ['A', '/', 'B'] ∧
    (∀ body, assetPattern.unanchor = some body → ¬ Lang body ['A', '/', 'B']) ∧
    validAsset ['A', '/', 'B'] = false := by
  refine ⟨(accepts_iff _ _).1 (by decide), ?_, by decide⟩
  intro body hb hl
  have hacc := (accepts_iff body _).2 hl
  have : validAsset ['A', '/', 'B'] = true := by
    unfold validAsset matchAnchored
    rw [hb]; exact hacc
  revert this; decide

/-- Before fix 6f26ac5 the compiler took the token text as it was: the literal
    `A/B` compiled and its posting was committed (confirmed on the real code by
    the `scriptlit` workload with the fix reverted). -/
theorem asset_literal_legacy_counterexample :
    Lang lexAsset ['A', '/', 'B'] ∧ compileAssetLiteralLegacy ['A', '/', 'B'] = .ok ['A', '/', 'B'] ∧
    validAsset ['A', '/', 'B'] = false ∧
    (compileAssetLiteral ['A', '/', 'B']).toOption = none := by
  refine ⟨(accepts_iff _ _).1 (by decide), rfl, by decide, by decide⟩

/-- The sub-language on which lexer and pattern agree without help: a token of `ASSET` made of an upper-case
    letter followed by at most 16 upper-case letters or digits (no `/`) is a valid
    asset. -/
theorem asset_literal_partial (c : Char) (t : List Char)
    (hc : clsMem [(65, 90)] c = true) (ht : ∀ x ∈ t, clsMem [(48, 57), (65, 90)] x = true)
    (hlen : t.length ≤ 16) :
    Lang lexAsset (c :: t) ∧ validAsset (c :: t) = true := by
  constructor
  · -- member of `[A-Z/0-9]+`
    have hsub : ∀ x, clsMem [(48, 57), (65, 90)] x = true → clsMem [(47, 57), (65, 90)] x = true := by
      intro x hx
      simp only [clsMem, List.any_cons, List.any_nil, Bool.or_false, Bool.or_eq_true, Bool.and_eq_true,
        decide_eq_true_eq] at hx ⊢
      omega
    have hc' : clsMem [(47, 57), (65, 90)] c = true := by
      simp only [clsMem, List.any_cons, List.any_nil, Bool.or_false, Bool.or_eq_true, Bool.and_eq_true,
        decide_eq_true_eq] at hc ⊢
      omega
    have hstar : ∀ (u : List Char), (∀ x ∈ u, clsMem [(47, 57), (65, 90)] x = true) →
        Lang (.star (.cls [(47, 57), (65, 90)])) u := by
      intro u
      induction u with
      | nil => intro _; exact .starNil
      | cons x u ih =>
        intro h
        have := Lang.starCons (.cls (h x (by simp))) (ih (fun y hy => h y (by simp [hy])))
        simpa using this
    have : Lang (.cat (.cls [(47, 57), (65, 90)]) (.star (.cls [(47, 57), (65, 90)]))) ([c] ++ t) :=
      .cat (.cls hc') (hstar t (fun x hx => hsub x (ht x hx)))
    have e : lexAsset = .cat (.cls [(47, 57), (65, 90)]) (.star (.cls [(47, 57), (65, 90)])) := by decide
    rw [e]; simpa using this
  · -- member of the asset pattern's body
    have e : assetPattern.unanchor = some
        (.cat (.cls [(65, 90)]) (.cat (Re.optN (.cls [(48, 57), (65, 90)]) 16)
          (.cat (Re.opt (.cat (.cls [(95, 95)]) (Re.rep (.cls [(65, 90)]) 1 (some 16))))
            (Re.opt (.cat (.cls [(47, 47)]) (Re.rep (.cls [(48, 57)]) 1 (some 6))))))) := by decide
    unfold validAsset matchAnchored
    rw [e]
    apply (accepts_iff _ _).2
    have h2 := lang_optN_cls [(48, 57), (65, 90)] 16 t hlen ht
    have h3 : Lang (.cat (Re.opt (.cat (.cls [(95, 95)]) (Re.rep (.cls [(65, 90)]) 1 (some 16))))
        (Re.opt (.cat (.cls [(47, 47)]) (Re.rep (.cls [(48, 57)]) 1 (some 6))))) ([] ++ []) :=
      .cat (lang_opt.2 (.inr rfl)) (lang_opt.2 (.inr rfl))
    have := Lang.cat (Lang.cls hc) (Lang.cat h2 h3)
    simpa using this

/-- A token of the lexer rule `NUMBER` is a non-empty string of decimal digits:
    the amount of a monetary literal is a non-negative integer. -/
theorem number_literal_nonneg (s : List Char) (h : Lang lexNumber s) :
    s ≠ [] ∧ ∀ c ∈ s, 48 ≤ c.toNat ∧ c.toNat ≤ 57 := by
  have e : lexNumber = Re.plus (.cls [(48, 57)]) := by decide
  rw [e] at h
  obtain ⟨hne, hall⟩ := lang_plus_cls h
  refine ⟨hne, fun c hc => ?_⟩
  have := hall c hc
  simpa [clsMem] using this

/-! ### non-vacuity -/

example : lexAccount.dropFirstChr '@' ≠ none ∧ accountPattern.unanchor ≠ none := by decide
example : Lang lexAccount "@users:001:main".toList := (accepts_iff _ _).1 (by decide)
example : validAddress "users:001:main".toList = true := by decide
example : validAddress "users::main".toList = false := by decide
example : validAsset "USD/2".toList = true ∧ validAsset "EUR_TEST/6".toList = true := by decide
example : postingsValidate
    [{ source := "world".toList, destination := "bank".toList, asset := "USD/2".toList, amount := some 10 }] 0
    = none := by decide
example : (literalPosting "@world".toList "@users:42".toList "EUR/2".toList "100".toList).toOption.map (·.amount)
    = some (some 100) := by decide
example : (compileAssetLiteral "USD".toList).toOption = some "USD".toList := by decide
example : ((variablePosting "users:001".toList "bank".toList "USD/2 10".toList).toOption.map (·.amount))
    = some (some 10) := by decide
example : (newValueMonetary "USD -1".toList).toOption = none ∧ (newValueMonetary "USD +5".toList).toOption = some ("USD".toList, 5) := by decide
example : postingsValidate
    [{ source := "world".toList, destination := "bank".toList, asset := "A/B".toList, amount := some 10 }] 0
    = some (0, "invalid asset") := by decide

end Ledger.C28
