import Ledger.Api.InterpCompare

/-!
C26 — Machine and interpreter runtimes agree on the shared language.

There is NO Lean model of the interpreter (nor a proof about the machine) here:
C26 is checked as a differential of the two real runtimes (`interp` workload,
level translation_validation).  The only theorems are sanity facts about the
comparison relation the workload applies to the two recorded results.
-/
namespace Ledger.C26
open Ledger.Api.Interp

/-- The comparison never keeps a zero-amount posting of the input. -/
theorem dropZeros_nonzero (ps : List P) : ∀ p ∈ dropZeros ps, p.amount ≠ 0 := by
  intro p hp
  simpa [dropZeros] using (List.mem_filter.1 hp).2

/-- Zero-amount postings never make two results differ. -/
theorem samePostings_ignores_zero (a b : List P) (z : P) (hz : z.amount = 0) :
    samePostings (z :: a) b = samePostings a b := by
  simp [samePostings, norm, dropZeros, hz]

/-- The relation is reflexive (a runtime agrees with itself). -/
theorem samePostings_refl (a : List P) : samePostings a a = true := by
  simp [samePostings]

theorem samePostings_symm (a b : List P) : samePostings a b = samePostings b a := by
  simp [samePostings, eq_comm]

theorem samePostings_trans (a b c : List P) (h1 : samePostings a b = true) (h2 : samePostings b c = true) :
    samePostings a c = true := by
  simp [samePostings] at *
  exact h1.trans h2

example : samePostings [⟨"a", "b", "USD", 19⟩, ⟨"x", "b", "USD", 0⟩, ⟨"a", "b", "USD", 51⟩] [⟨"a", "b", "USD", 70⟩] = true := by
  decide

end Ledger.C26
