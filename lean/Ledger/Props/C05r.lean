import Ledger.Proofs.ReadsTxMeta
import Ledger.Props.C05store
import Ledger.Props.C02

/-!
C05 (read path) — Point-in-time and window reads equal the history fold.

Only property theorems and non-vacuity examples.  `Ledger.Reads` (`Reads/Views.lean`) is the read
API as functions of the Spec journal; the theorems say what each answer is in terms of the Spec's
folds for ALL histories, instants, windows and date modes, and — through builder-core's
`moves_window_sum_eq_fold` / `first_value_pcev_eq_fold` — that these are exactly what the two
arithmetic dataset shapes of the PIT SQL (`sum(case when …)` over the moves of the window,
`first_value(post_commit_effective_volumes)` of the latest move ≤ pit) compute on every reachable
abstract store.

The step *rendered SQL → `Ledger.Reads`* is TESTED correspondence (workload `pit` of `vrreads`:
the real DefaultController over the real store over pgfake → LeanPG, the MODELLED Postgres), not
proved.
-/
namespace Ledger.C05r
open Ledger.Base Ledger.Core Ledger.Spec Ledger.Reads

/-- **Every row of a PIT / window volumes listing holds the fold of the postings whose date lies
    in the window** (`oot ≤ date ≤ pit`, both inclusive, either bound optional), for both date
    modes. -/
theorem window_volumes_eq_fold (txs : List TxRec) (w : Window) (mode : DateMode) (e : Key × Volumes)
    (h : e ∈ volumesTable txs w mode) : e.2 = volumesAt txs w mode e.1 :=
  volumesTable_row txs w mode e h

/-- The PIT special case (`GetVolumesWithBalances(PIT)`, `expand=volumes|effectiveVolumes` of an
    account at PIT, aggregated balances at PIT): the fold of the postings dated at or before `pit`. -/
theorem pit_volumes_eq_fold (txs : List TxRec) (pit : Int) (mode : DateMode) (e : Key × Volumes)
    (h : e ∈ volumesTable txs (pitWindow (some pit)) mode) :
    e.2 = volumesOf (txs.filter fun t => decide (t.date mode ≤ pit)) e.1 := by
  rw [volumesTable_row txs _ mode e h]
  unfold volumesAt txsIn pitWindow Window.contains
  simp

/-- **A pair is listed iff a transaction of the window touches it** (zero-amount postings
    included): no row is invented, none is dropped. -/
theorem window_row_listed_iff (txs : List TxRec) (w : Window) (mode : DateMode) (k : Key) :
    k ∈ (volumesTable txs w mode).keys ↔ ∃ t ∈ txs, w.contains (t.date mode) = true ∧ touches k t.postings = true := by
  rw [mem_volumesTable_keys]
  unfold txsIn
  constructor
  · rintro ⟨t, ht, hk⟩
    obtain ⟨h1, h2⟩ := List.mem_filter.mp ht
    exact ⟨t, h1, h2, hk⟩
  · rintro ⟨t, h1, h2, hk⟩
    exact ⟨t, List.mem_filter.mpr ⟨h1, h2⟩, hk⟩

/-- **Bridge to the moves table (`sum(case when …)` shape)**: on every reachable abstract store,
    the value of a window row is the sum of the moves of the pair whose date (insertion or
    effective) lies in the window. -/
theorem window_volumes_eq_moves_sum (ops : List StoreOp) (st : Store) (h : runOps ops = .ok st)
    (w : Window) (mode : DateMode) (e : Key × Volumes) (he : e ∈ volumesTable st.txRecs w mode) :
    e.2 = movesWindowVolumes st.moves w mode e.1 := by
  rw [volumesTable_row _ w mode e he, Ledger.C05store.moves_window_sum_eq_fold ops st h]

/-- **Bridge to the moves table (`first_value(post_commit_effective_volumes)` shape)**: on every
    reachable abstract store, the value of an effective-date PIT row is the post-commit effective
    volumes carried by the latest move of the pair at or before `pit` in (effective date, seq)
    order — back-dated inserts included. -/
theorem pit_effective_eq_first_value (ops : List StoreOp) (st : Store) (h : runOps ops = .ok st)
    (pit : Int) (e : Key × Volumes) (he : e ∈ volumesTable st.txRecs (pitWindow (some pit)) .effective) :
    e.2 = effectiveVolumesAt st.moves e.1 pit := by
  rw [volumesTable_row _ _ _ e he, Ledger.C05store.first_value_pcev_eq_fold ops st h]
  rfl

/-- **Transactions at a point in time**: a transaction is listed iff its timestamp is at or
    before `t`, and carries the reverted mark iff the revert happened at or before `t` — the
    listing is `Spec.txAt t` on every committed transaction (ids and marks). -/
theorem pit_transactions_reverted_mask (feat : Features) (l : Ledger) (t : Int) :
    (transactionsAt feat l (some t)).map (fun v => (v.id, v.timestamp, v.revertedAt)) =
      (l.txs.filterMap (txAt t)).map (fun x => (x.id, x.timestamp, x.revertedAt)) := by
  unfold transactionsAt
  rw [List.map_filterMap, List.map_filterMap]
  congr 1
  funext x
  unfold txAt maskReverted
  by_cases hle : x.timestamp ≤ t
  · cases hr : x.revertedAt <;> simp [hle]
  · simp [hle]

/-- **The transactions listing at `t`, in full**: exactly the committed transactions with
    timestamp ≤ t, in commit order, each with its postings / dates / reference, the reverted mark
    iff the revert happened at or before `t` (`Spec.txAt`), and the metadata `Spec.metaAt` gives at
    `t` (history SYNC) resp. now (history DISABLED). -/
theorem pit_transactions_eq_spec (feat : Features) (l : Ledger) (t : Int)
    (hok : feat.txMetaHist = true → ∀ x ∈ l.txs, TxJournalOK x.id false l.events) :
    (transactionsAt feat l (some t)).map
        (fun v => (v.id, v.postings, v.timestamp, v.insertedAt, v.reference, v.revertedAt, v.metadata)) =
      (l.txs.filterMap (txAt t)).map
        (fun x => (x.id, x.postings, x.timestamp, x.insertedAt, x.reference, x.revertedAt,
                   metaAt l (.tx x.id) (if feat.txMetaHist then some t else none))) := by
  unfold transactionsAt
  rw [List.map_filterMap, List.map_filterMap]
  apply filterMap_congr_mem
  intro x hx
  have hmeta : txMetaRead feat l x.id (some t) = metaAt l (.tx x.id) (if feat.txMetaHist then some t else none) := by
    cases hh : feat.txMetaHist with
    | true => simpa using txMetaRead_eq_metaAt feat l x.id t hh (hok hh x hx)
    | false => simp [txMetaRead, hh]
  unfold txAt maskReverted
  by_cases hle : x.timestamp ≤ t
  · cases hr : x.revertedAt <;> simp [hle, hmeta]
  · simp [hle]

/-- Every listed transaction satisfies the property's two inequalities. -/
theorem pit_transactions_bounds (feat : Features) (l : Ledger) (t : Int) (v : TxView)
    (hv : v ∈ transactionsAt feat l (some t)) :
    v.timestamp ≤ t ∧ ∀ r, v.revertedAt = some r → r ≤ t := by
  unfold transactionsAt at hv
  obtain ⟨x, _, hx⟩ := List.mem_filterMap.mp hv
  by_cases hle : x.timestamp ≤ t
  · simp only [hle, decide_true, if_true, Option.some.injEq] at hx
    subst hx
    refine ⟨hle, ?_⟩
    intro r hr
    simp only [maskReverted] at hr
    cases hxr : x.revertedAt with
    | none => simp [hxr] at hr
    | some d =>
      simp only [hxr] at hr
      by_cases hd : d ≤ t
      · simp [hd] at hr; omega
      · simp [hd] at hr
  · simp [hle] at hx

/-- **Accounts at a point in time appear only once their first usage is at or before `t`**, and
    the listed first usage / insertion date are the Spec's folds. -/
theorem pit_accounts_first_usage_le (feat : Features) (l : Ledger) (t : Int) (v : AccountView)
    (hv : v ∈ accountsAt feat l (some t)) :
    firstUsage l v.address = some v.firstUsage ∧ insertionDate l v.address = some v.insertionDate ∧
      v.firstUsage ≤ t ∧ accountExistsAt l v.address t = true := by
  unfold accountsAt at hv
  obtain ⟨a, _, ha⟩ := List.mem_filterMap.mp hv
  cases hr : acctRowOf l a with
  | none => simp [hr] at ha
  | some r =>
    cases hf : firstUsage l a with
    | none => simp [hr, hf] at ha
    | some fu =>
      cases hi : insertionDate l a with
      | none => simp [hr, hf, hi] at ha
      | some ins =>
        simp only [hr, hf, hi] at ha
        by_cases hle : fu ≤ t
        · simp only [hle, decide_true, if_true, Option.some.injEq] at ha
          subst ha
          exact ⟨hf, hi, hle, by simp [accountExistsAt, hf, hle]⟩
        · simp [hle] at ha

/-- Conversely, an account of the journal whose first usage is at or before `t` (and that has a
    row) is listed at `t`. -/
theorem pit_accounts_listed_of_first_usage_le (feat : Features) (l : Ledger) (t : Int) (a : String) (r : AcctRow)
    (fu ins : Int) (ha : a ∈ l.accounts) (hr : acctRowOf l a = some r) (hf : firstUsage l a = some fu)
    (hi : insertionDate l a = some ins) (hle : fu ≤ t) :
    ∃ v ∈ accountsAt feat l (some t), v.address = a ∧ v.firstUsage = fu := by
  unfold accountsAt
  refine ⟨{ address := a, metadata := accountMetaRead feat l a (some t), firstUsage := fu,
            insertionDate := ins, updatedAt := r.updatedAt }, List.mem_filterMap.mpr ⟨a, ha, ?_⟩, rfl, rfl⟩
  simp [hr, hf, hi, hle]

/-- Without a point in time the volumes listing is `accounts_volumes`: every pair ever touched,
    holding the fold of all committed postings (C02's read path). -/
theorem current_volumes_eq_fold (txs : List TxRec) (e : Key × Volumes) (h : e ∈ currentVolumes txs) :
    e.2 = volumesOf txs e.1 := currentVolumes_row txs e h

/-- Non-vacuity / test: tx 1 at effective date 5 (inserted at 7), tx 2 back-dated to 1 (inserted
    at 8). At pit = 3 in effective time only tx 2 counts; at pit = 7 in insertion time only tx 1. -/
example :
    let txs : List TxRec := [
      { id := 1, postings := [⟨"world", "a", 10, "USD"⟩], timestamp := 5, insertedAt := 7 },
      { id := 2, postings := [⟨"a", "b", 4, "USD"⟩], timestamp := 1, insertedAt := 8 }]
    (volumesTable txs (pitWindow (some 3)) .effective, volumesTable txs (pitWindow (some 7)) .insertion,
     volumesTable txs { oot := some 8, pit := some 9 } .insertion) =
    ([(("a", "USD"), ⟨0, 4⟩), (("b", "USD"), ⟨4, 0⟩)],
     [(("a", "USD"), ⟨10, 0⟩), (("world", "USD"), ⟨0, 10⟩)],
     [(("a", "USD"), ⟨0, 4⟩), (("b", "USD"), ⟨4, 0⟩)]) := by decide

/-- Non-vacuity of the reverted mask: a transaction reverted at 9 shows the mark at t = 9 and not
    at t = 8. -/
example :
    let l : Ledger := { events := [
      .committed { id := 1, postings := [⟨"world", "a", 10, "USD"⟩], timestamp := 5, insertedAt := 5 } [] true,
      .reverted 1 9,
      .committed { id := 2, postings := [⟨"a", "world", 10, "USD"⟩], timestamp := 9, insertedAt := 9 } [] false] }
    ((transactionsAt {} l (some 8)).map (fun v => (v.id, v.revertedAt)),
     (transactionsAt {} l (some 9)).map (fun v => (v.id, v.revertedAt))) =
    ([(1, none)], [(1, some 9), (2, none)]) := by decide

end Ledger.C05r
