import Ledger.Proofs.CoreInsPcv

/-!
C05 — Point-in-time and window reads equal the history fold (Spec / algebra part).

`Spec.volumesAt` (window `oot ≤ d ≤ pit`, insertion- or effective-date) is the *definition* of
the point-in-time read by fold.  The theorems relate it to the `moves` table of the abstract
store, in the two shapes the point-in-time SQL uses: a sum over the moves in the window, and
the effective volumes of the latest move at or before the point in time.  The SQL queries
themselves are not tied here (SQL area).
-/
namespace Ledger.C05store
open Ledger.Base Ledger.Core Ledger.Spec

/-- In every reachable store, summing the moves of an account/asset whose (insertion or
    effective) date lies in the window gives exactly the fold of the committed postings whose
    transaction date lies in that window. -/
theorem moves_window_sum_eq_fold (ops : List StoreOp) (st : Store) (h : runOps ops = .ok st)
    (w : Window) (mode : DateMode) (k : Key) :
    movesWindowVolumes st.moves w mode k = volumesAt st.txRecs w mode k :=
  movesWindowVolumes_eq_fold h w mode k

/-- In every reachable store, the effective volumes carried by the latest move (in
    (effective_date, seq) order) dated at or before `pit` are the fold of all committed
    postings with an effective date `≤ pit` — including transactions inserted later in the
    past (uses C04's invariant). -/
theorem first_value_pcev_eq_fold (ops : List StoreOp) (st : Store) (h : runOps ops = .ok st)
    (k : Key) (pit : Int) :
    effectiveVolumesAt st.moves k pit = volumesAt st.txRecs { pit := some pit } .effective k := by
  rw [effectiveVolumesAt_eq_window (MovesInv_runOpsFrom ops MovesInv_empty h).pcev,
    movesWindowVolumes_eq_fold h]

/-- Insertion-date mode: in every reachable store whose insertion dates never decrease along the
    commit order (a sequential history), the post-commit volumes carried by the latest move
    (largest seq) inserted at or before `pit` are the fold of all postings of the transactions
    inserted at or before `pit` (uses C03's move-level invariant `PCV_Inv`). -/
theorem first_value_pcv_eq_fold (ops : List StoreOp) (st : Store) (h : runOps ops = .ok st)
    (hmono : st.txRecs.Pairwise (fun a b => a.insertedAt ≤ b.insertedAt)) (k : Key) (pit : Int) :
    insertionVolumesAt st.moves k pit = volumesAt st.txRecs { pit := some pit } .insertion k :=
  insertionVolumesAt_eq_fold h hmono k pit

example : (runOps [.commit { postings := [⟨"world", "a", 10, "USD"⟩], timestamp := 5, insertedAt := 7 },
                   .commit { postings := [⟨"a", "b", 4, "USD"⟩], timestamp := 1, insertedAt := 8 }]).toOption.map
            (fun st => [effectiveVolumesAt st.moves ("a", "USD") 3, effectiveVolumesAt st.moves ("a", "USD") 5,
                        movesWindowVolumes st.moves { oot := some 8 } .insertion ("a", "USD"),
                        insertionVolumesAt st.moves ("a", "USD") 7, insertionVolumesAt st.moves ("a", "USD") 8]) =
          some [⟨0, 4⟩, ⟨10, 4⟩, ⟨0, 4⟩, ⟨10, 0⟩, ⟨10, 4⟩] := by decide

end Ledger.C05store
