import Ledger.Proofs.LogChain

/-!
C09 — Log hash chain is linear and verifiable (HASH_LOGS=SYNC).

What is proved here (all about PREIMAGES; `H` is an arbitrary digest function):

* `trigger_attached_under_sync` — the regenerated `ledgerSetups` fact: the trigger
  runs `set_log_hash()` BEFORE INSERT, for each row of the ledger, under HASH_LOGS=SYNC;
* `insert_takes_advisory_lock_under_sync` — regenerated fact: `InsertLog` takes the
  transactional advisory lock first, under the same feature;
* `chain_linear_sequential` — one-session-at-a-time inserts: ids are 1,2,3,…, each
  stored hash is `H` of the SQL preimage built over the STORED hash of the log with
  the previous id (so no two logs chain from the same predecessor);
* `stored_preimage_eq_documented_partial` / `…_counterexample` /
  `stored_hash_ignores_schema_version` — what `set_log_hash` hashes equals the
  documented input EXCEPT that the schema version is never part of it;
* `chain_recomputable_safe` — for `SafeChars` logs, recomputing the chain with the
  reference implementation (`Log.ComputeHash`) reproduces every stored hash.

OUT OF SCOPE here (needs the session/lock model, another builder's area): the
any-schedule form `chain_linear_any_schedule` (concurrent inserts serialised by the
transactional advisory lock `InsertLog` takes before the insert).
Only theorems and non-vacuity examples in this file.
-/
namespace Ledger.C09
open Ledger.Log Ledger.Generated

/-- `ledgerSetups` (default_bucket.go) attaches `set_log_hash()` as a BEFORE INSERT,
    FOR EACH ROW trigger on `logs`, restricted to the ledger's rows, exactly when the
    ledger has HASH_LOGS=SYNC.  (Finite fact regenerated from the source.) -/
theorem trigger_attached_under_sync :
    LogHash.trigger = { attached := true, timing := "before insert", table := "logs", forEachRow := true,
                        whenLedgerEqName := true, function := "set_log_hash",
                        featureName := "HASH_LOGS", featureValue := "SYNC" } := by
  decide

/-- `InsertLog` takes `pg_advisory_xact_lock(<ledger id>)` before the insert exactly under
    HASH_LOGS=SYNC (regenerated fact read from storage/ledger/logs.go).  This is the
    anchor of the any-schedule linearity argument (lock held until the end of the SQL
    transaction ⇒ inserts of one ledger are serialised), which itself is NOT proved here. -/
theorem insert_takes_advisory_lock_under_sync :
    LogHash.insertLogAdvisoryXactLock = true ∧ LogHash.insertLogLockFeature = ("HASH_LOGS", "SYNC") := by
  decide

/-- Sequential inserts build a linear chain: starting from an empty ledger, after
    inserting `logs` one after the other, the table is exactly one row per log, in
    order, row `k` has id `k+1` and hash `H(preimage_k)` where `preimage_k` is the SQL
    preimage of `logs[k]` over the stored hash of row `k-1` (nothing for the first). -/
theorem chain_linear_sequential (H : Bytes → Bytes) (ledger : Bytes) (logs : List Log) (tbl : Table)
    (h : insertAll H ledger logs [] = .ok tbl) :
    Chained H 0 none logs tbl := by
  obtain ⟨rows, htbl, _, hch⟩ := insertAll_chained H ledger logs [] tbl trivial h
  simpa [htbl, lastHash] using hch

/-- non-vacuity: two logs, the second with a nasty payload, insert successfully. -/
example : (insertAll (fun b => b.take 4) b!"l" [wLog b!"ik1" [], { wLog b!"clé" [] with payload := wNastyPayload }] []).toBool = true := by
  decide +kernel

/-- Each further insert chains from the last stored hash (the invariant behind the
    theorem above, for a ledger that already holds a well-formed chain). -/
theorem insert_chains_from_last (H : Bytes → Bytes) (ledger : Bytes) (tbl tbl' : Table) (log : Log)
    (hg : GoodTbl ledger 1 tbl) (h : insertLog H ledger tbl log = .ok tbl') :
    ∃ row pre, tbl' = tbl ++ [row] ∧ row.id = .num (tbl.length + 1) ∧
      sqlPreimage log (lastHash tbl) = .ok pre ∧ row.hash = .bytea (H pre) := by
  obtain ⟨row, pre, h1, _, h3, h4, h5, _⟩ := insertLog_good H ledger tbl log tbl' hg h
  exact ⟨row, pre, h1, h3, h4, h5⟩

/-- What the trigger hashes is the documented input (`documentedPreimage` =
    the reference implementation's input: previous hash, then type, memento, date,
    idempotency key, `"id":0,"hash":null`, schema version) for every `SafeChars` log —
    in particular for logs WITHOUT schema version. -/
theorem stored_preimage_eq_documented_partial (log : Log) (prev : PrevHash)
    (h : SafeChars bunTags.dateNullZero log prev = true) :
    sqlPreimage log prev = documentedPreimage log prev :=
  preimages_agree_safe log prev h

/-- `stored_preimage_eq_documented` for all logs is FALSE: with a schema version the
    documented input contains `,"schemaVersion":"v1"`, the stored one does not. -/
theorem stored_preimage_eq_documented_counterexample :
    sqlPreimage (wLog b!"ik" b!"v1") wPrev ≠ documentedPreimage (wLog b!"ik" b!"v1") wPrev ∧
    SafeChars bunTags.dateNullZero (wLog b!"ik" []) wPrev = true := by
  decide +kernel

/-- The stored hash does not cover the schema version at all: two logs that differ
    only in their schema version (any two values PostgreSQL accepts as text) get the
    same digest input, hence the same stored hash. -/
theorem stored_hash_ignores_schema_version (log : Log) (sv sv' : Bytes) (prev : PrevHash)
    (h : pgTextOk sv = true) (h' : pgTextOk sv' = true) :
    sqlPreimage { log with schemaVersion := sv } prev = sqlPreimage { log with schemaVersion := sv' } prev :=
  sqlPreimage_schema_version_irrelevant log sv sv' prev h h'

/-- non-vacuity of the above on distinct versions -/
example : pgTextOk b!"v1" = true ∧ pgTextOk b!"v2" = true ∧ (sqlPreimage (wLog b!"ik" b!"v1") none).toBool = true := by
  decide +kernel

/-- Recomputing from the exported logs with the reference implementation reproduces a
    stored hash whenever the log is `SafeChars` with respect to its predecessor's
    stored hash: same preimage, hence same digest for any `H`. -/
theorem chain_recomputable_safe (H : Bytes → Bytes) (ledger : Bytes) (tbl tbl' : Table) (log : Log)
    (hg : GoodTbl ledger 1 tbl) (h : insertLog H ledger tbl log = .ok tbl')
    (hs : SafeChars bunTags.dateNullZero log (lastHash tbl) = true) :
    ∃ row pre, tbl' = tbl ++ [row] ∧ goPreimage log (lastHash tbl) = .ok pre ∧ row.hash = .bytea (H pre) := by
  obtain ⟨row, pre, h1, _, _, h4, h5, _⟩ := insertLog_good H ledger tbl log tbl' hg h
  refine ⟨row, pre, h1, ?_, h5⟩
  rw [← preimages_agree_safe log _ hs]
  exact h4

end Ledger.C09
