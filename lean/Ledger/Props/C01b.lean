import Ledger.Proofs.SqlVolumesSpec
import Ledger.Proofs.CoreStore

/-!
C01b — bridge: what `UpdateVolumes` (the SQL, under LeanPG) does to the conserved quantity.

Built on `Ledger.Sql.exec_updateVolumes` / `Ledger.Sql.updateVolumes_bridge` (see C02b): the
generated statement `Ledger.Generated.WriteSql.P.updateVolumes`, evaluated by LeanPG on the
generated schema, never fails on a state satisfying the storage invariants, writes nothing but
`accounts_volumes`, and changes the per-asset sum of balances of the ledger by exactly the
per-asset sum of its rows — which is 0 for the rows `VolumeUpdates` produces
(`Ledger.C01.sum_volumeUpdates`).
-/
namespace Ledger.C01b
open Ledger.Sql Ledger.Base Ledger.Core Ledger.Spec Ledger.Generated.WriteSql
open Ledger.Generated.WriteSql.P (VolumeRow)

/-- The statement cannot fail (no constraint violation, no "row affected a second time", no wait)
    on any state satisfying the storage invariants, for any rows with distinct keys. -/
theorem updateVolumes_total (n : Nat) (env : Env) (b l : String) (id : Nat) (hb : b.isEmpty = false)
    (s : St) (rs : List Ver) (nr : Nat) (hs : AvState s b l rs nr)
    (rows : List VolumeRow) (hne : rows ≠ []) (hnodup : (rows.map avKeyOf).Nodup) :
    ∃ r s', ((P.updateVolumes b l id rows).mapM (runStmt (n + 7) env)).exec s = (.ok r, s') :=
  ⟨_, _, exec_updateVolumes n env b l id hb s rs nr hs rows hne hnodup⟩

/-- Frame: every other table, every sequence, the transaction's identity and its queue of AFTER
    triggers are as before; so are the rows of the other ledgers of the bucket. -/
theorem updateVolumes_frame (n : Nat) (env : Env) (b l : String) (id : Nat) (hb : b.isEmpty = false)
    (s : St) (rs : List Ver) (nr : Nat) (hs : AvState s b l rs nr)
    (rows : List VolumeRow) (hne : rows ≠ []) (hnodup : (rows.map avKeyOf).Nodup) :
    ∃ r s', ((P.updateVolumes b l id rows).mapM (runStmt (n + 7) env)).exec s = (.ok r, s') ∧
      (∀ name, name ≠ avFull b → s'.w.table? name = s.w.table? name) ∧
      s'.w.seqs = s.w.seqs ∧ s'.xid = s.xid ∧ s'.cid = s.cid ∧ s'.afterQ = s.afterQ ∧
      (∀ l', l' ≠ l → ∀ k, avAbs s' b l' k = avAbs s b l' k) := by
  refine ⟨_, _, exec_updateVolumes n env b l id hb s rs nr hs rows hne hnodup, ?_, rfl, rfl, rfl, rfl, ?_⟩
  · intro name hname
    exact table?_setTable_ne s.w _ name hname
  · intro l' hl k
    rw [avAbs_of_table (withTable_av_table? s b rs _ nr _ hs.table), avAbs_of_table hs.table]
    exact avRun_other s.w s.xid s.cid hs.xid hs.cid l rows rs nr hs.inv l' hl k

/-- Conservation through the SQL: if the table abstracts to the (well-formed) map `av` before and to
    `av'` after, then per asset the sum of balances moves by the sum over the statement's rows. -/
theorem updateVolumes_netIn (n : Nat) (env : Env) (b l : String) (id : Nat) (hb : b.isEmpty = false)
    (s : St) (rs : List Ver) (nr : Nat) (hs : AvState s b l rs nr)
    (rows : List VolumeRow) (hne : rows ≠ []) (hnodup : (rows.map avKeyOf).Nodup)
    (av : PCV) (hwf : Map.WF av) (habs : ∀ k, avAbs s b l k = av.get? k) :
    ∃ r s', ((P.updateVolumes b l id rows).mapM (runStmt (n + 7) env)).exec s = (.ok r, s') ∧
      ∀ av' : PCV, Map.WF av' → (∀ k, avAbs s' b l k = av'.get? k) →
        ∀ asset, netIn asset av' = netIn asset av + netIn asset (vuOf rows) := by
  obtain ⟨s', h1, h2, _, _⟩ := updateVolumes_bridge n env b l id hb s rs nr hs rows hne hnodup av hwf habs
  refine ⟨_, s', h1, ?_⟩
  intro av' hwf' habs' asset
  have e : av' = upsertAll av (vuOf rows) := by
    apply Map.ext_of_WF hwf' (WF_upsertAll hwf _)
    intro k
    rw [← habs' k, h2 k]
    rfl
  rw [e, netIn_upsertAll]

end Ledger.C01b
