import Ledger.Proofs.CoreAccounts
import Ledger.Spec.Hist

/-!
C18 (abstract-store / algebra part; the controller-level C18 theorems live in `Props/C18.lean`).

`Spec.upsertAccount` is a hand-written image of one row of the `UpsertAccounts` CTE
(`first_usage = LEAST(d.first_usage, a.first_usage)`, update only when it lowers the date or
adds metadata, insert-if-absent with the transaction's timestamp / insertion date).
Metadata-only accounts (`saveMeta` on a new address) live at the `World` level
(`Spec/Hist.lean`) and are compared by the `hist` handler, not proved here.
-/
namespace Ledger.C18store
open Ledger.Base Ledger.Core Ledger.Spec

/-- In every reachable store (commits with arbitrary timestamps, metadata saved directly on
    accounts, locks, reverted marks), an account's row carries exactly the fold over the
    operations: a commit involving it — as a posting side or through account metadata —
    creates it with (timestamp, insertion date) or lowers its first usage to an earlier
    timestamp; metadata saved on a missing account creates it with both dates = the write's
    date; nothing else touches the dates. -/
theorem accounts_follow_history (ops : List StoreOp) (st : Store) (h : runOps ops = .ok st) (a : String) :
    (st.accounts.get? a).map AccountRow.dates = datesOfOps ops a :=
  (AccountsInv_runOps h).dates a

/-- An account is listed iff some committed transaction involves it or metadata was saved on
    it (metadata-only accounts included). -/
theorem account_listed_iff (ops : List StoreOp) (st : Store) (h : runOps ops = .ok st) (a : String) :
    st.accounts.contains a = true ↔
      ((∃ t, StoreOp.commit t ∈ ops ∧ t.involves a = true) ∨ (∃ at_ md, StoreOp.saveAccountMeta a at_ md ∈ ops)) := by
  have hd := accounts_follow_history ops st h a
  have hnone : datesOfOps ops a = none ↔ ¬ ((∃ t, StoreOp.commit t ∈ ops ∧ t.involves a = true) ∨
      (∃ at_ md, StoreOp.saveAccountMeta a at_ md ∈ ops)) := by
    rw [datesOfOps_none_iff]
    constructor
    · intro hall hex
      rcases hex with ⟨t, ht, hi⟩ | ⟨at_, md, hm⟩
      · have := hall _ ht; simp only [StoreOp.touches] at this; rw [hi] at this; simp at this
      · have := hall _ hm; simp [StoreOp.touches] at this
    · intro hne o ho
      cases ht : o.touches a with
      | false => rfl
      | true =>
        exfalso; apply hne
        cases o with
        | commit t => exact Or.inl ⟨t, ho, ht⟩
        | saveAccountMeta a' at_ md =>
          simp only [StoreOp.touches, beq_iff_eq] at ht
          subst ht; exact Or.inr ⟨at_, md, ho⟩
        | lock keys => simp [StoreOp.touches] at ht
        | markReverted id x => simp [StoreOp.touches] at ht
  unfold Map.contains
  constructor
  · intro hs
    apply Classical.byContradiction
    intro hne
    rw [hnone.mpr hne] at hd
    cases hg : st.accounts.get? a with
    | none => rw [hg] at hs; simp at hs
    | some r => rw [hg] at hd; simp at hd
  · intro hex
    cases hg : st.accounts.get? a with
    | some r => rfl
    | none =>
      rw [hg] at hd
      have : datesOfOps ops a = none := by simpa using hd.symm
      exact absurd hex (hnone.mp this)

/-- One more operation on an existing account: the first usage is lowered to a committed
    transaction's timestamp when that is earlier (back-dated), never raised; the insertion date
    never changes. -/
theorem first_usage_is_min (a : String) (fu ins : Int) (o : StoreOp) :
    ∃ fu', accountEventStep a (some (fu, ins)) o = some (fu', ins) ∧ fu' ≤ fu ∧
      (∀ t, o = .commit t → t.involves a = true → fu' ≤ t.timestamp) :=
  accountEventStep_mono a fu ins o

/-- Claim of the property as worded ("first usage is the earliest effective timestamp among
    the transactions involving the account"), over whole histories incl. reverts — kept
    type-checked; FALSE for the real code (known finding
    `C18:first-usage-not-earliest-effective-timestamp`): `revertTransaction` commits the revert
    transaction without `upsertTransactionAccounts`. -/
def first_usage_is_earliest : Prop :=
  ∀ (ops : List Op) (a : String) (fu : Int),
    firstUsage (World.run {} ops).1.ledger a = some fu →
    ∀ t ∈ (World.run {} ops).1.ledger.txs, t.involves a = true → fu ≤ t.timestamp

/-- Witness: a FUTURE-dated transaction (timestamp 100, written at 10) reverted now (at 20, not
    at the effective date): the revert transaction is dated 20 and involves `a`, but `a`'s
    first usage stays 100 — in the journal fold and in the abstract `accounts` table alike. -/
theorem first_usage_is_min_counterexample : ¬ first_usage_is_earliest := by
  intro h
  have := h [.tx 10 (some 100) [⟨"world", "a", 5, "USD"⟩] "" [] [] true, .revert 20 1 true false []] "a" 100
    (by decide)
    { id := 2, postings := [⟨"a", "world", 5, "USD"⟩], timestamp := 20, insertedAt := 20,
      metadata := [("com.formance.spec/state/reverts", "1")] }
    (by decide) (by decide)
  exact absurd this (by decide)

example : ((World.run {} [.tx 10 (some 100) [⟨"world", "a", 5, "USD"⟩] "" [] [] true, .revert 20 1 true false []]).1.store.accounts.get? "a").map
    (·.firstUsage) = some 100 := by decide

/-- What does hold: the first usage stored for an account is a lower bound of the timestamps
    of the committed transactions that upsert their accounts (every transaction except the ones
    a revert commits) and involve it, and it is attained: by one of those transactions, or by
    the date of the metadata write that created the account. -/
theorem first_usage_is_min_partial (ops : List StoreOp) (st : Store) (h : runOps ops = .ok st) (a : String)
    (r : AccountRow) (hr : st.accounts.get? a = some r) :
    (∀ t, StoreOp.commit t ∈ ops → t.involves a = true → r.firstUsage ≤ t.timestamp) ∧
    ((∃ t, StoreOp.commit t ∈ ops ∧ t.involves a = true ∧ t.timestamp = r.firstUsage) ∨
     (∃ md, StoreOp.saveAccountMeta a r.firstUsage md ∈ ops)) := by
  have hd := accounts_follow_history ops st h a
  rw [hr] at hd
  have hd' : ops.foldl (accountEventStep a) none = some (r.firstUsage, r.insertionDate) := hd.symm
  refine ⟨(foldl_accountEventStep_bound a _ none _ _ hd').1, ?_⟩
  rcases foldl_accountEventStep_attained a _ none _ _ hd' with h1 | h1 | ⟨i0, h2⟩
  · exact Or.inl h1
  · exact Or.inr h1
  · simp at h2

/-- The table stays key-sorted without duplicates. -/
theorem accounts_wf (ops : List StoreOp) (st : Store) (h : runOps ops = .ok st) : Map.WF st.accounts :=
  (AccountsInv_runOps h).wf

example : (runOps [.commit { postings := [⟨"world", "a", 10, "USD"⟩], timestamp := 5, insertedAt := 7 },
                   .saveAccountMeta "only:meta" 6 [("x", "y")],
                   .commit { postings := [⟨"a", "b", 4, "USD"⟩], timestamp := 1, insertedAt := 8, accountMetadata := [("m", [("k", "v")])] },
                   .saveAccountMeta "a" 9 [("x", "y")]]).toOption.map
            (fun st => st.accounts.map (fun e => (e.1, e.2.firstUsage, e.2.insertionDate))) =
          some [("a", 1, 7), ("b", 1, 8), ("m", 1, 8), ("only:meta", 6, 6), ("world", 5, 7)] := by decide

end Ledger.C18store
