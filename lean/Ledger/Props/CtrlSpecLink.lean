import Ledger.Proofs.CtrlSpecLink
import Ledger.Proofs.CtrlSpecLinkAcc
import Ledger.Proofs.CtrlExamples

/-!
# Link: controller model → abstract reference store (`Ledger/Spec`)

The controller model (`Ledger/Ctrl`) is verified against its own store contract
(`Ledger/Ctrl/Store.lean`); the ledger algebra (C01–C04, C15, C18) is proved about the
abstract reference store `Spec.Store` (`Ledger/Spec/Store.lean`), which the regenerated
SQL statements are shown to refine (`Ledger.C01e.commitTransaction_refines`).  This
file proves that the two stores are the same thing on the shared tables:

* `abs : Ctrl.State → Spec.Store` (`Ledger/Ctrl/SpecLink.lean`): `accounts_volumes`,
  `transactions` with their post-commit volumes, `accounts`; the next transaction id is
  the next value of the gap-leaving sequence; `moves` is not part of the controller's
  contract (left empty: statements about moves stay at the Spec / SQL level);
* call by call: `CommitTransaction` = `Spec.applyTx` (accounts upserted separately,
  `upsertAccounts := false` — the form the SQL refinement theorem is about), the balance
  locks of `GetBalances` = `Spec.lockBalances`, the reverted mark = `Spec.markReverted`;
* hence the Spec invariant `StoreInv` holds in every state the controller model reaches
  — after failing, dry-run, idempotent, faulted and retried operations alike — and C01,
  C02, C03 transfer to controller histories.
-/
namespace Ledger.CtrlSpecLink
open Ledger.Ctrl Ledger.Core Ledger.Base Ledger.Ctrl.Examples

/-- **`CommitTransaction` of the controller's store contract refines `Spec.applyTx`**:
    for the commits the write path issues (id from the sequence, not born reverted), on
    tables with a key-sorted `accounts_volumes`, the Spec store accepts the same
    transaction and ends with the same `accounts_volumes`, the same `transactions`
    (new row: same id, dates, reference, metadata, post-commit volumes), the same
    `accounts` and the same next id. -/
theorem ctrl_commit_refines_spec (now : Time) (t : TxIn) (ht : t.id = none) (htr : t.revertedAt = none)
    (d : Db) (sq sq' : Seqs) (row : Ledger.Ctrl.Tx) (d' : Db) (hw : Map.WF d.volumes)
    (h : commitTransaction now t d sq = (sq', .ok (row, d'))) :
    ∃ st', Spec.applyTx (abs ⟨d, sq⟩) (specTxIn now t) = .ok st' ∧
      st'.accountsVolumes = (abs ⟨d', sq'⟩).accountsVolumes ∧ st'.txs = (abs ⟨d', sq'⟩).txs ∧
      st'.accounts = (abs ⟨d', sq'⟩).accounts ∧ st'.nextTxId = (abs ⟨d', sq'⟩).nextTxId :=
  commit_refines now t ht htr d sq sq' row d' hw h

/-- The table and the `RETURNING` rows of `UpdateVolumes` are the Spec's `upsertVolumes`. -/
theorem ctrl_updateVolumes_eq_spec (ups v : PCV) (hw : Map.WF v) (hu : Map.WF ups) :
    updateVolumes ups v = ((Spec.upsertVolumes v ups).2, (Spec.upsertVolumes v ups).1) :=
  updateVolumes_eq_upsertVolumes ups v hw hu

/-- **`GetBalances` (`INSERT (0,0) ON CONFLICT DO NOTHING` + lock) refines
    `Spec.lockBalances`** — equality of the whole abstracted store. -/
theorem ctrl_lock_refines_spec (q : List Key) (d : Db) (sq : Seqs) (hw : Map.WF d.volumes) :
    abs ⟨(getBalances q d).2, sq⟩ = Spec.lockBalances (abs ⟨d, sq⟩) q :=
  lock_refines q d sq hw

/-- **The reverted mark of `RevertTransaction` refines `Spec.markReverted`** — equality
    of the whole abstracted store, on tables with distinct transaction ids (an invariant
    of the controller's histories, `Ledger.Ctrl.Inv.txSorted`). -/
theorem ctrl_revert_refines_spec (now : Time) (id : Nat) (at_ : Option Time) (d : Db) (sq : Seqs)
    (t' : Ledger.Ctrl.Tx) (d' : Db) (hs : d.txs.Pairwise (fun a b => a.id < b.id))
    (h : revertTransaction now id at_ d = .ok ((t', true), d')) :
    abs ⟨d', sq⟩ = Spec.markReverted (abs ⟨d, sq⟩) id (at_.getD now) :=
  revert_refines now id at_ d sq t' d' hs h

/-- The Spec invariant (`Ledger.Spec.StoreInv`: key-sorted volumes, C02, C03, C01) holds
    in every state the controller model reaches from the empty ledger, whatever failed,
    was retried, dry-run or answered from the idempotency record on the way. -/
theorem spec_invariant_along_controller_histories (strict : Bool) (ops : List Op) :
    Spec.StoreInv (abs (runHist strict {} ops)) :=
  runHist_storeInv strict {} ops StoreInv_abs_empty

/-- …and it is preserved by one more operation under any fault plan. -/
theorem spec_invariant_step (strict : Bool) (s : State) (op : Op) (f : Faults) (cf : Bool)
    (inv : Spec.StoreInv (abs s)) : Spec.StoreInv (abs (stepF strict s op f cf).1) :=
  forgeLog_storeInv strict op f cf s inv

/-- **C01 along controller histories**: the balances (`input − output`) of the
    `accounts_volumes` rows of each asset sum to zero. -/
theorem conservation_along_controller_histories (strict : Bool) (ops : List Op) (asset : String) :
    Spec.netIn asset (runHist strict {} ops).db.volumes = 0 :=
  (spec_invariant_along_controller_histories strict ops).net asset

/-- **C02 along controller histories**: every `accounts_volumes` row holds the fold of
    the committed postings (Σ crediting, Σ debiting); no row means the fold is `(0,0)`. -/
theorem volumes_eq_fold_along_controller_histories (strict : Bool) (ops : List Op) (k : Key) :
    (runHist strict {} ops).db.volumes.get? k = some (Spec.volumesOf (recsOf (runHist strict {} ops).db) k) ∨
    ((runHist strict {} ops).db.volumes.get? k = none ∧
      Spec.volumesOf (recsOf (runHist strict {} ops).db) k = Volumes.zero) := by
  have inv := spec_invariant_along_controller_histories strict ops
  have hrec : (abs (runHist strict {} ops)).txRecs = recsOf (runHist strict {} ops).db := by
    simp only [Spec.Store.txRecs, abs, recsOf, List.map_map]; rfl
  rcases inv.av k with h1 | ⟨h1, h2⟩
  · left; rw [← hrec]; exact h1
  · right; rw [← hrec]; exact ⟨h1, Spec.foldVolumes_untouched h2⟩

/-- **C03 along controller histories**: the post-commit volumes stored with the `i`-th
    transaction are, for the pairs it touches, the fold of transactions `0..i`. -/
theorem pcv_is_state_after_along_controller_histories (strict : Bool) (ops : List Op)
    (i : Nat) (hi : i < (runHist strict {} ops).db.txs.length) (k : Key) :
    ((runHist strict {} ops).db.txs[i]).pcv.get? k =
      if Spec.touches k ((runHist strict {} ops).db.txs[i]).postings
      then some (Spec.volumesOf ((recsOf (runHist strict {} ops).db).take (i + 1)) k) else none := by
  have inv := spec_invariant_along_controller_histories strict ops
  have hrec : (abs (runHist strict {} ops)).txRecs = recsOf (runHist strict {} ops).db := by
    simp only [Spec.Store.txRecs, abs, recsOf, List.map_map]; rfl
  have hi' : i < (abs (runHist strict {} ops)).txs.length := by simpa [abs] using hi
  have := inv.pcv i hi' k
  simp only [abs, List.getElem_map, absTx] at this
  rw [← hrec]
  exact this

/-- `accounts_volumes` stays key-sorted along controller histories. -/
theorem volumes_wf_along_controller_histories (strict : Bool) (ops : List Op) :
    Map.WF (runHist strict {} ops).db.volumes :=
  (spec_invariant_along_controller_histories strict ops).wf

/-! ### C18: the `accounts` table -/

/-- **C18 along controller histories** (`Ledger.C18store.accounts_follow_history` transferred):
    the `(first_usage, insertion_date)` of every account row — and its absence — is the Spec's
    fold `datesOfOps` over the store operations the journal stands for (`specOpsOf`: a new
    transaction upserts the accounts it involves, a revert does not, an account metadata
    save creates the account when absent). -/
theorem accounts_follow_history_along_controller_histories (strict : Bool) (ops : List Op) (a : String) :
    datesOfRow (runHist strict {} ops).db.accounts a =
      Spec.datesOfOps (specOpsOf (runHist strict {} ops).db.logs) a :=
  accounts_follow_spec _ (runHist_spec strict {} ops SpecOk.empty) a

/-- An account is listed iff some journal entry stands for a store operation touching it
    (a committed non-revert transaction involving it, or metadata saved on it). -/
theorem account_listed_iff_along_controller_histories (strict : Bool) (ops : List Op) (a : String) :
    ((runHist strict {} ops).db.accounts.get? a).isSome = true ↔
      ∃ o ∈ specOpsOf (runHist strict {} ops).db.logs, o.touches a = true := by
  have hd := accounts_follow_history_along_controller_histories strict ops a
  have hnone := Spec.datesOfOps_none_iff (specOpsOf (runHist strict {} ops).db.logs) a
  unfold datesOfRow at hd
  constructor
  · intro hs
    apply Classical.byContradiction
    intro hne
    have hall : ∀ o ∈ specOpsOf (runHist strict {} ops).db.logs, o.touches a = false := by
      intro o ho
      cases ht : o.touches a with
      | false => rfl
      | true => exact absurd ⟨o, ho, ht⟩ hne
    rw [hnone.mpr hall] at hd
    cases hg : (runHist strict {} ops).db.accounts.get? a with
    | none => rw [hg] at hs; cases hs
    | some r => rw [hg] at hd; cases hd
  · rintro ⟨o, ho, ht⟩
    cases hg : (runHist strict {} ops).db.accounts.get? a with
    | some r => rfl
    | none =>
      rw [hg] at hd
      have := hnone.mp hd.symm o ho
      rw [ht] at this
      cases this

/-- `first_usage` of a row is at or below the timestamp of every journal transaction that
    upserts its accounts and involves the account, and it is attained — by one of those
    transactions or by the date of the metadata save that created the account
    (`Ledger.C18store.first_usage_is_min_partial` transferred; reverts do not upsert
    their accounts: the known finding `C18:first-usage-not-earliest-effective-timestamp`). -/
theorem first_usage_is_min_along_controller_histories (strict : Bool) (ops : List Op) (a : String)
    (r : Account) (hr : (runHist strict {} ops).db.accounts.get? a = some r) :
    (∀ t, Spec.StoreOp.commit t ∈ specOpsOf (runHist strict {} ops).db.logs → t.involves a = true →
        r.firstUsage ≤ t.timestamp) ∧
    ((∃ t, Spec.StoreOp.commit t ∈ specOpsOf (runHist strict {} ops).db.logs ∧ t.involves a = true ∧
        t.timestamp = r.firstUsage) ∨
     (∃ md, Spec.StoreOp.saveAccountMeta a r.firstUsage md ∈ specOpsOf (runHist strict {} ops).db.logs)) := by
  have hd := accounts_follow_history_along_controller_histories strict ops a
  unfold datesOfRow at hd
  rw [hr] at hd
  have hd' : (specOpsOf (runHist strict {} ops).db.logs).foldl (Spec.accountEventStep a) none =
      some (r.firstUsage, r.insertionDate) := hd.symm
  refine ⟨(Spec.foldl_accountEventStep_bound a _ none _ _ hd').1, ?_⟩
  rcases Spec.foldl_accountEventStep_attained a _ none _ _ hd' with h1 | h1 | ⟨i0, h2⟩
  · exact Or.inl h1
  · exact Or.inr h1
  · cases h2

/-- One row of the controller contract's `UpsertAccounts` moves the dates of the
    addressed account as the Spec's `upsertAccount` does (`stepDates`), and no other row. -/
theorem ctrl_upsertAccount_dates (now ts ins : Time) (accounts : Map String Account) (a : String) (m D : Meta) (b : String) :
    datesOfRow (upsertAccount now accounts { address := a, metadata := m, firstUsage := some ts, insertionDate := some ins, updatedAt := some ins, defaults := D }) b =
      if b = a then Spec.stepDates ts ins (datesOfRow accounts a) else datesOfRow accounts b := by
  unfold datesOfRow upsertAccount
  cases hg : accounts.get? a with
  | none =>
    by_cases hb : b = a
    · subst hb; simp only [get?_insert_self, ↓reduceIte, Option.map_some, Option.map_none, Spec.stepDates]
    · simp only [get?_insert_ne _ _ _ _ hb, hb, ↓reduceIte]
  | some x =>
    simp only
    by_cases hc : (decide (ts < x.firstUsage) || !metaContains x.metadata m) = true
    · rw [if_pos hc]
      by_cases hb : b = a
      · subst hb; simp only [get?_insert_self, ↓reduceIte, Option.map_some, Spec.stepDates]
      · simp only [get?_insert_ne _ _ _ _ hb, hb, ↓reduceIte]
    · rw [if_neg hc]
      by_cases hb : b = a
      · subst hb
        have hlt : ¬ ts < x.firstUsage := by
          intro h; apply hc; simp [h]
        simp only [hg, ↓reduceIte, Option.map_some, Spec.stepDates, hlt]
      · simp only [hb, ↓reduceIte]

/-! non-vacuity -/
example : datesOfRow (runHist true {} histSafe).db.accounts "users:001" = some (20, 20) ∧
    Spec.datesOfOps (specOpsOf (runHist true {} histSafe).db.logs) "users:001" = some (20, 20) := by decide +kernel
example : Spec.netIn "USD" (runHist true {} histSafe).db.volumes = 0 ∧ (runHist true {} histSafe).db.volumes.length = 3 := by
  decide +kernel
example : ((runHist true {} histSafe).db.txs.map (·.pcv.length)) = [2, 2, 2] := by decide +kernel

end Ledger.CtrlSpecLink
