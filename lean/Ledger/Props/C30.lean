import Ledger.Proofs.ChartRoundtrip
import Ledger.Proofs.ChartValid
import Ledger.Proofs.ChartSchemaJson
import Ledger.Proofs.ChartEnforce

/-!
C30 — Schemas round-trip without changing meaning.

Only property theorems and non-vacuity examples live here. Models:
`Ledger/Chart/Model.lean` (chart.go: MarshalJSON / UnmarshalJSON /
FindAccountSchema, hand-written, tied to the real code by the `chartrt` and
`classify` workloads) and `Ledger/Chart/SchemaJson.lean` (SchemaData with
transaction and query templates, tied by the `schemart` workload).

`ops : RegexOps` stands for Go's `regexp.Compile` / `regexp.Match` on segment
patterns: every theorem holds for any such pair of functions.

Not covered: what Postgres does to the JSON text between `InsertSchema` and
`FindSchema` (jsonb columns) – the theorems are about the Go encoders / decoders
on both sides of the database.
-/
namespace Ledger.C30
open Ledger.Chart

/-- Marshalling a valid chart and unmarshalling the result gives the chart back –
    for every chart (any depth, any number of fixed / variable segments, patterns,
    `.self`, `.metadata`). -/
theorem chart_roundtrip (ops : RegexOps) (c : Chart) (h : Valid ops c) :
    unmarshal ops (marshal c) = .ok c := by
  simp only [unmarshal, marshal, JTree.fields?]
  exact root_rt ops c h

/-- In the shape asked for: the re-read chart exists and classifies every address
    identically – accepted or rejected, with the same account schema, hence the same
    default metadata – and validates every posting identically. -/
theorem chart_roundtrip_classify (ops : RegexOps) (c : Chart) (h : Valid ops c) :
    ∃ c', unmarshal ops (marshal c) = .ok c' ∧
      (∀ addr, classify ops c' addr = classify ops c addr) ∧
      (∀ addr, classifyDefaults ops c' addr = classifyDefaults ops c addr) ∧
      (∀ src dst, validatePosting ops c' src dst = validatePosting ops c src dst) :=
  ⟨c, chart_roundtrip ops c h, fun _ => rfl, fun _ => rfl, fun _ _ => rfl⟩

/-- `Valid` is exactly what can come out of `UnmarshalJSON`: every chart decoded
    from any JSON document is valid … -/
theorem unmarshal_valid (ops : RegexOps) (j : JTree) (c : Chart) (h : unmarshal ops j = .ok c) :
    Valid ops c := unmarshal_valid' ops j c h

/-- … so a chart that was accepted once (API request, stored schema) survives any
    number of further marshal / unmarshal cycles unchanged. -/
theorem stored_chart_stable (ops : RegexOps) (j : JTree) (c : Chart)
    (h : unmarshal ops j = .ok c) : unmarshal ops (marshal c) = .ok c :=
  chart_roundtrip ops c (unmarshal_valid ops j c h)

/-- The whole `SchemaData` – chart, transaction templates, query templates –
    survives the JSON round trip unchanged. -/
theorem schema_roundtrip (ops : RegexOps) (s : SchemaData) (h : s.Valid ops) :
    unmarshalSchemaData ops (marshalSchemaData s) = .ok s := schemaData_rt ops s h

/-- Templates alone (no hypothesis needed). -/
theorem templates_roundtrip (ts : List (Key × TxTemplate)) :
    unmarshalTemplates (marshalTemplates ts) = .ok ts := templates_rt ts

/-- Query templates alone. -/
theorem queries_roundtrip (qs : List (Key × QueryTemplate)) (h : ∀ kq ∈ qs, kq.2.Valid) :
    unmarshalQueries (marshalQueries qs) = .ok qs := queries_rt qs h

/-! ### non-vacuity: a chart with fixed and variable segments, a pattern, `.self`
    and default metadata is valid, round-trips, and classifies as expected -/

example : Valid sampleOps sampleChart := by
  simp [Valid, validFixed, Segment.Valid, validVar, validName, isSegChar, sampleChart, sampleOps]
example : classifyDefaults sampleOps sampleChart ["users".toList, "42".toList, "main".toList]
    = some [("kind".toList, "wallet")] := by decide
example : classify sampleOps sampleChart ["users".toList, "x1".toList] = none := by decide
example : classify sampleOps sampleChart ["users".toList] = none := by decide
example : (classify sampleOps sampleChart ["users".toList, "7".toList]).isSome = true := by decide
-- a schema with a template and a query template (opaque params / body, a typed variable with default)
example : (⟨sampleChart, [("pay".toList, ⟨"", "send …", "machine"⟩)],
    [("q".toList, ⟨"d", "accounts", some (.obj [("pageSize".toList, .num "10")]),
      [("v".toList, ⟨.string, some (.str "x")⟩)], some (.obj [])⟩)]⟩ : SchemaData).Valid sampleOps := by
  refine ⟨by simp [Valid, validFixed, Segment.Valid, validVar, validName, isSegChar, sampleChart, sampleOps], ?_⟩
  intro kq hkq
  simp at hkq
  subst hkq
  intro kv hkv
  simp at hkv
  subst hkv
  simp [VarDecl.Valid]

end Ledger.C30
