import Ledger.Proofs.ApiPass

/-!
C14 (transaction references are unique per ledger) — API-boundary layer.

Reference uniqueness is enforced by the store on the reference the CONTROLLER
receives; this layer states that the request decoders hand the client's reference
(and the other request-level fields) to the controller unchanged, for v1 in both
forms, v2 in both forms and bulk elements.  Models: `Ledger/Api/TxBody.lean`, tied
to the real handlers by the `txbody14` workload (every field of the recorded
`CreateTransaction` parameters compared, signature per field).
-/
namespace Ledger.C14Api
open Ledger.Api

/-- v1 `POST /{ledger}/transactions`, postings form and script form alike. -/
theorem createV1_passes_reference (parseTime : String → Option String) (kvs : List (String × JVal))
    (c : CreateCall) (h : createV1 parseTime (.obj kvs) = .ok c) :
    decStr (getField kvs "reference") = .ok c.reference :=
  (createV1_fields parseTime kvs c h).1

theorem createV1_passes_timestamp_metadata (parseTime : String → Option String) (kvs : List (String × JVal))
    (c : CreateCall) (h : createV1 parseTime (.obj kvs) = .ok c) :
    decTime parseTime (getField kvs "timestamp") = .ok c.timestamp ∧
    (decStrMap (getField kvs "metadata")).map (·.getD []) = .ok c.metadata :=
  (createV1_fields parseTime kvs c h).2

/-- v2 `POST /v2/{ledger}/transactions`, postings, script and template forms. -/
theorem createV2_passes_reference (parseTime : String → Option String) (queryForce : Bool)
    (kvs : List (String × JVal)) (c : CreateCall) (h : createV2 parseTime queryForce (.obj kvs) = .ok c) :
    decStr (getField kvs "reference") = .ok c.reference :=
  (createV2_fields parseTime queryForce kvs c h).1

theorem createV2_passes_fields (parseTime : String → Option String) (queryForce : Bool)
    (kvs : List (String × JVal)) (c : CreateCall) (h : createV2 parseTime queryForce (.obj kvs) = .ok c) :
    decTime parseTime (getField kvs "timestamp") = .ok c.timestamp ∧
    (decStrMap (getField kvs "metadata")).map (·.getD []) = .ok c.metadata ∧
    decAccountMetadata (getField kvs "accountMetadata") = .ok c.accountMetadata ∧
    decStr (getField kvs "runtime") = .ok c.runtime :=
  (createV2_fields parseTime queryForce kvs c h).2

/-- Bulk `CREATE_TRANSACTION` element: idempotency key and reference. -/
theorem bulkCreate_passes_reference (parseTime : String → Option String) (kvs dk : List (String × JVal))
    (ik : String) (c : CreateCall) (hdata : getField kvs "data" = some (.obj dk))
    (h : bulkElement parseTime (.obj kvs) = .call ik (.create c)) :
    decStr (getField kvs "ik") = .ok ik ∧ decStr (getField dk "reference") = .ok c.reference :=
  ⟨(bulkCreate_fields parseTime kvs dk ik c hdata h).1, (bulkCreate_fields parseTime kvs dk ik c hdata h).2.1⟩

/-- Non-vacuity: a v1 postings request with a reference is accepted and carries it. -/
example : (match createV1 (fun _ => none)
    (.obj [("postings", .arr [.obj [("source", .str "world"), ("destination", .str "bank"),
      ("amount", JVal.int 100), ("asset", .str "USD/2")]]), ("reference", .str "ref-1")]) with
    | .ok c => c.reference == "ref-1"
    | _ => false) = true := by
  decide +kernel

end Ledger.C14Api
