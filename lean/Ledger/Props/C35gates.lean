import Ledger.Proofs.Gates

/-!
C35 (feature gates of reads) — theorem over the REGENERATED read-shape matrix
(`Ledger.Generated.readShapeCodes`, rebuilt from /repo on every run by
`tools/t1_readshapes`: the real store read paths rendered over a recording
driver for every resource × call × PIT/OOT × date mode × expand × filter ×
feature set × alone-in-bucket).  The quantifier is a finite table regenerated
from the source, so `decide +kernel` over the whole table is a proof about the
current tree, not a sample.
-/
namespace Ledger.C35gates
open Ledger.Gates Ledger.Generated Ledger.GatesProps

/-- Every rendered read either does not need a disabled feature, or was rejected
    with the missing-feature error naming a feature that is off. -/
theorem every_read_features_ok :
    ∀ c ∈ readShapeCodes, (Shape.ofCode c).featuresOk = true :=
  all_of_chunks (fun c => (Shape.ofCode c).featuresOk) (by decide +kernel)

/-- Non-vacuity: the matrix contains rendered moves-reading shapes and rejected ones. -/
example : 40 ≤ readShapeChunks.length ∧
    (readShapeChunks.any fun ch => ch.any fun c => (Shape.ofCode c).err == .ok && (Shape.ofCode c).tMoves) = true ∧
    (readShapeChunks.any fun ch => ch.any fun c => (Shape.ofCode c).err == .missingPCEV) = true ∧
    (readShapeChunks.any fun ch => ch.any fun c => (Shape.ofCode c).err == .missingMH) = true := by
  decide +kernel

end Ledger.C35gates
