import Ledger.Proofs.ReadsSqlRun

/-!
C02 (SQL leg), BOUNDED obligations (see `Props/C05q.lean` for what these are): the reads without a
point in time — volumes listing and aggregated balances over `accounts_volumes` as the regenerated
`UpdateVolumes` statements leave it.
-/
namespace Ledger.C02q
open Ledger.Reads.SqlRun

set_option maxRecDepth 100000

theorem current_reads_scenA : checkMovesFamily none true scenA [.current] [.current] = true := by
  decide +kernel

end Ledger.C02q
