import Ledger.Proofs.Reads
import Ledger.Props.C02

/-!
C02 (read path) — account reads, volume listings and balance queries report the fold of the
committed postings.

Only property theorems and non-vacuity examples.  `currentVolumes` (`Reads/Views.lean`) is what
every read without a point in time works on (`GetAccount` / `ListAccounts` with
`expand=volumes|effectiveVolumes`, `GetVolumesWithBalances`, `GetAggregatedBalances`): the
theorems say its rows are the Spec fold and, through builder-core's `volumes_eq_fold` /
`row_of_touched`, exactly the rows of `accounts_volumes` on every reachable abstract store (extra
table rows are the zero rows the balance lock creates, DESIGN §3.0).  The SQL → `Ledger.Reads`
step is TESTED over LeanPG (the modelled Postgres), not proved.
-/
namespace Ledger.C02r
open Ledger.Base Ledger.Core Ledger.Spec Ledger.Reads

/-- Every listed row holds (Σ postings crediting, Σ postings debiting) over all committed
    transactions, reverts included. -/
theorem listed_volumes_eq_fold (txs : List TxRec) (e : Key × Volumes) (h : e ∈ currentVolumes txs) :
    e.2 = volumesOf txs e.1 ∧ e.2.balance = balanceOf txs e.1 := by
  have := currentVolumes_row txs e h
  exact ⟨this, by rw [this]; rfl⟩

/-- A pair is listed iff some committed posting touches it (zero-amount postings included). -/
theorem listed_iff_touched (txs : List TxRec) (k : Key) :
    k ∈ (currentVolumes txs).keys ↔ touches k (allPostings txs) = true :=
  mem_currentVolumes_keys txs k

/-- The volumes an account read reports (`expand=volumes`, no point in time): per asset, the fold
    of the postings on that account. -/
theorem account_volumes_eq_fold (txs : List TxRec) (a : String) (e : String × Volumes)
    (h : e ∈ ofAccount (currentVolumes txs) a) : e.2 = volumesOf txs (a, e.1) := by
  unfold ofAccount at h
  obtain ⟨x, hx, rfl⟩ := List.mem_map.mp h
  obtain ⟨hx1, hx2⟩ := List.mem_filter.mp hx
  have ha : x.1.1 = a := by simpa using hx2
  have := currentVolumes_row txs x hx1
  rw [this, ← ha]

/-- **On every reachable abstract store, every listed row is the `accounts_volumes` row.** -/
theorem listed_row_is_table_row (ops : List StoreOp) (st : Store) (h : runOps ops = .ok st)
    (e : Key × Volumes) (he : e ∈ currentVolumes st.txRecs) :
    st.accountsVolumes.get? e.1 = some e.2 := by
  have hk : e.1 ∈ (currentVolumes st.txRecs).keys := List.mem_map.mpr ⟨e, he, rfl⟩
  rw [currentVolumes_row _ e he]
  exact Ledger.C02.row_of_touched ops st h e.1 ((mem_currentVolumes_keys _ _).mp hk)

/-- Conversely a table row is listed with the same value, or it is a zero row (balance lock) —
    "fold ≠ (0,0) ⇒ listed". -/
theorem table_row_listed_or_zero (ops : List StoreOp) (st : Store) (h : runOps ops = .ok st)
    (k : Key) (v : Volumes) (hv : st.accountsVolumes.get? k = some v) :
    (k, v) ∈ currentVolumes st.txRecs ∨ v = Volumes.zero := by
  rcases Ledger.C02.volumes_eq_fold ops st h k with h1 | ⟨h1, _⟩
  · rw [h1] at hv
    cases hv
    by_cases ht : touches k (allPostings st.txRecs) = true
    · left
      have hk := (mem_currentVolumes_keys st.txRecs k).mpr ht
      obtain ⟨e, he, hek⟩ := List.mem_map.mp hk
      have := currentVolumes_row _ e he
      have he' : e = (k, volumesOf st.txRecs k) := by
        cases e with
        | mk e1 e2 => simp only at hek this; subst hek; rw [this]
      rw [← he']; exact he
    · right
      have : touches k (allPostings st.txRecs) = false := by simpa using ht
      exact foldVolumes_untouched this
  · rw [h1] at hv; cases hv

example :
    currentVolumes [{ id := 1, postings := [⟨"world", "a", 10, "USD"⟩, ⟨"a", "b", 4, "USD"⟩, ⟨"b", "b", 0, "EUR"⟩],
                      timestamp := 5, insertedAt := 7 }] =
      [(("a", "USD"), ⟨10, 4⟩), (("b", "EUR"), ⟨0, 0⟩), (("b", "USD"), ⟨4, 0⟩), (("world", "USD"), ⟨0, 10⟩)] := by decide

end Ledger.C02r
