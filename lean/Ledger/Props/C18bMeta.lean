import Ledger.Proofs.SqlRunAccounts

/-!
C18bMeta — BOUNDED REGRESSION OBLIGATIONS for the account-metadata statements
(`UpdateAccountsMetadata`, `DeleteAccountMetadata`, regenerated in `Ledger.Generated.WriteSql.P`): kernel
evaluation under LeanPG on a concrete scenario; finite facts, not general theorems.
-/
namespace Ledger.C18bMeta
open Ledger Ledger.Sql Ledger.Generated Ledger.Generated.WriteSql Ledger.Sql.Run

/-- `UpdateAccountsMetadata` merges into an existing account (first usage and insertion date kept) and creates a
    missing one; `DeleteAccountMetadata` removes the key; the metadata history gets one revision per write —
    including the delete of a key that is not there (revision 4 repeats revision 3). -/
example : (fun (r : World × List (String × List (List String))) =>
      decide (acctView r.1 = [("a", tsMicros 20, tsMicros 30, [("j", "x")]), ("n", tsMicros 40, tsMicros 40, [("m", "1")])]) &&
      decide (acctHistView r.1 = [("a", "{\"k\": \"v\"}", "1"), ("a", "{\"j\": \"x\", \"k\": \"w\"}", "2"), ("n", "{\"m\": \"1\"}", "1"),
        ("a", "{\"j\": \"x\"}", "3"), ("a", "{\"j\": \"x\"}", "4")]))
    (run w1 (on 1 (sqlUpsert [⟨"a", 20, 30, [("k", "v")]⟩] ++
      P.updateAccountsMetadata "_default" "ledger0" 7
        [{ address := "a", metadata := "{\"k\":\"w\",\"j\":\"x\"}", first_usage := tsText 40, insertion_date := tsText 40,
           updated_at := tsText 40, address_array := "[\"a\"]" },
         { address := "n", metadata := "{\"m\":\"1\"}", first_usage := tsText 40, insertion_date := tsText 40,
           updated_at := tsText 40, address_array := "[\"n\"]" }] ++
      P.deleteAccountMetadata "_default" "ledger0" 7 "a" "k" ++
      P.deleteAccountMetadata "_default" "ledger0" 7 "a" "nokey"))) = true := by
  decide +kernel

end Ledger.C18bMeta
