import Ledger.Proofs.CoreInsPcv

/-!
C03 — Post-commit volumes describe the state right after each transaction.

`Core.movesOf` is the unwinding loop of `CommitTransaction` as written (reversed postings,
destination then source, subtract, reverse the result); `PCV.subtractPostings` is
`PostCommitVolumes.SubtractPostings` (behind `preCommitVolumes` of `MarshalJSON`); both are
tied to the real code by the `pcv` differential workload.  `Spec.runningMoves` /
`Spec.applyPostings` are the forward reference semantics.
-/
namespace Ledger.C03
open Ledger.Base Ledger.Core Ledger.Spec

/-- preCommitVolumes = postCommitVolumes − the transaction's own postings: if applying
    the postings in order to `pre` gives `post`, `SubtractPostings` gives back `pre`. -/
theorem pre_eq_post_minus_own (pre post : PCV) (ps : List Posting) (h : applyPostings pre ps = .ok post) :
    PCV.subtractPostings post ps = .ok pre := by
  have hk := hasKeys_of_applyPostings h
  rw [applyPostings_eq hk] at h
  cases h
  exact subtractPostings_applyFwd pre ps hk

example : applyPostings [(("a", "USD"), ⟨5, 1⟩), (("b", "USD"), ⟨0, 0⟩)] [⟨"a", "b", 3, "USD"⟩, ⟨"b", "b", 2, "USD"⟩, ⟨"b", "a", 1, "USD"⟩]
    = .ok [(("a", "USD"), ⟨6, 4⟩), (("b", "USD"), ⟨5, 3⟩)] := by decide

/-- The reverse-unwinding loop equals the forward running fold: the moves computed from
    the post-commit volumes are, posting by posting, the source's volumes right after its
    output was added and the destination's volumes right after its input was added —
    including repeated accounts and `source = destination`. -/
theorem moves_pcv_running (pre post : PCV) (ps : List Posting) (h : applyPostings pre ps = .ok post) :
    movesOf post ps = runningMoves pre ps := by
  have hk := hasKeys_of_applyPostings h
  rw [applyPostings_eq hk] at h
  cases h
  rw [movesOf_applyFwd pre ps hk, runningMoves_eq hk]

example : (movesOf [(("a", "USD"), ⟨6, 4⟩), (("b", "USD"), ⟨5, 3⟩)] [⟨"a", "b", 3, "USD"⟩, ⟨"b", "b", 2, "USD"⟩, ⟨"b", "a", 1, "USD"⟩]).toOption.map
    (fun ms => ms.map (fun m => (m.account, m.isSource, m.pcv.input, m.pcv.output))) =
    some [("a", true, 5, 4), ("b", false, 3, 0), ("b", true, 3, 2), ("b", false, 5, 2), ("b", true, 5, 3), ("a", false, 6, 4)] := by
  decide

/-- The stored post-commit volumes of the `i`-th committed transaction hold, for exactly the
    (account, asset) pairs it touches, the fold of transactions `0..i` (commit order). -/
theorem pcv_is_state_after (ops : List StoreOp) (st : Store) (h : runOps ops = .ok st)
    (i : Nat) (hi : i < st.txs.length) (k : Key) :
    (st.txs[i]).pcv.get? k =
      if touches k (st.txs[i]).tx.postings then some (volumesOf (st.txRecs.take (i + 1)) k) else none :=
  (StoreInv_runOps h).pcv i hi k

/-- A commit: the returned post-commit volumes are the pre-volumes of the touched pairs with
    the postings applied in order, and exactly the running moves are appended to `moves`. -/
theorem commit_pcv_and_moves (st st' : Store) (t : TxIn) (h : applyTx st t = .ok st') :
    let pre := preVolumes st.accountsVolumes (volumeUpdates t.postings)
    ∃ post ms, applyPostings pre t.postings = .ok post ∧ runningMoves pre t.postings = .ok ms ∧
      st'.txs.map (·.pcv) = st.txs.map (·.pcv) ++ [post] ∧
      st'.moves.map MoveRow.toMove = st.moves.map MoveRow.toMove ++ ms := by
  intro pre
  have hk := hasKeys_preVolumes st.accountsVolumes t.postings
  refine ⟨applyFwd pre t.postings, fwdMoves pre t.postings, applyPostings_eq hk, runningMoves_eq hk, ?_,
    applyTx_moves t h⟩
  obtain ⟨mv, ac, hok⟩ := applyTx_ok (st := st) t
  rw [hok] at h
  cases h
  simp [returned_eq_applyFwd, pre]

/-- Nothing ever changes stored post-commit volumes: after any further operations the
    transactions' `post_commit_volumes` and the Go-computed columns of `moves` of the
    earlier state are a prefix of the later ones. -/
theorem pcv_never_changes (ops more : List StoreOp) (st st' : Store)
    (h : runOps ops = .ok st) (h' : runOps (ops ++ more) = .ok st') :
    (st.txs.map (·.pcv)) <+: (st'.txs.map (·.pcv)) ∧
    (st.moves.map MoveRow.toMove) <+: (st'.moves.map MoveRow.toMove) := by
  unfold runOps at h h'
  rw [runOpsFrom_append, h] at h'
  exact runOpsFrom_prefix more h'

example : (runOps [.commit { postings := [⟨"world", "a", 10, "USD"⟩], timestamp := 5, insertedAt := 7 },
                   .commit { postings := [⟨"a", "b", 4, "USD"⟩, ⟨"a", "a", 1, "USD"⟩], timestamp := 1, insertedAt := 8 }]).toOption.map
            (fun st => st.txs.map (fun r => r.pcv)) =
          some [[(("a", "USD"), ⟨10, 0⟩), (("world", "USD"), ⟨0, 10⟩)], [(("a", "USD"), ⟨11, 5⟩), (("b", "USD"), ⟨4, 0⟩)]] := by
  decide

/-- Move level, in every reachable store: a move's post-commit volumes are the sum of the
    deltas of all moves of its account/asset up to and including itself in `seq` order — i.e.
    the running volumes over the whole history, not only within its transaction. -/
theorem moves_pcv_running_all_histories (ops : List StoreOp) (st : Store) (h : runOps ops = .ok st) :
    PCV_Inv st.moves := (BigInv_runOps h).pcvInv

end Ledger.C03
