import Ledger.Proofs.MachineTxSem
import Ledger.Proofs.MachineBC16

/-!
C25 — A postings request is recorded exactly as submitted.

`txScript` / `txVars` / `txText` model `TxToScriptData`; text and variables are
compared with the real function's output on every generated case.  The theorems
are about running the generated program with the machine semantics `sem`.
-/
namespace Ledger.C25
open Ledger.Machine

variable {cfg : Cfg}

/-- One generated statement posts exactly its posting (any balances, any state),
    whenever it succeeds. -/
theorem statement_roundtrip (env : Env) (accs : List String) (mons : List (String × Int))
    (force : Bool) (p : TxPosting) (hb : txEnvOK env accs mons [p] = true) (st st' : State)
    (h : evalStmt cfg env (txStmt accs mons force p) st = .ok st') :
    st'.postings = st.postings ++ [p] :=
  txStmt_posts hb st st' h

/-- Running the statements `TxToScriptData` writes for `ps` appends exactly `ps`
    (same order, accounts, assets, amounts, zero amounts included). -/
theorem statements_roundtrip (env : Env) (accs : List String) (mons : List (String × Int))
    (force : Bool) : (ps : List TxPosting) → txEnvOK env accs mons ps = true → (st st' : State) →
    runStmts cfg env (ps.map (txStmt accs mons force)) st = .ok st' → st'.postings = st.postings ++ ps
  | [], _, st, st', h => by simp only [List.map_nil, runStmts] at h; cases h; simp
  | p :: ps, hb, st, st', h => by
    simp only [List.map_cons, runStmts] at h
    split at h
    · cases h
    · rename_i st1 h1
      obtain ⟨hb1, hb2⟩ := txEnvOK_cons hb
      rw [statements_roundtrip env accs mons force ps hb2 st1 st' h,
        statement_roundtrip env accs mons force p hb1 st st1 h1, List.append_assoc]
      rfl

/-- The variables `va{i}` / `vm{j}` of the generated script resolve to the accounts /
    monetaries they were generated for, whenever variable resolution succeeds (string
    formatting / parsing round trip, sorted declarations, distinct names). -/
theorem generated_variables_resolve (ps : List TxPosting) (force : Bool) (inp : Input)
    (hv : inp.vars = txVars ps) (env : Env) (bal : Balances) (pairs : List (String × String))
    (h : prepare cfg (txScript ps force) inp = .ok (env, bal, pairs)) :
    txEnvOK env (txAccounts ps []) (txMons ps []) ps = true :=
  txEnvOK_of_prepare hv h

/-- `postings_roundtrip`: a successful run of the program `TxToScriptData` generates for
    `ps` (with the variables it generates) records exactly `ps` — same order, accounts,
    assets and amounts, zero amounts included.  No side hypothesis. -/
theorem postings_roundtrip (ps : List TxPosting) (force : Bool) (inp : Input)
    (hv : inp.vars = txVars ps) (r : Result)
    (h : sem cfg (txScript ps force) inp = .ok r) : r.postings = ps := by
  obtain ⟨ds, env, bal, pairs, st, _, hp, hst, rfl⟩ := sem_ok_iff h
  have hb := txEnvOK_of_prepare hv hp
  have := statements_roundtrip env (txAccounts ps []) (txMons ps []) force ps hb (initState bal) st
    (by simpa [txScript] using hst)
  simpa [initState] using this

/-- `postings_fail_iff`: once the request is well-formed enough for the variables to
    resolve (`prepare` succeeds: valid accounts and assets, non-negative amounts), the run
    fails with insufficient funds if and only if force is off and applying the postings in
    order takes some non-world source below zero (`applyPostings` = none); otherwise it
    succeeds. In particular it never fails when force is set. -/
theorem postings_fail_iff (ps : List TxPosting) (force : Bool) (inp : Input)
    (hv : inp.vars = txVars ps)
    (hprep : ∃ x, prepare cfg (txScript ps force) inp = .ok x) :
    (sem cfg (txScript ps force) inp = .error (.run "exec" "insufficient") ↔
      (force = false ∧ applyPostings inp.balance ps = none)) ∧
    ((∃ r, sem cfg (txScript ps force) inp = .ok r) ↔
      (force = true ∨ (applyPostings inp.balance ps).isSome)) := by
  obtain ⟨⟨env, bal, pairs⟩, hp⟩ := hprep
  obtain ⟨ds, hds⟩ := txScript_typechecks ps force
  obtain ⟨hok, hnn, hwf, hT⟩ := tx_prepared hv hp
  have hsem : sem cfg (txScript ps force) inp =
      match runStmts cfg env (ps.map (txStmt (txAccounts ps []) (txMons ps []) force)) (initState bal) with
      | .error e => .error e
      | .ok st => .ok { postings := st.postings, txMeta := st.txMeta, accMeta := st.accMeta, final := st } := by
    simp only [sem, hds, hp]
    rfl
  rw [hsem]
  cases force with
  | true =>
    obtain ⟨st', h2⟩ := txRun_force (cfg := cfg) env (txAccounts ps []) (txMons ps []) ps hok hnn (initState bal)
    rw [h2]
    simp
  | false =>
    obtain ⟨T, hinv, hsrc⟩ := hT rfl
    obtain ⟨r1, r2⟩ := txRun_noforce (cfg := cfg) env (txAccounts ps []) (txMons ps []) T ps hok hnn hsrc
      (initState bal) inp.balance hinv
    cases ha : applyPostings inp.balance ps with
    | none =>
      rw [r1 ha]
      simp
    | some b' =>
      obtain ⟨st', h2⟩ := r2 (by simp [ha])
      rw [h2]
      simp

/-- Compiler correctness (`semBytecode_eq_sem_full`) for the program `TxToScriptData`
    writes: the VM model `exec` running its compiled opcodes computes exactly `sem`
    (result or error). -/
theorem generated_program_bytecode_eq_sem (ps : List TxPosting) (force : Bool) (p : Program)
    (hc : compile (txScript ps force) = .ok p) (inp : Input) :
    semBytecode Cfg.fixed (txScript ps force) inp = sem Cfg.fixed (txScript ps force) inp :=
  semBytecode_eq_sem_full hc inp

/-- `postings_roundtrip` at the byte-code level (compiled opcodes run by the VM model). -/
theorem postings_roundtrip_bytecode (ps : List TxPosting) (force : Bool) (p : Program)
    (hc : compile (txScript ps force) = .ok p) (inp : Input)
    (hv : inp.vars = txVars ps) (r : Result)
    (h : semBytecode Cfg.fixed (txScript ps force) inp = .ok r) : r.postings = ps := by
  rw [generated_program_bytecode_eq_sem ps force p hc inp] at h
  exact postings_roundtrip ps force inp hv r h

/-- `postings_fail_iff` at the byte-code level. -/
theorem postings_fail_iff_bytecode (ps : List TxPosting) (force : Bool) (p : Program)
    (hc : compile (txScript ps force) = .ok p) (inp : Input)
    (hv : inp.vars = txVars ps)
    (hprep : ∃ x, prepare Cfg.fixed (txScript ps force) inp = .ok x) :
    (semBytecode Cfg.fixed (txScript ps force) inp = .error (.run "exec" "insufficient") ↔
      (force = false ∧ applyPostings inp.balance ps = none)) ∧
    ((∃ r, semBytecode Cfg.fixed (txScript ps force) inp = .ok r) ↔
      (force = true ∨ (applyPostings inp.balance ps).isSome)) := by
  rw [generated_program_bytecode_eq_sem ps force p hc inp]
  exact postings_fail_iff ps force inp hv hprep

/-! Non-vacuity (kernel-evaluated tests): repeated accounts, a self posting, world on
    either side, a zero amount. -/

def exPostings : List TxPosting :=
  [⟨"world", "a", "USD", 10⟩, ⟨"a", "b", "USD", 4⟩, ⟨"b", "b", "USD", 0⟩, ⟨"a", "world", "USD", 6⟩]

def exInput : Input := { vars := txVars exPostings, balance := fun _ _ => 0, accountMeta := fun _ => none }

example : postingsOf (sem Cfg.fixed (txScript exPostings false) exInput) = some exPostings := by decide +kernel

example : (prepare Cfg.fixed (txScript exPostings false) exInput).toOption.isSome = true := by decide +kernel

example : (applyPostings (fun _ _ => 0) exPostings).isSome = true := by decide +kernel

example : (compile (txScript exPostings false)).toOption.isSome = true := by decide +kernel

example : postingsOf (semBytecode Cfg.fixed (txScript exPostings false) exInput) = some exPostings := by
  decide +kernel

/-- insufficient funds: `a` holds 10 and is asked for 11 -/
example : postingsOf (sem Cfg.fixed (txScript [⟨"world", "a", "USD", 10⟩, ⟨"a", "b", "USD", 11⟩] false)
    { exInput with vars := txVars [⟨"world", "a", "USD", 10⟩, ⟨"a", "b", "USD", 11⟩] }) = none := by
  decide +kernel

end Ledger.C25
