import Ledger.Proofs.MachineTx

/-!
C25 — A postings request is recorded exactly as submitted.

`txScript` / `txVars` / `txText` model `TxToScriptData`; text and variables are
compared with the real function's output on every generated case.  The theorems
are about running the generated program with the machine semantics `sem`.
-/
namespace Ledger.C25
open Ledger.Machine

variable {cfg : Cfg}

/-- One generated statement posts exactly its posting (any balances, any state),
    whenever it succeeds. -/
theorem statement_roundtrip (env : Env) (accs : List String) (mons : List (String × Int))
    (force : Bool) (p : TxPosting) (hb : txEnvOK env accs mons [p] = true) (st st' : State)
    (h : evalStmt cfg env (txStmt accs mons force p) st = .ok st') :
    st'.postings = st.postings ++ [p] := by
  simp only [txEnvOK, Bool.and_true, Bool.and_eq_true, Bool.or_eq_true, decide_eq_true_eq] at hb
  obtain ⟨⟨hm, hs⟩, hd⟩ := hb
  have hmon : evalExpr env (.var (monVar (indexOfMon mons p.asset p.amount))) =
      .ok (.monetary p.asset (some p.amount)) := by
    split at hm
    · rename_i a v heq
      simp only [Bool.and_eq_true, decide_eq_true_eq] at hm
      rw [heq, hm.1, hm.2]
    · cases hm
  have hdst : evalExpr env (if p.destination = "world" then Expr.acct "world"
      else .var (accVar (indexOfStr accs p.destination))) = .ok (.account p.destination) := by
    by_cases hw : p.destination = "world"
    · simp [hw, evalExpr]
    · simp only [hw, if_false]
      rcases hd with hd | hd
      · exact absurd hd hw
      · split at hd
        · rename_i a heq
          simp only [decide_eq_true_eq] at hd
          rw [heq, hd]
        · cases hd
  have hdst' : (if p.destination = "world" then Dest.account (.acct "world")
      else Dest.account (.var (accVar (indexOfStr accs p.destination)))) =
      Dest.account (if p.destination = "world" then Expr.acct "world"
        else .var (accVar (indexOfStr accs p.destination))) := by
    split <;> rfl
  simp only [txStmt, hdst'] at h
  by_cases hw : p.source = "world"
  · simp only [hw, if_true] at h
    refine txStmt_unbounded (srcE := .acct "world") ⟨hmon, rfl, ?_, hdst⟩ (Or.inr ⟨rfl, by simp [Expr.isWorld]⟩) st st' h
    simp [evalExpr, hw]
  · simp only [hw, if_false] at h
    have hsrc : evalExpr env (.var (accVar (indexOfStr accs p.source))) = .ok (.account p.source) := by
      rcases hs with hs | hs
      · exact absurd hs hw
      · split at hs
        · rename_i a heq
          simp only [decide_eq_true_eq] at hs
          rw [heq, hs]
        · cases hs
    cases force with
    | true =>
      simp only [if_true] at h
      exact txStmt_unbounded ⟨hmon, rfl, hsrc, hdst⟩ (Or.inl rfl) st st' h
    | false =>
      simp only [Bool.false_eq_true, if_false] at h
      exact txStmt_bounded ⟨hmon, rfl, hsrc, hdst⟩ (by simp [Expr.isWorld]) st st' h

/-- Running the statements `TxToScriptData` writes for `ps` appends exactly `ps`
    (same order, accounts, assets, amounts, zero amounts included). -/
theorem statements_roundtrip (env : Env) (accs : List String) (mons : List (String × Int))
    (force : Bool) : (ps : List TxPosting) → txEnvOK env accs mons ps = true → (st st' : State) →
    runStmts cfg env (ps.map (txStmt accs mons force)) st = .ok st' → st'.postings = st.postings ++ ps
  | [], _, st, st', h => by simp only [List.map_nil, runStmts] at h; cases h; simp
  | p :: ps, hb, st, st', h => by
    simp only [List.map_cons, runStmts] at h
    split at h
    · cases h
    · rename_i st1 h1
      have hb1 : txEnvOK env accs mons [p] = true := by
        simp only [txEnvOK, Bool.and_eq_true] at hb ⊢
        exact ⟨hb.1, trivial⟩
      have hb2 : txEnvOK env accs mons ps = true := by
        simp only [txEnvOK, Bool.and_eq_true] at hb
        exact hb.2
      rw [statements_roundtrip env accs mons force ps hb2 st1 st' h,
        statement_roundtrip env accs mons force p hb1 st st1 h1, List.append_assoc]
      rfl

/-- `postings_roundtrip`: a successful run of the program generated for `ps` records
    exactly `ps`.  Hypothesis `txEnvOK`: the variables `va{i}` / `vm{j}` resolve to the
    accounts / monetaries they were generated for (a decidable fact about string
    formatting and parsing, evaluated on every generated case; not proved in general). -/
theorem postings_roundtrip (ps : List TxPosting) (force : Bool) (inp : Input) (r : Result)
    (h : sem cfg (txScript ps force) inp = .ok r) (env : Env)
    (henv : resolvedEnv cfg (txScript ps force) inp = some env)
    (hb : txEnvOK env (txAccounts ps []) (txMons ps []) ps = true) : r.postings = ps := by
  obtain ⟨ds, env', bal, pairs, st, _, hp, hst, rfl⟩ := sem_ok_iff h
  simp only [resolvedEnv, hp, Option.some.injEq] at henv
  subst henv
  have := statements_roundtrip env' (txAccounts ps []) (txMons ps []) force ps hb (initState bal) st
    (by simpa [txScript] using hst)
  simpa [initState] using this

/-! Non-vacuity (kernel-evaluated tests): repeated accounts, a self posting, world on
    either side, a zero amount. -/

def exPostings : List TxPosting :=
  [⟨"world", "a", "USD", 10⟩, ⟨"a", "b", "USD", 4⟩, ⟨"b", "b", "USD", 0⟩, ⟨"a", "world", "USD", 6⟩]

def exInput : Input := { vars := txVars exPostings, balance := fun _ _ => 0, accountMeta := fun _ => none }

example : postingsOf (sem Cfg.fixed (txScript exPostings false) exInput) = some exPostings := by decide +kernel

example : (match resolvedEnv Cfg.fixed (txScript exPostings false) exInput with
    | some env => txEnvOK env (txAccounts exPostings []) (txMons exPostings []) exPostings
    | none => false) = true := by decide +kernel

example : (applyPostings (fun _ _ => 0) exPostings).isSome = true := by decide +kernel

/-- insufficient funds: `a` holds 10 and is asked for 11 -/
example : postingsOf (sem Cfg.fixed (txScript [⟨"world", "a", "USD", 10⟩, ⟨"a", "b", "USD", 11⟩] false)
    { exInput with vars := txVars [⟨"world", "a", "USD", 10⟩, ⟨"a", "b", "USD", 11⟩] }) = none := by
  decide +kernel

end Ledger.C25
