import Ledger.Proofs.ApiDecode
import Ledger.Api.ErrTable

/-!
C38 — Malformed client input yields a client error and no effect.

Only property theorems and non-vacuity examples.  Models: `Ledger/Api/*.lean`
(request decoders as total functions into `ok | clientError | fault`, `fault` = Go
panic or 5xx), `Ledger/Generated/ErrTable.lean` (regenerated from the source by
`tools/t3_errtable` on every check).  Each model is tied to the real decoders /
router by the `vars`, `txbody`, `cursor` and `http` correspondence workloads.

Since the `fix:` commits 5483107 (v1 `Script.ToCore`), 2262951 (cursors), 8f6c072
(`HandleCommonErrors`, v1 revert / count) and 99c51f7 (logs import) no modelled
decoder faults and every (handler, client error) pair of the specification
resolves to a 4xx: all theorems are stated in full, without exclusions.
-/
namespace Ledger.C38
open Ledger.Api Ledger.Api.ErrTable Ledger.Generated.ErrTable

/-! ### Script variables -/

/-- v2 / bulk (`ScriptV1.ToCore`): no JSON value of `vars` makes the decoder fault. -/
theorem decodeVarsV2_never_faults (vars : Option JVal) (m : String) : decodeVarsV2 vars ≠ .fault m :=
  Res.ofDec_ne_fault _ _

/-- v1 (`Script.ToCore`): no JSON value of `vars` makes the decoder fault (a number,
    boolean or array variable is answered 400 VALIDATION; before 5483107 it panicked). -/
theorem decodeVarsV1_never_faults (vars : Option JVal) (m : String) : decodeVarsV1 vars ≠ .fault m :=
  decodeVarsV1_ne_fault vars m

/-- The former panic input is a plain client error. -/
theorem decodeVarsV1_number_variable :
    decodeVarsV1 (some (.obj [("x", JVal.int 1)])) = .clientError "VALIDATION" := by
  simp [decodeVarsV1, mapOfList, mapInsert, varsV1Loop, combineV1, varV1, JVal.int, v1NonStringScalar]

/-- The machine side (`NewValueFromString`, `ParseVariablesJSON`) never faults. -/
theorem setVars_never_faults (decl : List (String × VarType)) (vars : VarMap) (m : String) :
    Res.ofDec (setVars decl vars) ≠ .fault m :=
  Res.ofDec_ne_fault _ _

/-! ### Request bodies -/

theorem createV2_never_faults (parseTime : String → Option String) (queryForce : Bool) (body : JVal)
    (m : String) : createV2 parseTime queryForce body ≠ .fault m :=
  createV2_ne_fault parseTime queryForce body m

theorem createV1_never_faults (parseTime : String → Option String) (body : JVal) (m : String) :
    createV1 parseTime body ≠ .fault m :=
  createV1_ne_fault parseTime body m

theorem revertBodyV2_never_faults (body : Option JVal) (m : String) : revertBodyV2 body ≠ .fault m :=
  revertBodyV2_ne_fault body m

theorem metadataBody_never_faults (body : JVal) (m : String) : metadataBody body ≠ .fault m :=
  metadataBody_ne_fault body m

/-- Bulk elements: the outcome type has no fault; a rejected element is never a
    controller call. -/
theorem bulkElement_total (parseTime : String → Option String) (el : JVal) :
    bulkElement parseTime el = .decodeError ∨ bulkElement parseTime el = .elementError ∨
      ∃ ik c, bulkElement parseTime el = .call ik c := by
  cases h : bulkElement parseTime el with
  | decodeError => simp
  | elementError => simp
  | call ik c => exact Or.inr (Or.inr ⟨ik, c, rfl⟩)

/-! ### Cursors and query parameters -/

/-- `UnmarshalCursor`: every cursor — not base64, not JSON, JSON `null`, any JSON
    value with any members — is answered without a fault. -/
theorem decodeCursor_never_faults (filtersOk : Bool) (v : Option JVal) (m : String) :
    decodeCursor filtersOk v ≠ .fault m :=
  decodeCursor_ne_fault filtersOk v m

/-- The cursor `null` (`?cursor=bnVsbA`), which used to panic, is a client error. -/
theorem decodeCursor_null (filtersOk : Bool) :
    decodeCursor filtersOk (some .null) = .clientError "invalid cursor" := rfl

theorem pageSizeParam_never_faults (dflt max : Nat) (s m : String) : pageSizeParam dflt max s ≠ .fault m :=
  pageSizeParam_ne_fault dflt max s m

theorem dateParam_never_faults (parseTime : String → Option String) (s m : String) :
    dateParam parseTime s ≠ .fault m :=
  dateParam_ne_fault parseTime s m

theorem txIdParam_never_faults (s m : String) : txIdParam s ≠ .fault m := txIdParam_ne_fault s m

/-! ### Error → status tables (regenerated from the source) -/

/-- A case body either answers with a 4xx status or hands over to another handler
    (`other`: v1 `getAccount` turns "not found" into an empty account, 200). -/
def actIs4xxOrDelegates : Action → Bool
  | .status c _ => 400 ≤ c && c < 500
  | _ => true

/-- Every `case errors.Is(err, E)` of every handler answers a client error type `E`
    with a 4xx (or delegates). -/
theorem clientError_is_4xx :
    ∀ e ∈ entries, e.err ∈ clientErrors → actIs4xxOrDelegates e.act = true := by
  decide +kernel

/-- Every (handler, typed client error) pair of the specification is answered with a
    4xx, following the delegation chain of the table regenerated from the source. -/
theorem handlers_answer_client_errors_4xx :
    ∀ p ∈ canReturn, is4xx (statusOf p.1 p.2) = true := by
  decide +kernel

/-- Non-vacuity: a concrete well-formed v2 request decodes to a controller call. -/
example : (createV2 (fun _ => none) false
    (.obj [("postings", .arr [.obj [("source", .str "world"), ("destination", .str "bank"),
      ("amount", JVal.int 100), ("asset", .str "USD/2")]])])).isOk = true := by
  decide +kernel

example : statusOf F.«v2.createTransaction» E.ErrIdempotencyKeyConflict = 409 := by decide +kernel
example : statusOf F.«v1.listTransactions@direct» E.ErrInvalidQuery = 400 := by decide +kernel

end Ledger.C38
