import Ledger.Proofs.E2eMulti

/-!
# C19 (end-to-end leg) — ledgers are isolated, including within a shared bucket

Multi-ledger version of the controller-level model (`Ledger.E2e.MState`: ledger ↦
`Ledger.Ctrl.State`) and the storage driver's alone-in-bucket hint (`Ledger.E2e.DriverState`).

LEVEL: these theorems are about the controller-level model, in which every operation rewrites
one component by construction. That every SQL statement of the real store is keyed by its
ledger, and that reads are scoped (or the hint is right), is covered by the `multiledger`
correspondence workload over the MODELLED Postgres (LeanPG) and by `Ledger.Props.C19gates`
(rendered read shapes). Only theorems and examples here.
-/
namespace Ledger.C19e
open Ledger.Ctrl Ledger.E2e

/-- A write on ledger `l` — successful, failing, dry-run, or hit by any plan of faults at store calls and / or
    at COMMIT — leaves every other ledger's state (tables and sequences) untouched. -/
theorem write_on_l_preserves_others (strict : Bool) (m : MState) (l l' : String) (op : Op)
    (f : Faults) (cf : Bool) (h : l' ≠ l) :
    (stepM strict m l op f cf).1.ledgers l' = m.ledgers l' :=
  stepM_other strict m l l' op f cf h

/-- Every ledger of an interleaved history is in the state its OWN sub-history, run alone on the
    single-ledger model, reaches (so every read of `l` — a fold of `l`'s state — sees only `l`'s
    entities, whatever names, references, idempotency keys and ids the other ledgers use). -/
theorem history_projects_per_ledger (strict : Bool) (m : MState) (h : List (String × Op)) (l : String) :
    (runM strict m h).ledgers l = runHist strict (m.ledgers l) (opsOf l h) :=
  runM_project strict m h l

/-- After any sequence of ledger creations and openings through the driver, the shared hint of
    every bucket says `alone` exactly when the bucket holds one ledger. -/
theorem aloneInBucket_correct (ops : List DriverOp) (b : String) (v : Bool)
    (h : (driverRun {} ops).flags.get? b = some v) :
    v = decide ((driverRun {} ops).count b = 1) :=
  driverRun_hints {} ops hints_empty b v h

/-- One step: a creation in bucket `b` sets `b`'s hint from the new count and keeps every other
    bucket's hint correct. -/
theorem aloneInBucket_step (d : DriverState) (op : DriverOp) (h : d.HintsCorrect) : (driverStep d op).HintsCorrect :=
  driverStep_hints d op h

/-! ### non-vacuity -/

def opA : Op := { kind := .createP { reference := "r1" } [⟨"world", "bank", 100, "USD/2"⟩] false, now := 10, ik := "ik-1", ihash := "h1" }
def opB : Op := { kind := .createP { reference := "r1" } [⟨"world", "bank", 7, "USD/2"⟩] false, now := 11, ik := "ik-1", ihash := "h2" }

/-- two ledgers, the same account names, reference, idempotency key and transaction id 1: each keeps its own amounts -/
example :
    let m := runM false ⟨fun _ => {}⟩ [("l1", opA), ("l2", opB), ("l1", opB)]
    (m.ledgers "l1").db.txs.length = 1 ∧ (m.ledgers "l2").db.txs.length = 1 ∧
    (m.ledgers "l1").db.volumes.get? ("bank", "USD/2") = some ⟨100, 0⟩ ∧
    (m.ledgers "l2").db.volumes.get? ("bank", "USD/2") = some ⟨7, 0⟩ ∧
    (m.ledgers "l3") = {} := by
  decide +kernel

/-- the hint flips when a second ledger joins the bucket, and the alone one keeps `true` -/
example :
    (driverRun {} [.create "l1" "b"]).flags.get? "b" = some true ∧
    (driverRun {} [.create "l1" "b", .create "l2" "b"]).flags.get? "b" = some false ∧
    (driverRun {} [.create "l1" "b", .create "l2" "b", .create "l4" "c", .openLedger "l1"]).flags = [("b", false), ("c", true)] := by
  decide +kernel

end Ledger.C19e
