import Ledger.Proofs.ReadsSqlRun

/-!
C35 / C05 (read gates, bridge to the regenerated read SQL) — BOUNDED obligations (see
`Props/C05q.lean`): `Ledger.Generated.ReadSql.gates` is the table, captured by translator
`t1_readsql` from the REAL store, of which read shapes the code rejects before rendering any SQL
under the feature sets default / metadata-history off / effective volumes off / MOVES_HISTORY off.
-/
namespace Ledger.C35q
open Ledger.Reads.SqlRun Ledger.Generated

set_option maxRecDepth 100000

/-- **Feature gates**: for every captured read shape and each of the feature sets default /
    metadata-history off / effective volumes off / MOVES_HISTORY off, the real code rejects the call
    (missing-feature / invalid-query) before rendering any SQL exactly when `Ledger.Reads` says so
    (e.g. every PIT / OOT volumes window without MOVES_HISTORY — also with a start time only). -/
theorem read_gates_match_model : gatesAgree ReadSql.gates = true := by decide +kernel

/-- the table is complete: 18 shapes × 4 feature sets -/
theorem read_gates_complete : ReadSql.gates.length = 72 := by decide +kernel

end Ledger.C35q
