import Ledger.Proofs.CoreReads

/-!
C01 — Double-entry conservation per asset.

Model: `Core.volumeUpdates` (hand-written from `Transaction.VolumeUpdates`, tied by the
`volupd` / `histfold` differential workloads); the abstract store `Spec.applyTx`
(hand-written image of the `accounts_volumes` upsert — NOT yet tied to the rendered SQL);
the Spec folds `volumesAt` / `balanceAt`.
-/
namespace Ledger.C01
open Ledger.Base Ledger.Core Ledger.Spec

/-- Per asset, the inputs and the outputs of `VolumeUpdates` both sum to the total
    of the posted amounts (any postings: self-postings, repeated pairs, any sign). -/
theorem sum_volumeUpdates (ps : List Posting) (s : String) :
    inputsIn s (volumeUpdates ps) = assetTotal s ps ∧ outputsIn s (volumeUpdates ps) = assetTotal s ps :=
  ⟨inputsIn_volumeUpdates s ps, outputsIn_volumeUpdates s ps⟩

example : inputsIn "USD" (volumeUpdates [⟨"world", "a", 10, "USD"⟩, ⟨"a", "a", 3, "USD"⟩, ⟨"a", "b", 4, "EUR"⟩]) = 13 := by
  decide

/-- No sequence of store operations (commits with arbitrary postings and timestamps,
    balance locks, reverted marks) ever fails. -/
theorem store_total (ops : List StoreOp) : ∃ st, runOps ops = .ok st := runOpsFrom_total ops {}

/-- After any sequence of store operations from the empty store, the balances
    (`input − output`) of the `accounts_volumes` rows of each asset sum to zero. -/
theorem conservation_current (ops : List StoreOp) (st : Store) (h : runOps ops = .ok st) (s : String) :
    netIn s st.accountsVolumes = 0 := (StoreInv_runOps h).net s

example : (runOps [.commit { postings := [⟨"world", "a", 10, "USD"⟩, ⟨"a", "b", 4, "USD"⟩], timestamp := 5, insertedAt := 7 },
                   .lock [("c", "USD")],
                   .commit { postings := [⟨"b", "b", 2, "USD"⟩], timestamp := 1, insertedAt := 8 }]).toOption.map
            (fun st => (st.accountsVolumes.length, netIn "USD" st.accountsVolumes)) = some (4, 0) := by
  decide

/-- At any point in time / window and for both date semantics: per asset, the balances of
    any duplicate-free list of accounts covering the history's accounts sum to zero. -/
theorem conservation_pit (txs : List TxRec) (w : Window) (mode : DateMode) (s : String)
    (accts : List String) (hn : accts.Nodup)
    (hc : ∀ p ∈ allPostings txs, p.source ∈ accts ∧ p.destination ∈ accts) :
    sumOver accts (fun a => balanceAt txs w mode (a, s)) = 0 := by
  unfold balanceAt volumesAt volumesOf txsIn
  exact sum_balances_postings s _ accts hn (fun p hp => hc p (mem_allPostings_filter hp))

example : sumOver ["a", "b", "world"] (fun a => balanceAt
    [{ id := 1, postings := [⟨"world", "a", 10, "USD"⟩], timestamp := 5, insertedAt := 7 },
     { id := 2, postings := [⟨"a", "b", 4, "USD"⟩], timestamp := 1, insertedAt := 8 }]
    { oot := some 2, pit := some 6 } .effective (a, "USD")) = 0 := by decide

example : balanceAt
    [{ id := 1, postings := [⟨"world", "a", 10, "USD"⟩], timestamp := 5, insertedAt := 7 },
     { id := 2, postings := [⟨"a", "b", 4, "USD"⟩], timestamp := 1, insertedAt := 8 }]
    { oot := some 2, pit := some 6 } .effective ("a", "USD") = 10 := by decide

/-- Aggregated balances (empty filter, no point in time: `sum(input), sum(output)` of the
    `accounts_volumes` rows grouped by asset — `Spec.aggregatedVolumes`, a hand-written image
    of the query): every asset row has input = output, i.e. balance zero. -/
theorem conservation_aggregated (ops : List StoreOp) (st : Store) (h : runOps ops = .ok st) (s : String)
    (v : Volumes) (hv : (aggregatedVolumes st.accountsVolumes).get? s = some v) : v.balance = 0 := by
  have := aggregated_balanced h s v hv
  simp only [Volumes.balance]; omega

/-- Aggregated balances at a point in time / window (sum over a duplicate-free account list
    covering the history): balance zero per asset, both date modes. -/
theorem conservation_aggregated_pit (txs : List TxRec) (w : Window) (mode : DateMode) (s : String)
    (accts : List String) (hn : accts.Nodup)
    (hc : ∀ p ∈ allPostings txs, p.source ∈ accts ∧ p.destination ∈ accts) :
    (aggregatedAt txs w mode accts s).balance = 0 := by
  unfold aggregatedAt
  rw [foldl_add_volumesAt, conservation_pit txs w mode s accts hn hc]
  rfl

example : (runOps [.commit { postings := [⟨"world", "a", 10, "USD"⟩, ⟨"a", "b", 4, "EUR"⟩], timestamp := 5, insertedAt := 7 }]).toOption.map
    (fun st => aggregatedVolumes st.accountsVolumes) = some [("EUR", ⟨4, 4⟩), ("USD", ⟨10, 10⟩)] := by decide

end Ledger.C01
