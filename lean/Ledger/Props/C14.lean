import Ledger.Proofs.CtrlIk
import Ledger.Proofs.CtrlExamples

/-!
# C14 — Transaction references are unique per ledger (controller layer, sequential)

One ledger's tables; the per-ledger scoping of the index and the concurrent form
are the SQL layer's concern.
-/
namespace Ledger.C14
open Ledger.Ctrl Ledger.Core Ledger.Ctrl.Examples

/-- After any history no two transactions carry the same non-empty reference. -/
theorem reference_unique (strict : Bool) (ops : List Op) :
    (runHist strict {} ops).db.txs.Pairwise (fun a b => b.reference = "" ∨ a.reference ≠ b.reference) :=
  (runHist_inv strict {} ops Inv.empty).refUnique

/-- The store refuses a transaction whose non-empty reference is taken
    (`transactions_reference` → ErrTransactionReferenceConflict) … -/
theorem store_refuses_duplicate_reference (now : Time) (t : TxIn) (d : Db) (sq : Seqs)
    (hr : t.reference ≠ "") (hdup : ∃ x ∈ d.txs, x.reference = t.reference)
    (hid : ∀ x ∈ d.txs, x.id ≠ (match t.id with | some i => i | none => sq.tx + 1)) :
    (commitTransaction now t d sq).2 = .error .referenceConflict := by
  unfold commitTransaction
  obtain ⟨x, hx, hxe⟩ := hdup
  have h1 : ¬ (d.txs.any (fun y => decide (y.id = (match t.id with | some i => i | none => sq.tx + 1))) = true) := by
    simp only [List.any_eq_true, decide_eq_true_eq, not_exists, not_and]
    exact fun y hy => hid y hy
  have h2 : t.reference ≠ "" ∧ (d.txs.any (fun y => decide (y.reference = t.reference)) = true) :=
    ⟨hr, by simp only [List.any_eq_true, decide_eq_true_eq]; exact ⟨x, hx, hxe⟩⟩
  cases hl : t.id <;> simp only [hl] at h1 ⊢ <;> rw [if_neg h1, if_pos h2]

/-- … and whatever the controller does around it, a failed write changes nothing
    (C07), so the conflicting create leaves no trace. -/
theorem conflicting_create_no_effect (strict : Bool) (s : State) (op : Op)
    (h : (step strict s op).2.err = some (.store .referenceConflict)) : (step strict s op).1.db = s.db := by
  unfold step at *
  rcases forgeLog_ending strict op [] false s with ⟨hu, _, _⟩ | ⟨_, st, log, _, _, _, _, _, _, _, hc⟩
  · exact hu
  · exfalso
    simp only at h
    rw [hc.2] at h
    cases h

/-! non-vacuity -/
example : (step false s1 payRef).2.isError = false := by decide
example : (step false (step false s1 payRef).1 { payRef with now := 40 }).2.err = some (.store .referenceConflict) := by
  decide +kernel

end Ledger.C14
