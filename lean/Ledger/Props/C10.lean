import Ledger.Proofs.LogHashMain

/-!
C10 — SQL and Go log hashing agree on every input.

`sqlPreimage log prev` : the bytes the GENERATED final `set_log_hash()` (folded from
the migrations by tools/t2_loghash) hands to `public.digest(…,'sha256')` for the row
`InsertLog` sends, under the PostgreSQL semantics of Ledger/Log/PgEval.lean.
`goPreimage log prev`  : the bytes `Log.ComputeHash(previous)` writes into SHA-256
(Ledger/Log/Model.lean, tied byte-exactly to the real function by the `gohash`
workload).  Hashes themselves are opaque: equal preimages ⇒ equal hashes; different
preimages ⇒ different hashes unless SHA-256 collides.

The property as stated ("for every log content") is FALSE on the unchanged tree:
`hash_preimages_agree_all_false` and the `…_counterexample_*` theorems exhibit one
concrete log per mismatch class.  What holds for ALL inputs is
`hash_preimages_agree_safe`.  Only theorems and their non-vacuity examples here.
-/
namespace Ledger.C10
open Ledger.Log

/-- For every payload whatsoever (quotes, backslashes, HTML-special, non-ASCII and
    control characters in references, metadata keys/values, addresses … included),
    every previous hash shorter than 57 bytes, and every log whose idempotency key is
    `safeText` (well-formed UTF-8, non-ASCII allowed, ASCII printable other than
    `" \ < > &`, no U+2028/U+2029), whose schema version is empty, whose date is UTC
    with whole microseconds and year 1..9999 and whose `Hash` field is still nil:
    PostgreSQL and Go hash exactly the same bytes.  (Both sides are `Except`: a nil
    reverted-transaction id makes `GetMemento` panic before any SQL, on both.) -/
theorem hash_preimages_agree_safe (log : Log) (prev : PrevHash)
    (h : SafeChars bunTags.dateNullZero log prev = true) :
    sqlPreimage log prev = goPreimage log prev :=
  preimages_agree_safe log prev h

/-- non-vacuity: a `SafeChars` log with a non-ASCII idempotency key, a payload full of
    quotes / backslashes / `<>&` / control and non-ASCII characters, and a previous hash
    containing 0x00, 0xff, `\` and `"`; both sides succeed. -/
example : SafeChars bunTags.dateNullZero { wLog b!"clé-é-日本" [] with payload := wNastyPayload } wPrev = true ∧
    (sqlPreimage { wLog b!"clé-é-日本" [] with payload := wNastyPayload } wPrev).toBool = true := by
  decide +kernel

/-- The memento is never a source of disagreement: `encode(memento,'escape')` followed
    by the `text → bytea` cast of `set_log_hash` gives back the memento bytes, for
    every byte string (zero bytes, high-bit bytes, backslashes included). -/
theorem memento_escape_roundtrip (m : Bytes) : byteaInAux .normal (escEncode m) = .ok m := by
  have h := byteaInAux_escEncode m []
  simpa [byteaInAux, prependOk] using h

/-- The full statement (no hypothesis) is false. -/
theorem hash_preimages_agree_all_false : ¬ ∀ (log : Log) (prev : PrevHash), sqlPreimage log prev = goPreimage log prev := by
  intro h
  exact absurd (h (wLog b!"a\"b" []) none) (by decide +kernel)

/-- `"` in the idempotency key: Go writes `\"`, the SQL concatenates the raw key. -/
theorem hash_preimages_agree_counterexample_quote :
    sqlPreimage (wLog b!"a\"b" []) none ≠ goPreimage (wLog b!"a\"b" []) none := by decide +kernel

/-- a single `\` in the idempotency key: the SQL's `marshalledAsJSON::bytea` fails
    (`invalid input syntax for type bytea`) — the INSERT of the log is rejected —
    while `ComputeHash` succeeds. -/
theorem hash_preimages_agree_counterexample_backslash :
    sqlPreimage (wLog b!"a\\b" []) none = .error .invalidByteaInput ∧
    (goPreimage (wLog b!"a\\b" []) none).toBool = true := by decide +kernel

/-- `\\` (two backslashes) in the idempotency key: the `bytea` cast turns them into one,
    Go writes four. -/
theorem hash_preimages_agree_counterexample_backslash_pair :
    (sqlPreimage (wLog b!"a\\\\b" []) none).toBool = true ∧
    sqlPreimage (wLog b!"a\\\\b" []) none ≠ goPreimage (wLog b!"a\\\\b" []) none := by decide +kernel

/-- `<` (likewise `>`, `&`): Go writes backslash-u-003c, the SQL the raw character. -/
theorem hash_preimages_agree_counterexample_html :
    sqlPreimage (wLog b!"a<b" []) none ≠ goPreimage (wLog b!"a<b" []) none := by decide +kernel

/-- a control character (TAB): Go writes `\t`, the SQL the raw byte. -/
theorem hash_preimages_agree_counterexample_control :
    sqlPreimage (wLog b!"a\tb" []) none ≠ goPreimage (wLog b!"a\tb" []) none := by decide +kernel

/-- U+2028: Go writes the escape backslash-u-2028, the SQL the raw three bytes. -/
theorem hash_preimages_agree_counterexample_linesep :
    sqlPreimage (wLog [0x61, 0xe2, 0x80, 0xa8] []) none ≠ goPreimage (wLog [0x61, 0xe2, 0x80, 0xa8] []) none := by
  decide +kernel

/-- ill-formed UTF-8: PostgreSQL rejects the value, Go writes the escape backslash-u-fffd. -/
theorem hash_preimages_agree_counterexample_invalid_utf8 :
    sqlPreimage (wLog [0x61, 0xff] []) none = .error (.invalidText "idempotency_key") ∧
    (goPreimage (wLog [0x61, 0xff] []) none).toBool = true := by decide +kernel

/-- Non-ASCII text is NOT a counterexample (well-formed UTF-8 is copied by both sides);
    it is covered by `hash_preimages_agree_safe`.  Kept as an explicit fact because the
    design expected a mismatch here. -/
theorem hash_preimages_agree_nonascii_ok (log : Log) (prev : PrevHash)
    (h : SafeChars bunTags.dateNullZero { log with idempotencyKey := b!"é日本" } prev = true) :
    sqlPreimage { log with idempotencyKey := b!"é日本" } prev = goPreimage { log with idempotencyKey := b!"é日本" } prev :=
  preimages_agree_safe _ prev h

/-- any non-empty schema version: the final `set_log_hash` (migration 37) never reads
    `schema_version`; `ComputeHash` appends `,"schemaVersion":"v1"`. -/
theorem hash_preimages_agree_counterexample_schema_version :
    sqlPreimage (wLog b!"ik" b!"v1") none ≠ goPreimage (wLog b!"ik" b!"v1") none := by decide +kernel

/-- a non-UTC `time.Time`: the `timestamp` column drops the zone, the SQL prints `Z`. -/
theorem hash_preimages_agree_counterexample_date_zone :
    sqlPreimage (wLogAt { wDate with zone := 120 }) none ≠ goPreimage (wLogAt { wDate with zone := 120 }) none := by
  decide +kernel

/-- nanoseconds: the column keeps microseconds, Go prints all nine digits. -/
theorem hash_preimages_agree_counterexample_date_submicro :
    sqlPreimage (wLogAt { wDate with nano := 123456789 }) none ≠ goPreimage (wLogAt { wDate with nano := 123456789 }) none := by
  decide +kernel

/-- `ComputeHash` on a log whose `Hash` is already set includes it; the SQL writes `null`. -/
theorem hash_preimages_agree_counterexample_hash_preset :
    sqlPreimage { wLog b!"ik" [] with hash := some [1, 2, 3] } none ≠ goPreimage { wLog b!"ik" [] with hash := some [1, 2, 3] } none := by
  decide +kernel

/-- a 57-byte "previous hash": PostgreSQL's base64 inserts a newline after 76 characters. -/
theorem hash_preimages_agree_counterexample_prev_long :
    sqlPreimage (wLog b!"ik" []) (some (List.replicate 57 0x41)) ≠ goPreimage (wLog b!"ik" []) (some (List.replicate 57 0x41)) := by
  decide +kernel

end Ledger.C10
