import Ledger.Proofs.SqlReadsWindowStmt
import Ledger.Proofs.CoreReads

/-!
C05b — the window-volumes read (point in time / out of time), SQL leg, GENERAL statements.

`volumesResourceHandler.BuildDataset` renders, for a PIT / OOT query, the dataset
`SELECT asset, accounts_address AS account, sum(CASE WHEN NOT is_source THEN amount ELSE 0 END) AS input,
 sum(CASE WHEN is_source THEN amount ELSE 0 END) AS output, sum(CASE WHEN NOT is_source THEN amount ELSE -amount END) AS balance
 FROM moves WHERE ledger = … [AND <date> <= pit] [AND <date> >= oot] GROUP BY accounts_address, asset ORDER BY accounts_address, asset`.
`Ledger.Generated.ReadSql` (translator `t1_readsql`) holds the statements the real store renders; `window_dataset_shape_*`: each of
the six window statements IS `paginateVolumes (winQuery b (winWhere l <date column> <pit> <oot>))` — the dataset above inside the
pagination wrapper of the volumes resource.

`windowVolumes_sem`: the dataset (`winQuery`), evaluated by LeanPG (`Ledger.Sql.evalQuery`, the MODEL of PostgreSQL) in ANY state whose
`moves` table holds well-typed rows (`MvView`), for ANY ledger, window and date mode, ANY other ledgers in the bucket: one row per
(account, asset) that has a move of the ledger in the window, sorted strictly by (account, asset), each carrying
`Ledger.Spec.movesWindowVolumes` (input, output, input − output).
`windowVolumes_eq_fold`: composed with builder-core's `movesWindowVolumes_eq_fold` — when the ledger's moves are those of a store
reached by `runOps`, the rows carry `Spec.volumesAt` (the fold of the committed postings whose date lies in the window).

Hypotheses, explicit in the statements: solo transaction (`TxState`); the bound literals parse to the window's bounds (`tsParse`; the
Go driver's rendering of the time is the translator's business); typed rows. NOT covered here: the pagination wrapper
(`DISTINCT ON (account, asset) … ORDER BY account LIMIT 101`, CTE) and the filter / address-segment variants of the dataset — those stay
with the kernel-evaluated scenarios of `Props/C05q*.lean`.
-/
namespace Ledger.C05b
open Ledger Ledger.Sql Ledger.Generated Ledger.Core Ledger.Base Ledger.Spec

theorem window_dataset_shape_effPit (b l pit : String) :
    ReadSql.volumesEffPit b l pit = [paginateVolumes (winQuery b (winWhere l (dateCol .effective) (some pit) none))] :=
  volumesEffPit_shape b l pit
theorem window_dataset_shape_effOot (b l oot : String) :
    ReadSql.volumesEffOot b l oot = [paginateVolumes (winQuery b (winWhere l (dateCol .effective) none (some oot)))] :=
  volumesEffOot_shape b l oot
theorem window_dataset_shape_effPitOot (b l pit oot : String) :
    ReadSql.volumesEffPitOot b l pit oot = [paginateVolumes (winQuery b (winWhere l (dateCol .effective) (some pit) (some oot)))] :=
  volumesEffPitOot_shape b l pit oot
theorem window_dataset_shape_insPit (b l pit : String) :
    ReadSql.volumesInsPit b l pit = [paginateVolumes (winQuery b (winWhere l (dateCol .insertion) (some pit) none))] :=
  volumesInsPit_shape b l pit
theorem window_dataset_shape_insOot (b l oot : String) :
    ReadSql.volumesInsOot b l oot = [paginateVolumes (winQuery b (winWhere l (dateCol .insertion) none (some oot)))] :=
  volumesInsOot_shape b l oot
theorem window_dataset_shape_insPitOot (b l pit oot : String) :
    ReadSql.volumesInsPitOot b l pit oot = [paginateVolumes (winQuery b (winWhere l (dateCol .insertion) (some pit) (some oot)))] :=
  volumesInsPitOot_shape b l pit oot

/-- **The window dataset on any `moves` table = `Spec.movesWindowVolumes`.** -/
theorem windowVolumes_sem (q : Nat) (env : Env) (b l : String) (hb : b.isEmpty = false) (mode : DateMode) (pitT ootT : Option (String × Int))
    (hp : ∀ x, pitT = some x → tsParse x.1 = .ok x.2) (ho : ∀ x, ootT = some x → tsParse x.1 = .ok x.2)
    (s : St) (hs : TxState s) (trigs : List TriggerDef) (nr : Nat) (rows : List Ver)
    (hT : s.w.table? (mvFull b) = some ((mvT b trigs nr).withRows rows))
    (tbl : List (String × MoveRow)) (hview : MvView (cv s) rows tbl)
    (T : List MoveRow) (hTp : T.Perm (ledgerMoves l tbl)) :
    ∃ (keys : List Key) (tie : Bool),
      (evalQuery (q + 6) env (winQuery b (winWhere l (dateCol mode) (pitT.map Prod.fst) (ootT.map Prod.fst)))).exec s =
        (.ok { cols := ["asset", "account", "input", "output", "balance"],
               rows := keys.map (fun k => winRow k (movesWindowVolumes T (Window.mk (ootT.map Prod.snd) (pitT.map Prod.snd)) mode k)) },
          s.tie tie) ∧
      keys.Nodup ∧
      (∀ k, k ∈ keys ↔ ∃ m ∈ T, m.key = k ∧ (Window.mk (ootT.map Prod.snd) (pitT.map Prod.snd)).contains (m.date mode) = true) ∧
      keys.Pairwise (fun a c => KeyOrd.lt c a = false) :=
  exec_winQuery q env b l hb mode pitT ootT hp ho s hs trigs nr rows hT tbl hview T hTp

/-- **… = the fold of the history**: when the ledger's rows are the moves of a store reached by `runOps`. -/
theorem windowVolumes_eq_fold (ops : List StoreOp) (st : Store) (hrun : runOps ops = .ok st)
    (q : Nat) (env : Env) (b l : String) (hb : b.isEmpty = false) (mode : DateMode) (pitT ootT : Option (String × Int))
    (hp : ∀ x, pitT = some x → tsParse x.1 = .ok x.2) (ho : ∀ x, ootT = some x → tsParse x.1 = .ok x.2)
    (s : St) (hs : TxState s) (trigs : List TriggerDef) (nr : Nat) (rows : List Ver)
    (hT : s.w.table? (mvFull b) = some ((mvT b trigs nr).withRows rows))
    (tbl : List (String × MoveRow)) (hview : MvView (cv s) rows tbl) (hTp : st.moves.Perm (ledgerMoves l tbl)) :
    ∃ (keys : List Key) (tie : Bool),
      (evalQuery (q + 6) env (winQuery b (winWhere l (dateCol mode) (pitT.map Prod.fst) (ootT.map Prod.fst)))).exec s =
        (.ok { cols := ["asset", "account", "input", "output", "balance"],
               rows := keys.map (fun k => winRow k (volumesAt st.txRecs (Window.mk (ootT.map Prod.snd) (pitT.map Prod.snd)) mode k)) },
          s.tie tie) ∧
      keys.Nodup ∧
      (∀ k, k ∈ keys ↔ ∃ m ∈ st.moves, m.key = k ∧ (Window.mk (ootT.map Prod.snd) (pitT.map Prod.snd)).contains (m.date mode) = true) ∧
      keys.Pairwise (fun a c => KeyOrd.lt c a = false) := by
  obtain ⟨keys, tie, h1, h2, h3, h4⟩ := exec_winQuery q env b l hb mode pitT ootT hp ho s hs trigs nr rows hT tbl hview st.moves hTp
  refine ⟨keys, tie, ?_, h2, h3, h4⟩
  rw [h1]
  congr 3
  apply List.map_congr_left
  intro k _
  rw [movesWindowVolumes_eq_fold hrun]

end Ledger.C05b
