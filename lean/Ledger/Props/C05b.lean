import Ledger.Proofs.SqlReadsWindowStmt
import Ledger.Proofs.SqlReadsFirstStmt
import Ledger.Proofs.CoreReads
import Ledger.Proofs.CoreInsPcv

/-!
C05b — the window-volumes read (point in time / out of time), SQL leg, GENERAL statements.

`volumesResourceHandler.BuildDataset` renders, for a PIT / OOT query, the dataset
`SELECT asset, accounts_address AS account, sum(CASE WHEN NOT is_source THEN amount ELSE 0 END) AS input,
 sum(CASE WHEN is_source THEN amount ELSE 0 END) AS output, sum(CASE WHEN NOT is_source THEN amount ELSE -amount END) AS balance
 FROM moves WHERE ledger = … [AND <date> <= pit] [AND <date> >= oot] GROUP BY accounts_address, asset ORDER BY accounts_address, asset`.
`Ledger.Generated.ReadSql` (translator `t1_readsql`) holds the statements the real store renders; `window_dataset_shape_*`: each of
the six window statements IS `paginateVolumes (winQuery b (winWhere l <date column> <pit> <oot>))` — the dataset above inside the
pagination wrapper of the volumes resource.

`windowVolumes_sem`: the dataset (`winQuery`), evaluated by LeanPG (`Ledger.Sql.evalQuery`, the MODEL of PostgreSQL) in ANY state whose
`moves` table holds well-typed rows (`MvView`), for ANY ledger, window and date mode, ANY other ledgers in the bucket: one row per
(account, asset) that has a move of the ledger in the window, sorted strictly by (account, asset), each carrying
`Ledger.Spec.movesWindowVolumes` (input, output, input − output).
`windowVolumes_eq_fold`: composed with builder-core's `movesWindowVolumes_eq_fold` — when the ledger's moves are those of a store
reached by `runOps`, the rows carry `Spec.volumesAt` (the fold of the committed postings whose date lies in the window).

Second dataset — `SELECT DISTINCT ON (accounts_address, asset) accounts_address, asset, first_value(post_commit_effective_volumes)
OVER (PARTITION BY (accounts_address, asset) ORDER BY effective_date DESC, seq DESC) AS volumes FROM moves WHERE ledger = … AND
effective_date <= pit` (insertion mode: `post_commit_volumes`, `ORDER BY seq DESC`, `insertion_date <= pit`), the dataset of
GetAggregatedBalances(PIT) (`firstValue_dataset_shape_*`: the regenerated statements are `aggregateWrap (fvQuery …)`).
`firstValue_sem`: evaluated by LeanPG on ANY table of well-typed rows with distinct sequence numbers: one row per (account, asset) with
a move of the ledger dated at or before `pit`, sorted strictly by (account, asset), carrying `Spec.effectiveVolumesAt` /
`Spec.insertionVolumesAt` (`volumesAtPit`) — the window function, its partition / ORDER BY and the DISTINCT ON (sort by the keys, keep
the first row of every key) all run by LeanPG's `evalSelect`. `firstValue_eq_fold_effective` / `_insertion`: composed with
builder-core's `effectiveVolumesAt_eq_window` + `movesWindowVolumes_eq_fold` / `insertionVolumesAt_eq_fold` — the rows carry `Spec.volumesAt`
for the moves of a store reached by `runOps` (insertion mode: under monotone insertion dates, as in C05store).

Hypotheses, explicit in the statements: solo transaction (`TxState`); the bound literals parse to the window's bounds (`tsParse`; the
Go driver's rendering of the time is the translator's business); typed rows. NOT covered here: the aggregation wrapper of GetAggregatedBalances (sum per asset, `aggregate_objects`), the account-expansion variants of the
second dataset (extra `accounts_address IN (SELECT address FROM dataset)`), the pagination wrapper
(`DISTINCT ON (account, asset) … ORDER BY account LIMIT 101`, CTE) and the filter / address-segment variants of the dataset — those stay
with the kernel-evaluated scenarios of `Props/C05q*.lean`.
-/
namespace Ledger.C05b
open Ledger Ledger.Sql Ledger.Generated Ledger.Core Ledger.Base Ledger.Spec

theorem window_dataset_shape_effPit (b l pit : String) :
    ReadSql.volumesEffPit b l pit = [paginateVolumes (winQuery b (winWhere l (dateCol .effective) (some pit) none))] :=
  volumesEffPit_shape b l pit
theorem window_dataset_shape_effOot (b l oot : String) :
    ReadSql.volumesEffOot b l oot = [paginateVolumes (winQuery b (winWhere l (dateCol .effective) none (some oot)))] :=
  volumesEffOot_shape b l oot
theorem window_dataset_shape_effPitOot (b l pit oot : String) :
    ReadSql.volumesEffPitOot b l pit oot = [paginateVolumes (winQuery b (winWhere l (dateCol .effective) (some pit) (some oot)))] :=
  volumesEffPitOot_shape b l pit oot
theorem window_dataset_shape_insPit (b l pit : String) :
    ReadSql.volumesInsPit b l pit = [paginateVolumes (winQuery b (winWhere l (dateCol .insertion) (some pit) none))] :=
  volumesInsPit_shape b l pit
theorem window_dataset_shape_insOot (b l oot : String) :
    ReadSql.volumesInsOot b l oot = [paginateVolumes (winQuery b (winWhere l (dateCol .insertion) none (some oot)))] :=
  volumesInsOot_shape b l oot
theorem window_dataset_shape_insPitOot (b l pit oot : String) :
    ReadSql.volumesInsPitOot b l pit oot = [paginateVolumes (winQuery b (winWhere l (dateCol .insertion) (some pit) (some oot)))] :=
  volumesInsPitOot_shape b l pit oot

/-- **The window dataset on any `moves` table = `Spec.movesWindowVolumes`.** -/
theorem windowVolumes_sem (q : Nat) (env : Env) (b l : String) (hb : b.isEmpty = false) (mode : DateMode) (pitT ootT : Option (String × Int))
    (hp : ∀ x, pitT = some x → tsParse x.1 = .ok x.2) (ho : ∀ x, ootT = some x → tsParse x.1 = .ok x.2)
    (s : St) (hs : TxState s) (trigs : List TriggerDef) (nr : Nat) (rows : List Ver)
    (hT : s.w.table? (mvFull b) = some ((mvT b trigs nr).withRows rows))
    (tbl : List (String × MoveRow)) (hview : MvView (cv s) rows tbl)
    (T : List MoveRow) (hTp : T.Perm (ledgerMoves l tbl)) :
    ∃ (keys : List Key) (tie : Bool),
      (evalQuery (q + 6) env (winQuery b (winWhere l (dateCol mode) (pitT.map Prod.fst) (ootT.map Prod.fst)))).exec s =
        (.ok { cols := ["asset", "account", "input", "output", "balance"],
               rows := keys.map (fun k => winRow k (movesWindowVolumes T (Window.mk (ootT.map Prod.snd) (pitT.map Prod.snd)) mode k)) },
          s.tie tie) ∧
      keys.Nodup ∧
      (∀ k, k ∈ keys ↔ ∃ m ∈ T, m.key = k ∧ (Window.mk (ootT.map Prod.snd) (pitT.map Prod.snd)).contains (m.date mode) = true) ∧
      keys.Pairwise (fun a c => KeyOrd.lt c a = false) :=
  exec_winQuery q env b l hb mode pitT ootT hp ho s hs trigs nr rows hT tbl hview T hTp

/-- **… = the fold of the history**: when the ledger's rows are the moves of a store reached by `runOps`. -/
theorem windowVolumes_eq_fold (ops : List StoreOp) (st : Store) (hrun : runOps ops = .ok st)
    (q : Nat) (env : Env) (b l : String) (hb : b.isEmpty = false) (mode : DateMode) (pitT ootT : Option (String × Int))
    (hp : ∀ x, pitT = some x → tsParse x.1 = .ok x.2) (ho : ∀ x, ootT = some x → tsParse x.1 = .ok x.2)
    (s : St) (hs : TxState s) (trigs : List TriggerDef) (nr : Nat) (rows : List Ver)
    (hT : s.w.table? (mvFull b) = some ((mvT b trigs nr).withRows rows))
    (tbl : List (String × MoveRow)) (hview : MvView (cv s) rows tbl) (hTp : st.moves.Perm (ledgerMoves l tbl)) :
    ∃ (keys : List Key) (tie : Bool),
      (evalQuery (q + 6) env (winQuery b (winWhere l (dateCol mode) (pitT.map Prod.fst) (ootT.map Prod.fst)))).exec s =
        (.ok { cols := ["asset", "account", "input", "output", "balance"],
               rows := keys.map (fun k => winRow k (volumesAt st.txRecs (Window.mk (ootT.map Prod.snd) (pitT.map Prod.snd)) mode k)) },
          s.tie tie) ∧
      keys.Nodup ∧
      (∀ k, k ∈ keys ↔ ∃ m ∈ st.moves, m.key = k ∧ (Window.mk (ootT.map Prod.snd) (pitT.map Prod.snd)).contains (m.date mode) = true) ∧
      keys.Pairwise (fun a c => KeyOrd.lt c a = false) := by
  obtain ⟨keys, tie, h1, h2, h3, h4⟩ := exec_winQuery q env b l hb mode pitT ootT hp ho s hs trigs nr rows hT tbl hview st.moves hTp
  refine ⟨keys, tie, ?_, h2, h3, h4⟩
  rw [h1]
  congr 3
  apply List.map_congr_left
  intro k _
  rw [movesWindowVolumes_eq_fold hrun]

/-! ### `first_value(post_commit_[effective_]volumes)` -/

theorem firstValue_dataset_shape_effective (b l pit : String) :
    ReadSql.aggregatedEffPit b l pit = [aggregateWrap (fvQuery b (winWhere l (dateCol .effective) (some pit) none) 2 .effective)] :=
  aggregatedEffPit_shape b l pit

theorem firstValue_dataset_shape_insertion (b l pit : String) :
    ReadSql.aggregatedInsPit b l pit = [aggregateWrap (fvQuery b (winWhere l (dateCol .insertion) (some pit) none) 2 .insertion)] :=
  aggregatedInsPit_shape b l pit

/-- **The `first_value` dataset on any `moves` table = the volumes of the latest move at or before `pit`.** -/
theorem firstValue_sem (q : Nat) (env : Env) (b l : String) (hb : b.isEmpty = false) (mode : DateMode) (id : Nat) (pitT : String × Int)
    (hp : tsParse pitT.1 = .ok pitT.2)
    (s : St) (hs : TxState s) (trigs : List TriggerDef) (nr : Nat) (rows : List Ver)
    (hT : s.w.table? (mvFull b) = some ((mvT b trigs nr).withRows rows))
    (tbl : List (String × MoveRow)) (hview : MvView (cv s) rows tbl) (hseq : (tbl.map (·.2.seq)).Nodup)
    (T : List MoveRow) (hTp : T.Perm (ledgerMoves l tbl)) :
    ∃ (keys : List Key),
      (evalQuery (q + 6) env (fvQuery b (winWhere l (dateCol mode) (some pitT.1) none) id mode)).exec s =
        (.ok { cols := ["accounts_address", "asset", "volumes"],
               rows := keys.map (fun k => [.text k.1, .text k.2, volVal (volumesAtPit mode T k pitT.2)]) }, s) ∧
      keys.Nodup ∧
      (∀ k, k ∈ keys ↔ ∃ m ∈ T, m.key = k ∧ m.date mode ≤ pitT.2) ∧
      keys.Pairwise (fun a c => KeyOrd.lt c a = false) :=
  exec_fvQuery q env b l hb mode id pitT hp s hs trigs nr rows hT tbl hview hseq T hTp

/-- what `volumesAtPit` is, per mode -/
theorem volumesAtPit_effective (T : List MoveRow) (k : Key) (pit : Int) : volumesAtPit .effective T k pit = effectiveVolumesAt T k pit := rfl
theorem volumesAtPit_insertion (T : List MoveRow) (k : Key) (pit : Int) : volumesAtPit .insertion T k pit = insertionVolumesAt T k pit := rfl

/-- **… = the fold of the history (effective dates)**, for the moves of a store reached by `runOps`. -/
theorem firstValue_eq_fold_effective (ops : List StoreOp) (st : Store) (hrun : runOps ops = .ok st)
    (q : Nat) (env : Env) (b l : String) (hb : b.isEmpty = false) (id : Nat) (pitT : String × Int) (hp : tsParse pitT.1 = .ok pitT.2)
    (s : St) (hs : TxState s) (trigs : List TriggerDef) (nr : Nat) (rows : List Ver)
    (hT : s.w.table? (mvFull b) = some ((mvT b trigs nr).withRows rows))
    (tbl : List (String × MoveRow)) (hview : MvView (cv s) rows tbl) (hseq : (tbl.map (·.2.seq)).Nodup)
    (hTp : st.moves.Perm (ledgerMoves l tbl)) :
    ∃ (keys : List Key),
      (evalQuery (q + 6) env (fvQuery b (winWhere l (dateCol .effective) (some pitT.1) none) id .effective)).exec s =
        (.ok { cols := ["accounts_address", "asset", "volumes"],
               rows := keys.map (fun k => [.text k.1, .text k.2, volVal (volumesAt st.txRecs { pit := some pitT.2 } .effective k)]) }, s) ∧
      keys.Nodup ∧
      (∀ k, k ∈ keys ↔ ∃ m ∈ st.moves, m.key = k ∧ m.date .effective ≤ pitT.2) ∧
      keys.Pairwise (fun a c => KeyOrd.lt c a = false) := by
  obtain ⟨keys, h1, h2, h3, h4⟩ := exec_fvQuery q env b l hb .effective id pitT hp s hs trigs nr rows hT tbl hview hseq st.moves hTp
  refine ⟨keys, ?_, h2, h3, h4⟩
  rw [h1]
  congr 3
  apply List.map_congr_left
  intro k _
  rw [volumesAtPit_effective, effectiveVolumesAt_eq_window (MovesInv_runOpsFrom ops MovesInv_empty hrun).pcev, movesWindowVolumes_eq_fold hrun]

/-- **… = the fold of the history (insertion dates)**, for a store reached by `runOps` whose insertion dates never decrease. -/
theorem firstValue_eq_fold_insertion (ops : List StoreOp) (st : Store) (hrun : runOps ops = .ok st)
    (hmono : st.txRecs.Pairwise (fun a b => a.insertedAt ≤ b.insertedAt))
    (q : Nat) (env : Env) (b l : String) (hb : b.isEmpty = false) (id : Nat) (pitT : String × Int) (hp : tsParse pitT.1 = .ok pitT.2)
    (s : St) (hs : TxState s) (trigs : List TriggerDef) (nr : Nat) (rows : List Ver)
    (hT : s.w.table? (mvFull b) = some ((mvT b trigs nr).withRows rows))
    (tbl : List (String × MoveRow)) (hview : MvView (cv s) rows tbl) (hseq : (tbl.map (·.2.seq)).Nodup)
    (hTp : st.moves.Perm (ledgerMoves l tbl)) :
    ∃ (keys : List Key),
      (evalQuery (q + 6) env (fvQuery b (winWhere l (dateCol .insertion) (some pitT.1) none) id .insertion)).exec s =
        (.ok { cols := ["accounts_address", "asset", "volumes"],
               rows := keys.map (fun k => [.text k.1, .text k.2, volVal (volumesAt st.txRecs { pit := some pitT.2 } .insertion k)]) }, s) ∧
      keys.Nodup ∧
      (∀ k, k ∈ keys ↔ ∃ m ∈ st.moves, m.key = k ∧ m.date .insertion ≤ pitT.2) ∧
      keys.Pairwise (fun a c => KeyOrd.lt c a = false) := by
  obtain ⟨keys, h1, h2, h3, h4⟩ := exec_fvQuery q env b l hb .insertion id pitT hp s hs trigs nr rows hT tbl hview hseq st.moves hTp
  refine ⟨keys, ?_, h2, h3, h4⟩
  rw [h1]
  congr 3
  apply List.map_congr_left
  intro k _
  rw [volumesAtPit_insertion, insertionVolumesAt_eq_fold hrun hmono]

end Ledger.C05b
