import Ledger.Proofs.CtrlImport
import Ledger.Proofs.CtrlExamples

/-!
# C08 — The log is a complete, ordered journal (controller layer, sequential)

`step` = one write through `forgeLog`; `runHist` = a sequential history.
`replay` = `Export` (logs in id order) followed by `Import` / `importLog` into an
empty ledger.  The full replay statement is FALSE on the unchanged code (two
counterexamples below); what holds is stated as `…_partial`.
-/
namespace Ledger.C08
open Ledger.Ctrl Ledger.Core Ledger.Ctrl.Examples

/-- A successful, non-dry-run, non-idempotent write appends exactly one log: the
    one it answers, carrying the request's key, hash, schema version and clock. -/
theorem one_log_per_successful_write (strict : Bool) (s : State) (op : Op)
    (he : (step strict s op).2.isError = false) (hh : (step strict s op).2.hit = false) (hd : op.dry = false) :
    ∃ log, (step strict s op).2.log = some log ∧ (step strict s op).1.db.logs = s.db.logs ++ [log] ∧
      log.ik = op.ik ∧ log.ihash = op.ihash ∧ log.schemaVersion = op.sv ∧ log.date = op.now :=
  step_committed_appended strict s op he hh hd

/-- A failed, dry-run or idempotent write appends none (and rewrites none). -/
theorem no_log_otherwise (strict : Bool) (s : State) (op : Op)
    (h : (step strict s op).2.isError = true ∨ (step strict s op).2.hit = true ∨ op.dry = true) :
    (step strict s op).1.db.logs = s.db.logs :=
  step_not_committed_logs strict s op h

/-- The journal is append-only: every operation leaves the existing logs in place. -/
theorem journal_append_only (strict : Bool) (s : State) (op : Op) :
    ∃ suffix, (step strict s op).1.db.logs = s.db.logs ++ suffix ∧ suffix.length ≤ 1 := by
  by_cases he : (step strict s op).2.isError = true
  · exact ⟨[], by rw [no_log_otherwise strict s op (Or.inl he)]; simp, Nat.zero_le _⟩
  · by_cases hh : (step strict s op).2.hit = true
    · exact ⟨[], by rw [no_log_otherwise strict s op (Or.inr (Or.inl hh))]; simp, Nat.zero_le _⟩
    · by_cases hd : op.dry = true
      · exact ⟨[], by rw [no_log_otherwise strict s op (Or.inr (Or.inr hd))]; simp, Nat.zero_le _⟩
      · obtain ⟨log, _, hl, _⟩ := one_log_per_successful_write strict s op
          (by simpa using he) (by simpa using hh) (by simpa using hd)
        exact ⟨[log], hl, Nat.le_refl _⟩

/-- Log ids strictly increase in commit order (sequential histories), whatever
    fails in between. -/
theorem log_ids_increase (strict : Bool) (ops : List Op) :
    (runHist strict {} ops).db.logs.Pairwise (fun a b => a.id < b.id) :=
  (runHist_inv strict {} ops Inv.empty).logSorted

/-- `replay_reproduces` is FALSE: an account first created by a metadata save under a
    schema gets the chart's default metadata live, not on replay. -/
theorem replay_reproduces_counterexample :
    (replay (runHist true {} histDefaults)).2 = none ∧
    (replay (runHist true {} histDefaults)).1.db ≠ (runHist true {} histDefaults).db := by decide +kernel

/-- `replay_reproduces` is FALSE, second way: replaying a metadata save lowers the
    first usage of an account whose (future-dated) first usage is later than the save. -/
theorem replay_reproduces_counterexample_dates :
    (replay (runHist true {} histDates)).2 = none ∧
    (replay (runHist true {} histDates)).1.db ≠ (runHist true {} histDates).db := by decide +kernel

/-- What holds for the one divergent payload (account SET_METADATA): the replayed
    row equals the live row when the account exists with a first usage not after
    the save … -/
theorem replay_reproduces_partial (w : Time) (accounts : Ledger.Base.Map String Account) (a : String)
    (m defaults : Meta) (acc : Account) (hex : accounts.get? a = some acc) (hfu : acc.firstUsage ≤ w) :
    upsertAccount w accounts { address := a, metadata := m, defaults := defaults } =
    updateAccountMeta w accounts (a, m) :=
  savedMeta_paths_agree_existing w accounts a m defaults acc hex hfu

/-- … or when it is new and the chart gives it no default metadata. -/
theorem replay_reproduces_partial_new (w : Time) (accounts : Ledger.Base.Map String Account) (a : String) (m : Meta)
    (hnew : accounts.get? a = none) :
    upsertAccount w accounts { address := a, metadata := m, defaults := [] } = updateAccountMeta w accounts (a, m) :=
  savedMeta_paths_agree_new w accounts a m hnew

/-! non-vacuity -/
example : (step false s1 (pay false)).2.isError = false ∧ (step false s1 (pay false)).1.db.logs.length = 2 := by decide
example : (step false s1 overdraw).2.isError = true := by decide
-- a replay that does reproduce: no metadata-created account
example : (replay (runHist false {} [{ kind := .createP {} [⟨"world", "bank", 100, "USD"⟩] false, now := 10 }, pay false])).1.db =
    (runHist false {} [{ kind := .createP {} [⟨"world", "bank", 100, "USD"⟩] false, now := 10 }, pay false]).db := by
  decide +kernel

end Ledger.C08
