import Ledger.Proofs.CtrlImport
import Ledger.Proofs.CtrlReplayHist
import Ledger.Proofs.CtrlExamples

/-!
# C08 — The log is a complete, ordered journal (controller layer, sequential)

`step` = one write through `forgeLog`; `runHist` = a sequential history.
`replay` = `Export` (logs in id order) followed by `Import` / `importLog` into an
empty ledger.  The unconditional replay statement is FALSE on the unchanged code
(three counterexamples below, one per way in which `importLog` differs from the live
write path); `replay_reproduces` proves it for ALL histories and ALL log kinds under
the decidable hypothesis `replaySafe` (`Ledger/Ctrl/Replay.lean`), which excludes
exactly those three.  `accounts_volumes` is compared as values (`Db.norm`: `(0,0)`
rows dropped on both sides — a zero row equals the empty fold, DESIGN §3.0); every
other table is compared row for row.
-/
namespace Ledger.C08
open Ledger.Ctrl Ledger.Core Ledger.Ctrl.Examples

/-- A successful, non-dry-run, non-idempotent write appends exactly one log: the
    one it answers, carrying the request's key, hash, schema version and clock. -/
theorem one_log_per_successful_write (strict : Bool) (s : State) (op : Op)
    (he : (step strict s op).2.isError = false) (hh : (step strict s op).2.hit = false) (hd : op.dry = false) :
    ∃ log, (step strict s op).2.log = some log ∧ (step strict s op).1.db.logs = s.db.logs ++ [log] ∧
      log.ik = op.ik ∧ log.ihash = op.ihash ∧ log.schemaVersion = op.sv ∧ log.date = op.now :=
  step_committed_appended strict s op he hh hd

/-- A failed, dry-run or idempotent write appends none (and rewrites none). -/
theorem no_log_otherwise (strict : Bool) (s : State) (op : Op)
    (h : (step strict s op).2.isError = true ∨ (step strict s op).2.hit = true ∨ op.dry = true) :
    (step strict s op).1.db.logs = s.db.logs :=
  step_not_committed_logs strict s op h

/-- The journal is append-only: every operation leaves the existing logs in place. -/
theorem journal_append_only (strict : Bool) (s : State) (op : Op) :
    ∃ suffix, (step strict s op).1.db.logs = s.db.logs ++ suffix ∧ suffix.length ≤ 1 := by
  by_cases he : (step strict s op).2.isError = true
  · exact ⟨[], by rw [no_log_otherwise strict s op (Or.inl he)]; simp, Nat.zero_le _⟩
  · by_cases hh : (step strict s op).2.hit = true
    · exact ⟨[], by rw [no_log_otherwise strict s op (Or.inr (Or.inl hh))]; simp, Nat.zero_le _⟩
    · by_cases hd : op.dry = true
      · exact ⟨[], by rw [no_log_otherwise strict s op (Or.inr (Or.inr hd))]; simp, Nat.zero_le _⟩
      · obtain ⟨log, _, hl, _⟩ := one_log_per_successful_write strict s op
          (by simpa using he) (by simpa using hh) (by simpa using hd)
        exact ⟨[log], hl, Nat.le_refl _⟩

/-- Log ids strictly increase in commit order (sequential histories), whatever
    fails in between. -/
theorem log_ids_increase (strict : Bool) (ops : List Op) :
    (runHist strict {} ops).db.logs.Pairwise (fun a b => a.id < b.id) :=
  (runHist_inv strict {} ops Inv.empty).logSorted

/-- **Replay reproduces the ledger.**  For every sequential history (failing, dry-run
    and idempotent operations included) whose committed logs are all `logSafe`
    (`replaySafe`, decidable: `Ledger/Ctrl/Replay.lean`), exporting the journal and
    importing it into an empty ledger — at ANY import clock `now'` — succeeds and
    yields the same tables: transactions (ids, dates, post-commit volumes,
    reverted-at), accounts (metadata and the three dates), schemas and logs are EQUAL;
    `accounts_volumes` is equal up to `(0,0)` rows (`Db.norm` drops them on both sides).
    By induction over the history; per log kind, `importLog` on the tables the write
    started from is shown to produce the tables the write ended with
    (`Ledger/Proofs/CtrlReplay.lean`). -/
theorem replay_reproduces (strict : Bool) (now' : Time) (ops : List Op) (hsafe : replaySafe strict {} ops = true) :
    (importLogs now' {} (exportLogs (runHist strict {} ops))).2 = none ∧
    (importLogs now' {} (exportLogs (runHist strict {} ops))).1.db.norm = (runHist strict {} ops).db.norm :=
  replay_reproduces_safe strict now' ops hsafe

/-- Table by table: everything but `accounts_volumes` is equal outright, and the
    copy's volumes are the source's minus possibly some `(0,0)` rows (`VolRel`: every
    row of the copy is a row of the source, and a row only the source has is `(0,0)`). -/
theorem replay_reproduces_tables (strict : Bool) (now' : Time) (ops : List Op) (hsafe : replaySafe strict {} ops = true) :
    let c := (importLogs now' {} (exportLogs (runHist strict {} ops))).1.db
    let d := (runHist strict {} ops).db
    c.txs = d.txs ∧ c.accounts = d.accounts ∧ c.logs = d.logs ∧ c.schemas = d.schemas ∧ VolRel d.volumes c.volumes :=
  Ledger.Ctrl.replay_reproduces_tables strict now' ops hsafe

/-- The same for one committed write, from ANY tables: `importLog` of the log it
    produced, run on the tables it started from (volumes `vR` = the live ones up to
    zero rows), ends with the tables it ended with (volumes again up to zero rows). -/
theorem replay_reproduces_step (now now' : Time) (hn : String) (f : Faults) (strict : Bool) (kind : OpKind)
    (ik ihash sv : String) (n : Nat) (st0 st : RunSt) (log : Log) (sqR : Seqs) (vR : PCV)
    (h : run now hn f (runLog strict kind ik ihash sv n) st0 = (.ok log, st))
    (hv : VolRel st0.db.volumes vR) (hsafe : logSafe st0.db log = true) :
    ∃ vR', eval now' (importLog log) (st0.db.withVol vR) sqR = some ((), st.db.withVol vR', sqR) ∧
      VolRel st.db.volumes vR' :=
  runLog_replay now now' hn f strict kind ik ihash sv n st0 st log sqR vR h hv hsafe

/-- Without `replaySafe` the statement is FALSE (1): an account first created by a
    metadata save under a schema gets the chart's default metadata live, not on replay. -/
theorem replay_reproduces_counterexample :
    (replay (runHist true {} histDefaults)).2 = none ∧
    (replay (runHist true {} histDefaults)).1.db ≠ (runHist true {} histDefaults).db := by decide +kernel

/-- FALSE (2): replaying a metadata save lowers the first usage of an account whose
    (future-dated) first usage is later than the save. -/
theorem replay_reproduces_counterexample_dates :
    (replay (runHist true {} histDates)).2 = none ∧
    (replay (runHist true {} histDates)).1.db ≠ (runHist true {} histDates).db := by decide +kernel

/-- FALSE (3): replaying an account `DELETE_METADATA` stamps `updated_at` with the
    import's clock (here 0), the live ledger has the delete's date. -/
theorem replay_reproduces_counterexample_restamp :
    (replay (runHist false {} histRestamp)).2 = none ∧
    (replay (runHist false {} histRestamp)).1.db ≠ (runHist false {} histRestamp).db := by decide +kernel

/-- `replaySafe` rejects each of the three witnesses (it excludes nothing else: see
    `logSafe`), and accepts a history with every kind of write, failing operations,
    an idempotency key and a revert, as well as the locked-zero-row history below. -/
theorem replaySafe_exact_on_witnesses :
    replaySafe true {} histDefaults = false ∧ replaySafe true {} histDates = false ∧
    replaySafe false {} histRestamp = false ∧
    replaySafe true {} histSafe = true ∧ replaySafe false {} histLocked = true := by decide +kernel

/-- What holds for the one divergent payload (account SET_METADATA): the replayed
    row equals the live row when the account exists with a first usage not after
    the save … -/
theorem replay_reproduces_partial (w : Time) (accounts : Ledger.Base.Map String Account) (a : String)
    (m defaults : Meta) (acc : Account) (hex : accounts.get? a = some acc) (hfu : acc.firstUsage ≤ w) :
    upsertAccount w accounts { address := a, metadata := m, defaults := defaults } =
    updateAccountMeta w accounts (a, m) :=
  savedMeta_paths_agree_existing w accounts a m defaults acc hex hfu

/-- … or when it is new and the chart gives it no default metadata. -/
theorem replay_reproduces_partial_new (w : Time) (accounts : Ledger.Base.Map String Account) (a : String) (m : Meta)
    (hnew : accounts.get? a = none) :
    upsertAccount w accounts { address := a, metadata := m, defaults := [] } = updateAccountMeta w accounts (a, m) :=
  savedMeta_paths_agree_new w accounts a m hnew

/-! non-vacuity -/
example : (step false s1 (pay false)).2.isError = false ∧ (step false s1 (pay false)).1.db.logs.length = 2 := by decide
example : (step false s1 overdraw).2.isError = true := by decide
-- `replay_reproduces` instantiated (all seven payload kinds in the journal)
example : (importLogs 0 {} (exportLogs (runHist true {} histSafe))).1.db.norm = (runHist true {} histSafe).db.norm :=
  (replay_reproduces true 0 histSafe (by decide +kernel)).2
-- Remark (NOT a violation): a Numscript run that locks the balance of an account it
-- then does not use (`GetBalances`: `INSERT (0,0) … ON CONFLICT DO NOTHING`) leaves a
-- `(0,0)` `accounts_volumes` row in the live ledger which the replay never creates:
-- the raw tables differ by that row, the values (`Db.norm`) do not.
example : (replay (runHist false {} histLocked)).1.db.volumes ≠ (runHist false {} histLocked).db.volumes ∧
    (replay (runHist false {} histLocked)).1.db.norm = (runHist false {} histLocked).db.norm := by decide +kernel
example : (runHist true {} histSafe).db.logs.length = 8 := by decide +kernel
-- a replay that does reproduce: no metadata-created account
example : (replay (runHist false {} [{ kind := .createP {} [⟨"world", "bank", 100, "USD"⟩] false, now := 10 }, pay false])).1.db =
    (runHist false {} [{ kind := .createP {} [⟨"world", "bank", 100, "USD"⟩] false, now := 10 }, pay false]).db := by
  decide +kernel

end Ledger.C08
