import Ledger.Proofs.SqlRunAccounts

/-!
C15bMeta — BOUNDED REGRESSION OBLIGATIONS for the transaction-metadata statements
(`UpdateTransactionMetadata`, `DeleteTransactionMetadata`, regenerated in
`Ledger.Generated.WriteSql.P`): kernel evaluation under LeanPG on a concrete scenario; finite facts, not
general theorems.
-/
namespace Ledger.C15bMeta
open Ledger Ledger.Sql Ledger.Generated Ledger.Generated.WriteSql Ledger.Sql.Run

/-- Transaction metadata: `UpdateTransactionMetadata` merges (`modified` only when something changes),
    `DeleteTransactionMetadata` removes a key (`modified` only when the key was there). -/
example : (let r := run w1 (on 1 (mkTx 1 10 "{\"k\":\"v\"}" ++
      P.updateTransactionMetadataAt "_default" "ledger0" 7 1 "{\"a\":\"b\"}" (tsText 40) ++
      P.updateTransactionMetadataAt "_default" "ledger0" 7 1 "{\"a\":\"b\"}" (tsText 41) ++
      P.deleteTransactionMetadataAt "_default" "ledger0" 7 1 "k" (tsText 50) ++
      P.deleteTransactionMetadataAt "_default" "ledger0" 7 1 "nokey" (tsText 51)))
    (txsAbs r.1 "_default" "ledger0", lastCols (r.2.drop 1))) =
    ([(1, none, [("a", "b")])], [["true"], ["false"], ["true"], ["false"]]) := by
  decide +kernel

end Ledger.C15bMeta
