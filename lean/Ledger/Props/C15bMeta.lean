import Ledger.Proofs.SqlRunAccounts
import Ledger.Proofs.SqlTxStmts

/-!
C15bMeta — the transaction-metadata statements (`UpdateTransactionMetadata`, `DeleteTransactionMetadata`,
regenerated in `Ledger.Generated.WriteSql.P`).

* PROVED in general: the UPDATE inside each statement's CTE, for any contents of `transactions` satisfying
  `TxTblState` (no UPDATE trigger on the table): `umG`/`umF` — rows with `id = txid ∧ ledger = l ∧ ¬ metadata @>
  new` get `metadata || new` and `updated_at`; `dmG`/`dmF` — rows with `id = txid ∧ ledger = l ∧ metadata -> key
  IS NOT NULL` lose the key (metadata objects) and get `updated_at`.
* BOUNDED (kernel evaluation on a concrete scenario, with the history triggers): the whole statements incl.
  the `modified` flag.
-/
namespace Ledger.C15bMeta
open Ledger Ledger.Sql Ledger.Generated Ledger.Generated.WriteSql Ledger.Sql.Run

theorem updateTransactionMetadataAt_update_sem (n : Nat) (env : Env) (b l : String) (id : Nat) (txid : Int) (metadataJson atTs : String)
    (mj : JV) (T : Int) (hb : b.isEmpty = false) (hj : JV.parse metadataJson = .ok mj) (hT : tsParse atTs = .ok T)
    (trigs : List TriggerDef) (nr : Nat) (rows : List Ver) (s : St) (hs : TxTblState s b trigs nr rows)
    (hnb : trigs.filter (fun tr => tr.timing == .before && tr.event == .update) = [])
    (hna : trigs.filter (fun tr => tr.timing == .after && tr.event == .update) = []) :
    ∃ rows', (((P.updateTransactionMetadataAt b l id txid metadataJson atTs).flatMap cteStmts).mapM (execStmt (n + 7) env)).exec s =
        (.ok [txUpdResult (latestView s.w s.xid) rows (umG l txid mj) (umF mj T)], s.withTable ((txT b trigs nr).withRows rows')) ∧
      (∀ rid, visLookup (latestView s.w s.xid) rows' rid =
        (visLookup (latestView s.w s.xid) rows rid).map (fun v => if txG (umG l txid mj) v then txF (umF mj T) v else v)) ∧
      TxInv (latestView s.w s.xid) rows' ∧ RidInj (latestView s.w s.xid) rows' :=
  updateTxMetadataAt_update_bridge n env b l id txid metadataJson atTs mj T hb hj hT trigs nr rows s hs hnb hna

theorem deleteTransactionMetadataAt_update_sem (n : Nat) (env : Env) (b l : String) (id : Nat) (txid : Int) (key atTs : String)
    (T : Int) (hb : b.isEmpty = false) (hT : tsParse atTs = .ok T)
    (trigs : List TriggerDef) (nr : Nat) (rows : List Ver) (s : St) (hs : TxTblState s b trigs nr rows)
    (hobj : ∀ r ∈ rows, ∀ x, r.vals = txVals x → ∃ kvs, x.metadata = .obj kvs)
    (hnb : trigs.filter (fun tr => tr.timing == .before && tr.event == .update) = [])
    (hna : trigs.filter (fun tr => tr.timing == .after && tr.event == .update) = []) :
    ∃ rows', (((P.deleteTransactionMetadataAt b l id txid key atTs).flatMap cteStmts).mapM (execStmt (n + 7) env)).exec s =
        (.ok [txUpdResult (latestView s.w s.xid) rows (dmG l txid key) (dmF key T)], s.withTable ((txT b trigs nr).withRows rows')) ∧
      (∀ rid, visLookup (latestView s.w s.xid) rows' rid =
        (visLookup (latestView s.w s.xid) rows rid).map (fun v => if txG (dmG l txid key) v then txF (dmF key T) v else v)) ∧
      TxInv (latestView s.w s.xid) rows' ∧ RidInj (latestView s.w s.xid) rows' :=
  deleteTxMetadataAt_update_bridge n env b l id txid key atTs T hb hT trigs nr rows s hs hobj hnb hna

/-- BOUNDED. Transaction metadata: `UpdateTransactionMetadata` merges (`modified` only when something changes),
    `DeleteTransactionMetadata` removes a key (`modified` only when the key was there). -/
example : (let r := run w1 (on 1 (mkTx 1 10 "{\"k\":\"v\"}" ++
      P.updateTransactionMetadataAt "_default" "ledger0" 7 1 "{\"a\":\"b\"}" (tsText 40) ++
      P.updateTransactionMetadataAt "_default" "ledger0" 7 1 "{\"a\":\"b\"}" (tsText 41) ++
      P.deleteTransactionMetadataAt "_default" "ledger0" 7 1 "k" (tsText 50) ++
      P.deleteTransactionMetadataAt "_default" "ledger0" 7 1 "nokey" (tsText 51)))
    (txsAbs r.1 "_default" "ledger0", lastCols (r.2.drop 1))) =
    ([(1, none, [("a", "b")])], [["true"], ["false"], ["true"], ["false"]]) := by
  decide +kernel

end Ledger.C15bMeta
