import Ledger.Proofs.CtrlImport
import Ledger.Proofs.CtrlReplayHist
import Ledger.Proofs.CtrlWire
import Ledger.Proofs.CtrlExamples

/-!
# C11 — Export then import reproduces the ledger, and the copy stays writable
(controller layer, sequential)

`replay s` = `Export` of `s` (logs in id order) then `Import` into an empty
ledger.  The JSON wire encoding of the logs is compared on the real code by the
`ctrlimport` workload (every exported log must survive Marshal → UnmarshalJSON).
The unconditional round trip is FALSE on the unchanged code (same counterexamples
as C08); `import_export_roundtrip` proves it for all histories under `replaySafe`,
through the JSON wire (`wireStream`: `json.Marshal` → `HydrateLog` of every payload,
another area's model, linked by `Ledger.C08payload.payload_decode_encode`).
-/
namespace Ledger.C11
open Ledger.Ctrl Ledger.Core Ledger.Ctrl.Examples

/-- Round trip FALSE (1): chart default metadata of a metadata-created account is lost. -/
theorem import_export_roundtrip_counterexample :
    (replay (runHist true {} histDefaults)).2 = none ∧
    (replay (runHist true {} histDefaults)).1.db.accounts ≠ (runHist true {} histDefaults).db.accounts := by
  decide +kernel

/-- Round trip FALSE (2): the first usage of an account is lowered to the date of a
    metadata save that precedes its (future-dated) first transaction date. -/
theorem import_export_roundtrip_counterexample_dates :
    (replay (runHist true {} histDates)).2 = none ∧
    (replay (runHist true {} histDates)).1.db.accounts ≠ (runHist true {} histDates).db.accounts := by
  decide +kernel

/-- **Export → JSON → Import reproduces the ledger.**  For every sequential history
    whose committed logs are `logSafe` (`replaySafe`): the exported stream, each
    payload written as JSON and hydrated back (`wireStream`), imported into an empty
    ledger at any clock, succeeds and yields the source's tables: every table equal,
    `accounts_volumes` up to `(0,0)` rows (`Db.norm`; a zero row equals the empty fold).
    The controller model keeps text and time abstract, so its payloads are embedded
    into the byte-level payload model by `enc`/`dec` (any left-invertible embedding);
    `hcanon` asks that the exported payloads embed as canonical values — the set on
    which `payload_decode_encode` holds (well-formed UTF-8, normalised dates, …). -/
theorem import_export_roundtrip (strict : Bool) (now' : Time) (ops : List Op)
    (enc : Payload → Ledger.Log.Payload) (dec : Ledger.Log.Payload → Option Payload)
    (hdec : ∀ p, dec (enc p) = some p)
    (hcanon : ∀ l ∈ exportLogs (runHist strict {} ops), Ledger.Log.canonicalPayload (enc l.payload) = true)
    (hsafe : replaySafe strict {} ops = true) :
    ∃ stream, wireStream enc dec (exportLogs (runHist strict {} ops)) = some stream ∧
      (importLogs now' {} stream).2 = none ∧
      (importLogs now' {} stream).1.db.norm = (runHist strict {} ops).db.norm :=
  ⟨_, wireStream_id enc dec hdec _ hcanon, replay_reproduces_safe strict now' ops hsafe⟩

/-- Without the wire: `Import (Export s)` reproduces `s` (= `Ledger.C08.replay_reproduces`). -/
theorem import_export_roundtrip_direct (strict : Bool) (now' : Time) (ops : List Op)
    (hsafe : replaySafe strict {} ops = true) :
    (importLogs now' {} (exportLogs (runHist strict {} ops))).2 = none ∧
    (importLogs now' {} (exportLogs (runHist strict {} ops))).1.db.norm = (runHist strict {} ops).db.norm :=
  replay_reproduces_safe strict now' ops hsafe

/-- Round trip FALSE (3): `updated_at` of an account after a metadata delete is restamped. -/
theorem import_export_roundtrip_counterexample_restamp :
    (replay (runHist false {} histRestamp)).2 = none ∧
    (replay (runHist false {} histRestamp)).1.db.accounts ≠ (runHist false {} histRestamp).db.accounts := by
  decide +kernel

-- Remark (NOT a violation): the raw `accounts_volumes` tables may differ by `(0,0)` rows
-- left by balance locks of the live write path; as values they are equal.
example : (replay (runHist false {} histLocked)).1.db.volumes ≠ (runHist false {} histLocked).db.volumes ∧
    (replay (runHist false {} histLocked)).1.db.norm = (runHist false {} histLocked).db.norm := by decide +kernel

/-- What holds for the divergent payload (see C08.replay_reproduces_partial). -/
theorem import_export_roundtrip_partial (w : Time) (accounts : Ledger.Base.Map String Account) (a : String)
    (m defaults : Meta) (acc : Account) (hex : accounts.get? a = some acc) (hfu : acc.firstUsage ≤ w) :
    upsertAccount w accounts { address := a, metadata := m, defaults := defaults } =
    updateAccountMeta w accounts (a, m) :=
  savedMeta_paths_agree_existing w accounts a m defaults acc hex hfu

/-- After an import the first write resynchronises both sequences to `max(id)`:
    every imported id is at or below its sequence … -/
theorem post_import_sequences_cover (s : State) :
    (∀ t ∈ (resync s).db.txs, t.id ≤ (resync s).seq.tx) ∧ (∀ l ∈ (resync s).db.logs, l.id ≤ (resync s).seq.log) :=
  resync_bounds s

/-- … so (imported tables being id-sorted with unique keys / references) the copy
    satisfies the id invariant and every later write — through the state tracker —
    keeps it: new ids continue above the imported ones, never reusing one. -/
theorem post_import_ids_continue (strict : Bool) (l : Ledger) (op : Op) (hu : l.inUse = false)
    (h1 : l.state.db.logs.Pairwise (fun a b => a.id < b.id)) (h2 : l.state.db.txs.Pairwise (fun a b => a.id < b.id))
    (h3 : l.state.db.logs.Pairwise (fun a b => b.ik = "" ∨ a.ik ≠ b.ik))
    (h4 : l.state.db.txs.Pairwise (fun a b => b.reference = "" ∨ a.reference ≠ b.reference)) :
    Inv (facadeWrite strict l op).1.state.db (facadeWrite strict l op).1.state.seq := by
  have hinv := resync_inv l.state h1 h2 h3 h4
  have hstep := step_inv strict (resync l.state) op hinv
  unfold facadeWrite
  simp only [hu, Bool.false_eq_true, ↓reduceIte]
  split
  · -- failed / dry run: tables as before, sequences as consumed
    have hseq : SeqLe (resync l.state).seq (step strict (resync l.state) op).1.seq := by
      have := C16_seq strict (resync l.state) op
      exact this
    exact ⟨hinv.logIds |> fun h x hx => Nat.le_trans (h x hx) hseq.2, h1,
           hinv.txIds |> fun h x hx => Nat.le_trans (h x hx) hseq.1, h2, h3, h4⟩
  · exact hstep
where
  C16_seq (strict : Bool) (s : State) (op : Op) : SeqLe s.seq (step strict s op).1.seq := by
    unfold step
    rcases forgeLog_ending strict op [] false s with ⟨_, hs, _⟩ | ⟨st0, st, log, hn, f', n, _, _, hs0, hrun, hc⟩
    · exact hs
    · have := run_seq op.now hn f' (runLog strict op.kind op.ik op.ihash op.sv n) st0
      rw [hrun] at this
      show SeqLe s.seq (forgeLog strict op [] false s).state.seq
      rw [hc.1]
      exact SeqLe.trans hs0 this

/-! non-vacuity: a copy that is exact, and stays writable with continuing ids -/
example : (replay s1).2 = none ∧ (replay s1).1.db = s1.db := by decide +kernel
example : ((facadeWrite false { state := (replay (step false s1 (pay false)).1).1 } (pay false)).1.state.db.txs.map (·.id)) = [1, 2, 3] := by
  decide +kernel

end Ledger.C11
