import Ledger.Proofs.SchedOverdraft
import Ledger.Sched.Writers
import Ledger.Proofs.SchedHandles
import Ledger.Proofs.SchedWitnesses

/-!
# C06 — no account overdrawn beyond its allowance, under any interleaving

Theorems over ALL schedules of the abstract protocol model (`Ledger/Sched`),
whose PostgreSQL rules are those of LeanPG (`Ledger/Sql/Session.lean`; modelled,
not verified) and which is tied to the real code by the deterministic-schedule
correspondence (`sched.overdraft`).

The full statement is FALSE on the unchanged code for never-used
(account, asset) pairs: `no_overdraft_never_used_counterexample`. What holds is
the `…_partial` form: for a pair whose `accounts_volumes` row is visible to the
`GetBalances` statement when it is first issued (committed before, or written
earlier in the same transaction), the balance the funds check used is the
balance at commit.
-/
namespace Ledger.C06
open Ledger.Sched

/-- `lock_excludes` (rows): while session `s` owns a row (insert, update or `FOR UPDATE`), no step
    of any other session changes it — over every schedule that does not run `s`. -/
theorem lock_excludes (p : Nat) (s : Sid) (σ : Schedule) (w : World)
    (hown : (w.vols p).own = some s) (hσ : ∀ t ∈ σ, t ≠ s) :
    (run σ w).vols p = w.vols p := by
  induction σ generalizing w with
  | nil => rfl
  | cons t σ ih =>
    have ht : t ≠ s := hσ t (List.mem_cons_self ..)
    have h1 : (step w t).vols p = w.vols p := rowIs_step p (w.vols p) s t hown ht w rfl
    simp only [run]
    rw [ih (step w t) (by rw [h1]; exact hown) (fun u hu => hσ u (List.mem_cons_of_mem _ hu)), h1]

example : ∃ (w : World) (p : Nat) (s : Sid), (w.vols p).own = some s :=
  ⟨{ vols := fun _ => { com := some 5, own := some 1 } }, 0, 1, rfl⟩

/-- `epq_sees_latest`: a `GetBalances` that completes — at once or after any number of waits —
    returns, for every pair its snapshot sees, the row's LATEST version at that moment (not the
    snapshot's), and holds the row lock from then on. -/
theorem epq_sees_latest (w w' : World) (s : Sid) (ps vis : List Nat) (o : Out) (p : Nat)
    (he : getBal w s ps vis = .done w' o) (hp : p ∈ ps) (hsees : sees w vis p = true) :
    w'.reads s p = some (((w.vols p).latest).getD 0) ∧ (w'.vols p).own = some s := by
  unfold getBal at he
  split at he
  · cases he
  · split at he
    · cases he
    · injection he with hw _
      subst hw
      have hps : ps.contains p = true := by simpa using hp
      have hlat : (w.vols p).latest.isSome = true := by
        unfold sees at hsees; simp only [Bool.and_eq_true] at hsees; exact hsees.2
      constructor
      · simp [hp, hsees]
      · simp only [hps, if_true, hsees]
        split <;> rfl

/-- the negative half: a pair the snapshot does not see is neither locked nor read, even when its
    row is committed by the time the statement runs -/
theorem getBalances_skips_unseen (w w' : World) (s : Sid) (ps vis : List Nat) (o : Out) (p : Nat)
    (he : getBal w s ps vis = .done w' o) (hrow : (w.vols p).com.isSome = true)
    (hunseen : sees w vis p = false) :
    w'.vols p = w.vols p ∧ w'.reads s p = w.reads s p := by
  unfold getBal at he
  split at he
  · cases he
  · split at he
    · cases he
    · injection he with hw _
      subst hw
      have h1 : ¬ (((w.vols p).com.isNone && (w.vols p).own.isNone) = true) := by
        cases hc : (w.vols p).com <;> simp_all
      constructor
      · simp only
        split
        · simp [hunseen]
        · rfl
      · simp [hunseen]

/-- Invariant over ALL schedules: a balance `b` that a writer read under lock is, up to the writer's
    own spending since, the row's latest version, and the writer still owns the row. -/
theorem checked_balance_is_latest_any_schedule (σ : Schedule) (w₀ : World) (h₀ : ReadInv w₀)
    (s : Sid) (p : Nat) (b : Int) (hr : (run σ w₀).reads s p = some b) :
    ((run σ w₀).vols p).own = some s ∧ ((run σ w₀).vols p).latest = some (b + (run σ w₀).spent s p) :=
  (readInv_run σ w₀ h₀).2 s p b hr

example : ReadInv {} := ⟨fun _ _ => rfl, fun _ _ _ h => by cases h⟩

/-- C06, the part that holds: for every schedule, when a writer that read balance `b` of pair `p`
    under lock and spent `spent` with `b + spent ≥ −allowance` (the funds check: Numscript's bounded
    sources, C23; `revertTransaction`'s explicit test) commits, the committed balance of `p` becomes
    exactly `b + spent`, hence `≥ −allowance`. -/
theorem no_overdraft_any_schedule_partial (σ : Schedule) (w₀ : World) (h₀ : ReadInv w₀)
    (s : Sid) (p : Nat) (b : Int) (allowance : Int)
    (hr : (run σ w₀).reads s p = some b)
    (hfunds : b + (run σ w₀).spent s p ≥ -allowance) :
    ∃ v, (((run σ w₀).commitTx s).vols p).com = some v ∧ v = b + (run σ w₀).spent s p ∧ v ≥ -allowance := by
  have h := checked_balance_is_latest_any_schedule σ w₀ h₀ s p b hr
  refine ⟨b + (run σ w₀).spent s p, ?_, rfl, hfunds⟩
  rw [commit_latest _ _ _ h.1, h.2]

/-- The same with the hypothesis spelled out as a decidable predicate on the world in which the
    statement runs: `CommittedWhenIssued w s ps p` = "pair `p` is in the snapshot `GetBalances ps` took
    when it was first issued (its row was committed, or written earlier in the same transaction, at
    that moment) and has a version". For such a pair the completing step reads the latest balance `b`
    under lock, and for every later schedule, as long as that read stands (the transaction has not
    ended), a commit under the funds check leaves the pair at `b + spent ≥ −allowance`. -/
theorem no_overdraft_any_schedule_partial_explicit (σ σ' : Schedule) (w₀ : World) (h₀ : ReadInv w₀)
    (s : Sid) (ps : List Nat) (k : Out → Prog) (w' : World) (o : Out) (p : Nat) (allowance : Int)
    (hp : ((run σ w₀).sess s).prog = .stmt (.getBalances ps) k) (hab : ((run σ w₀).sess s).aborted = false)
    (he : getBal (run σ w₀) s ps (snapOf (run σ w₀) s ps) = .done w' o) (hmem : p ∈ ps)
    (hc : CommittedWhenIssued (run σ w₀) s ps p = true) :
    let b := (((run σ w₀).vols p).latest).getD 0
    let w1 := step (run σ w₀) s
    w1.reads s p = some b ∧
    ((run σ' w1).reads s p = some b → b + (run σ' w1).spent s p ≥ -allowance →
      ∃ v, (((run σ' w1).commitTx s).vols p).com = some v ∧ v ≥ -allowance) := by
  intro b w1
  have h1 := getBalances_step_reads (run σ w₀) s ps k w' o p hp hab he hmem hc
  refine ⟨h1.1, ?_⟩
  intro hr hf
  have hinv : ReadInv w1 := readInv_step _ s (readInv_run σ w₀ h₀)
  obtain ⟨v, hv, _, hge⟩ := no_overdraft_any_schedule_partial σ' w1 hinv s p b allowance hr hf
  exact ⟨v, hv, hge⟩

/-- non-vacuity: a REACHABLE world with two concurrent writers on a pair whose row is committed
    beforehand (both have begun; writer 1 is about to run `GetBalances [1]`): the hypotheses hold, and
    the conclusion is the expected one — writer 1 reads 0, spends 10 within its allowance of 10, and
    after both ran (writer 2 waited for the row lock and was refused) the pair is at −10. -/
example :
    let w₀ : World := { cxWorld with vols := fun k => if k = 1 then { com := some 0 } else {} }
    let w := run [1, 2] w₀
    ReadInv w₀ ∧ CommittedWhenIssued w 1 [1] 1 = true ∧ ((w.sess 1).prog.next.map Stmt.kindK = some .getBalances) ∧
    (w.sess 1).aborted = false ∧ ((w.sess 2).prog.next.map Stmt.kindK = some .getBalances) ∧
    (step w 1).reads 1 1 = some 0 ∧
    ((run [1, 2, 1, 1, 1] (step w 1)).reads 1 1 = some 0 ∧ (run [1, 2, 1, 1, 1] (step w 1)).spent 1 1 = -10) ∧
    ((run ([1, 2, 1, 1, 1, 1] ++ [2, 2, 2]) (step w 1)).vols 1).com = some (-10) := by
  refine ⟨⟨fun k => ?_, fun s p b h => by cases h⟩, by decide⟩
  intro h
  simp only
  split <;> rfl

/-- the COMMIT step of a session is `commitTx` -/
theorem commit_step (w : World) (s : Sid) (k : Out → Prog)
    (hp : (w.sess s).prog = .stmt .commit k) (htx : (w.sess s).inTx = true) (hab : (w.sess s).aborted = false) :
    (step w s).vols = (w.commitTx s).vols := by
  unfold step stepR
  simp [hp, htx, hab, advance]

/-- the funds check of a bounded send is made on the value `GetBalances` returned (single-statement
    script; for several statements `fundsOk` runs the same test statement by statement on the tracked balances) -/
theorem send_checks_funds (q : Send) (x : Nat) (hq : q.allow = .bounded x) (hl : q.legs = []) (hr : q.readPairs = [])
    (fail refuse succ) (v : Int) (rest : List Int)
    (o : Out) (ho : o.err = none) (hv : o.vals = v :: rest) (hpos : q.amt ≠ 0) (hlt : v + (x : Int) < (q.amt : Int)) :
    (sendBody q fail refuse succ).next = some (.getBalances [q.src]) ∧
    (sendBody q fail refuse succ).cont o = refuse "insufficient-funds" := by
  unfold sendBody
  simp only [Send.reads, hq, hr, hl, List.isEmpty_nil, Bool.not_true, Bool.false_eq_true, if_false, List.isEmpty_cons,
    Prog.next, Prog.cont, ho, true_and, hv, List.zip_cons_cons, fundsOk]
  have h1 : ¬ (q.amt = 0) := hpos
  have h2 : ¬ ((v + (x : Int)) ≥ (q.amt : Int)) := by omega
  simp [h1, h2]

/-- `nonforced_revert_refuses_negative`: a non-forced revert whose reverse posting would leave the
    (non-world) account negative is refused before anything is written -/
theorem nonforced_revert_refuses_negative (q : Revert) (hf : q.force = false) (hw : q.dstWorld = false)
    (fail refuse succ) (o ob : Out) (ho : o.err = none) (hfound : o.vals.headD 0 ≠ 0) (hmod : o.flag = true)
    (hob : ob.err = none) (hneg : (ob.vals.headD 0) - (q.amt : Int) < 0) :
    (revertBody q fail refuse succ).next = some (.revertUpdate q.l q.tx q.guarded) ∧
    ((revertBody q fail refuse succ).cont o).next = some (.getBalances [q.dst]) ∧
    ((revertBody q fail refuse succ).cont o).cont ob = refuse "insufficient-funds" := by
  unfold revertBody
  simp only [Prog.next, Prog.cont, ho, hmod, hob, hf, hw, true_and]
  rw [if_neg hfound]
  simp [hob]
  intro hge
  have : (ob.vals.headD 0) = ob.vals.head?.getD 0 := by cases ob.vals <;> rfl
  omega

/-! ## tie to the code: the statement sequences the real writers issue (regenerated on every check) -/

/-- The writers' programs issue, along their success paths, exactly the modelled statements the REAL
    controller stack issued (`Ledger.Generated.Handles`): bounded send with HASH_LOGS=SYNC and ASYNC,
    unbounded send (no balance read), first write through the state tracker, revert. In particular
    `GetBalances` — the statement with BOTH the zero-row insert and `FOR UPDATE` (a statement without
    either is classified differently and breaks this fact) — precedes `UpdateVolumes` in the same
    transaction for bounded sources and for reverts. -/
theorem writers_follow_generated_handles :
    (sendProg (exSend true (.bounded 0) 1 1) true).pathK okAnswers 40 = modelledKinds Generated.Handles.sendSyncBounded ∧
    (sendProg (exSend false (.bounded 0) 0 0) true).pathK okAnswers 40 = modelledKinds Generated.Handles.sendAsyncBounded ∧
    (sendProg (exSend true .unbounded 0 0) true).pathK okAnswers 40 = modelledKinds Generated.Handles.sendSyncUnbounded ∧
    (sendProg (exSend true .unbounded 0 0) false).pathK okAnswers 40 = modelledKinds Generated.Handles.sendFirstWrite ∧
    (revertProg exRevert true).pathK okAnswers 40 = modelledKinds Generated.Handles.revertSync ∧
    (sendProg (exSend true (.bounded 0) 0 0) true).pathK (fun _ => {}) 40 = modelledKinds Generated.Handles.sendInsufficient := by
  decide

/-- handle discipline (the C07 fact, regenerated): in every captured write, every statement between
    BEGIN and COMMIT/ROLLBACK runs on the transaction (or a savepoint of it), never on the pool — so the
    balance read, its row locks and the volume update share one transaction. -/
theorem handles_discipline : ∀ t ∈ Generated.Handles.all, disciplined false t.2 = true := by
  decide

/-! ## the counterexample: a never-used (account, asset) pair -/


/-- Both writers are answered success and the pair ends at −20 with an allowance of 10:
    the unrestricted `no_overdraft_any_schedule` is false. -/
theorem no_overdraft_never_used_counterexample :
    (run cxSchedule cxWorld).resp 1 = some { tx := 1, log := 1 } ∧
    (run cxSchedule cxWorld).resp 2 = some { tx := 2, log := 2 } ∧
    ((run cxSchedule cxWorld).vols 1).com = some (-20) ∧
    (runR cxSchedule cxWorld).2.count .blocked = 1 := by
  decide

/-- The same schedule on the SQL model (LeanPG executing the REGENERATED `GetBalances` / `UpdateVolumes`
    statements of the real store, kernel-evaluated): B's first `GetBalances` waits; retried after A's
    commit it returns NO row (nothing locked, balance read as 0), and the pair ends with output 20. -/
theorem no_overdraft_never_used_counterexample_sql :
    (sqlRun Ledger.Sql.Tests.w0 sqlSchedule).2 =
      ["ok:rows=0", "ok:rows=0", "ok:rows=0", "blocked", "ok:rows=1", "ok:rows=0", "ok:rows=0", "ok:rows=1", "ok:rows=0"] ∧
    Ledger.Sql.Tests.rowsOf (sqlRun Ledger.Sql.Tests.w0 sqlSchedule).1 "_default.accounts_volumes" = [["l", "alice", "USD", "0", "20"]] := by
  decide +kernel

/-- the same two writers on a pair whose row is committed beforehand: B waits for A's lock, then
    reads −10 and is refused -/
example :
    let w : World := { cxWorld with vols := fun k => if k = 1 then { com := some 0 } else {} }
    (run cxSchedule w).resp 2 = some { err := "insufficient-funds" } ∧ ((run cxSchedule w).vols 1).com = some (-10) := by
  decide

end Ledger.C06
