import Ledger.Proofs.ReadsSqlRun

/-!
C05 (SQL leg), BOUNDED obligations, part 2 (see `Props/C05q.lean` for what these are): window
volumes and aggregated balances on a history with a revert, next to a SIBLING ledger of the same
bucket holding the same accounts and assets (every statement must scope by ledger).
-/
namespace Ledger.C05q2
open Ledger.Reads.SqlRun

set_option maxRecDepth 100000

theorem window_volumes_scenB_sibling :
    checkMovesFamily (some scenSib) false scenB
      [.effPit 6, .effPit 5, .insPitOot 7 5, .effOot 6, .insPit 5] [.effPit 6, .insPit 5] = true := by
  decide +kernel

end Ledger.C05q2
