import Ledger.Proofs.Gates

/-!
C19 (scoped reads) — theorem over the REGENERATED read-shape matrix
(`Ledger.Generated.readShapeCodes`, rebuilt from /repo on every run by
`tools/t1_readshapes`: the real store read paths rendered over a recording
driver for every resource × call × PIT/OOT × date mode × expand × filter ×
feature set × alone-in-bucket).  The quantifier is a finite table regenerated
from the source, so `decide +kernel` over the whole table is a proof about the
current tree, not a sample.
-/
namespace Ledger.C19gates
open Ledger.Gates Ledger.Generated Ledger.GatesProps

/-- Unless alone in its bucket, every bucket-table reference of every rendered
    read carries `ledger = '<this ledger>'`, and none names another ledger. -/
theorem every_read_scoped :
    ∀ c ∈ readShapeCodes, (Shape.ofCode c).scopedOk = true :=
  all_of_chunks (fun c => (Shape.ofCode c).scopedOk) (by decide +kernel)

/-- Non-vacuity: shared-bucket shapes with several table references exist. -/
example :
    (readShapeChunks.any fun ch => ch.any fun c =>
      (Shape.ofCode c).err == .ok && !(Shape.ofCode c).alone && 2 ≤ (Shape.ofCode c).baseRefs) = true := by
  decide +kernel

end Ledger.C19gates
