import Ledger.Proofs.SqlVolumesZeroSpec
import Ledger.Proofs.SqlRun

/-!
C06b — bridge: `GetBalances` (the SQL, under LeanPG).

The statement is `WITH ins AS (INSERT INTO accounts_volumes … VALUES (…, '0', '0', …)… ON CONFLICT DO
NOTHING) SELECT … FROM accounts_volumes WHERE (key₁) OR (key₂) … ORDER BY accounts_address, asset
FOR UPDATE` (regenerated: `Ledger.Generated.WriteSql.P.getBalances`).

* PROVED in general (`getBalances_zero_rows`): its data-modifying part — any requested keys, any
  table contents satisfying the storage invariants — is `Spec.lockBalances` on `accounts_volumes`.
* NOT proved in general: the SELECT … ORDER BY … FOR UPDATE part (row filter, order, row locks,
  invisibility of the rows the same statement has just inserted). LeanPG's SELECT evaluator
  (`evalSelect`, `sortOut`, the locking loop of `evalQuery`) has no lemma library yet. Fallback,
  clearly labelled below: BOUNDED REGRESSION OBLIGATIONS — the whole statement run by kernel evaluation
  (`decide +kernel`) on concrete worlds; finite facts, not theorems about all worlds.
-/
namespace Ledger.C06b
open Ledger.Sql Ledger.Base Ledger.Core Ledger.Generated.WriteSql
open Ledger.Generated.WriteSql.P (BalanceRow)

/-- General: the zero-row insert of `GetBalances` is `Spec.lockBalances`: a requested key without a
    row gets `(0, 0)`, a key with a row keeps it, other ledgers and other tables are untouched. -/
theorem getBalances_zero_rows (n : Nat) (env : Env) (b l : String) (id : Nat) (hb : b.isEmpty = false)
    (s : St) (rs : List Ver) (nr : Nat) (hs : AvStateN s b rs nr) (rows : List BalanceRow)
    (av : PCV) (hwf : Map.WF av) (habs : ∀ k, avAbs s b l k = av.get? k) :
    ∃ r s', (((P.getBalances b l id rows).flatMap cteStmts).mapM (execStmt (n + 5) env)).exec s = (.ok r, s') ∧
      (∀ k, avAbs s' b l k = (Spec.lockBalances { accountsVolumes := av } (bkOf rows)).accountsVolumes.get? k) ∧
      (∀ l', l' ≠ l → ∀ k, avAbs s' b l' k = avAbs s b l' k) ∧
      (∃ rs' nr', s' = s.withTable (avT b rs' nr') ∧ AvInv (latestView s.w s.xid) rs' nr') :=
  getBalances_zero_rows_bridge n env b l id hb s rs nr hs rows av hwf habs

/-! ### BOUNDED REGRESSION OBLIGATIONS (kernel evaluation on concrete worlds; not general theorems) -/

open Ledger.Sql.Run

/-- a world with volumes for ledger `l` (a/USD, b/EUR) and for ledger `m` (a/USD) -/
example : table (run w0 (on 1 (P.updateVolumes "_default" "l" 1 [⟨"a", "USD", 100, 7⟩, ⟨"b", "EUR", 5, 0⟩] ++
                                P.updateVolumes "_default" "m" 2 [⟨"a", "USD", 9, 9⟩]))).1 "_default.accounts_volumes" =
    [["l", "a", "USD", "100", "7"], ["l", "b", "EUR", "5", "0"], ["m", "a", "USD", "9", "9"]] := by
  decide +kernel

/-- The SELECT returns the requested pairs that had a row BEFORE the statement, of this ledger only,
    ordered by (account, asset) whatever the order of the request; a never-used pair (c/USD) is not
    returned — the statement's snapshot does not see the zero row its own CTE inserts. -/
example : ((run w0 (on 1 (P.updateVolumes "_default" "l" 1 [⟨"a", "USD", 100, 7⟩, ⟨"b", "EUR", 5, 0⟩] ++
                          P.updateVolumes "_default" "m" 2 [⟨"a", "USD", 9, 9⟩] ++
                          P.getBalances "_default" "l" 1 [⟨"c", "USD"⟩, ⟨"b", "EUR"⟩, ⟨"a", "USD"⟩]))).2.map (·.2)).getLast? =
    some [["a", "USD", "100", "7"], ["b", "EUR", "5", "0"]] := by
  decide +kernel

/-- … and the zero row is there afterwards (and only that one is new). -/
example : table (run w0 (on 1 (P.updateVolumes "_default" "l" 1 [⟨"a", "USD", 100, 7⟩, ⟨"b", "EUR", 5, 0⟩] ++
                                P.getBalances "_default" "l" 1 [⟨"c", "USD"⟩, ⟨"b", "EUR"⟩, ⟨"a", "USD"⟩]))).1 "_default.accounts_volumes" =
    [["l", "a", "USD", "100", "7"], ["l", "b", "EUR", "5", "0"], ["l", "c", "USD", "0", "0"]] := by
  decide +kernel

/-- a second call returns the zero row -/
example : ((run w0 (on 1 (P.getBalances "_default" "l" 1 [⟨"c", "USD"⟩] ++ P.getBalances "_default" "l" 1 [⟨"c", "USD"⟩]))).2.map (·.2)) =
    [[], [["c", "USD", "0", "0"]]] := by
  decide +kernel

/-- FOR UPDATE: inside a transaction the returned row stays locked; another session asking for the same
    pair waits (LeanPG answers `blocked`), one asking for another pair does not. -/
example : ((run w0 (on 1 (P.updateVolumes "_default" "l" 1 [⟨"a", "USD", 100, 7⟩, ⟨"b", "EUR", 5, 0⟩]) ++
                    on 1 ([Stmt.begin] ++ P.getBalances "_default" "l" 1 [⟨"a", "USD"⟩]) ++
                    on 2 ([Stmt.begin] ++ P.getBalances "_default" "l" 1 [⟨"b", "EUR"⟩]) ++
                    on 3 (P.getBalances "_default" "l" 1 [⟨"a", "USD"⟩]))).2.map (·.1)) =
    ["ok:2", "ok:0", "ok:1", "ok:0", "ok:1", "blocked on row:_default.accounts_volumes:1:xid:2"] := by
  decide +kernel

end Ledger.C06b
