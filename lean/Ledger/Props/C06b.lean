import Ledger.Proofs.SqlVolumesZeroSpec
import Ledger.Proofs.SqlBalances
import Ledger.Proofs.SqlRun

/-!
C06b — bridge: `GetBalances` (the SQL, under LeanPG).

The statement is `WITH ins AS (INSERT INTO accounts_volumes … VALUES (…, '0', '0', …)… ON CONFLICT DO
NOTHING) SELECT … FROM accounts_volumes WHERE (key₁) OR (key₂) … ORDER BY accounts_address, asset
FOR UPDATE` (regenerated: `Ledger.Generated.WriteSql.P.getBalances`).

* PROVED in general (`getBalances_zero_rows`): its data-modifying part — any requested keys, any
  table contents satisfying the storage invariants — is `Spec.lockBalances` on `accounts_volumes`.
* PROVED in general (`getBalances_sem`): the WHOLE statement — CTE, FROM/WHERE (the or-chain of keys), projection,
  ORDER BY (LeanPG's merge sort: a sorted permutation), FOR UPDATE loop — for ANY keys and ANY contents satisfying
  `BalState` (TxState: alone, in a transaction, READ COMMITTED snapshot; AvInv; fresh command id; distinct row
  ids): the answer is a permutation, sorted by (account, asset), of the `(account, asset, input, output)` of the
  requested rows of this ledger that were visible BEFORE the statement — a never-used pair is NOT returned, the
  statement does not see the zero row its own CTE inserts (the Go code fills in 0) —; afterwards the zero rows
  exist (`avRunN`), exactly the returned rows carry the transaction's row lock (`lockRun`), and what the
  transaction reads is `Spec.lockBalances` (`getBalances_view`).
* The kernel-evaluated scenarios below remain as regression obligations (they also exercise two sessions:
  the lock really blocks).
-/
namespace Ledger.C06b
open Ledger.Sql Ledger.Base Ledger.Core Ledger.Generated.WriteSql
open Ledger.Generated.WriteSql.P (BalanceRow)

/-- General: the zero-row insert of `GetBalances` is `Spec.lockBalances`: a requested key without a
    row gets `(0, 0)`, a key with a row keeps it, other ledgers and other tables are untouched. -/
theorem getBalances_zero_rows (n : Nat) (env : Env) (b l : String) (id : Nat) (hb : b.isEmpty = false)
    (s : St) (rs : List Ver) (nr : Nat) (hs : AvStateN s b rs nr) (rows : List BalanceRow)
    (av : PCV) (hwf : Map.WF av) (habs : ∀ k, avAbs s b l k = av.get? k) :
    ∃ r s', (((P.getBalances b l id rows).flatMap cteStmts).mapM (execStmt (n + 5) env)).exec s = (.ok r, s') ∧
      (∀ k, avAbs s' b l k = (Spec.lockBalances { accountsVolumes := av } (bkOf rows)).accountsVolumes.get? k) ∧
      (∀ l', l' ≠ l → ∀ k, avAbs s' b l' k = avAbs s b l' k) ∧
      (∃ rs' nr', s' = s.withTable (avT b rs' nr') ∧ AvInv (latestView s.w s.xid) rs' nr') :=
  getBalances_zero_rows_bridge n env b l id hb s rs nr hs rows av hwf habs

/-- General: `GetBalances(keys)` as a whole (see the header). `sorted` are the output rows, `srcRid` their row ids. -/
theorem getBalances_sem (n : Nat) (env : Env) (b l : String) (id : Nat) (keys : List BalanceRow) (hb : b.isEmpty = false)
    (s : St) (rs : List Ver) (nr : Nat) (hs : BalState s b rs nr) :
    ∃ (sorted : List OutRow) (tie : Bool),
      ((P.getBalances b l id keys).mapM (execStmt (n + 8) env)).exec s =
        (.ok [{ rel := { cols := ["accounts_address", "asset", "input", "output"], rows := sorted.map (·.vals) },
                affected := sorted.length }],
         ((s.withTable (avT b (avRunN (latestView s.w s.xid) s.xid s.cid l keys (rs, nr)).1
                              (avRunN (latestView s.w s.xid) s.xid s.cid l keys (rs, nr)).2)).tie tie).withTable
           (avT b (lockRun (latestView s.w s.xid) s.xid s.cid (avRunN (latestView s.w s.xid) s.xid s.cid l keys (rs, nr)).1 (sorted.map srcRid))
                  (avRunN (latestView s.w s.xid) s.xid s.cid l keys (rs, nr)).2)) ∧
      (sorted.map (·.vals)).Perm ((((rs.filter (fun r => r.visible (latestView s.w s.xid))).reverse).filter (fun r => balWanted l keys r.vals)).map
        (fun r => r.vals.drop 1)) ∧
      sorted.Pairwise (fun x y => balCmp (y.vals.take 2) (x.vals.take 2) ≠ .lt) ∧
      (sorted.map srcRid).Perm ((((rs.filter (fun r => r.visible (latestView s.w s.xid))).reverse).filter (fun r => balWanted l keys r.vals)).map (·.rid)) :=
  exec_getBalances n env b l id keys hb s rs nr hs

/-- What the transaction reads afterwards: the row locks change nothing, the zero rows are `Spec.lockBalances`. -/
theorem getBalances_view (b l : String) (keys : List BalanceRow) (s : St) (rs : List Ver) (nr : Nat) (hs : BalState s b rs nr)
    (rids : List Nat) (av : PCV) (hwf : Map.WF av) (habs : ∀ k, avView (latestView s.w s.xid) rs l k = av.get? k) (k : Key) :
    avView (latestView s.w s.xid)
      (lockRun (latestView s.w s.xid) s.xid s.cid (avRunN (latestView s.w s.xid) s.xid s.cid l keys (rs, nr)).1 rids) l k =
      (Spec.lockBalances { accountsVolumes := av } (bkOf keys)).accountsVolumes.get? k := by
  unfold avView
  rw [avGet_lockRun]
  exact (avRunN_spec s.w s.xid s.cid hs.tx.xid hs.tx.cid l keys rs nr av hs.inv hwf habs).1 k

/-! ### BOUNDED REGRESSION OBLIGATIONS (kernel evaluation on concrete worlds; not general theorems) -/

open Ledger.Sql.Run

/-- a world with volumes for ledger `l` (a/USD, b/EUR) and for ledger `m` (a/USD) -/
example : table (run w0 (on 1 (P.updateVolumes "_default" "l" 1 [⟨"a", "USD", 100, 7⟩, ⟨"b", "EUR", 5, 0⟩] ++
                                P.updateVolumes "_default" "m" 2 [⟨"a", "USD", 9, 9⟩]))).1 "_default.accounts_volumes" =
    [["l", "a", "USD", "100", "7"], ["l", "b", "EUR", "5", "0"], ["m", "a", "USD", "9", "9"]] := by
  decide +kernel

/-- The SELECT returns the requested pairs that had a row BEFORE the statement, of this ledger only,
    ordered by (account, asset) whatever the order of the request; a never-used pair (c/USD) is not
    returned — the statement's snapshot does not see the zero row its own CTE inserts. -/
example : ((run w0 (on 1 (P.updateVolumes "_default" "l" 1 [⟨"a", "USD", 100, 7⟩, ⟨"b", "EUR", 5, 0⟩] ++
                          P.updateVolumes "_default" "m" 2 [⟨"a", "USD", 9, 9⟩] ++
                          P.getBalances "_default" "l" 1 [⟨"c", "USD"⟩, ⟨"b", "EUR"⟩, ⟨"a", "USD"⟩]))).2.map (·.2)).getLast? =
    some [["a", "USD", "100", "7"], ["b", "EUR", "5", "0"]] := by
  decide +kernel

/-- … and the zero row is there afterwards (and only that one is new). -/
example : table (run w0 (on 1 (P.updateVolumes "_default" "l" 1 [⟨"a", "USD", 100, 7⟩, ⟨"b", "EUR", 5, 0⟩] ++
                                P.getBalances "_default" "l" 1 [⟨"c", "USD"⟩, ⟨"b", "EUR"⟩, ⟨"a", "USD"⟩]))).1 "_default.accounts_volumes" =
    [["l", "a", "USD", "100", "7"], ["l", "b", "EUR", "5", "0"], ["l", "c", "USD", "0", "0"]] := by
  decide +kernel

/-- a second call returns the zero row -/
example : ((run w0 (on 1 (P.getBalances "_default" "l" 1 [⟨"c", "USD"⟩] ++ P.getBalances "_default" "l" 1 [⟨"c", "USD"⟩]))).2.map (·.2)) =
    [[], [["c", "USD", "0", "0"]]] := by
  decide +kernel

/-- FOR UPDATE: inside a transaction the returned row stays locked; another session asking for the same
    pair waits (LeanPG answers `blocked`), one asking for another pair does not. -/
example : ((run w0 (on 1 (P.updateVolumes "_default" "l" 1 [⟨"a", "USD", 100, 7⟩, ⟨"b", "EUR", 5, 0⟩]) ++
                    on 1 ([Stmt.begin] ++ P.getBalances "_default" "l" 1 [⟨"a", "USD"⟩]) ++
                    on 2 ([Stmt.begin] ++ P.getBalances "_default" "l" 1 [⟨"b", "EUR"⟩]) ++
                    on 3 (P.getBalances "_default" "l" 1 [⟨"a", "USD"⟩]))).2.map (·.1)) =
    ["ok:2", "ok:0", "ok:1", "ok:0", "ok:1", "blocked on row:_default.accounts_volumes:1:xid:2"] := by
  decide +kernel

end Ledger.C06b
