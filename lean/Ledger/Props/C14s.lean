import Ledger.Proofs.SchedUnique
import Ledger.Proofs.SchedHandles

/-!
# C14 (schedule part) — references unique per ledger under any interleaving

Over ALL schedules and ALL session programs of the abstract protocol model: the
partial unique index `transactions_reference (ledger, reference) where reference <> ''`
(a committed conflict raises 23505, an in-progress one makes the INSERT wait) keeps
non-empty references unique per ledger among all rows, committed or in progress.
PostgreSQL's unique-index wait rule is MODELLED (LeanPG).
-/
namespace Ledger.C14s
open Ledger.Sched

/-- `reference_unique_any_schedule`: for every schedule and every programs, no two committed
    transactions of one ledger carry the same non-empty reference. -/
theorem reference_unique_any_schedule (σ : Schedule) (w₀ : World) (h₀ : UniqInv w₀) :
    ((run σ w₀).txs.filter (·.com)).Pairwise (fun a b => a.l = b.l → a.ref ≠ 0 → a.ref ≠ b.ref) := by
  have h := (uniq_run σ w₀ h₀).1
  refine (h.filter _).imp ?_
  intro a b hab hl
  exact (hab hl).2

example : UniqInv {} := ⟨List.Pairwise.nil, List.Pairwise.nil⟩

/-- a write reusing a committed reference of the same ledger fails with the reference conflict and
    changes no row (its transaction id is consumed: sequences are not transactional) -/
theorem reference_conflict_no_effect (w : World) (s : Sid) (l ref : Nat) (t : Tx)
    (hid : w.txs.find? (fun x => x.l = l && x.id = w.txSeq l + 1) = none)
    (hfind : w.txs.find? (fun x => x.l = l && x.ref = ref) = some t) (href : ref ≠ 0) (hcom : t.com = true) :
    ∃ w', insTx w s l ref none = .failed w' .uniqueRef ∧ w'.txs = w.txs ∧ w'.logs = w.logs ∧ w'.vols = w.vols := by
  unfold insTx
  simp [hid, href, hfind, hcom]

/-- `same_reference_other_ledger_ok`: the index is per ledger -/
theorem same_reference_other_ledger_ok :
    let w : World := { txs := [{ l := 1, id := 7, ref := 5, by_ := 9, com := true }] }
    (∃ w' o, insTx w 2 2 5 none = .done w' o) ∧ (∃ w', insTx w 2 1 5 none = .failed w' .uniqueRef) := by
  refine ⟨⟨_, _, rfl⟩, ?_⟩
  unfold insTx
  simp

/-- an in-progress holder of the reference makes the second INSERT wait, whatever happens next -/
theorem reference_waits_for_in_progress_holder :
    let w : World := { txs := [{ l := 1, id := 7, ref := 5, by_ := 9, com := false }] }
    insTx w 2 1 5 none = .blocked 9 := by
  rfl

/-- tie (regenerated): the real create path answers the reference conflict right after
    `InsertTransaction` and rolls back; the model's program does the same -/
theorem reference_conflict_path_follows_generated_handles :
    (sendProg (exSend true .unbounded 0 1) true).pathK
        (fun st => match st with | .insertTx _ _ _ => { err := some .uniqueRef } | _ => {}) 40
      = modelledKinds Generated.Handles.sendReferenceConflict ∧
    (sendProg (exSend true .unbounded 0 1) true).answer
        (fun st => match st with | .insertTx _ _ _ => { err := some .uniqueRef } | _ => {}) 40
      = some { err := "reference-conflict" } ∧
    Generated.Handles.sendReferenceConflictAnswer = "reference-conflict" := by
  decide

end Ledger.C14s
