import Ledger.Proofs.SqlAccountsSpec
import Ledger.Proofs.SqlRunAccounts

/-!
C18b — bridge: `UpsertAccounts` (the SQL, under LeanPG) against `Ledger.Spec.upsertAccount`.

* PROVED in general (`upsertAccounts_sem`): the WHOLE regenerated statement — the CTE chain `data_batch` (VALUES with casts) →
  `existing_accounts` (inner join of `accounts` with the batch) → `updated_rows` (UPDATE accounts a … FROM data_batch d … RETURNING,
  through the generic UPDATE … FROM library: first joining row, new row version, primary key check) → `inserted_rows` (INSERT …
  SELECT … FROM data_batch d WHERE d.address NOT IN (SELECT address FROM existing_accounts) RETURNING … with the correlated
  sub-query on `batch_index`) → `SELECT * FROM updated_rows UNION ALL SELECT * FROM inserted_rows` — run by LeanPG (`runStmt`)
  on ANY `accounts` table satisfying the storage invariant `AcInv`, for ANY batch with distinct addresses and all dates given, ANY
  other ledgers in the table: in what the transaction sees afterwards (`acAbs`, up to order) every account of the ledger touched by
  a batch row (`updCond`: same address ∧ this ledger ∧ (lower first usage ∨ metadata not contained)) becomes `updRow` (metadata
  `a || d`, first usage LEAST, updated_at of the batch row, insertion date kept), every batch row without an account of this
  ledger is inserted as `insRow` (metadata `default || d`), every other row is unchanged; `AcInv` holds again.
  ASSUMED (all explicit: `UpsertState`, `DbLit`): solo transaction, storage invariant, fresh command id; no row trigger on
  INSERT / UPDATE of `accounts` (ACCOUNT_METADATA_HISTORY off — with the feature on, the history rows are an additional effect not
  covered); the rendered literals parse to the typed values (Go rendering not modelled); batch addresses pairwise distinct; the
  variant of the statement with explicit dates (COALESCE is lazy, so `transaction_date()` is not called).
* PROVED for every existing row and every batch row (`upsertAccounts_update_sem`): in the UPDATE branch
  (`updated_rows`) of the regenerated statement, `first_usage` becomes `LEAST(d.first_usage, a.first_usage)`
  with NULL ignored, `metadata` becomes `a.metadata || d.metadata` (the batch wins on a common key),
  `insertion_date` is not among the SET items, and the WHERE clause holds iff same address, this ledger,
  and (the batch lowers `first_usage` or carries metadata the row does not contain).
* NOT proved: the correspondence jsonb ↔ `Spec.Metadata` (`jsonConcat` / `jsonContains` on jsonb objects vs `metaMerge` /
  `metaContains` on sorted maps) that would turn `updRow` / `insRow` / `updCond` into `Ledger.Spec.upsertAccount`; the kernel-evaluated
  scenario below compares against `Spec.upsertAccount` on concrete data (BOUNDED REGRESSION OBLIGATION, through the session layer).
-/
namespace Ledger.C18b
open Ledger Ledger.Sql Ledger.Generated Ledger.Generated.WriteSql
open Ledger.Generated.WriteSql.P (AccountRow)

/-- see `Ledger.Sql.upsertAccounts_update_exprs` -/
theorem upsertAccounts_update_sem (cb : Callbacks) (te : TypeEnv) (env : Env) (b l : String) (id : Nat)
    (la addrA : String) (aaA : JV) (insA updA : Int) (mdA : JV) (fuA : Int)
    (addrD : String) (mdD : JV) (fuD insD updD : Option Int) (aaD dmD biD : JV) (src : Option (String × Nat)) (s : St) :
    ∃ (c1 : List AccountRow → Cte) (c2 c4 : Cte) (body : SetExpr) (eMd eFu eUp wher : Expr) (ret : List SelItem),
      (∀ rows, P.upsertAccounts b l id rows =
        [Stmt.query (Query.mk [c1 rows, c2,
            Cte.mk "updated_rows" [] (Stmt.update [] b "accounts" "a"
              [SetItem.mk "metadata" eMd, SetItem.mk "first_usage" eFu, SetItem.mk "updated_at" eUp]
              [FromItem.table "" "data_batch" "d"] (some wher) ret), c4] body [] none none LockMode.none)]) ∧
      (evalExpr cb te (upEnv env (acVals la addrA aaA insA updA mdA fuA) (dbVals addrD mdD fuD insD updD aaD dmD biD) src) eFu).exec s =
        (.ok (.ts (leastOpt fuD fuA)), s) ∧
      (evalExpr cb te (upEnv env (acVals la addrA aaA insA updA mdA fuA) (dbVals addrD mdD fuD insD updD aaD dmD biD) src) eMd).exec s =
        (.ok (.json (jsonConcat mdA mdD)), s) ∧
      ((evalExpr cb te (upEnv env (acVals la addrA aaA insA updA mdA fuA) (dbVals addrD mdD fuD insD updD aaD dmD biD) src) wher >>=
          fun v => liftR v.truth).exec s =
        (.ok (if addrA = addrD ∧ la = l then
                (if (match fuD with | some x => decide (x < fuA) | none => false) || !jsonContains mdA mdD then some true
                 else (match fuD with | some _ => some false | none => none))
              else some false), s)) :=
  upsertAccounts_update_exprs cb te env b l id la addrA aaA insA updA mdA fuA addrD mdD fuD insD updD aaD dmD biD src s

/-- **`UpsertAccounts`**, the whole statement (general; see `Ledger.Sql.upsertAccounts_sem`). -/
theorem upsertAccounts_sem (k : Nat) (env : Env) (b l : String) (id : Nat) (trigs : List TriggerDef) (nr : Nat) (rows : List Ver)
    (s : St) (hst : UpsertState s b trigs nr rows) (henv : env.ctes = [])
    (pm : List (AccountRow × DbR)) (hlits : ∀ x ∈ pm, DbLit s.w.types x.1 x.2) (hnd : ((pm.map (·.2)).map (·.address)).Nodup) :
    ∃ (res : DmlResult) (rows' : List Ver) (n' : Nat),
      ((P.upsertAccounts b l id (pm.map (·.1))).mapM (runStmt (k + 19) env)).exec s =
        (.ok [res], s.withTable ((acT b trigs (nr + n')).withRows rows')) ∧
      (acAbs (latestView s.w s.xid) rows').Perm
        (((pm.map (·.2)).filter (fun d => !hasAccount l (acAbs (latestView s.w s.xid) rows) d.address)).map (insRow l) ++
          (acAbs (latestView s.w s.xid) rows).map (updOf l (pm.map (·.2)))) ∧
      AcInv (latestView s.w s.xid) (nr + n') rows' :=
  Ledger.Sql.upsertAccounts_sem k env b l id trigs nr rows s hst henv pm hlits hnd

/-- the pieces of the UPDATE branch and of the INSERT branch of the generated statement have the meaning the theorem uses
    (`UpsertUpdSem`, `UpsertInsSem`; see `Ledger.Sql.upsertAccounts_shape4`) -/
theorem upsertAccounts_shape (b l : String) (id : Nat) :
    ∃ (eMd eFu eUp wherU : Expr) (items : List (Expr × String)) (wherI : Expr),
      (∀ rows, P.upsertAccounts b l id rows =
        [Stmt.query (Query.mk [Cte.mk "data_batch" dbCols (dataBatchStmt rows), Cte.mk "existing_accounts" [] (existingStmt b l),
            Cte.mk "updated_rows" [] (Stmt.update [] b "accounts" "a"
              [SetItem.mk "metadata" eMd, SetItem.mk "first_usage" eFu, SetItem.mk "updated_at" eUp]
              [FromItem.table "" "data_batch" "d"] (some wherU) updReturning),
            Cte.mk "inserted_rows" [] (Stmt.insert [] b "accounts" "" insCols
              (InsertSrc.query (Query.mk [] (SetExpr.select (Select.mk false [] (items.map (fun p => SelItem.expr p.1 p.2))
                [FromItem.table "" "data_batch" "d"] (some wherI) [] none)) [] none none LockMode.none)) none (insReturning b))] upsertBody [] none none LockMode.none)]) ∧
      UpsertUpdSem l eMd eFu eUp wherU ∧ UpsertInsSem l items wherI :=
  upsertAccounts_shape4 b l id

/-! ### BOUNDED REGRESSION OBLIGATION (kernel evaluation on a concrete scenario; not a general theorem)

Two `UpsertAccounts` calls on the ledger of the generated `addLedger` script; the `accounts` table equals
`Spec.upsertAccount` folded over the rows: `a` gets a lower first usage and merged metadata (the later value of
`k` wins) while keeping its insertion date; `b` (later first usage, nothing new) is left alone, `updated_at`
included; `c` is inserted by the second call. -/
open Ledger.Sql.Run in
example : agreeAccounts [[⟨"a", 20, 30, [("k", "v")]⟩, ⟨"b", 20, 30, []⟩],
    [⟨"a", 10, 40, [("k", "w"), ("j", "x")]⟩, ⟨"b", 25, 40, []⟩, ⟨"c", 5, 40, [("z", "1")]⟩]] = true := by
  decide +kernel

end Ledger.C18b
