import Ledger.Proofs.SqlAccountsExpr
import Ledger.Proofs.SqlRunAccounts

/-!
C18b — bridge: `UpsertAccounts` (the SQL, under LeanPG) against `Ledger.Spec.upsertAccount`.

* PROVED for every existing row and every batch row (`upsertAccounts_sem`): in the UPDATE branch
  (`updated_rows`) of the regenerated statement, `first_usage` becomes `LEAST(d.first_usage, a.first_usage)`
  with NULL ignored, `metadata` becomes `a.metadata || d.metadata` (the batch wins on a common key),
  `insertion_date` is not among the SET items, and the WHERE clause holds iff same address, this ledger,
  and (the batch lowers `first_usage` or carries metadata the row does not contain).
* NOT proved in general: the CTE chain (VALUES → join → UPDATE … FROM → INSERT … SELECT … WHERE NOT IN →
  UNION ALL), the INSERT branch, and the correspondence jsonb ↔ `Spec.Metadata` (`jsonConcat` /
  `jsonContains` vs `metaMerge` / `metaContains`). Fallback, labelled below: a BOUNDED REGRESSION
  OBLIGATION by kernel evaluation on a concrete scenario, against `Spec.upsertAccount`.
-/
namespace Ledger.C18b
open Ledger Ledger.Sql Ledger.Generated Ledger.Generated.WriteSql
open Ledger.Generated.WriteSql.P (AccountRow)

/-- see `Ledger.Sql.upsertAccounts_update_exprs` -/
theorem upsertAccounts_sem (cb : Callbacks) (te : TypeEnv) (env : Env) (b l : String) (id : Nat)
    (la addrA : String) (aaA : JV) (insA updA : Int) (mdA : JV) (fuA : Int)
    (addrD : String) (mdD : JV) (fuD insD updD : Option Int) (aaD dmD biD : JV) (src : Option (String × Nat)) (s : St) :
    ∃ (c1 : List AccountRow → Cte) (c2 c4 : Cte) (body : SetExpr) (eMd eFu eUp wher : Expr) (ret : List SelItem),
      (∀ rows, P.upsertAccounts b l id rows =
        [Stmt.query (Query.mk [c1 rows, c2,
            Cte.mk "updated_rows" [] (Stmt.update [] b "accounts" "a"
              [SetItem.mk "metadata" eMd, SetItem.mk "first_usage" eFu, SetItem.mk "updated_at" eUp]
              [FromItem.table "" "data_batch" "d"] (some wher) ret), c4] body [] none none LockMode.none)]) ∧
      (evalExpr cb te (upEnv env (acVals la addrA aaA insA updA mdA fuA) (dbVals addrD mdD fuD insD updD aaD dmD biD) src) eFu).exec s =
        (.ok (.ts (leastOpt fuD fuA)), s) ∧
      (evalExpr cb te (upEnv env (acVals la addrA aaA insA updA mdA fuA) (dbVals addrD mdD fuD insD updD aaD dmD biD) src) eMd).exec s =
        (.ok (.json (jsonConcat mdA mdD)), s) ∧
      ((evalExpr cb te (upEnv env (acVals la addrA aaA insA updA mdA fuA) (dbVals addrD mdD fuD insD updD aaD dmD biD) src) wher >>=
          fun v => liftR v.truth).exec s =
        (.ok (if addrA = addrD ∧ la = l then
                (if (match fuD with | some x => decide (x < fuA) | none => false) || !jsonContains mdA mdD then some true
                 else (match fuD with | some _ => some false | none => none))
              else some false), s)) :=
  upsertAccounts_update_exprs cb te env b l id la addrA aaA insA updA mdA fuA addrD mdD fuD insD updD aaD dmD biD src s

/-! ### BOUNDED REGRESSION OBLIGATION (kernel evaluation on a concrete scenario; not a general theorem)

Two `UpsertAccounts` calls on the ledger of the generated `addLedger` script; the `accounts` table equals
`Spec.upsertAccount` folded over the rows: `a` gets a lower first usage and merged metadata (the later value of
`k` wins) while keeping its insertion date; `b` (later first usage, nothing new) is left alone, `updated_at`
included; `c` is inserted by the second call. -/
open Ledger.Sql.Run in
example : agreeAccounts [[⟨"a", 20, 30, [("k", "v")]⟩, ⟨"b", 20, 30, []⟩],
    [⟨"a", 10, 40, [("k", "w"), ("j", "x")]⟩, ⟨"b", 25, 40, []⟩, ⟨"c", 5, 40, [("z", "1")]⟩]] = true := by
  decide +kernel

end Ledger.C18b
