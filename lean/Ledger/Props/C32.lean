import Ledger.Proofs.WrapBulk

/-!
C32 — Bulk requests respect atomic, ordered and continue-on-failure semantics.

Only property theorems and their non-vacuity examples live here.  The model is
`Ledger/Wrap/Bulk.lean` (hand-written from `internal/api/bulking/bulker.go` and
`writeJSONResponse` of `handler_json.go`; tied to the real `Bulker` and the real
JSON / JSON-stream / script-stream handlers by the `bulk` correspondence
workload, over a scripted in-memory controller).  Everything is stated for an
arbitrary element type, controller state and
`apply : El → S → Except E R × S` — "what the same request returns on its own".

`tag` is how `Bulker.run` fills `BulkElementResult.ElementID`: the code is
`elementTag` (the element index, since commit e1b0ad5); the snapshot originally
never set it (`elementTagBuggy`), which is what the `…_counterexample` is about.
-/
namespace Ledger.C32
open Ledger.Wrap.Bulk List

variable {El S R E : Type} (apply : El → S → Except E R × S)

/-- Both taggings are monotone (needed only for: a sequential run reaches the
    handler already ordered). -/
theorem elementTag_mono : ∀ i j, i ≤ j → elementTag i ≤ elementTag j := fun _ _ h => h

theorem elementTagBuggy_mono : ∀ i j, i ≤ j → elementTagBuggy i ≤ elementTagBuggy j :=
  fun _ _ _ => Nat.le_refl _

/-- **Sequential bulk: exactly one result per element, in order.**  After the
    handler's sort, position `k` holds the result of element `k`: skipped iff an
    earlier element failed and `continueOnFailure` is off, otherwise what element
    `k` yields when processed on its own in the state left by the elements
    before it.  (Holds for the code's tagging and for the pre-fix one.) -/
theorem one_result_per_element_in_order (tag : Nat → Nat)
    (hmono : ∀ i j, i ≤ j → tag i ≤ tag j) (cof : Bool) (els : List El) (s : S) :
    (sortByID (runSeq tag apply cof els 0 false s).1).length = els.length ∧
    ∀ k (hk : k < els.length),
      ((sortByID (runSeq tag apply cof els 0 false s).1)[k]?).map (·.out) =
        some (if (runSeq tag apply cof (els.take k) 0 false s).2.1 && !cof then .skipped
              else (outcomeOf apply els[k] (runSeq tag apply cof (els.take k) 0 false s).2.2).1) := by
  rw [sortByID_eq_self _ (runSeq_sorted tag apply hmono cof els 0 false s)]
  refine ⟨length_runSeq tag apply cof els 0 false s, fun k hk => ?_⟩
  rw [seq_result_at tag apply cof els s k hk]
  rfl

/-- **Parallel bulk: exactly one result per element, in order** — for every
    possible schedule (order of application, order of completion), the handler's
    sort puts the outcome of element `i` at position `i`. -/
theorem one_result_per_element_in_order_parallel [DecidableEq R] [DecidableEq E] (cof : Bool)
    (els : List El) (sc : Sched) (s : S) (h : schedOk apply cof els sc s = true) :
    sortByID (runPar elementTag apply els sc s).1 =
      (List.range els.length).map
        (fun i => mkRes elementTag i (lookupOutcome (applyInOrder apply els sc.applied s).1 i)) := by
  have hp := schedOk_order_perm apply cof els sc s h
  exact sortByID_tagged (fun i => lookupOutcome (applyInOrder apply els sc.applied s).1 i) sc.order _ hp

/-- **A sequential non-atomic bulk applies its elements in order …** : as long as
    no element of the first `k` failed, the controller state is the fold of the
    first `k` elements. -/
theorem sequential_applies_in_order (tag : Nat → Nat) (cof : Bool) (els : List El) (s : S) (k : Nat)
    (h : (runSeq tag apply cof (els.take k) 0 false s).2.1 = false) :
    (runSeq tag apply cof (els.take k) 0 false s).2.2 =
      (els.take k).foldl (fun s e => (apply e s).2) s :=
  (runSeq_no_error tag apply cof (els.take k) 0 s h).1

/-- **… and, after the first failure, applies no later element** (without
    `continueOnFailure`): if an element among the first `k` failed, the final
    state is the state after those `k` elements and every later element's result
    is `skipped` (`context.Canceled`). -/
theorem sequential_stops_after_first_failure (tag : Nat → Nat) (els : List El) (s : S) (k : Nat)
    (h : (runSeq tag apply false (els.take k) 0 false s).2.1 = true) :
    (runSeq tag apply false els 0 false s).2.2 = (runSeq tag apply false (els.take k) 0 false s).2.2 ∧
    ∀ m, k ≤ m → ∀ r, (runSeq tag apply false els 0 false s).1[m]? = some r → r.out = .skipped := by
  have hsplit := runSeq_append tag apply false (els.take k) (els.drop k) 0 false s
  rw [List.take_append_drop] at hsplit
  rw [hsplit, h]
  have hk := runSeq_after_error tag apply (els.drop k) (0 + (els.take k).length)
    (runSeq tag apply false (els.take k) 0 false s).2.2
  refine ⟨by rw [hk.1], ?_⟩
  intro m hm r hr
  simp only [] at hr
  have hlen : (runSeq tag apply false (els.take k) 0 false s).1.length ≤ m := by
    rw [length_runSeq, List.length_take]; omega
  rw [List.getElem?_append_right hlen] at hr
  exact hk.2 r (List.mem_of_getElem? hr)

/-- **With `continueOnFailure` a sequential bulk applies every element, in order**,
    and no result is `skipped`. -/
theorem continue_on_failure_applies_all (tag : Nat → Nat) (els : List El) (s : S) :
    (runSeq tag apply true els 0 false s).2.2 = els.foldl (fun s e => (apply e s).2) s ∧
    ∀ r ∈ (runSeq tag apply true els 0 false s).1, r.out ≠ .skipped :=
  runSeq_cof_state tag apply els 0 false s

/-- **With `continueOnFailure` a parallel bulk applies every element exactly once**
    (in every possible schedule the applied indices are a permutation of all). -/
theorem continue_on_failure_applies_all_parallel [DecidableEq R] [DecidableEq E] (els : List El)
    (sc : Sched) (s : S) (h : schedOk apply true els sc s = true) :
    sc.applied ~ List.range els.length :=
  schedOk_cof_applied_perm apply els sc s h

/-- **An atomic bulk applies all of its elements or none of them**: over a
    transactional controller (durable state `d`, `BeginTX` / `Commit` possibly
    failing), after `Bulker.Run` no transaction is left open and the durable
    state is either unchanged, or it is the fold of *all* elements and every
    element succeeded. -/
theorem atomic_all_or_nothing (tag : Nat → Nat) (cof : Bool) (els : List El) (d : S)
    (beginFail commitFail : Option E) :
    let out := runBulk (txCtrl beginFail commitFail) { atomic := true, cof := cof, parallel := false }
      (runSeq tag (txApply apply) cof els 0 false) (⟨d, none⟩ : TxS S)
    out.2.2.work = none ∧
    (out.2.2.durable = d ∨
      (out.2.2.durable = els.foldl (fun s e => (apply e s).2) d ∧
        ∀ r ∈ out.2.1, r.out.isOk = true)) := by
  intro out
  show out.2.2.work = none ∧ _
  unfold out runBulk txCtrl
  simp only [Bool.and_false, Bool.false_eq_true, if_false, if_true]
  cases beginFail with
  | some e => simp
  | none =>
    simp only [runSeq_txApply_some]
    cases hHE : (runSeq tag apply cof els 0 false d).2.1 with
    | true => simp
    | false =>
      cases commitFail with
      | some e => simp
      | none =>
        have := runSeq_no_error tag apply cof els 0 d hHE
        simp only [Bool.false_eq_true, if_false, true_and]
        right
        exact ⟨this.1, this.2⟩

/-- **Each successful element's result matches what the same request returns on
    its own** (sequential): if position `k` holds `ok r`, then processing element
    `k` alone in the state left by the elements before it returns `r`. -/
theorem element_result_eq_standalone (tag : Nat → Nat) (cof : Bool) (els : List El) (s : S)
    (k : Nat) (hk : k < els.length) (x : BRes R E) (r : R)
    (hx : (runSeq tag apply cof els 0 false s).1[k]? = some x) (hr : x.out = .ok r) :
    (apply els[k] (runSeq tag apply cof (els.take k) 0 false s).2.2).1 = .ok r := by
  rw [seq_result_at tag apply cof els s k hk] at hx
  cases hx
  simp only [mkRes] at hr
  split at hr
  · cases hr
  · exact (outcomeOf_ok apply _ _ r).1 hr

/-- The same for a parallel bulk: the outcome recorded for element `i` is what it
    returns on its own in the state left by the elements applied before it. -/
theorem element_result_eq_standalone_parallel (els : List El) (sc : Sched) (s : S) (i : Nat) (r : R)
    (h : lookupOutcome (applyInOrder apply els sc.applied s).1 i = .ok r) :
    ∃ e pre post, els[i]? = some e ∧ sc.applied = pre ++ i :: post ∧
      (apply e (applyInOrder apply els pre s).2).1 = .ok r := by
  unfold lookupOutcome at h
  split at h
  · rename_i o ho
    subst h
    have hmem : (i, Outcome.ok r) ∈ (applyInOrder apply els sc.applied s).1 := by
      have := List.lookup_eq_some_iff.1 ho
      obtain ⟨l1, l2, heq, _⟩ := this
      rw [heq]; simp
    obtain ⟨e, pre, post, he, hsplit, hout⟩ := applyInOrder_mem apply els sc.applied s i _ hmem
    exact ⟨e, pre, post, he, hsplit, (outcomeOf_ok apply _ _ r).1 hout.symm⟩
  · cases h

/-- Known finding (fixed by e1b0ad5): with the pre-fix tagging (`ElementID` never
    set) a parallel bulk of two elements whose second element completes first
    answers position 0 with element 1's result, labelled with element 0's action. -/
theorem parallel_results_misassigned_counterexample :
    let apply : Nat → Unit → Except Unit Nat × Unit := fun e _ => (.ok e, ())
    let sc : Sched := { applied := [1, 0], order := [1, 0] }
    schedOk apply true [10, 11] sc () = true ∧
    respond ["A", "B"] (runPar elementTagBuggy apply [10, 11] sc ()).1 =
      some [{ responseType := "A", out := .ok 11 }, { responseType := "B", out := .ok 10 }] ∧
    respond ["A", "B"] (runPar elementTag apply [10, 11] sc ()).1 =
      some [{ responseType := "A", out := .ok 10 }, { responseType := "B", out := .ok 11 }] := by
  decide

/-- What holds for ANY tagging (so also for the pre-fix code): the response of a
    parallel bulk contains every element's result exactly once — only the
    positions can be wrong. -/
theorem parallel_partial [DecidableEq R] [DecidableEq E] (tag : Nat → Nat) (cof : Bool)
    (els : List El) (sc : Sched) (s : S) (h : schedOk apply cof els sc s = true) :
    sortByID (runPar tag apply els sc s).1 ~
      (List.range els.length).map
        (fun i => mkRes tag i (lookupOutcome (applyInOrder apply els sc.applied s).1 i)) :=
  (sortByID_perm _).trans ((schedOk_order_perm apply cof els sc s h).map _)

-- Non-vacuity: concrete bulks exercising the hypotheses.

/-- stop after the first failure: [ok, fail, ok] → third element skipped, state = after two -/
example :
    let apply : Nat → List Nat → Except Nat Nat × List Nat :=
      fun e s => if e % 2 = 0 then (.ok e, s ++ [e]) else (.error e, s)
    (runSeq elementTag apply false ([2, 3, 4].take 2) 0 false []).2.1 = true ∧
    (runSeq elementTag apply false [2, 3, 4] 0 false []).2.2 = [2] ∧
    (runSeq elementTag apply false [2, 3, 4] 0 false []).1.map (·.out) = [.ok 2, .err 3, .skipped] := by
  decide

/-- continue on failure: everything applied -/
example :
    let apply : Nat → List Nat → Except Nat Nat × List Nat :=
      fun e s => if e % 2 = 0 then (.ok e, s ++ [e]) else (.error e, s)
    (runSeq elementTag apply true [2, 3, 4] 0 false []).2.2 = [2, 4] := by
  decide

/-- atomic: one failing element → nothing durable; all succeeding → all durable -/
example :
    let apply : Nat → List Nat → Except Nat Nat × List Nat :=
      fun e s => if e % 2 = 0 then (.ok e, s ++ [e]) else (.error e, s)
    (runBulk (txCtrl none none) { atomic := true } (runSeq elementTag (txApply apply) false [2, 3, 4] 0 false)
      (⟨[], none⟩ : TxS (List Nat))).2.2.durable = [] ∧
    (runBulk (txCtrl none none) { atomic := true } (runSeq elementTag (txApply apply) false [2, 4] 0 false)
      (⟨[], none⟩ : TxS (List Nat))).2.2.durable = [2, 4] := by
  decide

/-- a valid parallel schedule with a skipped element -/
example :
    let apply : Nat → Unit → Except Nat Nat × Unit := fun e _ => if e = 0 then (.error e, ()) else (.ok e, ())
    schedOk apply false [1, 0, 2] { applied := [1, 0], order := [1, 2, 0] } () = true := by
  decide

end Ledger.C32
