import Ledger.Proofs.ReplRace

/-!
# C33 — Replication delivers every log, in order, despite failures

Statements about the transition system `Ledger.Repl.step` (model of
`internal/replication` manager ∥ pipeline handler ∥ state persister ∥ exporter;
tied to the real code by the `repl` workload, which replays schedules of the REAL
`Manager` on the model and compares every observation).

`Reach c s`: `s` is reachable from the initial state by ANY finite sequence of
steps (new logs, fetch ok/error, export ok/fail/lost-ack, persist ok/fail in any
order, timers, create/start/stop/reset/sync, manager stop/start): theorems over
`Reach` are statements about all traces of any length.

The code as it is = `Cfg.real ps` (`sync := false`, `allowReset := true`). There
`persisted ≤ acked` and "after a reset everything is exported again" are FALSE
(`*_counterexample`): `ResetPipeline` does not wait for the `StorePipelineState`
call that the stopped pipeline's persister goroutine still has in flight. The
safety theorems hold (`*_partial`, and all others that take `Good c`) when reset
is not used, or with the candidate fix (`sync := true`: stopping a pipeline waits
for its persister).
-/
namespace Ledger.C33
open Ledger.Repl

/-! ## in order, no gaps -/

/-- Between two resets the exporter sees a `Chain`: non-empty contiguous batches,
    each starting at most right after the highest id received so far (a first
    delivery continues without a gap, a redelivery restarts at an id already
    received), and every id up to the high-water mark has been received. -/
theorem export_in_order_no_gaps {c : Cfg} (g : Good c) {s : State} (r : Reach c s) :
    Chain s.recv s.delivHW ∧ ∀ k, 1 ≤ k → k ≤ s.delivHW → Delivered s k :=
  ⟨(inv_reach g r).chain, fun _ h1 h2 => (inv_reach g r).chain.covers h1 h2⟩

/-- Step form: an `Accept` that reaches the exporter hands over exactly the ids
    `lo+1..hi` right after the handler's cursor, `lo` is at most the highest id
    received since the last reset, the logs exist. Nothing else adds to `recv`. -/
theorem export_step_contiguous {c : Cfg} (g : Good c) {s s' : State} {r : AcceptRes} (hr : Reach c s)
    (hs : step c s (.accept r) = some s') (hne : r ≠ .fail) :
    ∃ lo hi, s'.recv = (lo, hi) :: s.recv ∧ lo ≤ s.delivHW ∧ lo < hi ∧ hi ≤ s.nLogs := by
  obtain ⟨h, lo, hi, _, hh, _, hlo, hlt, hle, hrecv, _⟩ := accept_delivers (wf_reach hr) hs hne
  have i := inv_reach g hr
  have := i.last_le h hh
  have := i.ack_le
  exact ⟨lo, hi, hrecv, by omega, hlt, hle⟩

example : Good { ps := 2, sync := true, allowReset := true } := Or.inl rfl
example : Good { ps := 2, sync := false, allowReset := false } := Or.inr rfl

/-- non-vacuity: a reachable state of the code-as-is configuration in which two
    batches were received, the second one a redelivery after a stop/start -/
example : ∃ s, Reach (Cfg.real 2) s ∧ s.recv = [(0, 2), (0, 2)] ∧ s.delivHW = 2 := by
  refine ⟨_, reach_run (ls := [.append 3, .create, .fetch true, .accept .lost, .stop, .start, .fetch true,
    .accept .ok]) Reach.init rfl, rfl, rfl⟩

/-! ## persisted ≤ acknowledged -/

/-- The full statement, kept type-checked: in every reachable state the stored
    cursor is at most the highest id acknowledged since the last reset. -/
def PersistedLeAcked (c : Cfg) : Prop := ∀ s, Reach c s → s.persisted ≤ s.ackHW

/-- What holds: without reset, or with synchronous persistence. Also every write
    still in flight and the in-memory cursor are bounded by the acknowledged id. -/
theorem persisted_le_acked_partial {c : Cfg} (g : Good c) {s : State} (r : Reach c s) :
    s.persisted ≤ s.ackHW ∧ (∀ v ∈ s.orphans ++ s.cur.toList, v ≤ s.ackHW) ∧
      (∀ h, s.handler = some h → h.last ≤ s.ackHW) ∧ s.ackHW ≤ s.delivHW ∧ s.delivHW ≤ s.nLogs := by
  have i := inv_reach g r
  refine ⟨i.persisted_le, ?_, i.last_le, i.ack_le, i.deliv_le⟩
  intro v hv
  rcases List.mem_append.mp hv with h | h
  · exact i.orph_le v h
  · exact i.cur_le v (by simpa using h)

theorem persisted_le_acked_good {c : Cfg} (g : Good c) : PersistedLeAcked c :=
  fun _ r => (persisted_le_acked_partial g r).1

/-- `raceTrace` (see `Ledger/Repl/Spec.lean`): two logs, create, fetch [1,2], export
    ok (2 handed to the persister), `ResetPipeline`, and only then the in-flight
    `StorePipelineState(2)` executes. -/
theorem persisted_le_acked_counterexample :
    ∃ s, Reach (Cfg.real 100) s ∧ s.resets = 1 ∧ s.ackHW = 0 ∧ s.persisted = 2 :=
  ⟨_, reach_run (ls := raceTrace) Reach.init rfl, rfl, rfl, rfl⟩

theorem persisted_le_acked_false : ¬ PersistedLeAcked (Cfg.real 100) := by
  intro h
  obtain ⟨s, r, _, h0, h2⟩ := persisted_le_acked_counterexample
  have := h s r
  omega

/-- the same schedule is impossible with the candidate fix: the write is drained
    before the reset, no `StorePipelineState` is left to execute afterwards -/
example : run { ps := 100, sync := true, allowReset := true } State.init raceTrace = none := rfl

/-! ## reset -/

/-- When `UpdatePipeline(last_log_id = NULL)` takes effect (in whatever step, in
    every configuration) the state is `Fresh`: stored cursor cleared, nothing
    received or acknowledged in the new epoch, the restarted handler (if any)
    fetches from before the first log. -/
theorem reset_restarts_from_first {c : Cfg} {s s' : State} {l : Label} (r : Reach c s)
    (hs : step c s l = some s') (hres : s'.resets = s.resets + 1) : Fresh s' := by
  rcases step_resets (wf_reach r) hs with h | ⟨_, h⟩
  · omega
  · exact h

/-- …and in a `Good` configuration it stays that way: whatever happens next, the
    first batch the exporter receives after a reset starts at id 1. -/
theorem reset_first_batch_starts_at_one {c : Cfg} (g : Good c) {s s' : State} {r : AcceptRes}
    (hr : Reach c s) (hempty : s.recv = []) (hs : step c s (.accept r) = some s') (hne : r ≠ .fail) :
    ∃ hi, s'.recv = [(0, hi)] ∧ 0 < hi := by
  obtain ⟨lo, hi, hrecv, hlo, hlt, _⟩ := export_step_contiguous g hr hs hne
  have hc := (inv_reach g hr).chain
  rw [hempty] at hc hrecv
  have := hc.hw_of_nil
  have : lo = 0 := by omega
  subst this
  exact ⟨hi, hrecv, hlt⟩

/-- non-vacuity: reset of a running pipeline with the fix, then the next export -/
example : ∃ s, Reach { ps := 100, sync := true, allowReset := true } s ∧ s.resets = 1 ∧ s.recv = [(0, 2)] := by
  refine ⟨_, reach_run (ls := [.append 2, .create, .fetch true, .accept .ok, .reset, .fetch true, .accept .ok])
    Reach.init rfl, rfl, rfl⟩

/-- With the code as it is the guarantee is lost: `raceTrace2` = the race schedule
    followed by a stop/start of the pipeline (the restart reads the stale
    `last_log_id = 2`), one more log and a failure-free export. Since the reset the
    exporter has received log 3 only; logs 1 and 2 are behind the cursor. -/
theorem reset_restarts_from_first_counterexample :
    Reach (Cfg.real 100) raceState2 ∧ raceState2.resets = 1 ∧ raceState2.recv = [(2, 3)] ∧
      ¬ Delivered raceState2 1 ∧ ¬ Delivered raceState2 2 := by
  refine ⟨reach_run (ls := raceTrace2) Reach.init rfl, rfl, rfl, ?_, ?_⟩ <;>
    simp [Delivered, raceState2]

/-! ## at least once -/

/-- **At least once** (bounded-fairness form). From EVERY reachable state of a
    created pipeline and every committed log `k` there is a finite sequence of
    enabled, failure-free steps — `fetch ok`, `accept ok`, `persist ok`, timer
    ticks, plus `sync` / manager start when the pipeline or manager is down —
    after which the exporter has received `k` (since the last reset). Because the
    claim is about every reachable state, no earlier step (failure, stop, reset,
    restart) can have disabled progress for good. -/
theorem at_least_once {c : Cfg} (g : Good c) (hps : 1 ≤ c.ps) {s : State} (r : Reach c s)
    (hc : s.created = true) {k : Nat} (h1 : 1 ≤ k) (h2 : k ≤ s.nLogs) :
    ∃ s', Steps c Label.recovery s s' ∧ Delivered s' k :=
  at_least_once_good g hps r hc h1 h2

/-- What holds for the code as it is (every configuration): a running handler
    that is not being stopped delivers every log beyond its cursor by failure-free
    internal steps alone. (Logs at or below a stale cursor are the counterexample above.) -/
theorem at_least_once_partial {c : Cfg} (hps : 1 ≤ c.ps) {s : State} {h : Handler} {k : Nat} (r : Reach c s)
    (hh : s.handler = some h) (hns : h.stopReq = false) (h1 : h.last < k) (h2 : k ≤ s.nLogs) :
    ∃ s', Steps c Label.progress s s' ∧ Delivered s' k :=
  deliver_beyond_cursor hps (wf_reach r) hh hns h1 h2

/-- The full liveness claim is false for the code as it is: from the reachable state
    `raceState2` (pipeline running, nothing pending) NO sequence of failure-free
    internal steps, however long, delivers log 1 or log 2 again. -/
theorem at_least_once_counterexample {s' : State}
    (st : Steps (Cfg.real 100) Label.progress raceState2 s') : ¬ Delivered s' 1 ∧ ¬ Delivered s' 2 :=
  ⟨stuck_not_delivered (stuck_steps st stuck_raceState2) (by omega),
   stuck_not_delivered (stuck_steps st stuck_raceState2) (by omega)⟩

/-- non-vacuity of the hypotheses: page size 1, three logs, handler down after a
    manager stop with an export failure on the way -/
example : ∃ s, Reach (Cfg.real 1) s ∧ s.created = true ∧ s.nLogs = 3 ∧ s.handler = none ∧ s.mgrUp = false := by
  refine ⟨_, reach_run (ls := [.append 3, .create, .fetch true, .accept .fail, .mgrStop]) Reach.init rfl,
    rfl, rfl, rfl, rfl⟩

end Ledger.C33
