import Ledger.Proofs.ReplRace
import Ledger.Proofs.ReplShared

/-!
# C33 — Replication delivers every log, in order, despite failures

Statements about the transition system `Ledger.Repl.step` (model of
`internal/replication` manager ∥ pipeline handler ∥ state persister ∥ exporter;
tied to the real code by the `repl` workload, which replays schedules of the REAL
`Manager` on the model and compares every observation).

`Reach c s`: `s` is reachable from the initial state by ANY finite sequence of
steps (new logs, fetch ok/error, export ok/fail/lost-ack, persist ok/fail in any
order, timers, create/start/stop/reset/sync, manager stop/start): theorems over
`Reach` are statements about all traces of any length.

The code as it is = `Cfg.real ps` (`sync := false`, `allowReset := true`). There
`persisted ≤ acked` and "after a reset everything is exported again" are FALSE
(`*_counterexample`): `ResetPipeline` does not wait for the `StorePipelineState`
call that the stopped pipeline's persister goroutine still has in flight. The
safety theorems hold (`*_partial`, and all others that take `Good c`) when reset
is not used, or with the candidate fix (`sync := true`: stopping a pipeline waits
for its persister).
-/
namespace Ledger.C33
open Ledger.Repl

/-! ## in order, no gaps -/

/-- Between two resets the exporter sees a `Chain`: non-empty contiguous batches,
    each starting at most right after the highest id received so far (a first
    delivery continues without a gap, a redelivery restarts at an id already
    received), and every id up to the high-water mark has been received. Holds
    when every page goes to the exporter in one call (`SingleChunk`: no
    `maxItems`, or `maxItems ≥` page size). -/
theorem export_in_order_no_gaps {c : Cfg} (g : Good c) (sc : SingleChunk c) {s : State} (r : Reach c s) :
    Chain s.recv s.delivHW ∧ ∀ k, 1 ≤ k → k ≤ s.delivHW → Delivered s k :=
  ⟨(inv_reach g r).chain sc, fun _ h1 h2 => ((inv_reach g r).chain sc).covers h1 h2⟩

/-- Step form, every batching configuration: an exporter call that is not a
    whole-call failure hands over exactly one contiguous chunk `pos+1..e` of the
    page `lo+1..hi` the handler fetched right after its cursor `lo`; the cursor is
    at most the highest id received since the last reset, the logs exist. So a gap
    can only lie inside the page being exported. With `SingleChunk` the chunk is
    the page and starts at most right after the highest id received. -/
theorem export_step_contiguous {c : Cfg} (g : Good c) {s s' : State} {r : AcceptRes} (hr : Reach c s)
    (hs : step c s (.accept r) = some s') (hne : r ≠ .fail) :
    ∃ lo pos e, s'.recv = (pos, e) :: s.recv ∧ lo ≤ s.delivHW ∧ lo ≤ pos ∧ pos < e ∧ e ≤ lo + c.ps ∧
      e ≤ s.nLogs ∧ (SingleChunk c → pos = lo) := by
  obtain ⟨h, lo, hi, m, pos, bad, hh, hpc, hlo, hlp, hpe, hehi, hle, hrecv, _⟩ :=
    accept_delivers (wf_reach hr) hs hne
  have i := inv_reach g hr
  have := i.last_le h hh
  have := i.ack_le
  have he := i.expOk h hh
  simp only [ExpOk, hpc] at he
  exact ⟨lo, pos, chunkEnd c pos hi, hrecv, by omega, hlp, hpe, by omega, by omega, he.2⟩

example : Good { ps := 2, sync := true, allowReset := true } := Or.inl rfl
example : Good { ps := 2, sync := false, allowReset := false } := Or.inr rfl
example : SingleChunk { ps := 2, sync := false, allowReset := false, maxItems := 0 } := Or.inl rfl
example : SingleChunk { ps := 2, sync := false, allowReset := false, maxItems := 5 } := Or.inr (by decide)

/-- non-vacuity: a reachable state of the code-as-is configuration in which two
    batches were received, the second one a redelivery after a stop/start -/
example : ∃ s, Reach (Cfg.real 2) s ∧ s.recv = [(0, 2), (0, 2)] ∧ s.delivHW = 2 := by
  refine ⟨_, reach_run (ls := [.append 3, .create, .fetch true, .tick, .accept .lost, .stop, .start,
    .fetch true, .tick, .accept .ok]) Reach.init rfl, rfl, rfl⟩

/-- The full statement, kept type-checked. -/
def InOrderNoGaps (c : Cfg) : Prop := ∀ s, Reach c s → Chain s.recv s.delivHW

/-- With `maxItems` below the page size "in order, no gaps" is FALSE for the code
    as it is, reset or not: `Batcher.Accept` keeps sending the later chunks of a
    page after an earlier chunk failed. `chunkGapTrace` (page 1..4, `maxItems = 2`):
    the call with 1,2 fails, the call with 3,4 succeeds — the first batch the
    exporter ever receives starts at id 3. -/
theorem export_in_order_counterexample :
    ∃ s, Reach (Cfg.real 100 2) s ∧ s.resets = 0 ∧ s.recv = [(2, 4)] ∧ ¬ Delivered s 1 := by
  refine ⟨_, reach_run (ls := chunkGapTrace) Reach.init rfl, rfl, rfl, ?_⟩
  rintro ⟨b, hb, h1, _⟩
  have : b = (2, 4) := by simpa using (show b ∈ [(2, 4)] from hb)
  subst this
  simp at h1

theorem export_in_order_false : ¬ InOrderNoGaps (Cfg.real 100 2) := by
  intro h
  obtain ⟨s, r, _, hrecv, _⟩ := export_in_order_counterexample
  have hc := h s r
  rw [hrecv] at hc
  generalize hw : s.delivHW = w at hc
  cases hc with
  | cons _ hlo _ =>
    rename_i hc0
    have := hc0.hw_of_nil
    omega

/-! ## persisted ≤ acknowledged -/

/-- The full statement, kept type-checked: in every reachable state every log up
    to the stored cursor was acknowledged by the exporter ITSELF (item level, not
    merely reported by `Accept`) since the last reset. -/
def PersistedLeAcked (c : Cfg) : Prop := ∀ s, Reach c s → AckedUpTo s s.persisted

/-- What holds: without reset, or with synchronous persistence. `ackHW` is the end
    of the last page `Accept` reported as acknowledged; every write still in flight
    and the in-memory cursor are bounded by it, and everything up to it was
    acknowledged item by item (`AckedUpTo`). -/
theorem persisted_le_acked_partial {c : Cfg} (g : Good c) {s : State} (r : Reach c s) :
    s.persisted ≤ s.ackHW ∧ (∀ v ∈ s.orphans ++ s.cur.toList, v ≤ s.ackHW) ∧
      (∀ h, s.handler = some h → h.last ≤ s.ackHW) ∧ s.ackHW ≤ s.delivHW ∧ s.delivHW ≤ s.nLogs ∧
      AckedUpTo s s.ackHW := by
  have i := inv_reach g r
  refine ⟨i.persisted_le, ?_, i.last_le, i.ack_le, i.deliv_le, i.ackedPre⟩
  intro v hv
  rcases List.mem_append.mp hv with h | h
  · exact i.orph_le v h
  · exact i.cur_le v (by simpa using h)

theorem persisted_le_acked_good {c : Cfg} (g : Good c) : PersistedLeAcked c := by
  intro s r k h1 h2
  have p := persisted_le_acked_partial g r
  exact p.2.2.2.2.2 k h1 (by have := p.1; omega)

/-- **The batcher's acknowledgement rule**, every configuration (also the code as
    it is): whenever an exporter call makes the handler's cursor advance, every log
    the cursor passed was acknowledged by the exporter item by item — a whole-call
    error or a single item-level error keeps the cursor where it is. -/
theorem cursor_advances_only_over_acked {c : Cfg} {s s' : State} {r : AcceptRes} {h h' : Handler}
    (hr : Reach c s) (hs : step c s (.accept r) = some s') (hh : s.handler = some h)
    (hh' : s'.handler = some h') (hadv : h.last < h'.last) : ∀ k, h.last < k → k ≤ h'.last → Acked s' k :=
  cursor_advance_acked (wf_reach hr) (clean_reach hr) hs hh hh' hadv

/-- non-vacuity: page 1..3 in chunks of 2, item 2 refused once at item level: the
    cursor stays at 0 although the exporter acknowledged 1 and 3; the retry then
    acknowledges everything and the cursor moves to 3 -/
example : ∃ s h, run (Cfg.real 100 2) State.init [.append 3, .create, .fetch true, .accept (.reject 1), .tick,
    .accept .ok] = some s ∧ s.handler = some h ∧ h.last = 0 ∧ h.pc = .retry 0 3 false ∧ s.acked = [3, 1] :=
  ⟨_, _, rfl, rfl, rfl, rfl, rfl⟩

/-- `raceTrace` (see `Ledger/Repl/Spec.lean`): two logs, create, fetch [1,2], export
    ok (2 handed to the persister), `ResetPipeline`, and only then the in-flight
    `StorePipelineState(2)` executes. -/
theorem persisted_le_acked_counterexample :
    ∃ s, Reach (Cfg.real 100) s ∧ s.resets = 1 ∧ s.ackHW = 0 ∧ s.acked = [] ∧ s.persisted = 2 :=
  ⟨_, reach_run (ls := raceTrace) Reach.init rfl, rfl, rfl, rfl, rfl⟩

theorem persisted_le_acked_false : ¬ PersistedLeAcked (Cfg.real 100) := by
  intro h
  obtain ⟨s, r, _, _, hacked, hp⟩ := persisted_le_acked_counterexample
  have := h s r 1 (Nat.le_refl _) (by omega)
  rw [hacked] at this
  simp at this

/-- the same schedule is impossible with the candidate fix: the write is drained
    before the reset, no `StorePipelineState` is left to execute afterwards -/
example : run { ps := 100, sync := true, allowReset := true } State.init raceTrace = none := rfl

/-! ## reset -/

/-- When `UpdatePipeline(last_log_id = NULL)` takes effect (in whatever step, in
    every configuration) the state is `Fresh`: stored cursor cleared, nothing
    received or acknowledged in the new epoch, the restarted handler (if any)
    fetches from before the first log. -/
theorem reset_restarts_from_first {c : Cfg} {s s' : State} {l : Label} (r : Reach c s)
    (hs : step c s l = some s') (hres : s'.resets = s.resets + 1) : Fresh s' := by
  rcases step_resets (wf_reach r) hs with h | ⟨_, h⟩
  · omega
  · exact h

/-- …and in a `Good` configuration it stays that way: whatever happens next, the
    first batch the exporter receives after a reset starts at id 1. -/
theorem reset_first_batch_starts_at_one {c : Cfg} (g : Good c) (sc : SingleChunk c) {s s' : State}
    {r : AcceptRes} (hr : Reach c s) (hempty : s.recv = []) (hs : step c s (.accept r) = some s')
    (hne : r ≠ .fail) : ∃ hi, s'.recv = [(0, hi)] ∧ 0 < hi := by
  obtain ⟨lo, pos, e, hrecv, hlo, _, hlt, _, _, hsc⟩ := export_step_contiguous g hr hs hne
  have hc := (inv_reach g hr).chain sc
  rw [hempty] at hc hrecv
  have := hc.hw_of_nil
  have := hsc sc
  have : pos = 0 := by omega
  subst this
  exact ⟨e, hrecv, hlt⟩

/-- non-vacuity: reset of a running pipeline with the fix, then the next export -/
example : ∃ s, Reach { ps := 100, sync := true, allowReset := true } s ∧ s.resets = 1 ∧ s.recv = [(0, 2)] := by
  refine ⟨_, reach_run (ls := [.append 2, .create, .fetch true, .tick, .accept .ok, .reset, .fetch true, .tick,
    .accept .ok]) Reach.init rfl, rfl, rfl⟩

/-- With the code as it is the guarantee is lost: `raceTrace2` = the race schedule
    followed by a stop/start of the pipeline (the restart reads the stale
    `last_log_id = 2`), one more log and a failure-free export. Since the reset the
    exporter has received log 3 only; logs 1 and 2 are behind the cursor. -/
theorem reset_restarts_from_first_counterexample :
    Reach (Cfg.real 100) raceState2 ∧ raceState2.resets = 1 ∧ raceState2.recv = [(2, 3)] ∧
      ¬ Delivered raceState2 1 ∧ ¬ Delivered raceState2 2 ∧ ¬ Acked raceState2 1 ∧ ¬ Acked raceState2 2 := by
  refine ⟨reach_run (ls := raceTrace2) Reach.init rfl, rfl, rfl, ?_, ?_, ?_, ?_⟩ <;>
    simp [Delivered, Acked, raceState2]

/-! ## several pipelines sharing an exporter -/

section shared
open Ledger.Repl.Shared

/-- After ANY sequence of manager operations (create / start / stop / reset / delete
    of any pipeline, sync, manager stop and start) every running pipeline's exporter
    has a started driver: stopping one pipeline never takes the driver away from a
    sibling pipeline on the same exporter (`stopExporterIfNeeded`'s refcount rule). -/
theorem running_pipeline_has_live_driver {s : MState} (r : MReach s) {p : Pipe} (hp : p ∈ s.running) :
    p.exporter ∈ s.live :=
  (live_reach r).driver p hp

/-- …and no driver is left running without a pipeline that uses it. -/
theorem live_driver_has_running_pipeline {s : MState} (r : MReach s) {e : Nat} (he : e ∈ s.live) :
    ∃ p ∈ s.running, p.exporter = e :=
  (live_reach r).user e he

/-- non-vacuity: two ledgers on exporter 0; stopping (then resetting, deleting) one
    pipeline keeps the driver for the other; stopping the last user releases it -/
example :
    let s := [MOp.create ⟨0, 0⟩, .create ⟨1, 0⟩, .stop ⟨0, 0⟩, .start ⟨0, 0⟩, .reset ⟨1, 0⟩, .delete ⟨0, 0⟩].foldl
      mstep MState.init
    s.running = [⟨1, 0⟩] ∧ s.live = [0] ∧ (mstep s (.stop ⟨1, 0⟩)).live = [] := by decide

end shared

/-! ## at least once -/

/-- **At least once** (bounded-fairness form). From EVERY reachable state of a
    created pipeline and every committed log `k` there is a finite sequence of
    enabled, failure-free steps — `fetch ok`, `accept ok`, `persist ok`, timer
    ticks, plus `sync` / manager start when the pipeline or manager is down —
    after which the exporter has acknowledged `k` itself (since the last reset). Because the
    claim is about every reachable state, no earlier step (failure, stop, reset,
    restart) can have disabled progress for good. -/
theorem at_least_once {c : Cfg} (g : Good c) (hps : 1 ≤ c.ps) {s : State} (r : Reach c s)
    (hc : s.created = true) {k : Nat} (h1 : 1 ≤ k) (h2 : k ≤ s.nLogs) :
    ∃ s', Steps c Label.recovery s s' ∧ Acked s' k :=
  at_least_once_good g hps r hc h1 h2

/-- What holds for the code as it is (every configuration): a running handler
    that is not being stopped gets every log beyond its cursor acknowledged by the
    exporter, item by item, by failure-free internal steps alone. (Logs at or below a stale cursor are the counterexample above.) -/
theorem at_least_once_partial {c : Cfg} (hps : 1 ≤ c.ps) {s : State} {h : Handler} {k : Nat} (r : Reach c s)
    (hh : s.handler = some h) (hns : h.stopReq = false) (h1 : h.last < k) (h2 : k ≤ s.nLogs) :
    ∃ s', Steps c Label.progress s s' ∧ Acked s' k :=
  deliver_beyond_cursor hps (wf_reach r) (clean_reach r) hh hns h1 h2

/-- The full liveness claim is false for the code as it is: from the reachable state
    `raceState2` (pipeline running, nothing pending) NO sequence of failure-free
    internal steps, however long, delivers log 1 or log 2 again. -/
theorem at_least_once_counterexample {s' : State}
    (st : Steps (Cfg.real 100) Label.progress raceState2 s') :
    ¬ Delivered s' 1 ∧ ¬ Delivered s' 2 ∧ ¬ Acked s' 1 ∧ ¬ Acked s' 2 :=
  ⟨stuck_not_delivered (stuck_steps st stuck_raceState2) (by omega),
   stuck_not_delivered (stuck_steps st stuck_raceState2) (by omega),
   stuck_not_acked (stuck_steps st stuck_raceState2) (by omega),
   stuck_not_acked (stuck_steps st stuck_raceState2) (by omega)⟩

/-- non-vacuity of the hypotheses: page size 1, three logs, handler down after a
    manager stop with an export failure on the way -/
example : ∃ s, Reach (Cfg.real 1) s ∧ s.created = true ∧ s.nLogs = 3 ∧ s.handler = none ∧ s.mgrUp = false := by
  refine ⟨_, reach_run (ls := [.append 3, .create, .fetch true, .tick, .accept .fail, .mgrStop]) Reach.init rfl,
    rfl, rfl, rfl, rfl⟩

end Ledger.C33
