import Ledger.Proofs.Reads

/-!
C20 (SQL leg) — list filters select exactly the matching entities; count = number listed.

Only property theorems and non-vacuity examples.  `Reads/Select.lean` gives every listing as
`dataset.filter (selects f ∘ entity)`, where `selects` evaluates builder-query's filter tree in
SQL's three-valued logic (`eval3`): a comparison on an absent value (`reference` of a transaction
without reference, `reverted_at` of a non-reverted one, `balance[ASSET]` of an account without a
row for the asset) is *unknown*, `$not` keeps it unknown, and a row is listed iff the filter is
*true*.  Theorem `eval3_eq_eval_of_defined` shows this is builder-query's documented meaning
`Filter.eval (leafSem …)` on every entity where the leaves are defined.

Tested (not proved): that the SQL `ResolveFilter` renders, evaluated by LeanPG (the MODELLED
Postgres) over the real tables, selects exactly these rows — workload `filter` of `vrreads`.
-/
namespace Ledger.C20r
open Ledger.Base Ledger.Core Ledger.Spec Ledger.Query Ledger.Reads

/-- **Three-valued = two-valued where defined**, for every filter tree (any nesting of
    `$and` / `$or` / `$not`, any operators) and every entity: if no leaf compares a NULL, the row is
    selected iff `Filter.eval` holds. -/
theorem eval3_eq_eval_of_defined (nullBalance : Bool) (e : Entity) (f : Filter)
    (h : ∀ l ∈ f.leaves, leafIsNull nullBalance e l.1 l.2.1 l.2.2 = false) :
    selects nullBalance (some f) e = Filter.eval (leafSemR metaInCurrent e) f := by
  have h3 := eval3_defined (leafIsNull nullBalance e) (leafSemR metaInCurrent e) f h
  show (eval3 (sem3V metaInCurrent nullBalance e) f == some true) = _
  have hsem : sem3V metaInCurrent nullBalance e =
      fun op k v => if leafIsNull nullBalance e op k v then none else some (leafSemR metaInCurrent e op k v) := by
    funext op k v
    simp [sem3V, metaInCurrent]
  rw [hsem, h3]
  cases Filter.eval (leafSemR metaInCurrent e) f <;> rfl

/-- No filter selects everything. -/
theorem no_filter_selects_all (nullBalance : Bool) (e : Entity) : selects nullBalance none e = true := rfl

/-- **The accounts listing is exactly the set of matching accounts of the dataset at `pit`**
    (soundness and completeness), in dataset order. -/
theorem accounts_list_eq_filter_eval (feat : Features) (l : Ledger) (pit : Option Int) (f : Option Filter)
    (rows : List AccountView) (h : accountsSelected feat l pit f = .ok rows) :
    rows = (accountsAt feat l pit).filter
      (fun v => selects true f (accountEntity v (accountBalances l pit v.address))) ∧
    ∀ v, v ∈ rows ↔ (v ∈ accountsAt feat l pit ∧
      selects true f (accountEntity v (accountBalances l pit v.address)) = true) := by
  unfold accountsSelected at h
  cases h1 : validateFilter accountSchema f with
  | error e => simp [h1, bind, Except.bind] at h
  | ok _ =>
    cases h2 : accountFilterCheck feat pit.isSome f with
    | error e => simp [h1, h2, bind, Except.bind] at h
    | ok _ =>
      simp only [h1, h2, bind, Except.bind, pure, Except.pure] at h
      by_cases hc : (usesGenericBalance f &&
          (accountsAt feat l pit).any fun v => decide ((accountBalances l pit v.address).length ≥ 2)) = true
      · simp [hc, throw, throwThe, MonadExceptOf.throw] at h
      · simp only [hc, Bool.false_eq_true, if_false, Except.ok.injEq] at h
        subst h
        exact ⟨rfl, fun v => List.mem_filter⟩

/-- The same for transactions. -/
theorem transactions_list_eq_filter_eval (feat : Features) (l : Ledger) (pit : Option Int) (f : Option Filter)
    (rows : List TxView) (h : transactionsSelected feat l pit f = .ok rows) :
    rows = (transactionsAt feat l pit).filter (fun v => selects true f (txEntity v)) ∧
    ∀ v, v ∈ rows ↔ (v ∈ transactionsAt feat l pit ∧ selects true f (txEntity v) = true) := by
  unfold transactionsSelected at h
  cases h1 : validateFilter transactionSchema f with
  | error e => simp [h1, bind, Except.bind] at h
  | ok _ =>
    simp only [h1, bind, Except.bind, pure, Except.pure, Except.ok.injEq] at h
    subst h
    exact ⟨rfl, fun v => List.mem_filter⟩

/-- **Count = number listed**: the count of a resource query is the length of the unpaginated
    listing, which never exceeds the dataset. -/
theorem count_eq_length_listed (feat : Features) (l : Ledger) (pit : Option Int) (f : Option Filter)
    (rows : List AccountView) (h : accountsSelected feat l pit f = .ok rows) :
    rows.length = ((accountsAt feat l pit).filter
      (fun v => selects true f (accountEntity v (accountBalances l pit v.address)))).length ∧
    rows.length ≤ (accountsAt feat l pit).length := by
  obtain ⟨h1, _⟩ := accounts_list_eq_filter_eval feat l pit f rows h
  rw [h1]
  exact ⟨rfl, List.length_filter_le _ _⟩

/-- A filter that fails validation is rejected, never answered. -/
theorem invalid_filter_rejected (feat : Features) (l : Ledger) (pit : Option Int) (f : Filter)
    (h : validate parseRFC3339 accountSchema f = .error e) :
    accountsSelected feat l pit (some f) = .error .invalidQuery := by
  unfold accountsSelected validateFilter
  simp [h, bind, Except.bind]

/-- Non-vacuity of the three-valued reading: on a transaction without reference,
    `$not {$match reference "x"}` is unknown — not selected — while `Filter.eval` says true;
    on a transaction with a reference both agree. -/
example :
    let noRef : TxView := { id := 1, postings := [⟨"world", "a", 1, "USD"⟩], timestamp := 0, insertedAt := 0,
                            updatedAt := 0, reference := "", metadata := [], revertedAt := none }
    let withRef : TxView := { noRef with reference := "r" }
    let f : Filter := .not (.leaf .match_ "reference" (.sc (.str "x")))
    (selects true (some f) (txEntity noRef), Filter.eval (leafSemR metaInCurrent (txEntity noRef)) f,
     selects true (some f) (txEntity withRef), Filter.eval (leafSemR metaInCurrent (txEntity withRef)) f) =
    (false, true, true, true) := by decide

end Ledger.C20r
