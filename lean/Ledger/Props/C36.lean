import Ledger.Proofs.ApiAmounts

/-!
C36 — Amounts are exact at any magnitude (API decoding part).

Amounts are unbounded `Int`s in every model layer; the content of this property at
the API boundary is that the *decoders* carry them unchanged from the JSON text to
the machine's typed value, for every magnitude.  Models: `Ledger/Api/Vars.lean`,
`Ledger/Api/TxBody.lean`, `Ledger/Api/Float.lean`, tied to the real v1 / v2
decoders, the compiler and `Machine.SetVarsFromJSON` by the `vars36` and
`txbody36` correspondence workloads.

Since `fix:` ba56562 (`ScriptV1.UnmarshalJSON` decodes with `UseNumber()`) a numeric
monetary amount of v2 reaches the machine as its literal text, so
`amount_passthrough_v2_number` holds for every integer (it was false above 2^53).
-/
namespace Ledger.C36
open Ledger.Api

/-- `decimal_roundtrip`: printing an integer of any magnitude and parsing it back
    (`big.Int.SetString`, used for `"ASSET amount"` monetary strings) is the identity. -/
theorem decimal_roundtrip (n : Int) : parseBigInt (showInt n) = some n := parseBigInt_showInt n

/-- The same for JSON integer literals (`big.Int.UnmarshalJSON`, postings amounts
    and `number` variables). -/
theorem decimal_roundtrip_json (n : Int) : parseJsonInt (showInt n) = some n := parseJsonInt_showInt n

/-- Posting amounts: a JSON integer literal of any magnitude decodes to itself. -/
theorem amount_passthrough_posting (n : Int) : decOptBigInt (some (JVal.int n)) = .ok (some n) :=
  decOptBigInt_int n

/-- v1, monetary variable `{"asset": a, "amount": n}` with `n` a JSON number: the
    string handed to the machine is `a ++ " " ++ decimal n`, for every `n`. -/
theorem amount_passthrough_v1 (a : String) (n : Int) :
    varV1 (.obj [("asset", .str a), ("amount", JVal.int n)]) = .ok (a ++ " " ++ showIntS n) :=
  varV1_monetary a n

/-- …and the machine reads that string back as exactly `(a, n)` (`NewValueFromString`),
    whatever the magnitude of `n`. -/
theorem amount_passthrough_machine (a : String) (n : Int) (hsp : ' ' ∉ a.toList)
    (ha : validAsset a.toList = true) (hn : 0 ≤ n) :
    parseTyped .monetary (a ++ " " ++ showIntS n) = .ok (.monetary a n) :=
  parseTyped_monetary a n hsp ha hn

/-- v2, amount given as a decimal string: passed through untouched, any magnitude. -/
theorem amount_passthrough_v2_string (a : String) (n : Int) :
    varV2 (.obj [("asset", .str a), ("amount", .str (showIntS n))]) = some (a ++ " " ++ showIntS n) :=
  varV2_monetary_string a n

/-- v2, amount given as a JSON number of any magnitude: passed through untouched. -/
theorem amount_passthrough_v2_number (a : String) (n : Int) :
    varV2 (.obj [("asset", .str a), ("amount", JVal.int n)]) = some (a ++ " " ++ showIntS n) := by
  have h := varV2_monetary_number a (JNum.ofInt n)
  rw [JNum.text_ofInt] at h
  exact h

/-- A fractional or exponent literal is handed over as written (`"USD 1.5"`), which
    the machine then refuses (`parseBigInt` fails): no silent truncation. -/
theorem amount_v2_fraction_refused :
    (match parseTyped .monetary "USD 1.5" with | .error _ => true | .ok _ => false) = true := by
  decide +kernel

/-- Non-vacuity of the hypotheses of `amount_passthrough_machine`. -/
example : ' ' ∉ "USD/2".toList ∧ validAsset "USD/2".toList = true := by decide

example : parseTyped .monetary ("USD/2" ++ " " ++ showIntS 18446744073709551617) =
    .ok (.monetary "USD/2" 18446744073709551617) :=
  amount_passthrough_machine "USD/2" 18446744073709551617 (by decide) (by decide) (by decide)

end Ledger.C36
