import Ledger.Proofs.ApiAmounts

/-!
C36 — Amounts are exact at any magnitude (API decoding part).

Amounts are unbounded `Int`s in every model layer; the content of this property at
the API boundary is that the *decoders* carry them unchanged from the JSON text to
the machine's typed value, for every magnitude.  Models: `Ledger/Api/Vars.lean`,
`Ledger/Api/TxBody.lean`, `Ledger/Api/Float.lean`, tied to the real v1 / v2
decoders, the compiler and `Machine.SetVarsFromJSON` by the `vars36` and
`txbody36` correspondence workloads.

Expected false in one place: v2 `ScriptV1.ToCore` sends a *numeric* monetary
amount through `float64` and `int` — stated as `…_partial` (|n| ≤ 2^53) plus
counterexamples.
-/
namespace Ledger.C36
open Ledger.Api

/-- `decimal_roundtrip`: printing an integer of any magnitude and parsing it back
    (`big.Int.SetString`, used for `"ASSET amount"` monetary strings) is the identity. -/
theorem decimal_roundtrip (n : Int) : parseBigInt (showInt n) = some n := parseBigInt_showInt n

/-- The same for JSON integer literals (`big.Int.UnmarshalJSON`, postings amounts
    and `number` variables). -/
theorem decimal_roundtrip_json (n : Int) : parseJsonInt (showInt n) = some n := parseJsonInt_showInt n

/-- Posting amounts: a JSON integer literal of any magnitude decodes to itself. -/
theorem amount_passthrough_posting (n : Int) : decOptBigInt (some (JVal.int n)) = .ok (some n) :=
  decOptBigInt_int n

/-- v1, monetary variable `{"asset": a, "amount": n}` with `n` a JSON number: the
    string handed to the machine is `a ++ " " ++ decimal n`, for every `n`. -/
theorem amount_passthrough_v1 (a : String) (n : Int) :
    varV1 (.obj [("asset", .str a), ("amount", JVal.int n)]) = .ok (a ++ " " ++ showIntS n) :=
  varV1_monetary a n

/-- …and the machine reads that string back as exactly `(a, n)` (`NewValueFromString`),
    whatever the magnitude of `n`. -/
theorem amount_passthrough_machine (a : String) (n : Int) (hsp : ' ' ∉ a.toList)
    (ha : validAsset a.toList = true) (hn : 0 ≤ n) :
    parseTyped .monetary (a ++ " " ++ showIntS n) = .ok (.monetary a n) :=
  parseTyped_monetary a n hsp ha hn

/-- v2, amount given as a decimal string: passed through untouched, any magnitude. -/
theorem amount_passthrough_v2_string (a : String) (n : Int) :
    varV2 (.obj [("asset", .str a), ("amount", .str (showIntS n))]) = some (a ++ " " ++ showIntS n) :=
  varV2_monetary_string a n

/-- v2, amount given as a JSON number: what reaches the machine is `v2AmountInt`
    (nearest `float64`, then `int()`), … -/
theorem amount_v2_number (a : String) (lit : JNum) :
    varV2 (.obj [("asset", .str a), ("amount", .num lit)]) = some (a ++ " " ++ showIntS (v2AmountInt lit)) :=
  varV2_monetary_number a lit

/-- … which is exact up to 2^53 in magnitude (`amount_passthrough`, partial). -/
theorem amount_passthrough_v2_number_partial (n : Int) (h : n.natAbs ≤ 2 ^ 53) :
    v2AmountInt (JNum.ofInt n) = n :=
  v2AmountInt_exact n (by simpa [two53] using h)

/-- Counterexamples on the unchanged code: 2^53+1 silently becomes 2^53, 1.5
    becomes 1, and 2^63 becomes −2^63 (then refused as negative). -/
theorem amount_passthrough_v2_number_counterexample :
    v2AmountInt (JNum.ofInt 9007199254740993) = 9007199254740992 ∧
    v2AmountInt { neg := false, int := 1, frac := [5], exp := none } = 1 ∧
    v2AmountInt (JNum.ofInt 9223372036854775808) = -9223372036854775808 := by
  decide +kernel

/-- Non-vacuity of the hypotheses of `amount_passthrough_machine`. -/
example : ' ' ∉ "USD/2".toList ∧ validAsset "USD/2".toList = true := by decide

example : parseTyped .monetary ("USD/2" ++ " " ++ showIntS 18446744073709551617) =
    .ok (.monetary "USD/2" 18446744073709551617) :=
  amount_passthrough_machine "USD/2" 18446744073709551617 (by decide) (by decide) (by decide)

end Ledger.C36
