import Ledger.Proofs.SchedLocks
import Ledger.Proofs.SchedChain
import Ledger.Proofs.SchedHandles
import Ledger.Proofs.SchedWitnesses

/-!
# C09 (schedule part) — the hash chain stays linear under concurrency (HASH_LOGS=SYNC)

Proved for ALL schedules: `lock_excludes` for advisory locks (the mechanism: the
transaction-scoped `pg_advisory_xact_lock(ledger id)` taken by InsertLog before the
INSERT is held to COMMIT/ROLLBACK and excludes every other session), and the
step-level fact that the `set_log_hash` trigger chains from the last log the
statement can see. The regenerated tie shows the lock precedes the INSERT in the
same transaction in the real code. The all-schedules linearity statement itself
(`chain_linear_any_schedule`) is NOT proved yet: it is covered by kernel-evaluated
examples and by the `chain` correspondence workload (every stored hash recomputed
with the real `Log.ComputeHash` over the previous log by id).
-/
namespace Ledger.C09s
open Ledger.Sched

/-- `lock_excludes` (advisory locks), any schedule: while `s` holds a key and does not move, no
    schedule of other sessions takes the key from it or shares it. -/
theorem lock_excludes (s : Sid) (key : Nat) (σ : Schedule) (w : World)
    (hwf : AdvWf w) (hheld : Holds w s key) (hσ : ∀ t ∈ σ, t ≠ s) :
    Holds (run σ w) s key ∧ ∀ t, t ≠ s → ¬ Holds (run σ w) t key := by
  have h : HeldBy s key (run σ w) := by
    induction σ generalizing w with
    | nil => exact ⟨hwf, hheld⟩
    | cons t σ ih =>
      have ht : t ≠ s := hσ t (List.mem_cons_self ..)
      have h1 := heldBy_step s t key ht w ⟨hwf, hheld⟩
      exact ih (step w t) h1.1 h1.2 (fun u hu => hσ u (List.mem_cons_of_mem _ hu))
  exact ⟨h.2, fun t ht => heldBy_excl s t key ht _ h⟩

example : AdvWf { adv := [{ key := logKey 1, sid := 1, xact := true }] } ∧
    Holds { adv := [{ key := logKey 1, sid := 1, xact := true }] } 1 (logKey 1) := by
  refine ⟨?_, ⟨_, List.mem_singleton.mpr rfl, rfl, rfl⟩⟩
  intro a ha b hb _
  simp only [List.mem_singleton] at ha hb
  rw [ha, hb]

/-- `chain_linear_any_schedule`: for every schedule, in every world reached from one satisfying the
    discipline (`GInv`) and the chain invariant, the log rows of the ledger — committed or in progress,
    in insertion order — have strictly increasing ids, each chains from the row before it (the first
    from nothing), the committed ones alone do too, and no two rows have the same predecessor. -/
theorem chain_linear_any_schedule (l₀ : Nat) (σ : Schedule) (w₀ : World)
    (hg : GInv ⟨logKey l₀, l₀, true⟩ w₀) (hc : ChainInv ⟨logKey l₀, l₀, true⟩ w₀) :
    let L := (run σ w₀).logs.filter (fun e => e.l = l₀)
    L.Pairwise (fun a b => a.id < b.id) ∧ ChainedFrom 0 L ∧ ChainedFrom 0 (L.filter (·.com)) ∧
    L.Pairwise (fun a b => a.prev ≠ b.prev) := by
  intro L
  have h := (chainInv_run ⟨logKey l₀, l₀, true⟩ rfl σ w₀ hg hc).2
  refine ⟨h.inc, h.chain, ?_, ?_⟩
  · have : L.filter (·.com) = L.takeWhile (·.com) := filter_eq_takeWhile_of_prefix L _ h.pre
    rw [this]
    exact chainedFrom_takeWhile _ 0 L h.chain
  · exact (prevs_increasing 0 L h.chain h.inc h.pos).imp (fun hlt => Nat.ne_of_lt hlt)

/-- the real create path on a ledger in use follows the discipline, for every answer of every statement -/
theorem writers_are_safe (l₀ : Nat) (q : Send) (hq : q.l = l₀ → q.sync = true) (m : Mon) :
    Safe ⟨logKey l₀, l₀, true⟩ m (sendProg q true) := by
  apply safe_sendProg_inUse
  intro hl
  exact ⟨hq hl, by rw [hl]⟩

/-- non-vacuity: two concurrent SYNC writers on a ledger in use satisfy the hypotheses -/
example : GInv ⟨logKey 1, 1, true⟩ exWorld ∧ ChainInv ⟨logKey 1, 1, true⟩ exWorld := by
  constructor
  · refine ⟨(by intro a ha; cases ha), fun s => ⟨{}, ⟨?_, ?_, ?_, ?_, ?_, ?_⟩, ?_⟩⟩
    · intro h; cases h
    · intro h; cases h
    · intro h; cases h
    · intro _ e he; cases he
    · intro h; cases h
    · intro h; cases h
    · simp only [exWorld]
      split
      · exact writers_are_safe 1 exA (fun _ => rfl) {}
      · split
        · exact writers_are_safe 1 exB (fun _ => rfl) {}
        · trivial
  · refine ⟨List.Pairwise.nil, ?_, trivial, List.Pairwise.nil, List.Pairwise.nil, ?_, ?_, ?_⟩ <;> intro e he <;> cases he

/-- a second session's lock request waits while the key is held -/
theorem advisory_lock_waits (w : World) (s t : Sid) (l : Nat)
    (h : holder? w.adv (logKey l) s = some t) :
    exec w s (.advLockLog l) = .blocked t := by
  simp only [exec, h]

/-- the trigger chains the new log from the last log its statement sees (committed or own) -/
theorem trigger_chains_from_last_visible (w w' : World) (s : Sid) (l ik hash tx : Nat) (o : Out)
    (h : insLog w s l ik hash true none tx = .done w' o) :
    ∃ e, w'.logs = w.logs ++ [e] ∧ e.l = l ∧ e.id = w.logSeq l + 1 ∧
      e.prev = maxId ((w.logs.filter (fun e => e.l = l && visLog s e)).map (·.id)) := by
  unfold insLog at h
  dsimp only at h
  cases h1 : w.logs.find? (fun e => decide (e.l = l) && decide (e.id = (none : Option Nat).getD (w.logSeq l + 1))) with
  | some t => rw [h1] at h; dsimp only at h; split at h <;> cases h
  | none =>
    rw [h1] at h; dsimp only at h
    cases h2 : (if ik = 0 then none else w.logs.find? (fun e => decide (e.l = l) && decide (e.ik = ik))) with
    | some t => rw [h2] at h; dsimp only at h; split at h <;> cases h
    | none =>
      rw [h2] at h; dsimp only at h
      injection h with hw _
      subst hw
      exact ⟨_, rfl, rfl, rfl, rfl⟩


theorem advisory_lock_before_insert_in_generated_handles :
    lockBeforeInsert Generated.Handles.sendSyncBounded = true ∧
    lockBeforeInsert Generated.Handles.sendSyncUnbounded = true ∧
    lockBeforeInsert Generated.Handles.sendFirstWrite = true ∧
    lockBeforeInsert Generated.Handles.revertSync = true ∧
    lockBeforeInsert Generated.Handles.bulkAtomic = true ∧
    lockBeforeInsert Generated.Handles.importTwoLogs = true := by
  decide

/-! ## examples (tests): two SYNC writers on disjoint rows, every way round the lock -/


/-- B reaches the lock while A holds it: B waits, then chains from A's log -/
example :
    (run [1, 1, 1, 1, 1, 2, 2, 2, 2, 2, 1, 2, 1, 2, 2, 2] exWorld).logs.map (fun e => (e.id, e.prev, e.com)) =
      [(1, 0, true), (2, 1, true)] := by
  decide


example :
    let w : World := { sess := fun s => if s = 1 then { prog := lateLock exA } else if s = 2 then { prog := lateLock exB } else {} }
    (run [1, 1, 1, 1, 2, 2, 2, 2, 1, 1, 2, 2] w).logs.map (fun e => (e.id, e.prev, e.com)) = [(1, 0, true), (2, 0, true)] := by
  decide

end Ledger.C09s
