import Ledger.Proofs.MachineKept
import Ledger.Proofs.MachineBC16

/-!
C22 — Numscript sends move exactly the requested amount.

Theorems about the big-step semantics `sem` / `evalStmt` of
`Ledger/Machine/Sem.lean` (tied to the real compiler + VM by the `prog`
correspondence workload), for ALL programs — structural induction over sources
and destinations, no size bound.  `kept` is the part of the funding the
destination kept: it is handed back to the sources (`repay`) and never posted.
-/
namespace Ledger.C22
open Ledger.Machine

variable {cfg : Cfg}

/-- `send <monetary>`: for a statement the compiler accepted, a successful execution
    appends postings that are all in the monetary's asset, non-negative, and whose
    sum plus the kept part is exactly the sent amount. -/
theorem send_conserves (env : Env) (henv : EnvGood env) (ds : Decls) (mon : Expr) (src : VSource)
    (dst : Dest) (st st' : State) (hc : checkStmt ds (.send mon src dst) = .ok ())
    (h : evalStmt cfg env (.send mon src dst) st = .ok st') :
    ∃ asset amt new kept, evalMonetary env mon = .ok (asset, some amt) ∧
      st'.postings = st.postings ++ new ∧ (∀ p ∈ new, p.asset = asset ∧ 0 ≤ p.amount) ∧
      amountSum new + kept = amt ∧ 0 ≤ kept := by
  cases src with
  | src s =>
    obtain ⟨asset, amt, new, kept, hm, ok, _⟩ := send_src_ok h
    exact ⟨asset, amt, new, kept, hm, ok.postings, fun p hp => ⟨ok.assetOk p hp, ok.nonneg p hp⟩,
      ok.sum, ok.keptNonneg⟩
  | allot items =>
    have hca : checkAllotment ds items.portions = .ok () := by
      simp only [checkStmt] at hc
      split at hc
      · cases hc
      · split at hc
        · cases hc
        · rename_i hsrc
          split at hsrc
          · cases hsrc
          · rename_i hu; exact hu
    obtain ⟨asset, amt, new, kept, hm, ok, _⟩ := send_allot_ok henv hca h
    exact ⟨asset, amt, new, kept, hm, ok.postings, fun p hp => ⟨ok.assetOk p hp, ok.nonneg p hp⟩,
      ok.sum, ok.keptNonneg⟩

/-- What is left of a non-negative funding by a kept-free destination the compiler
    accepted is worth nothing. -/
theorem keptfree_destination_sends_everything (env : Env) (henv : EnvGood env) (ds : Decls)
    (asset : String) (d : Dest) (hk : keptFreeDest d = true) (hc : checkDest ds d = .ok ())
    (f : List Part) (st : State) (rem : List Part) (st' : State) (hf : partsNonneg f)
    (h : evalDest env asset d f st = .ok (rem, st')) : total rem = 0 :=
  evalDest_keptfree env henv ds asset d hk hc f st rem st' hf h

/-- Corollary of `send_conserves`: when the destination has no `kept` clause, the
    postings of `send <monetary>` sum to the sent amount EXACTLY. -/
theorem send_conserves_keptfree (env : Env) (henv : EnvGood env) (ds : Decls) (mon : Expr)
    (src : VSource) (dst : Dest) (st st' : State) (hc : checkStmt ds (.send mon src dst) = .ok ())
    (hk : keptFreeDest dst = true) (h : evalStmt cfg env (.send mon src dst) st = .ok st') :
    ∃ asset amt new, evalMonetary env mon = .ok (asset, some amt) ∧
      st'.postings = st.postings ++ new ∧ (∀ p ∈ new, p.asset = asset ∧ 0 ≤ p.amount) ∧
      amountSum new = amt := by
  have hcd : checkDest ds dst = .ok () := by
    simp only [checkStmt] at hc
    split at hc
    · cases hc
    · split at hc
      · cases hc
      · exact hc
  have fin : ∀ asset amt new kept, evalMonetary env mon = .ok (asset, some amt) →
      SendOK st st' asset amt new kept → KeptWitness env dst kept →
      ∃ asset amt new, evalMonetary env mon = .ok (asset, some amt) ∧
        st'.postings = st.postings ++ new ∧ (∀ p ∈ new, p.asset = asset ∧ 0 ≤ p.amount) ∧
        amountSum new = amt := by
    intro asset amt new kept hm ok ⟨f, st0, rem, st1, hf, hd, hkept⟩
    have h0 := evalDest_keptfree env henv ds f.asset dst hk hcd f.parts st0 rem st1 hf hd
    refine ⟨asset, amt, new, hm, ok.postings, fun p hp => ⟨ok.assetOk p hp, ok.nonneg p hp⟩, ?_⟩
    have := ok.sum
    omega
  cases src with
  | src s =>
    obtain ⟨asset, amt, new, kept, hm, ok, w⟩ := send_src_ok h
    exact fin asset amt new kept hm ok w
  | allot items =>
    have hca : checkAllotment ds items.portions = .ok () := by
      simp only [checkStmt] at hc
      split at hc
      · cases hc
      · split at hc
        · cases hc
        · rename_i hsrc
          split at hsrc
          · cases hsrc
          · rename_i hu; exact hu
    obtain ⟨asset, amt, new, kept, hm, ok, w⟩ := send_allot_ok henv hca h
    exact fin asset amt new kept hm ok w

/-- Same for `send [A *]` with a kept-free destination: the postings sum exactly to the
    funds available from the sources. -/
theorem send_all_keptfree_sum_eq_available (env : Env) (henv : EnvGood env) (ds : Decls)
    (assetE : Expr) (s : Source) (dst : Dest) (st st' : State)
    (hc : checkStmt ds (.sendAll assetE (.src s) dst) = .ok ()) (hk : keptFreeDest dst = true)
    (h : evalStmt cfg env (.sendAll assetE (.src s) dst) st = .ok st') :
    ∃ asset f b1 new, evalAssetE env assetE = .ok asset ∧
      evalSource cfg env asset s st.bal = .ok (f, b1) ∧
      st'.postings = st.postings ++ new ∧ amountSum new = total f.parts := by
  have hcd : checkDest ds dst = .ok () := by
    simp only [checkStmt] at hc
    split at hc
    · cases hc
    · split at hc
      · cases hc
      · exact hc
  obtain ⟨asset, f, b1, new, kept, ha, hs, ok, ⟨f', st0, rem, st1, hf, hd, hkept⟩⟩ := sendAll_ok h
  have h0 := evalDest_keptfree env henv ds f'.asset dst hk hcd f'.parts st0 rem st1 hf hd
  refine ⟨asset, f, b1, new, ha, hs, ok.postings, ?_⟩
  have := ok.sum
  omega

/-- `send [A *]`: the postings are non-negative, all in one asset (the asset of the
    funding the sources yield) and their sum plus the kept part is exactly the
    funds available from the sources. -/
theorem send_all_sum_eq_available (env : Env) (assetE : Expr) (s : Source) (dst : Dest)
    (st st' : State) (h : evalStmt cfg env (.sendAll assetE (.src s) dst) st = .ok st') :
    ∃ asset f b1 new kept, evalAssetE env assetE = .ok asset ∧
      evalSource cfg env asset s st.bal = .ok (f, b1) ∧
      st'.postings = st.postings ++ new ∧ (∀ p ∈ new, p.asset = f.asset ∧ 0 ≤ p.amount) ∧
      amountSum new + kept = total f.parts ∧ 0 ≤ kept := by
  obtain ⟨asset, f, b1, new, kept, ha, hs, ok, _⟩ := sendAll_ok h
  exact ⟨asset, f, b1, new, kept, ha, hs, ok.postings,
    fun p hp => ⟨ok.assetOk p hp, ok.nonneg p hp⟩, ok.sum, ok.keptNonneg⟩

/-- The claim "the postings of `send [A *]` are in the statement's asset `A`", for a
    variant `cfg` of the code. -/
def send_all_in_statement_asset (cfg : Cfg) : Prop :=
  ∀ (env : Env) (assetE : Expr) (s : Source) (dst : Dest) (st st' : State) (a : String),
    evalStmt cfg env (.sendAll assetE (.src s) dst) st = .ok st' → evalAssetE env assetE = .ok a →
    ∃ new, st'.postings = st.postings ++ new ∧ ∀ p ∈ new, p.asset = a ∧ 0 ≤ p.amount

/-- What holds for every variant: when every overdraft clause of the source is in asset
    `A` (or the compiler emits the asset check of commit 7a34851), all postings are in `A`. -/
theorem send_all_in_statement_asset_partial (env : Env) (assetE : Expr) (s : Source) (dst : Dest)
    (st st' : State) (a : String) (h : evalStmt cfg env (.sendAll assetE (.src s) dst) st = .ok st')
    (ha : evalAssetE env assetE = .ok a) (ho : cfg.overdraftAssetCheck = true ∨ OdAsset env a s) :
    ∃ new, st'.postings = st.postings ++ new ∧ ∀ p ∈ new, p.asset = a ∧ 0 ≤ p.amount := by
  obtain ⟨asset, f, b1, new, kept, ha', hs, ok, _⟩ := sendAll_ok h
  rw [ha] at ha'; cases ha'
  refine ⟨new, ok.postings, fun p hp => ⟨?_, ok.nonneg p hp⟩⟩
  rw [ok.assetOk p hp]
  exact evalSource_asset cfg env a s st.bal f b1 hs ho

/-- Since commit 7a34851 the claim holds in full for the current code: all postings of
    `send [A *]` are in `A` (and non-negative). -/
theorem send_all_in_statement_asset_holds : send_all_in_statement_asset Cfg.fixed := by
  intro env assetE s dst st st' a h ha
  exact send_all_in_statement_asset_partial env assetE s dst st st' a h ha (Or.inl rfl)

/-- Witness script: the overdraft clause is in USD, the statement in GEM. -/
def witnessScript : Script :=
  { vars := [⟨.monetary, "b", .balance (.acct "bank") (.asset "USD")⟩],
    stmts := [.sendAll (.asset "GEM")
      (.src (.account (.acct "bank") (.upTo (.mon (.asset "USD") 79)))) (.account (.acct "u"))] }

def witnessInput : Input := { vars := [], balance := fun _ _ => 0, accountMeta := fun _ => none }

/-- The defect repaired by 7a34851, as a statement about the PRE-FIX variant of the
    model: `send [GEM *]` from a source `allowing overdraft up to [USD 79]` posted 79 USD;
    the current variant rejects the script ("cannot add different assets"). -/
theorem send_all_in_statement_asset_prefix_counterexample :
    postingsOf (sem Cfg.preFix witnessScript witnessInput) = some [⟨"bank", "u", "USD", 79⟩] ∧
    postingsOf (sem Cfg.fixed witnessScript witnessInput) = none := by
  constructor <;> decide +kernel

/-- A `kept` clause hands its funding back untouched: no posting, no balance change. -/
theorem kept_produces_no_posting (env : Env) (asset : String) (f : List Part) (st : State) :
    evalKD env asset .kept f st = .ok (f, st) := by
  simp [evalKD]

/-- Whatever a destination does, every unit of the funding is either posted or left
    over (kept), and only postings change the state's posting list. -/
theorem destination_conserves (env : Env) (asset : String) (d : Dest) (f : List Part)
    (st : State) (rem : List Part) (st' : State) (h : evalDest env asset d f st = .ok (rem, st')) :
    ∃ new, st'.postings = st.postings ++ new ∧ total f = total rem + amountSum new := by
  obtain ⟨new, hs, ht, _⟩ := evalDest_ok env asset d f st rem st' h
  refine ⟨new, hs.postings, ?_⟩
  have := ht (fun _ => true)
  rw [← total_eq_totalOf, ← total_eq_totalOf, ← amountSum_eq_outOf] at this
  exact this

/-- The tracked balance of every pair of a non-world account equals the initial
    balance plus the postings of the run minus what `save` removed. -/
theorem balances_track (s : Script) (inp : Input) (r : Result) (h : sem cfg s inp = .ok r)
    (a c : String) (ha : a ≠ "world") (v0 : Int) (hv : trackedInit cfg s inp a c = some v0) :
    v0 = inp.balance a c ∧
    r.final.bal.get a c =
      some (inp.balance a c + flowIn a c r.postings - flowOut a c r.postings - r.final.saved a c) := by
  obtain ⟨ds, env, bal, pairs, st, _, hp, hst, rfl⟩ := sem_ok_iff h
  obtain ⟨henv, hwf, hbal⟩ := prepare_ok hp
  simp only [trackedInit, hp] at hv
  have e0 := hbal a c v0 hv
  obtain ⟨new, hpost, _, hr⟩ := runStmts_ok henv.nonneg s.stmts (initState bal) st hst hwf
  obtain ⟨v', g, e, _, _⟩ := hr a c v0 ha hv
  simp only [initState, List.nil_append] at hpost e
  refine ⟨e0, ?_⟩
  simp only [hpost, g, ← e0]
  congr 1; omega

/-- `balances_track` at the byte-code level, for every compiled program (compiler
    correctness `semBytecode_eq_sem_full`): the VM model `exec` on the compiled byte code
    tracks exactly initial + postings - saved. -/
theorem balances_track_bytecode (s : Script) (p : Program)
    (hc : compile s = .ok p) (inp : Input) (r : Result) (h : semBytecode Cfg.fixed s inp = .ok r)
    (a c : String) (ha : a ≠ "world") (v0 : Int) (hv : trackedInit Cfg.fixed s inp a c = some v0) :
    r.final.bal.get a c =
      some (inp.balance a c + flowIn a c r.postings - flowOut a c r.postings - r.final.saved a c) := by
  rw [semBytecode_eq_sem_full hc inp] at h
  exact (balances_track s inp r h a c ha v0 hv).2

/-- `compiler_only_accepts_sum_one` (the compiler/VM side of C24): an allotment that
    `VisitAllotment` accepted and OP_MAKE_ALLOTMENT built sums to exactly 100 %. -/
theorem compiler_only_accepts_sum_one (env : Env) (henv : EnvGood env) (ds : Decls)
    (ps : List PortionE) (a : List Rat) (hc : checkAllotment ds ps = .ok ())
    (hm : makeAllotment env ps = .ok a) : a.sum = 1 :=
  makeAllotment_sum_one henv hc hm

/-! Non-vacuity: concrete programs that run (kernel-evaluated tests, not obligations). -/

def exScript : Script :=
  { vars := [⟨.monetary, "m", .none⟩],
    stmts := [
      .send (.var "m")
        (.src (.inorder (.cons (.account (.acct "a") .none)
          (.cons (.account (.acct "b") (.upTo (.mon (.asset "USD") 10))) .nil))))
        (.allot (.cons (.lit "1/3") (.to (.account (.acct "x")))
          (.cons (.lit "1/3") .kept (.cons .remaining (.to (.account (.acct "y"))) .nil)))),
      .save (.mon (.asset "USD") 5) (.acct "b")] }

def exInput : Input :=
  { vars := [("m", "USD 100")],
    balance := fun a c => if a = "a" ∧ c = "USD" then 70 else if a = "b" ∧ c = "USD" then 25 else 0,
    accountMeta := fun _ => none }

example : postingsOf (sem Cfg.fixed exScript exInput) =
    some [⟨"a", "x", "USD", 34⟩, ⟨"a", "y", "USD", 33⟩] := by decide +kernel

example : trackedInit Cfg.fixed exScript exInput "b" "USD" = some 25 := by decide +kernel

example : (checkStmts [("m", .monetary)] exScript.stmts = .ok ()) := by decide +kernel

example : keptFreeDest (.inorder (.cons (.mon (.asset "USD") 5) (.to (.account (.acct "x"))) .nil)
    (.to (.allot (.cons (.lit "1/2") (.to (.account (.acct "y"))) (.cons .remaining (.to (.account (.acct "z"))) .nil))))) = true := by
  decide +kernel

end Ledger.C22
