import Ledger.Proofs.SchedLocks
import Ledger.Proofs.SchedHandles

/-!
# C15 (schedule part) — a transaction is reverted at most once

Mechanism: `UPDATE transactions SET reverted_at = … WHERE id = ? AND reverted_at IS NULL`
under row locks: a concurrent revert waits for the in-progress one and then
re-evaluates `reverted_at IS NULL` on the latest committed version (EvalPlanQual).
Proved: the step-level facts for every world (`revert_update_*`) — in particular that
a successful update needs an un-reverted latest version and takes the row for the rest
of the transaction — and `epq_sees_latest` for this statement. The counterexample shows
what the `reverted_at IS NULL` conjunct is for. The all-schedules statement
`revert_at_most_once_any_schedule` is NOT proved yet (kernel-evaluated examples + the
`revert2` correspondence workload).
-/
namespace Ledger.C15s
open Ledger.Sched

/-- a committed reverted transaction is never reverted again (`modified = false`, nothing changes) -/
theorem revert_update_refuses_reverted (w : World) (s : Sid) (l tx : Nat)
    (hex : w.txs.any (fun t => t.l = l && t.id = tx && visTx s t) = true)
    (hrev : (w.rev l tx).com = some true) :
    exec w s (.revertUpdate l tx true) = .done w { flag := false, vals := [1] } := by
  simp [exec, hex, hrev]

/-- a revert in progress in another session makes the statement wait -/
theorem revert_update_waits (w : World) (s t : Sid) (l tx : Nat)
    (hex : w.txs.any (fun t => t.l = l && t.id = tx && visTx s t) = true)
    (hcom : (w.rev l tx).com = some false) (hown : (w.rev l tx).heldByOther s = some t) :
    exec w s (.revertUpdate l tx true) = .blocked t := by
  simp [exec, hex, hcom, hown]

/-- `epq_sees_latest` for the revert UPDATE: whenever the statement completes with `modified = true`,
    the latest version was un-reverted at that moment (whatever its snapshot saw), and the session owns
    the row with the reverted version from then on -/
theorem revert_update_modifies_only_unreverted (w w' : World) (s : Sid) (l tx : Nat) (o : Out)
    (h : exec w s (.revertUpdate l tx true) = .done w' o) (hmod : o.flag = true) :
    (w.rev l tx).latest = some false ∧ (w.rev l tx).heldByOther s = none ∧
    (w'.rev l tx).own = some s ∧ (w'.rev l tx).pen = some true := by
  simp only [exec] at h
  split at h
  · cases h; cases hmod
  · split at h
    · cases h; cases hmod
    · split at h
      · cases h
      · rename_i hheld
        split at h
        · rename_i hlat
          cases h
          have hlat' : (w.rev l tx).latest = some false := by simpa using hlat
          refine ⟨hlat', hheld, ?_, ?_⟩ <;> simp
        · cases h; cases hmod

/-- tie (regenerated): the real revert path issues the guarded UPDATE (a statement without
    `reverted_at is null` is classified `revertUpdateUnguarded`) first, then locks the balances -/
theorem revert_path_follows_generated_handles :
    (revertProg exRevert true).pathK okAnswers 40 = modelledKinds Generated.Handles.revertSync ∧
    (revertProg exRevert true).pathK (fun st => match st with | .revertUpdate _ _ _ => { flag := false, vals := [1] } | _ => {}) 40
      = modelledKinds Generated.Handles.revertAlreadyReverted ∧
    Generated.Handles.revertAlreadyRevertedAnswer = "already-reverted" := by
  decide

/-! ## examples (tests) and the counterexample for the unguarded UPDATE -/

/-- transaction 1 (10 from pair 1 = world to pair 2) is committed; two sessions revert it -/
def exRev (guarded : Bool) : Revert :=
  { l := 1, sync := false, tx := 1, src := 1, dst := 2, amt := 10, force := true, guarded := guarded }

def exWorld (guarded : Bool) : World :=
  { txs := [{ l := 1, id := 1, ref := 0, by_ := 9, com := true }]
    txSeq := fun l => if l = 1 then 1 else 0
    rev := fun l t => if l = 1 ∧ t = 1 then { com := some false } else {}
    vols := fun k => if k = 2 then { com := some 10 } else if k = 1 then { com := some (-10) } else {}
    sess := fun s => if s = 1 ∨ s = 2 then { prog := revertProg (exRev guarded) true } else {} }

/-- A: BEGIN, UPDATE (modified) · B: BEGIN, UPDATE (waits) · A: …COMMIT · B: UPDATE re-evaluated → not modified -/
def exSchedule : Schedule := [1, 1, 2, 2, 1, 1, 1, 1, 1, 2, 2]

example :
    (run exSchedule (exWorld true)).resp 1 = some { tx := 2, log := 1 } ∧
    (run exSchedule (exWorld true)).resp 2 = some { err := "already-reverted" } ∧
    (run exSchedule (exWorld true)).revWins.length = 1 ∧
    ((run exSchedule (exWorld true)).vols 2).com = some 0 := by
  decide

/-- Without `reverted_at IS NULL` the second UPDATE succeeds after the wait: two revert transactions. -/
theorem unguarded_revert_counterexample :
    (run (exSchedule ++ [2, 2, 2, 2, 2]) (exWorld false)).resp 1 = some { tx := 2, log := 1 } ∧
    (run (exSchedule ++ [2, 2, 2, 2, 2]) (exWorld false)).resp 2 = some { tx := 3, log := 2 } ∧
    ((run (exSchedule ++ [2, 2, 2, 2, 2]) (exWorld false)).revWins.filter (·.com)).length = 2 ∧
    ((run (exSchedule ++ [2, 2, 2, 2, 2]) (exWorld false)).vols 2).com = some (-10) := by
  decide

end Ledger.C15s
