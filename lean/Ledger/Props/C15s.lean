import Ledger.Proofs.SchedLocks
import Ledger.Proofs.SchedGuarded
import Ledger.Proofs.SchedHandles
import Ledger.Proofs.SchedWitnesses

/-!
# C15 (schedule part) — a transaction is reverted at most once

Mechanism: `UPDATE transactions SET reverted_at = … WHERE id = ? AND reverted_at IS NULL`
under row locks: a concurrent revert waits for the in-progress one and then
re-evaluates `reverted_at IS NULL` on the latest committed version (EvalPlanQual).
Proved: the step-level facts for every world (`revert_update_*`) — in particular that
a successful update needs an un-reverted latest version and takes the row for the rest
of the transaction — and `epq_sees_latest` for this statement; and, over ALL schedules,
`revert_at_most_once_any_schedule`: for programs that only issue the guarded UPDATE (the
real writers do: `writers_are_guarded`, and the regenerated statement classification ties
that to the code) a transaction has at most one successful revert, in progress or
committed. The counterexample shows what the `reverted_at IS NULL` conjunct is for.
-/
namespace Ledger.C15s
open Ledger.Sched

/-- a committed reverted transaction is never reverted again (`modified = false`, nothing changes) -/
theorem revert_update_refuses_reverted (w : World) (s : Sid) (l tx : Nat)
    (hex : w.txs.any (fun t => t.l = l && t.id = tx && visTx s t) = true)
    (hrev : (w.rev l tx).com = some true) :
    exec w s (.revertUpdate l tx true) = .done w { flag := false, vals := [1] } := by
  simp [exec, hex, hrev]

/-- a revert in progress in another session makes the statement wait -/
theorem revert_update_waits (w : World) (s t : Sid) (l tx : Nat)
    (hex : w.txs.any (fun t => t.l = l && t.id = tx && visTx s t) = true)
    (hcom : (w.rev l tx).com = some false) (hown : (w.rev l tx).heldByOther s = some t) :
    exec w s (.revertUpdate l tx true) = .blocked t := by
  simp [exec, hex, hcom, hown]

/-- `epq_sees_latest` for the revert UPDATE: whenever the statement completes with `modified = true`,
    the latest version was un-reverted at that moment (whatever its snapshot saw), and the session owns
    the row with the reverted version from then on -/
theorem revert_update_modifies_only_unreverted (w w' : World) (s : Sid) (l tx : Nat) (o : Out)
    (h : exec w s (.revertUpdate l tx true) = .done w' o) (hmod : o.flag = true) :
    (w.rev l tx).latest = some false ∧ (w.rev l tx).heldByOther s = none ∧
    (w'.rev l tx).own = some s ∧ (w'.rev l tx).pen = some true := by
  simp only [exec] at h
  split at h
  · cases h; cases hmod
  · split at h
    · cases h; cases hmod
    · split at h
      · cases h
      · rename_i hheld
        split at h
        · rename_i hlat
          cases h
          have hlat' : (w.rev l tx).latest = some false := by simpa using hlat
          refine ⟨hlat', hheld, ?_, ?_⟩ <;> simp
        · cases h; cases hmod

/-- `revert_at_most_once_any_schedule`: for every schedule and every guarded programs, each
    transaction has at most one revert UPDATE that answered `modified` and was not rolled back —
    committed or still in progress. -/
theorem revert_at_most_once_any_schedule (σ : Schedule) (w₀ : World) (hg : AllGuarded w₀) (h₀ : RevInv w₀)
    (l tx : Nat) :
    ((run σ w₀).revWins.filter (fun e => e.l = l && e.tx = tx)).length ≤ 1 :=
  (revInv_run σ w₀ hg h₀).1.once l tx

/-- and the committed flag it leaves is the reverted one, owned by nobody -/
theorem committed_revert_is_final (σ : Schedule) (w₀ : World) (hg : AllGuarded w₀) (h₀ : RevInv w₀)
    (e : RevWin) (he : e ∈ (run σ w₀).revWins) (hc : e.com = true) :
    ((run σ w₀).rev e.l e.tx).com = some true ∧ ((run σ w₀).rev e.l e.tx).own = none :=
  (revInv_run σ w₀ hg h₀).1.done_ e he hc

/-- the real writers' programs are guarded (for any request, ledger state and result of any statement) -/
theorem writers_are_guarded (q : Revert) (hq : q.guarded = true) (p : Send) (inUse : Bool) :
    Guarded (revertProg q inUse) ∧ Guarded (sendProg p inUse) :=
  ⟨guarded_revertProg q hq inUse, guarded_sendProg p inUse⟩

/-- tie (regenerated): the real revert path issues the guarded UPDATE (a statement without
    `reverted_at is null` is classified `revertUpdateUnguarded`) first, then locks the balances -/
theorem revert_path_follows_generated_handles :
    (revertProg exRevert true).pathK okAnswers 40 = modelledKinds Generated.Handles.revertSync ∧
    (revertProg exRevert true).pathK (fun st => match st with | .revertUpdate _ _ _ => { flag := false, vals := [1] } | _ => {}) 40
      = modelledKinds Generated.Handles.revertAlreadyReverted ∧
    Generated.Handles.revertAlreadyRevertedAnswer = "already-reverted" := by
  decide

/-! ## examples (tests) and the counterexample for the unguarded UPDATE -/




example :
    (run exSchedule (exWorld true)).resp 1 = some { tx := 2, log := 1 } ∧
    (run exSchedule (exWorld true)).resp 2 = some { err := "already-reverted" } ∧
    (run exSchedule (exWorld true)).revWins.length = 1 ∧
    ((run exSchedule (exWorld true)).vols 2).com = some 0 := by
  decide

/-- the hypotheses of `revert_at_most_once_any_schedule` hold for the example world -/
example : AllGuarded (exWorld true) ∧ RevInv (exWorld true) := by
  constructor
  · intro s
    simp only [exWorld]
    split
    · exact guarded_revertProg _ rfl true
    · trivial
  · refine ⟨fun _ _ => Nat.zero_le _, ?_, ?_, ?_⟩ <;> (intro e he; cases he)

/-- Without `reverted_at IS NULL` the second UPDATE succeeds after the wait: two revert transactions. -/
theorem unguarded_revert_counterexample :
    (run (exSchedule ++ [2, 2, 2, 2, 2]) (exWorld false)).resp 1 = some { tx := 2, log := 1 } ∧
    (run (exSchedule ++ [2, 2, 2, 2, 2]) (exWorld false)).resp 2 = some { tx := 3, log := 2 } ∧
    ((run (exSchedule ++ [2, 2, 2, 2, 2]) (exWorld false)).revWins.filter (·.com)).length = 2 ∧
    ((run (exSchedule ++ [2, 2, 2, 2, 2]) (exWorld false)).vols 2).com = some (-10) := by
  decide

end Ledger.C15s
