import Ledger.Proofs.QueryTemplate

/-!
C37 — Query templates equal the direct query they describe.

Only property theorems and non-vacuity examples.  Models:
`Ledger/Query/{Template,RunQuery,Paginate,Cursor}.lean`, hand-written from
`internal/queries/{filter_template,substitution,variables,schema}.go`,
`internal/query_template.go` and `RunQuery` / `runQueryFromCursor` /
`templateParamsToQuery` in `internal/controller/ledger/controller_default.go`;
tied to the real `ResolveFilterTemplate` and `DefaultController.RunQuery` (over a
recording store) by the `template` correspondence workload.
-/
namespace Ledger.C37
open Ledger.Query

/-- **The resolved filter is the template's tree with every leaf value replaced by
    its substituted, typed value**: when `ResolveFilterTemplate` succeeds, every leaf
    resolved, and the result is `substTree` of the body — `$and` / `$or` / `$not`
    structure, operators and keys untouched (`substTree` only rewrites leaf values). -/
theorem resolve_is_substitution (pd : String → Option Int) (t : Template) (call : Vars) (g : Filter)
    (h : resolveTemplate pd t call = .ok (some g)) :
    ∃ f vars schema, t.body = some f ∧ buildVars pd t.vars call = .ok vars ∧
      templateSchema t.resource = some schema ∧
      (∀ l ∈ f.leaves, ∃ v', resolveLeaf codePoints intLit? schema vars l.1 l.2.1 l.2.2 = .ok v') ∧
      g = substTree (resolvedValue (resolveLeaf codePoints intLit? schema vars)) f := by
  unfold resolveTemplate resolveTemplateWith at h
  cases hv : buildVars pd t.vars call with
  | error e => rw [hv] at h; cases h
  | ok vars =>
    rw [hv] at h
    cases hs : templateSchema t.resource with
    | none => rw [hs] at h; cases h
    | some schema =>
      rw [hs] at h
      cases hb : t.body with
      | none => rw [hb] at h; cases h
      | some f =>
        rw [hb] at h
        simp only at h
        cases hr : resolveTree (resolveLeaf codePoints intLit? schema vars) f with
        | error e => rw [hr] at h; cases h
        | ok g' =>
          rw [hr] at h
          simp only [Except.map, Except.ok.injEq, Option.some.injEq] at h
          subst h
          obtain ⟨h1, h2⟩ := resolveTree_ok _ f g' hr
          exact ⟨f, vars, schema, rfl, rfl, rfl, h1, h2⟩

/-- Substitution keeps every leaf's operator and key, in order; only values change. -/
theorem resolve_keeps_structure (σ : Op → String → Val → Val) (f : Filter) :
    (substTree σ f).leaves.map (fun l => (l.1, l.2.1)) = f.leaves.map (fun l => (l.1, l.2.1)) := by
  rw [leaves_substTree]; simp [List.map_map, Function.comp_def]

/-- A failing resolution reports the error of a leaf (the first one in walk order). -/
theorem resolve_error_is_leaf_error (leaf : Op → String → Val → Except TErr Val) (f : Filter)
    (e : TErr) (h : resolveTree leaf f = .error e) :
    ∃ l ∈ f.leaves, leaf l.1 l.2.1 l.2.2 = .error e :=
  resolveTree_error leaf f e h

/-- A string value without `$` is a literal: it is substituted by itself (any
    characters, ASCII or not). -/
theorem literal_is_unchanged (s : String) (vars : Vars) (h : ∀ c ∈ s.toList, c ≠ '$') :
    replaceVariables codePoints s vars = .ok s :=
  replaceVariables_literal s vars h

/-- **Before fix `36e323f`** literal bytes were re-encoded one by one: the template
    `{"$match": {"metadata[k]": "é"}}` resolved to `"Ã©"`. -/
theorem literal_reencoding_counterexample :
    let t : Template := { resource := "accounts", vars := [],
                          body := some (.leaf .match_ "metadata[k]" (.sc (.str "é"))) }
    ((resolveTemplatePreFix (fun _ => none) t []).toOption.bind id).map Filter.leaves =
      some [(.match_, "metadata[k]", .sc (.str "Ã©"))] ∧
    ((resolveTemplate (fun _ => none) t []).toOption.bind id).map Filter.leaves =
      some [(.match_, "metadata[k]", .sc (.str "é"))] := by
  decide +kernel

/-- **Parameters: a later object overrides exactly the keys it gives** — for the two
    objects `RunQuery` merges (template params, then request params) on top of the
    defaults `d`: page size, expand, end / start time, the volumes options, and the
    sort column / order when neither object has a `sort`. -/
theorem params_overwrite_order (pd : String → Option Int) (d p : Params) (t r : ParamsJson)
    (h : overwrite pd d [some t, some r] = .ok p) :
    p.pageSize = r.pageSize.getD (t.pageSize.getD d.pageSize) ∧
    p.expand = r.expand.getD (t.expand.getD d.expand) ∧
    (r.endTime = none → t.endTime = none → p.pit = d.pit) ∧
    (∀ s, r.endTime = some s → p.pit = pd s) ∧
    (r.endTime = none → ∀ s, t.endTime = some s → p.pit = pd s) ∧
    (r.startTime = none → t.startTime = none → p.oot = d.oot) ∧
    (∀ s, r.startTime = some s → p.oot = pd s) ∧
    (r.startTime = none → ∀ s, t.startTime = some s → p.oot = pd s) ∧
    p.opts.groupLvl = r.groupBy.getD (t.groupBy.getD d.opts.groupLvl) ∧
    p.opts.useInsertionDate = r.insertionDate.getD (t.insertionDate.getD d.opts.useInsertionDate) ∧
    (r.sort = none → t.sort = none → p.sortColumn = d.sortColumn ∧ p.sortOrder = d.sortOrder) := by
  cases h1 : applyParams pd d t with
  | error e => simp [overwrite, h1] at h
  | ok p1 =>
    cases h2 : applyParams pd p1 r with
    | error e => simp [overwrite, h1, h2] at h
    | ok p2 =>
      simp only [overwrite, h1, h2, Except.ok.injEq] at h
      rw [h] at h2
      obtain ⟨a1, a2, a3, a4, a5, a6, a7, a8, a9⟩ := applyParams_fields pd d p1 t h1
      obtain ⟨b1, b2, b3, b4, b5, b6, b7, b8, b9⟩ := applyParams_fields pd p1 p r h2
      refine ⟨by rw [b1, a1], by rw [b2, a2], ?_, ?_, ?_, ?_, ?_, ?_, by rw [b7, a7], by rw [b8, a8], ?_⟩
      · intro hr ht; rw [b3 hr, a3 ht]
      · intro s hs; exact (b4 s hs).1
      · intro hr s hs; rw [b3 hr]; exact (a4 s hs).1
      · intro hr ht; rw [b5 hr, a5 ht]
      · intro s hs; exact (b6 s hs).1
      · intro hr s hs; rw [b5 hr]; exact (a6 s hs).1
      · intro hr ht
        obtain ⟨c1, c2⟩ := b9 hr
        obtain ⟨c3, c4⟩ := a9 ht
        exact ⟨by rw [c1, c3], by rw [c2, c4]⟩

/-- Empty / `null` params objects are skipped. -/
theorem params_overwrite_skips_empty (pd : String → Option Int) (d : Params) (t : Option ParamsJson) :
    overwrite pd d [t, none] = overwrite pd d [t] ∧ overwrite pd d [none, t] = overwrite pd d [t] := by
  cases t with
  | none => simp [overwrite]
  | some j =>
    simp only [overwrite]
    cases applyParams pd d j <;> simp

/-- **Before fix `04cc4e9`** request params that did not repeat a key reset it: the
    template's `pageSize: 3` and `endTime` were lost when the request only gave `sort`. -/
theorem params_overwrite_counterexample :
    let d : Params := { sortColumn := "id", sortOrder := some .desc, pageSize := 15 }
    let t : ParamsJson := { pageSize := some 3, endTime := some "T" }
    let r : ParamsJson := { sort := some "timestamp:asc" }
    let pd : String → Option Int := fun _ => some 7
    (overwritePreFix pd d [some t, some r]).toOption.map (fun p => (p.pageSize, p.pit)) = some (0, none) ∧
    (overwrite pd d [some t, some r]).toOption.map (fun p => (p.pageSize, p.pit, p.sortColumn, p.sortOrder)) =
      some (3, some 7, "timestamp", some .asc) := by
  decide

/-- **`RunQuery` ends in the same `Paginate` call as a direct list query**: without a
    cursor, it hands `store.<Resource>().Paginate` exactly the initial query built
    from the resolved filter and the merged parameters (page size capped at the
    maximum) — the argument a list endpoint passes for the same filter / parameters. -/
theorem runQuery_eq_list {C D R : Type} (pd : String → Option Int) (decode : C → Option D)
    (paginate : String → D ⊕ InitialQuery ResourceQuery → R) (dps mps : Nat)
    (t : StoredTemplate) (vars : Vars) (params : Option ParamsJson)
    (b : Option Filter) (d p : Params)
    (hres : resolveTemplate pd t.tmpl vars = .ok b)
    (hdef : defaultParams t.tmpl.resource dps = some d)
    (hpar : overwrite pd d [t.params, params] = .ok p) :
    runQuery pd decode paginate dps mps t { params, vars, cursor := none } =
      .ok (t.tmpl.resource, paginate t.tmpl.resource (.inr (templateParamsToQuery p b mps))) := by
  simp [runQuery, runQueryTarget, hres, hdef, hpar]

/-- The query it builds: sort column / order and page size of the merged parameters,
    the resolved filter, PIT / OOT / expand / options of the merged parameters. -/
theorem runQuery_query_fields (p : Params) (b : Option Filter) (mps : Nat) :
    (templateParamsToQuery p b mps).column = p.sortColumn ∧
    (templateParamsToQuery p b mps).order = p.sortOrder ∧
    (templateParamsToQuery p b mps).pageSize = min p.pageSize mps ∧
    (templateParamsToQuery p b mps).options.builder = b ∧
    (templateParamsToQuery p b mps).options.pit = p.pit ∧
    (templateParamsToQuery p b mps).options.oot = p.oot ∧
    (templateParamsToQuery p b mps).options.expand = p.expand := by
  refine ⟨rfl, rfl, ?_, rfl, rfl, rfl, rfl⟩
  simp only [templateParamsToQuery]
  split <;> omega

/-- **Following the returned cursor continues that same query** (1): with a cursor,
    `RunQuery` ignores the template's params / vars and hands `Paginate` the decoded
    cursor. -/
theorem cursor_continues_same_query {C D R : Type} (pd : String → Option Int) (decode : C → Option D)
    (paginate : String → D ⊕ InitialQuery ResourceQuery → R) (dps mps : Nat)
    (t : StoredTemplate) (vars : Vars) (params : Option ParamsJson) (c : C) (dq : D)
    (hres : (templateSchema t.tmpl.resource).isSome) (hdec : decode c = some dq) :
    runQuery pd decode paginate dps mps t { params, vars, cursor := some c } =
      .ok (t.tmpl.resource, paginate t.tmpl.resource (.inl dq)) := by
  have : (templateSchema t.tmpl.resource).isNone = false := by
    cases h : templateSchema t.tmpl.resource <;> simp_all
  simp [runQuery, runQueryTarget, this, hdec]

/-- (2): every cursor a page hands out (`next`, `previous`) carries the query's filters
    / column (`rest`), order and page size unchanged — column paginator. -/
theorem next_cursor_same_query_col {φ : Type} (q : ColQuery φ) (T : List Row)
    (p : Page (ColQuery φ)) (h : paginateCol q T = .ok p) :
    ∀ q', (q' ∈ p.next ∨ q' ∈ p.previous) →
      q'.rest = q.rest ∧ q'.pageSize = q.pageSize ∧ q'.order = q.order := by
  unfold paginateCol at h
  split at h
  · cases h
  · exact buildCursorCol_same_query q _ _ p h

/-- (2'): the same for the offset paginator. -/
theorem next_cursor_same_query_off {φ : Type} (q : OffQuery φ) (T : List Row)
    (p : Page (OffQuery φ)) (h : paginateOff q T = .ok p) :
    ∀ q', (q' ∈ p.next ∨ q' ∈ p.previous) →
      q'.rest = q.rest ∧ q'.pageSize = q.pageSize ∧ q'.order = q.order := by
  unfold paginateOff at h
  split at h
  · cases h
  · split at h
    · cases h
    · exact buildCursorOff_same_query q _ p h

/-- Non-vacuity: a template with a string and a numeric variable resolves to the
    substituted tree, `$and` / `$not` kept. -/
example :
    let t : Template := {
      resource := "accounts",
      vars := [("iban", { type := .string }), ("min", { type := .numeric, default := .num "10" })],
      body := some (.and [.leaf .match_ "address" (.sc (.str "banks:${iban}:")),
                          .not (.leaf .lt "balance[USD]" (.sc (.str "${min}")))]) }
    ((resolveTemplate (fun _ => none) t [("iban", .str "FR76é")]).toOption.bind id).map
        (fun g => (g.leaves, g.depth)) =
      some ([(.match_, "address", .sc (.str "banks:FR76é:")), (.lt, "balance[USD]", .sc (.int 10))], 2) := by
  decide +kernel

end Ledger.C37
