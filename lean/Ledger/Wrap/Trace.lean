/-!
Global trace alphabet of the controller-wrapper area (C31, C32) and the
*specification fold* that decides, from a trace alone, which writes are durable
and whether the listener calls respect C31.

The underlying ledger controller / SQL database is an in-memory fake in the
correspondence harness (`harness/go/internal/verif/wlwrap/fake.go`); its
transactional behaviour is what `Spec.step` below describes (the handler also
compares the fake's own durable set with `Spec.dur`).
-/
namespace Ledger.Wrap

/-- The seven write methods of `Controller`. -/
inductive Kind where
  | createTx | revertTx | saveTxMeta | saveAccMeta | delTxMeta | delAccMeta | insertSchema
  deriving DecidableEq, Repr, Inhabited

/-- Outcome of an underlying call: `ok`, scripted failure, or `done` (the
    receiver's transaction — or an enclosing one — is already finished, or
    Commit/Rollback outside a transaction; `sql.ErrTxDone`). -/
inductive Res where
  | ok | fail | done
  deriving DecidableEq, Repr, Inhabited

/-- An event handed to the listener: which write it describes. -/
abbrev Ev := Kind × Nat

/-- One element of the global trace (calls received by the underlying controller,
    SQL statements of the state tracker, listener calls). -/
inductive Item where
  /-- `BeginTX` on a handle bound to transaction `p` (0 = none); `t` = the new transaction (0 unless ok). -/
  | begin (t p : Nat) (r : Res)
  /-- `LockLedger` on a handle bound to transaction `t`. -/
  | lock (t : Nat) (r : Res)
  /-- the release function returned by `LockLedger` was called. -/
  | release (t : Nat)
  | commit (t : Nat) (r : Res)
  | rollback (t : Nat) (r : Res)
  /-- a write method on a handle bound to transaction `t`. -/
  | write (t : Nat) (k : Kind) (dry : Bool) (w : Nat) (r : Res)
  /-- raw SQL of the state tracker: tag 1 = state update, 2 / 3 = the two `setval`s. -/
  | sql (t : Nat) (tag : Nat) (r : Res)
  /-- a listener call describing write `w` of kind `k`. -/
  | publish (k : Kind) (w : Nat)
  deriving DecidableEq, Repr, Inhabited

/-- Pointwise update of a function (core-only replacement of `Function.update`). -/
def upd {α : Type} (f : Nat → α) (i : Nat) (v : α) : Nat → α := fun j => if j = i then v else f j

@[simp] theorem upd_same {α : Type} (f : Nat → α) (i : Nat) (v : α) : upd f i v i = v := by
  simp [upd]

theorem upd_other {α : Type} (f : Nat → α) (i j : Nat) (v : α) (h : j ≠ i) : upd f i v j = f j := by
  simp [upd, h]

/-- State of the specification fold over a trace. -/
structure Spec where
  /-- enclosing transaction of each transaction (0 = none) -/
  par : Nat → Nat := fun _ => 0
  /-- successful non-dry writes made in a transaction that is not finished yet -/
  pend : Nat → List Ev := fun _ => []
  /-- writes that are durable: made outside any transaction, or inside a
      transaction whose outermost enclosing transaction committed -/
  dur : List Ev := []
  /-- listener calls so far -/
  pub : List Ev := []
  /-- some listener call described a write that was not durable at that moment,
      or was already published as many times as it is durable -/
  bad : Bool := false

/-- Effect of one trace item on the specification state. -/
def Spec.step (σ : Spec) : Item → Spec
  | .begin t p .ok => { σ with par := upd σ.par t p, pend := upd σ.pend t [] }
  | .write t k false w .ok =>
      if t = 0 then { σ with dur := σ.dur ++ [(k, w)] }
      else { σ with pend := upd σ.pend t (σ.pend t ++ [(k, w)]) }
  | .commit t .ok =>
      if σ.par t = 0 then { σ with dur := σ.dur ++ σ.pend t, pend := upd σ.pend t [] }
      else { σ with pend := upd (upd σ.pend (σ.par t) (σ.pend (σ.par t) ++ σ.pend t)) t [] }
  | .commit t .fail => { σ with pend := upd σ.pend t [] }
  | .rollback t .ok => { σ with pend := upd σ.pend t [] }
  | .rollback t .fail => { σ with pend := upd σ.pend t [] }
  | .publish k w =>
      { σ with pub := σ.pub ++ [(k, w)],
               bad := σ.bad || !(decide (σ.pub.count (k, w) < σ.dur.count (k, w))) }
  | _ => σ

/-- The specification state reached after a trace. -/
def Spec.run (σ : Spec) (tr : List Item) : Spec := tr.foldl Spec.step σ

def specOf (tr : List Item) : Spec := Spec.run {} tr

/-- C31's decidable predicate on a complete trace: every listener call describes
    a write that is durable at that moment (so it comes after the successful
    commit of the outermost transaction containing the write; failed, dry-run,
    rolled-back and commit-failed writes are never durable) and not yet
    published as often as it is durable; at the end every durable write has been
    published exactly as often as it is durable. -/
def c31Ok (tr : List Item) : Bool :=
  let σ := specOf tr
  !σ.bad && σ.dur.all (fun x => σ.pub.count x == σ.dur.count x)

theorem Spec.run_append (σ : Spec) (a b : List Item) :
    Spec.run σ (a ++ b) = Spec.run (Spec.run σ a) b := by
  simp [Spec.run, List.foldl_append]

end Ledger.Wrap
