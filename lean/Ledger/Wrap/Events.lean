import Ledger.Wrap.Trace

/-!
Model of `internal/controller/ledger/controller_with_events.go`
(`ControllerWithEvents`: `handleEvent`, the seven write methods, `BeginTX`,
`LockLedger`, `Commit`, `Rollback`) running over a model of the scripted fake
controller of the harness.  Core-only, executable.

A Go `*ControllerWithEvents` has immutable fields `parent`, `hasTx`, the wrapped
controller, and one mutable field `atCommit`.  The immutable part is the
inductive value `W`; the `atCommit` slices live in `St.queue`, keyed by the
wrapper's identity `WId`.
-/
namespace Ledger.Wrap

/-- A handle of the (fake) underlying controller: the chain of transactions it
    is bound to, innermost first (`BeginTX` on a handle pushes a new one,
    `LockLedger` keeps the chain — `Store.LockLedger` on a `bun.Tx` stays in that
    transaction). -/
inductive UH where
  | none
  | tx (id : Nat) (parent : UH)
  deriving DecidableEq, Repr, Inhabited

/-- innermost transaction id, 0 = none -/
def UH.id : UH → Nat
  | .none => 0
  | .tx id _ => id

/-- id of the transaction enclosing the innermost one, 0 = none -/
def UH.parentId : UH → Nat
  | .none => 0
  | .tx _ p => p.id

/-- a handle is live while every transaction of its chain is open -/
def UH.live (opn : Nat → Bool) : UH → Bool
  | .none => true
  | .tx id p => opn id && p.live opn

/-- Identity of a wrapper object (only used to key its `atCommit` slice):
    the root, the wrapper returned by the `BeginTX` that opened transaction `t`,
    or the `k`-th wrapper returned by a `LockLedger`. -/
inductive WId where
  | root
  | tx (t : Nat)
  | lk (k : Nat)
  deriving DecidableEq, Repr, Inhabited

/-- The immutable part of a `*ControllerWithEvents`. -/
inductive W where
  /-- `NewControllerWithEvents(ledger, underlying, listener)`: no parent, `hasTx` false. -/
  | root
  | node (id : WId) (hasTx : Bool) (u : UH) (parent : W)
  deriving DecidableEq, Repr, Inhabited

def W.id : W → WId
  | .root => .root
  | .node id _ _ _ => id

def W.hasTx : W → Bool
  | .root => false
  | .node _ h _ _ => h

/-- the wrapped (underlying) controller handle -/
def W.u : W → UH
  | .root => .none
  | .node _ _ u _ => u

/-- `handleEvent`: where an event raised on this wrapper goes — `none`: the
    listener is called immediately; `some i`: appended to `atCommit` of wrapper `i`.

    ```go
    if !c.hasTx { fn(); return }
    if c.parent != nil && c.parent.hasTx { c.parent.handleEvent(ctx, fn); return }
    c.atCommit = append(c.atCommit, fn)
    ``` -/
def W.sink : W → Option WId
  | .root => none
  | .node id hasTx _ parent =>
    if !hasTx then none
    else if parent.hasTx then parent.sink
    else some id

/-- `hasTx` of the wrapper returned by `ControllerWithEvents.LockLedger`, given the
    receiver's `hasTx` (controller_with_events.go, `LockLedger`: `hasTx: c.hasTx`).

    The snapshot originally had no `hasTx` field in that struct literal, i.e. the
    constant `false` — that variant is `lockHasTxBuggy`, kept as a parameter value
    of the model (`St.lockTx`) for the `…_counterexample` theorems. -/
def lockHasTx (parentHasTx : Bool) : Bool := parentHasTx

/-- The pre-fix behaviour of `LockLedger`: the returned wrapper never has `hasTx`. -/
def lockHasTxBuggy (_parentHasTx : Bool) : Bool := false

/-- Faults scripted for the duration of one client operation. -/
structure Faults where
  begin : Bool := false
  lock : Bool := false
  commit : Bool := false
  /-- only the `Commit` of an outermost transaction fails (a savepoint release succeeds) -/
  commitTop : Bool := false
  rollback : Bool := false
  /-- 0 = none, k = the state-tracker statement with tag k fails -/
  sql : Nat := 0
  /-- RowsAffected of the state update -/
  rows : Nat := 1
  deriving Repr, DecidableEq, Inhabited

/-- State of the whole modelled stack. -/
structure St where
  /-- how `LockLedger` of the events wrapper sets `hasTx` (see `lockHasTx`) -/
  lockTx : Bool → Bool := lockHasTx
  /-- transactions allocated so far by the fake (ids 1..nT) -/
  nT : Nat := 0
  /-- wrappers created by `LockLedger` so far -/
  nK : Nat := 0
  /-- which transactions are open -/
  opn : Nat → Bool := fun _ => false
  /-- scripted success of each write id -/
  script : Nat → Bool := fun _ => false
  faults : Faults := {}
  /-- `atCommit` of every wrapper -/
  queue : WId → List Ev := fun _ => []
  /-- handle table of the raw calls; handle 0 is the root wrapper -/
  handles : List W := [.root]
  /-- the state tracker's cached ledger state is `in-use` -/
  inUse : Bool := false
  trace : List Item := []

def St.emit (s : St) (it : Item) : St := { s with trace := s.trace ++ [it] }

def updQ (q : WId → List Ev) (i : WId) (v : List Ev) : WId → List Ev :=
  fun j => if j = i then v else q j

/-- result classes returned to the caller -/
inductive Ret where
  | ok
  | scripted (w : Nat)
  | txdone
  | begin | lock | commit | rollback
  | sql (tag : Nat)
  | canceled
  deriving DecidableEq, Repr, Inhabited

def Ret.isOk : Ret → Bool
  | .ok => true
  | _ => false

/-- The listener is called once per queued event, in order. -/
def publishAll (s : St) : List Ev → St
  | [] => s
  | (k, w) :: evs => publishAll (s.emit (.publish k w)) evs

/-- `handleEvent` on wrapper `c`. -/
def handleEvent (s : St) (c : W) (ev : Ev) : St :=
  match c.sink with
  | none => s.emit (.publish ev.1 ev.2)
  | some i => { s with queue := updQ s.queue i (s.queue i ++ [ev]) }

/-- Any of the seven write methods of `ControllerWithEvents`: call the
    underlying method; on error return it; unless `DryRun`, `handleEvent`. -/
def wWrite (s : St) (c : W) (k : Kind) (dry : Bool) (w : Nat) : Ret × St :=
  -- the fake underlying controller
  let r : Res := if !c.u.live s.opn then .done else if s.script w then .ok else .fail
  let s := s.emit (.write c.u.id k dry w r)
  match r with
  | .done => (.txdone, s)
  | .fail => (.scripted w, s)
  | .ok => if dry then (.ok, s) else (.ok, handleEvent s c (k, w))

/-- `ControllerWithEvents.BeginTX`. -/
def wBegin (s : St) (c : W) : Except Ret W × St :=
  if !c.u.live s.opn then (.error .txdone, s.emit (.begin 0 c.u.id .done))
  else if s.faults.begin then (.error .begin, s.emit (.begin 0 c.u.id .fail))
  else
    let t := s.nT + 1
    let s := { s with nT := t, opn := upd s.opn t true }
    (.ok (.node (.tx t) true (.tx t c.u) c), s.emit (.begin t c.u.id .ok))

/-- `ControllerWithEvents.LockLedger` (the returned wrapper; the release function
    is `wRelease`). -/
def wLock (s : St) (c : W) : Except Ret W × St :=
  if !c.u.live s.opn then (.error .txdone, s.emit (.lock c.u.id .done))
  else if s.faults.lock then (.error .lock, s.emit (.lock c.u.id .fail))
  else
    let k := s.nK
    let s := { s with nK := k + 1 }
    (.ok (.node (.lk k) (s.lockTx c.hasTx) c.u c), s.emit (.lock c.u.id .ok))

def wRelease (s : St) (c : W) : St := s.emit (.release c.u.id)

/-- `ControllerWithEvents.Commit`: underlying commit; on success run `atCommit`
    (which is not cleared). -/
def wCommit (s : St) (c : W) : Ret × St :=
  let t := c.u.id
  if t = 0 || !c.u.live s.opn then (.txdone, s.emit (.commit t .done))
  else if s.faults.commit || (s.faults.commitTop && c.u.parentId == 0) then
    (.commit, { s with opn := upd s.opn t false }.emit (.commit t .fail))
  else
    let s := { s with opn := upd s.opn t false }.emit (.commit t .ok)
    (.ok, publishAll s (s.queue c.id))

/-- `ControllerWithEvents.Rollback`: `c.atCommit = nil`, then the underlying rollback. -/
def wRollback (s : St) (c : W) : Ret × St :=
  let s := { s with queue := updQ s.queue c.id [] }
  let t := c.u.id
  if t = 0 || !c.u.live s.opn then (.txdone, s.emit (.rollback t .done))
  else if s.faults.rollback then
    (.rollback, { s with opn := upd s.opn t false }.emit (.rollback t .fail))
  else (.ok, { s with opn := upd s.opn t false }.emit (.rollback t .ok))

/-- One raw SQL statement of the state tracker on the `*bun.Tx` of `BeginTX`. -/
def uSql (s : St) (c : W) (tag : Nat) : Bool × St :=
  if s.faults.sql = tag then (false, s.emit (.sql c.u.id tag .fail))
  else (true, s.emit (.sql c.u.id tag .ok))

/-- A raw call on a handle of the events wrapper. -/
inductive Call where
  | write (h : Nat) (k : Kind) (dry ok : Bool) (w : Nat)
  | begin (h : Nat) (ok : Bool)
  | lock (h : Nat) (ok : Bool)
  | commit (h : Nat) (ok : Bool)
  | rollback (h : Nat) (ok : Bool)
  deriving Repr, DecidableEq, Inhabited

def Call.h : Call → Nat
  | .write h .. => h
  | .begin h _ => h
  | .lock h _ => h
  | .commit h _ => h
  | .rollback h _ => h

/-- Run a raw call on wrapper `c` (its scripted outcome installed for the call). -/
def callOn (s : St) (c : W) : Call → Ret × St
  | .write _ k dry ok w => wWrite { s with script := upd s.script w ok } c k dry w
  | .begin _ ok =>
    match wBegin { s with faults := { begin := !ok } } c with
    | (.ok n, s) => (.ok, { s with handles := s.handles ++ [n] })
    | (.error e, s) => (e, s)
  | .lock _ ok =>
    match wLock { s with faults := { lock := !ok } } c with
    | (.ok n, s) => (.ok, { s with handles := s.handles ++ [n] })
    | (.error e, s) => (e, s)
  | .commit _ ok => wCommit { s with faults := { commit := !ok } } c
  | .rollback _ ok => wRollback { s with faults := { rollback := !ok } } c

/-- A raw call by handle index; `none` when the handle does not exist. -/
def rawCall (s : St) (c : Call) : Option Ret × St :=
  match s.handles[c.h]? with
  | none => (none, s)
  | some w =>
    let (r, s) := callOn s w c
    (some r, { s with faults := {} })

end Ledger.Wrap
