/-!
Model of `internal/api/bulking/bulker.go` (`Bulker.run`, `Bulker.Run`) and of the
result mapping of the bulk HTTP handlers (`writeJSONResponse` in
`handler_json.go`, used by the JSON, JSON-stream and script-stream handlers).
Core-only, executable; parametric in the element type, the controller state and
`apply : El → S → Except E R × S` (what one element does when it is processed on
its own).
-/
namespace Ledger.Wrap.Bulk

/-- What the worker did with one element. -/
inductive Outcome (R E : Type) where
  /-- `processElement` succeeded with this result -/
  | ok (r : R)
  /-- `processElement` failed with this error -/
  | err (e : E)
  /-- not processed: an earlier failure was seen and `continueOnFailure` is off
      (`Error: context.Canceled`) -/
  | skipped
  deriving DecidableEq, Repr, Inhabited

def Outcome.isOk {R E : Type} : Outcome R E → Bool
  | .ok _ => true
  | _ => false

def Outcome.isErr {R E : Type} : Outcome R E → Bool
  | .err _ => true
  | _ => false

/-- `BulkElementResult` as sent on the result channel. -/
structure BRes (R E : Type) where
  elementID : Nat
  out : Outcome R E
  deriving DecidableEq, Repr, Inhabited

/-- The `ElementID` that `Bulker.run` stores in the result of the element at index
    `idx` (bulker.go, `run`: `ElementID: itemIndex` in the four `BulkElementResult`
    literals).

    The snapshot originally set it in none of them, i.e. always 0 — that variant is
    `elementTagBuggy`, kept as a parameter value (`tag`) for the `…_counterexample`
    theorems. -/
def elementTag (idx : Nat) : Nat := idx

/-- The pre-fix behaviour of `Bulker.run`: `ElementID` is never set. -/
def elementTagBuggy (_idx : Nat) : Nat := 0

/-- The `BulkElementResult` built for the element at `idx` (`tag` = how `ElementID` is set). -/
def mkRes {R E : Type} (tag : Nat → Nat) (idx : Nat) (o : Outcome R E) : BRes R E :=
  { elementID := tag idx, out := o }

variable {El S R E : Type}

/-- What one element yields when processed in state `s`. -/
def outcomeOf (apply : El → S → Except E R × S) (e : El) (s : S) : Outcome R E × S :=
  match apply e s with
  | (.ok r, s') => (.ok r, s')
  | (.error x, s') => (.err x, s')

/-- `Bulker.run` with a pool of one worker (not parallel, or parallelism 1):
    elements are taken in order; once `hasError` is set and `continueOnFailure`
    is off, every later element gets `context.Canceled` without being processed.
    Returns the results in channel order, `hasError`, and the controller state. -/
def runSeq (tag : Nat → Nat) (apply : El → S → Except E R × S) (cof : Bool) :
    List El → Nat → Bool → S → List (BRes R E) × Bool × S
  | [], _, he, s => ([], he, s)
  | e :: es, i, he, s =>
    if he && !cof then
      let (rs, he', s') := runSeq tag apply cof es (i + 1) he s
      (mkRes tag i .skipped :: rs, he', s')
    else
      let (o, s1) := outcomeOf apply e s
      let (rs, he', s') := runSeq tag apply cof es (i + 1) (he || o.isErr) s1
      (mkRes tag i o :: rs, he', s')

/-- A schedule of a parallel run: the order in which the workers applied
    elements (indices; elements not listed were skipped), and the order in which
    the results reached the channel. -/
structure Sched where
  applied : List Nat
  order : List Nat
  deriving Repr, DecidableEq

/-- Apply the elements `applied` (indices into `els`) in that order; returns the
    outcome of each (as an association list) and the final state.  An index
    outside the list is ignored (schedules are validated by `schedOk`). -/
def applyInOrder (apply : El → S → Except E R × S) (els : List El) :
    List Nat → S → List (Nat × Outcome R E) × S
  | [], s => ([], s)
  | i :: is, s =>
    match els[i]? with
    | none => applyInOrder apply els is s
    | some e =>
      let (o, s1) := outcomeOf apply e s
      let (rest, s') := applyInOrder apply els is s1
      ((i, o) :: rest, s')

def lookupOutcome (outs : List (Nat × Outcome R E)) (i : Nat) : Outcome R E :=
  match outs.lookup i with
  | some o => o
  | none => .skipped

/-- `Bulker.run` with several workers, for a given schedule: results in channel order. -/
def runPar (tag : Nat → Nat) (apply : El → S → Except E R × S) (els : List El) (sc : Sched) (s : S) :
    List (BRes R E) × Bool × S :=
  let (outs, s') := applyInOrder apply els sc.applied s
  (sc.order.map (fun i => mkRes tag i (lookupOutcome outs i)), outs.any (fun p => p.2.isErr), s')

/-- A schedule is possible for `n` elements: `order` is a permutation of
    `0..n-1`; `applied` has no duplicates and only valid indices; with
    `continueOnFailure` nothing is skipped; without it an element can only be
    skipped if some applied element failed. -/
def schedOk [DecidableEq R] [DecidableEq E] (apply : El → S → Except E R × S) (cof : Bool)
    (els : List El) (sc : Sched) (s : S) : Bool :=
  let n := els.length
  sc.order.length == n && (List.range n).all (fun i => sc.order.contains i) &&
  sc.applied.all (fun i => decide (i < n)) && sc.applied.Nodup &&
  (let skipped := (List.range n).filter (fun i => !sc.applied.contains i)
   skipped.isEmpty ||
     (!cof && ((applyInOrder apply els sc.applied s).1.any (fun p => p.2.isErr))))

/-- Options of `Bulker.Run`. -/
structure Opts where
  atomic : Bool := false
  cof : Bool := false
  parallel : Bool := false
  deriving Repr, DecidableEq, Inhabited

/-- What `Bulker.Run` returns. -/
inductive RunErr (E : Type) where
  | none
  /-- `ErrAtomicParallelConflict` -/
  | conflict
  | begin (e : E)
  | commit (e : E)
  deriving Repr, DecidableEq, Inhabited

/-- The controller operations `Bulker.Run` needs besides `apply`: `BeginTX`
    (returns the state to run the elements in), `Commit`, `Rollback`. -/
structure Ctrl (S E : Type) where
  begin : S → Except E Unit × S
  commit : S → Except E Unit × S
  rollback : S → S

/-- `Bulker.Run` for a run function `run` (`runSeq …` or `runPar … schedule`). -/
def runBulk (ctl : Ctrl S E) (o : Opts) (run : S → List (BRes R E) × Bool × S) (s : S) :
    RunErr E × List (BRes R E) × S :=
  if o.atomic && o.parallel then (.conflict, [], s)
  else if o.atomic then
    match ctl.begin s with
    | (.error e, s) => (.begin e, [], s)
    | (.ok (), s) =>
      let (rs, he, s) := run s
      if he then (.none, rs, ctl.rollback s)
      else
        match ctl.commit s with
        | (.error e, s) => (.commit e, rs, s)
        | (.ok (), s) => (.none, rs, s)
  else
    let (rs, _, s) := run s
    (.none, rs, s)

/-- A controller state with transactions: `work` is the uncommitted copy while a
    transaction is open.  (Atomicity of the underlying SQL transaction is C07's
    subject; here it is the assumed behaviour of the controller under the bulker.) -/
structure TxS (S : Type) where
  durable : S
  work : Option S

/-- an element applied through a transactional controller -/
def txApply (apply : El → S → Except E R × S) (e : El) (t : TxS S) : Except E R × TxS S :=
  match t.work with
  | some w => let (r, w') := apply e w; (r, { t with work := some w' })
  | none => let (r, d') := apply e t.durable; (r, { t with durable := d' })

/-- `BeginTX` / `Commit` / `Rollback` of a transactional controller whose
    `BeginTX` / `Commit` may fail (a failed commit discards the transaction). -/
def txCtrl (beginFail commitFail : Option E) : Ctrl (TxS S) E where
  begin := fun t =>
    match beginFail with
    | some e => (.error e, t)
    | none => (.ok (), { t with work := some t.durable })
  commit := fun t =>
    match commitFail with
    | some e => (.error e, { t with work := none })
    | none =>
      match t.work with
      | some w => (.ok (), { durable := w, work := none })
      | none => (.ok (), t)
  rollback := fun t => { t with work := none }

/-- Stable insertion of an element that preceded the whole list: before equal keys. -/
def insertByID (x : BRes R E) : List (BRes R E) → List (BRes R E)
  | [] => [x]
  | y :: ys => if x.elementID ≤ y.elementID then x :: y :: ys else y :: insertByID x ys

/-- `slices.SortFunc(results, a.ElementID - b.ElementID)` as a stable sort. -/
def sortByID : List (BRes R E) → List (BRes R E)
  | [] => []
  | x :: xs => insertByID x (sortByID xs)

/-- One entry of the HTTP response: the result paired with the `responseType`
    taken from the action at the same *position*. -/
structure ApiRes (R E : Type) where
  responseType : String
  out : Outcome R E
  deriving Repr, DecidableEq

/-- `writeJSONResponse`: sort by `ElementID`, then pair position `i` with
    `actions[i]` (an index beyond `actions` is a Go panic: `none`). -/
def respond (actions : List String) (results : List (BRes R E)) : Option (List (ApiRes R E)) :=
  if actions.length < results.length then none
  else some (List.zipWith (fun a r => { responseType := if r.out.isOk then a else "ERROR", out := r.out })
    actions (sortByID results))

/-- HTTP status: 400 as soon as one result carries an error, else 200. -/
def status (results : List (BRes R E)) : Nat :=
  if results.any (fun r => !r.out.isOk) then 400 else 200

end Ledger.Wrap.Bulk
