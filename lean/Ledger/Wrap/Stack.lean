import Ledger.Wrap.Events
import Ledger.Wrap.Bulk

/-!
Model of the callers of the events wrapper, composed on top of it:

* `internal/controller/system/state_tracker.go` — `controllerFacade.handleState`
  (the first write on an *initializing* ledger goes through `BeginTX`,
  `LockLedger`, raw SQL, the write on the locked controller, `Commit`), the seven
  write methods of the facade;
* `internal/api/bulking/bulker.go` — `Bulker.Run` over the facade (sequential),
  using the generic model of `Ledger.Wrap.Bulk`.

`GetLedgerController` composes `stateTracker(events(traces(cache(retry(default)))))`;
everything below the events wrapper is the fake controller here.
-/
namespace Ledger.Wrap

/-- The raw SQL of `handleState` on the `*bun.Tx`: the state update and, when it
    affected a row, the two `setval`s. -/
def stateUpdate (s : St) (ctrl : W) : Ret × St :=
  match uSql s ctrl 1 with
  | (false, s) => (.sql 1, s)
  | (true, s) =>
    if s.faults.rows > 0 then
      match uSql s ctrl 2 with
      | (false, s) => (.sql 2, s)
      | (true, s) =>
        match uSql s ctrl 3 with
        | (false, s) => (.sql 3, s)
        | (true, s) => (.ok, s)
    else (.ok, s)

/-- `withLock(ctx, ctrl, fn)` as used by `handleState`, with the body of the
    closure inlined: lock, `stateUpdate`, `fn(lockedCtrl)`, then the deferred release. -/
def lockedBody (s : St) (ctrl : W) (fn : St → W → Ret × St) : Ret × St :=
  match wLock s ctrl with
  | (.error e, s) => (e, s)
  | (.ok locked, s) =>
    let body : Ret × St :=
      match stateUpdate s ctrl with
      | (.ok, s) => fn s locked
      | (e, s) => (e, s)
    (body.1, wRelease body.2 locked)

/-- `controllerFacade.handleState(ctx, dryRun, fn)` on a facade whose wrapped
    controller is `c` and whose cached ledger state is `inUse`; returns the new
    cached state as third component.

    `defer func() { if !finished { _ = ctrl.Rollback(ctx) } }()`: the deferred
    rollback only runs on the exits before the explicit `Commit` / `Rollback`. -/
def handleState (s : St) (c : W) (inUse : Bool) (dry : Bool) (fn : St → W → Ret × St) :
    Ret × St × Bool :=
  if inUse then ((fn s c).1, (fn s c).2, true)
  else
    match wBegin s c with
    | (.error e, s) => (e, s, false)
    | (.ok ctrl, s) =>
      match lockedBody s ctrl fn with
      | (.ok, s) =>
        if !dry then
          match wCommit s ctrl with
          | (.ok, s) => (.ok, s, true)
          | (e, s) => (e, s, false)
        else
          match wRollback s ctrl with
          | (.ok, s) => (.ok, s, false)
          | (e, s) => (e, s, false)
      | (e, s) => (e, (wRollback s ctrl).2, false)

/-- A write method of the root state-tracker facade (wraps the root events wrapper;
    its cached state is `St.inUse`). -/
def facadeWrite (s : St) (k : Kind) (dry : Bool) (w : Nat) : Ret × St :=
  let r := handleState s .root s.inUse dry (fun s c => wWrite s c k dry w)
  (r.1, { r.2.1 with inUse := r.2.2 })

/-- An element of a bulk in the `events` workload: kind, scripted outcome, write id. -/
structure BEl where
  kind : Kind
  ok : Bool
  w : Nat
  deriving Repr, DecidableEq, Inhabited

/-- State of a bulk run: the stack state and, for an atomic bulk, the facade
    returned by `controllerFacade.BeginTX`: the transaction wrapper and that
    facade's own cached ledger state (a snapshot taken at `BeginTX`). -/
abbrev BSt := St × Option (W × Bool)

/-- `processElement` (bulk elements are never dry runs): a write method of the
    facade the bulker holds. -/
def bulkApply (e : BEl) (p : BSt) : Except Ret Unit × BSt :=
  match p.2 with
  | none =>
    let r := facadeWrite p.1 e.kind false e.w
    ((match r.1 with | .ok => .ok () | x => .error x), (r.2, none))
  | some (c, iu) =>
    let r := handleState p.1 c iu false (fun s c => wWrite s c e.kind false e.w)
    ((match r.1 with | .ok => .ok () | x => .error x), (r.2.1, some (c, r.2.2)))

def bulkCtrl : Bulk.Ctrl BSt Ret where
  -- `controllerFacade.BeginTX`: the events wrapper's `BeginTX`, wrapped in a new
  -- facade with a snapshot of the cached ledger state
  begin := fun (s, _) =>
    match wBegin s .root with
    | (.ok c, s) => (.ok (), (s, some (c, s.inUse)))
    | (.error e, s) => (.error e, (s, none))
  commit := fun (s, c) =>
    match c with
    | none => (.ok (), (s, c))
    | some (w, _) =>
      match wCommit s w with
      | (.ok, s) => (.ok (), (s, c))
      | (e, s) => (.error e, (s, c))
  rollback := fun (s, c) =>
    match c with
    | none => (s, c)
    | some (w, _) => ((wRollback s w).2, c)

/-- A sequential bulk through the real `Bulker` over the facade. -/
def bulkOp (s : St) (atomic cof : Bool) (els : List BEl) :
    Bulk.RunErr Ret × List (Bulk.BRes Unit Ret) × St :=
  let s := { s with script := els.foldl (fun f e => upd f e.w e.ok) s.script }
  let out := Bulk.runBulk bulkCtrl { atomic, cof }
    (fun p => Bulk.runSeq Bulk.elementTag bulkApply cof els 0 false p) (s, none)
  (out.1, out.2.1, out.2.2.1)

/-- A client operation of the `events` workload. -/
inductive Op where
  | raw (c : Call)
  | swrite (k : Kind) (dry ok : Bool) (w : Nat) (f : Faults)
  | bulk (atomic cof : Bool) (els : List BEl) (f : Faults)
  deriving Repr, Inhabited

/-- What an operation returns to the client. -/
inductive OpRet where
  | badHandle
  | one (r : Ret)
  | bulk (e : Bulk.RunErr Ret) (rs : List (Bulk.Outcome Unit Ret))
  deriving Repr, DecidableEq, Inhabited

def stepOp (s : St) : Op → OpRet × St
  | .raw c =>
    match rawCall s c with
    | (none, s) => (.badHandle, s)
    | (some r, s) => (.one r, s)
  | .swrite k dry ok w f =>
    let (r, s) := facadeWrite { s with script := upd s.script w ok, faults := f } k dry w
    (.one r, { s with faults := {} })
  | .bulk atomic cof els f =>
    let (e, rs, s) := bulkOp { s with faults := f } atomic cof els
    (.bulk e (rs.map (·.out)), { s with faults := {} })

def runOps : St → List Op → List OpRet × St
  | s, [] => ([], s)
  | s, op :: ops =>
    let (r, s) := stepOp s op
    let (rs, s) := runOps s ops
    (r :: rs, s)

end Ledger.Wrap
