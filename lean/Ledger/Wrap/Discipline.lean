import Ledger.Wrap.Stack

/-!
The calling discipline under which C31 is claimed, and the classification of a
C31 violation found on a trace (stable signature for known findings).

Discipline (what the real callers of the events wrapper do — the state tracker,
the bulker, the API handlers):

* a *raw* `BeginTX` is only called on a wrapper that is not inside a transaction
  (the wrapper does not support nested transactions in general: an inner rollback
  does not remove the events already queued on the outer wrapper).  The one
  nested use in /repo — `handleState` on the facade returned by
  `controllerFacade.BeginTX`, i.e. the first write inside an atomic bulk on an
  initializing ledger — is part of the model (`Stack.lean`) and is proved safe
  because every failure of the inner transaction makes the bulk roll back;
* `Commit` is not called through a wrapper returned by `LockLedger` inside a
  transaction (its `atCommit` is always empty; the events are queued on the
  wrapper returned by `BeginTX`).

For the code AS IT IS, `LockLedger` inside a transaction is additionally outside
the discipline of the *partial* theorem (that is the defect).
-/
namespace Ledger.Wrap

/-- the wrapper was returned by `LockLedger` -/
def W.lockCreated : W → Bool
  | .node (.lk _) _ _ _ => true
  | _ => false

/-- A raw call on wrapper `c` respects the discipline; `lockInTx` says whether
    `LockLedger` inside a transaction is allowed. -/
def callOk (lockInTx : Bool) (c : W) : Call → Bool
  | .begin _ _ => c.u == .none
  | .commit _ _ => c.u == .none || !c.lockCreated
  | .lock _ _ => c.u == .none || lockInTx
  | _ => true

def opOk (lockInTx : Bool) (s : St) : Op → Bool
  | .raw c =>
    match s.handles[c.h]? with
    | none => true
    | some w => callOk lockInTx w c
  | .swrite .. => s.inUse || lockInTx
  | .bulk .. => s.inUse || lockInTx

/-- Every operation of the program respects the discipline in the state it runs in. -/
def disciplined (lockInTx : Bool) : St → List Op → Bool
  | _, [] => true
  | s, op :: ops => opOk lockInTx s op && disciplined lockInTx (stepOp s op).2 ops

/-- Kind of the first C31 violation on a trace (empty when `c31Ok`). -/
def violationSig (tr : List Item) : String :=
  let rec go (σ : Spec) (locked txs : List Nat) : List Item → String
    | [] =>
      if σ.dur.all (fun x => σ.pub.count x == σ.dur.count x) then "" else "C31:missing-publish"
    | it :: rest =>
      match it with
      | .publish k w =>
        if σ.pub.count (k, w) < σ.dur.count (k, w) then go (σ.step it) locked txs rest
        else
          -- is the write pending in a transaction, and did that transaction see a LockLedger?
          match txs.filter (fun t => (σ.pend t).contains (k, w)) with
          | t :: _ =>
            if locked.contains t then "C31:publish-before-commit:lockledger-in-tx"
            else "C31:publish-before-commit"
          | [] =>
            if σ.dur.count (k, w) = 0 then "C31:publish-not-durable" else "C31:publish-twice"
      | .lock t .ok => go (σ.step it) (t :: locked) txs rest
      | .begin t _ .ok => go (σ.step it) locked (t :: txs) rest
      | _ => go (σ.step it) locked txs rest
  go {} [] [] tr

end Ledger.Wrap
