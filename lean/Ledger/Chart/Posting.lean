import Ledger.Base.Regex
import Ledger.Generated.Grammar

/-!
Model of `Postings.Validate` (internal/posting.go) and of the two validators it
calls, `accounts.ValidateAddress` and `assets.IsValid`. The validators are the
regex ASTs regenerated from the Go constants by `tools/t4_grammar`, run through
the verified derivative matcher on the un-anchored body (`^body$` under Go's
`Regexp.Match` = whole-string membership in `Lang body`; that reading is tested
against Go on every `patterns` / `postingval` case, not proved).

Core-only.
-/
namespace Ledger.Chart
open Ledger.Regex Ledger.Generated.Grammar

/-- whole-string match of an anchored pattern `^body$` -/
def matchAnchored (pattern : Re) (s : List Char) : Bool :=
  match pattern.unanchor with
  | some body => accepts body s
  | none => false

/-- `accounts.ValidateAddress` -/
def validAddress (s : List Char) : Bool := matchAnchored accountPattern s
/-- `assets.IsValid` -/
def validAsset (s : List Char) : Bool := matchAnchored assetPattern s

structure RawPosting where
  source : List Char
  destination : List Char
  asset : List Char
  /-- `nil` amount = `none` -/
  amount : Option Int

/-- `Postings.Validate`: index and message of the first offending posting. -/
def postingsValidate : List RawPosting → Nat → Option (Nat × String)
  | [], _ => none
  | p :: rest, i =>
    match p.amount with
    | none => some (i, "no amount defined")
    | some a =>
      if a < 0 then some (i, "negative amount")
      else if !validAddress p.source then some (i, "invalid source address")
      else if !validAddress p.destination then some (i, "invalid destination address")
      else if !validAsset p.asset then some (i, "invalid asset")
      else postingsValidate rest (i + 1)

/-- A posting as `Postings.Validate` wants it. -/
def WellFormed (p : RawPosting) : Prop :=
  (∃ a, p.amount = some a ∧ 0 ≤ a) ∧
  (∃ body, accountPattern.unanchor = some body ∧ Lang body p.source ∧ Lang body p.destination) ∧
  (∃ body, assetPattern.unanchor = some body ∧ Lang body p.asset)

/-! ### literals of a script (internal/machine/script/compiler/compiler.go, `VisitLit`) -/

/-- `case *parser.LitAssetContext`: the token text becomes the asset constant after
    `machine.ValidateAsset` (fix 6f26ac5). -/
def compileAssetLiteral (tok : List Char) : Except String (List Char) :=
  if validAsset tok then .ok tok else .error "asset should respect pattern"

/-- the same case before fix 6f26ac5: no validation. Kept to state the old defect. -/
def compileAssetLiteralLegacy (tok : List Char) : Except String (List Char) := .ok tok

/-- `case *parser.LitAccountContext`: `c.GetText()[1:]`, no validation. -/
def compileAccountLiteral (tok : List Char) : List Char := tok.drop 1

def digitsToNat (s : List Char) : Nat := s.foldl (fun acc c => acc * 10 + (c.toNat - 48)) 0

/-- The posting `send [<asset> <number>] (source = <src> destination = <dst>)`
    yields when every operand is a literal. -/
def literalPosting (srcTok dstTok assetTok numTok : List Char) : Except String RawPosting := do
  let asset ← compileAssetLiteral assetTok
  pure { source := compileAccountLiteral srcTok, destination := compileAccountLiteral dstTok,
         asset, amount := some (digitsToNat numTok) }

/-! ### variables of a script (internal/machine/json.go, `NewValueFromString`) -/

/-- `big.Int.SetString(s, 10)`: optional sign, at least one ASCII digit, nothing else. -/
def parseBigInt (s : List Char) : Option Int :=
  let digitsOk := fun (d : List Char) => !d.isEmpty && d.all isDigit
  match s with
  | '-' :: d => if digitsOk d then some (-(digitsToNat d : Int)) else none
  | '+' :: d => if digitsOk d then some (digitsToNat d : Int) else none
  | d => if digitsOk d then some (digitsToNat d : Int) else none

/-- `case TypeAccount`: the string as given must pass `ValidateAccountAddress`; it
    is stored unchanged (no trimming). -/
def newValueAccount (s : List Char) : Except String (List Char) :=
  if validAddress s then .ok s else .error "accounts should respect pattern"

/-- `case TypeAsset` -/
def newValueAsset (s : List Char) : Except String (List Char) :=
  if validAsset s then .ok s else .error "asset should respect pattern"

/-- `strings.SplitN(data, " ", 2)` with two parts -/
def splitFirstSpace : List Char → Option (List Char × List Char)
  | [] => none
  | c :: rest =>
    if c = ' ' then some ([], rest)
    else (splitFirstSpace rest).map fun (a, b) => (c :: a, b)

/-- `case TypeMonetary`: `"<asset> <amount>"`, amount through `ParseMonetaryInt`,
    then `ParseMonetary` (asset pattern, amount not negative). -/
def newValueMonetary (s : List Char) : Except String (List Char × Int) :=
  match splitFirstSpace s with
  | none => .error "monetary must have two parts"
  | some (asset, amt) =>
    match parseBigInt amt with
    | none => .error "invalid monetary int"
    | some n =>
      if !validAsset asset then .error "asset should respect pattern"
      else if n < 0 then .error "negative amount"
      else .ok (asset, n)

/-- The posting of `send $mon (source = $src … destination = $dst)` with two
    `account` variables and one `monetary` variable (also when `$dst` comes from
    account metadata through `meta()`: same parser). -/
def variablePosting (src dst mon : List Char) : Except String RawPosting := do
  let s ← newValueAccount src
  let d ← newValueAccount dst
  let (asset, n) ← newValueMonetary mon
  pure { source := s, destination := d, asset, amount := some n }

/-- … and of `send [$ass <number>] (…)` with an `asset` variable. -/
def assetVariablePosting (src dst asset numTok : List Char) : Except String RawPosting := do
  let s ← newValueAccount src
  let d ← newValueAccount dst
  let a ← newValueAsset asset
  pure { source := s, destination := d, asset := a, amount := some (digitsToNat numTok) }

/-! ### import (internal/controller/ledger/controller_default.go, `Import` / `importLog`) -/

/-- Replaying the NEW_TRANSACTION logs of an export stream: each log is committed in
    its own SQL transaction; `validate` says whether `importLog` runs
    `Postings.Validate` on the log's postings first (it does not in the code as it
    is: `Generated.Grammar.importValidatesCreated`). Returns the transactions
    committed and whether the import stopped with an error. -/
def importTxs (validate : Bool) : List (List RawPosting) → List (List RawPosting) × Bool
  | [] => ([], false)
  | ps :: rest =>
    if validate && (postingsValidate ps 0).isSome then ([], true)
    else
      let r := importTxs validate rest
      (ps :: r.1, r.2)

end Ledger.Chart
