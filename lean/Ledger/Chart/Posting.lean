import Ledger.Base.Regex
import Ledger.Generated.Grammar

/-!
Model of `Postings.Validate` (internal/posting.go) and of the two validators it
calls, `accounts.ValidateAddress` and `assets.IsValid`. The validators are the
regex ASTs regenerated from the Go constants by `tools/t4_grammar`, run through
the verified derivative matcher on the un-anchored body (`^body$` under Go's
`Regexp.Match` = whole-string membership in `Lang body`; that reading is tested
against Go on every `patterns` / `postingval` case, not proved).

Core-only.
-/
namespace Ledger.Chart
open Ledger.Regex Ledger.Generated.Grammar

/-- whole-string match of an anchored pattern `^body$` -/
def matchAnchored (pattern : Re) (s : List Char) : Bool :=
  match pattern.unanchor with
  | some body => accepts body s
  | none => false

/-- `accounts.ValidateAddress` -/
def validAddress (s : List Char) : Bool := matchAnchored accountPattern s
/-- `assets.IsValid` -/
def validAsset (s : List Char) : Bool := matchAnchored assetPattern s

structure RawPosting where
  source : List Char
  destination : List Char
  asset : List Char
  /-- `nil` amount = `none` -/
  amount : Option Int

/-- `Postings.Validate`: index and message of the first offending posting. -/
def postingsValidate : List RawPosting → Nat → Option (Nat × String)
  | [], _ => none
  | p :: rest, i =>
    match p.amount with
    | none => some (i, "no amount defined")
    | some a =>
      if a < 0 then some (i, "negative amount")
      else if !validAddress p.source then some (i, "invalid source address")
      else if !validAddress p.destination then some (i, "invalid destination address")
      else if !validAsset p.asset then some (i, "invalid asset")
      else postingsValidate rest (i + 1)

/-- A posting as `Postings.Validate` wants it. -/
def WellFormed (p : RawPosting) : Prop :=
  (∃ a, p.amount = some a ∧ 0 ≤ a) ∧
  (∃ body, accountPattern.unanchor = some body ∧ Lang body p.source ∧ Lang body p.destination) ∧
  (∃ body, assetPattern.unanchor = some body ∧ Lang body p.asset)

/-! ### literals of a script (internal/machine/script/compiler/compiler.go, `VisitLit`) -/

/-- `case *parser.LitAssetContext`: the token text becomes the asset constant after
    `machine.ValidateAsset` (fix 6f26ac5). -/
def compileAssetLiteral (tok : List Char) : Except String (List Char) :=
  if validAsset tok then .ok tok else .error "asset should respect pattern"

/-- the same case before fix 6f26ac5: no validation. Kept to state the old defect. -/
def compileAssetLiteralLegacy (tok : List Char) : Except String (List Char) := .ok tok

/-- `case *parser.LitAccountContext`: `c.GetText()[1:]`, no validation. -/
def compileAccountLiteral (tok : List Char) : List Char := tok.drop 1

def digitsToNat (s : List Char) : Nat := s.foldl (fun acc c => acc * 10 + (c.toNat - 48)) 0

/-- The posting `send [<asset> <number>] (source = <src> destination = <dst>)`
    yields when every operand is a literal. -/
def literalPosting (srcTok dstTok assetTok numTok : List Char) : Except String RawPosting := do
  let asset ← compileAssetLiteral assetTok
  pure { source := compileAccountLiteral srcTok, destination := compileAccountLiteral dstTok,
         asset, amount := some (digitsToNat numTok) }

end Ledger.Chart
