import Ledger.Chart.Model

/-!
Model of the schema-enforcement decisions of the ledger controller:

* `logProcessor.runLog`      (internal/controller/ledger/log_process.go): which
  schema a write runs under, `ErrSchemaNotFound`, `ErrSchemaNotSpecified`, and the
  post-hoc `log.ValidateWithSchema` (chart validation of the created postings);
* `DefaultController.createTransaction` (controller_default.go): template rules;
* `Transaction.AccountsWithDefaultMetadata` + `saveAccountMetadata`: which default
  metadata is handed to `Store.UpsertAccounts`;
* the merge `UpsertAccounts` performs in SQL (hand-transcribed from the statement
  in internal/storage/ledger/accounts.go: insert `default_metadata || metadata`,
  update `a.metadata || d.metadata`) – NOT tied to the database by any test here.

A script is represented by its denotation: the postings it produces (the
correspondence workload renders each posting list into NumScript text, the real
compiler + VM run it, and the resulting postings are compared).

Core-only.
-/
namespace Ledger.Chart

inductive Mode where
  | strict | audit
deriving DecidableEq, Repr

structure Posting where
  source : List Char
  destination : List Char
  asset : String
  amount : Nat
deriving DecidableEq, Repr

/-- metadata.Metadata (string → string) -/
abbrev Meta := List (List Char × String)

structure Schema where
  version : String
  chart : Chart
  /-- `Transactions`: template id → postings its script produces -/
  templates : List (String × List Posting)

structure State where
  /-- in insertion order (`FindLatestSchemaVersion` = last) -/
  schemas : List Schema
  accounts : List (List Char × Meta)
  txCount : Nat

/-- `CreateTransaction` parameters relevant to enforcement. -/
structure TxRequest where
  schemaVersion : String
  template : String
  /-- denotation of `Script.Plain` (`[]`: empty / missing script, which does not compile) -/
  plain : List Posting
  accountMetadata : List (List Char × Meta)

inductive Reject where
  | schemaNotFound          -- ErrSchemaNotFound
  | schemaNotSpecified      -- ErrSchemaNotSpecified
  | templateRequired        -- "transactions on this ledger must use a template"
  | templateNotFound        -- "failed to find transaction template"
  | noTemplateDefinitions   -- "can only use templates on a schema with transaction definitions"
  | compile                 -- the selected script does not compile / yields no posting
  | chart (e : FindErr)     -- ErrSchemaValidationError wrapping ErrInvalidAccount
deriving DecidableEq, Repr

inductive Warning where
  | schemaNotSpecified | templateRequired | chart (e : FindErr)
deriving DecidableEq, Repr

/-- one element of the `UpsertAccounts` call -/
structure Upsert where
  address : List Char
  explicit : Meta
  defaults : Meta
deriving DecidableEq, Repr

inductive Decision where
  | accept (postings : List Posting) (upserts : List Upsert) (warnings : List Warning)
  | reject (r : Reject)
deriving Repr

def findSchema (schemas : List Schema) (version : String) : Option Schema :=
  schemas.find? fun s => s.version = version

/-- Outcome of the schema-resolution prefix of `runLog` (payloads with
    `NeedsSchema() = true`). -/
def resolveSchema (mode : Mode) (schemas : List Schema) (version : String) :
    Except Reject (Option Schema × List Warning) :=
  if version ≠ "" then
    match findSchema schemas version with
    | some s => pure (some s, [])
    | none => throw .schemaNotFound
  else if schemas.isEmpty then pure (none, [])
  else match mode with
    | .strict => throw .schemaNotSpecified
    | .audit => pure (none, [.schemaNotSpecified])

/-- Template rules at the top of `createTransaction`: which script runs.
    A schema that defines templates wants a template: without one, strict mode
    rejects, audit mode warns and runs the plain script. -/
def selectScript (mode : Mode) (schema : Option Schema) (req : TxRequest) :
    Except Reject (List Posting × List Warning) :=
  match schema with
  | some s =>
    if !s.templates.isEmpty then
      if req.template = "" then
        match mode with
        | .strict => throw .templateRequired
        | .audit => pure (req.plain, [.templateRequired])
      else
        match s.templates.lookup req.template with
        | some ps => pure (ps, [])
        | none => throw .templateNotFound
    else if req.template ≠ "" then throw .noTemplateDefinitions
    else pure (req.plain, [])
  | none =>
    if req.template ≠ "" then throw .noTemplateDefinitions else pure (req.plain, [])

/-- `createTransaction` before fix 8ad9995: the template lookup also ran for the
    empty template name, so audit mode rejected what it had just decided to let
    through. Kept to state the old defect; not used by `enforce`. -/
def selectScriptLegacy (mode : Mode) (schema : Option Schema) (req : TxRequest) :
    Except Reject (List Posting × List Warning) :=
  match schema with
  | some s =>
    if !s.templates.isEmpty then
      if req.template = "" ∧ mode = .strict then throw .templateRequired
      else
        match s.templates.lookup req.template with
        | some ps => pure (ps, if req.template = "" then [.templateRequired] else [])
        | none => throw .templateNotFound
    else if req.template ≠ "" then throw .noTemplateDefinitions
    else pure (req.plain, [])
  | none =>
    if req.template ≠ "" then throw .noTemplateDefinitions else pure (req.plain, [])

/-- first chart error over the postings (source, then destination, in order) -/
def validatePostings (ops : RegexOps) (c : Chart) : List Posting → Except FindErr Unit
  | [] => pure ()
  | p :: rest => do
    validatePosting ops c p.source p.destination
    validatePostings ops c rest

def insertSorted (a : List Char) : List (List Char) → List (List Char)
  | [] => [a]
  | b :: rest => if a = b then b :: rest else if a < b then a :: b :: rest else b :: insertSorted a rest

/-- `slices.Sort` + `slices.Compact` of involved accounts ∪ account-metadata keys -/
def involved (ps : List Posting) (am : List (List Char × Meta)) : List (List Char) :=
  let all := ps.foldr (fun p acc => p.source :: p.destination :: acc) (am.map (·.1))
  all.foldr insertSorted []

def defaultsFor (ops : RegexOps) (schema : Option Schema) (addr : List Char) : Meta :=
  match schema with
  | none => []
  | some s =>
    match classifyAddr ops s.chart addr with
    | some a => a.defaults
    | none => []

/-- `Transaction.AccountsWithDefaultMetadata` -/
def upsertsFor (ops : RegexOps) (schema : Option Schema) (ps : List Posting)
    (am : List (List Char × Meta)) : List Upsert :=
  (involved ps am).map fun addr =>
    { address := addr, explicit := (am.lookup addr).getD [], defaults := defaultsFor ops schema addr }

/-- The decision for one `CreateTransaction`. -/
def enforce (ops : RegexOps) (mode : Mode) (st : State) (req : TxRequest) : Decision :=
  match resolveSchema mode st.schemas req.schemaVersion with
  | .error r => .reject r
  | .ok (schema, w1) =>
    match selectScript mode schema req with
    | .error r => .reject r
    | .ok (ps, w2) =>
      if ps.isEmpty then .reject .compile else
      let ups := upsertsFor ops schema ps req.accountMetadata
      match schema with
      | none => .accept ps ups (w1 ++ w2)
      | some s =>
        match validatePostings ops s.chart ps with
        | .ok _ => .accept ps ups (w1 ++ w2)
        | .error e =>
          match mode with
          | .strict => .reject (.chart e)
          | .audit => .accept ps ups (w1 ++ w2 ++ [.chart e])

/-! ### the store's upsert merge (transcribed from SQL; see header) -/

/-- jsonb `base || over`: keys of `over` win. -/
def mergeMeta (base over : Meta) : Meta :=
  over ++ base.filter fun kv => (over.lookup kv.1).isNone

/-- metadata of the account after `UpsertAccounts` of one row -/
def upsertMeta (existing : Option Meta) (u : Upsert) : Meta :=
  match existing with
  | none => mergeMeta u.defaults u.explicit
  | some m => mergeMeta m u.explicit

def setAccount (addr : List Char) (m : Meta) : List (List Char × Meta) → List (List Char × Meta)
  | [] => [(addr, m)]
  | (a, x) :: rest => if a = addr then (a, m) :: rest else (a, x) :: setAccount addr m rest

def applyUpserts (accounts : List (List Char × Meta)) : List Upsert → List (List Char × Meta)
  | [] => accounts
  | u :: rest => applyUpserts (setAccount u.address (upsertMeta (accounts.lookup u.address) u) accounts) rest

/-- State after the write (a rejected write is rolled back: no effect). -/
def applyDecision (st : State) : Decision → State
  | .reject _ => st
  | .accept _ ups _ => { st with accounts := applyUpserts st.accounts ups, txCount := st.txCount + 1 }

def applySaveMeta (st : State) : Decision → State
  | .reject _ => st
  | .accept _ ups _ => { st with accounts := applyUpserts st.accounts ups }

/-- `SaveAccountMetadata`: always accepted once the schema is resolved
    (`SavedMetadata.ValidateWithSchema` returns nil). -/
def enforceSaveMeta (ops : RegexOps) (mode : Mode) (st : State) (version : String)
    (addr : List Char) (m : Meta) : Decision :=
  match resolveSchema mode st.schemas version with
  | .error r => .reject r
  | .ok (schema, w) =>
    .accept [] [{ address := addr, explicit := m, defaults := defaultsFor ops schema addr }] w

end Ledger.Chart
