import Ledger.Chart.Model

/-!
Model of the JSON encoding of `SchemaData` (internal/schema.go): the chart (custom
(un)marshalers, `Ledger/Chart/Model.lean`), the transaction templates
(internal/transaction_templates.go, plain struct encoding) and the query templates
(internal/query_template.go; `params` / `body` are `json.RawMessage`, variable
declarations have custom (un)marshalers in internal/queries/variables.go).

`encoding/json` rules modelled: struct members are matched case-insensitively
(last match wins), `null` leaves a field at its zero value, `omitempty` drops
empty strings / empty maps / nil interfaces / empty raw messages, a wrong JSON
type is an error. Opaque values (`params`, `body`, variable defaults) are carried
as trees.

The storage layer writes the three members into three JSON columns with the same
encoders and reads them back with the same decoders; what Postgres does to the
text in between is outside this model.

Core-only.
-/
namespace Ledger.Chart

def kDescription : Key := ['d', 'e', 's', 'c', 'r', 'i', 'p', 't', 'i', 'o', 'n']
def kScript : Key := ['s', 'c', 'r', 'i', 'p', 't']
def kRuntime : Key := ['r', 'u', 'n', 't', 'i', 'm', 'e']
def kResource : Key := ['r', 'e', 's', 'o', 'u', 'r', 'c', 'e']
def kParams : Key := ['p', 'a', 'r', 'a', 'm', 's']
def kVars : Key := ['v', 'a', 'r', 's']
def kBody : Key := ['b', 'o', 'd', 'y']
def kType : Key := ['t', 'y', 'p', 'e']
def kChart : Key := ['c', 'h', 'a', 'r', 't']
def kTransactions : Key := ['t', 'r', 'a', 'n', 's', 'a', 'c', 't', 'i', 'o', 'n', 's']
def kQueries : Key := ['q', 'u', 'e', 'r', 'i', 'e', 's']

/-- member of a JSON object decoded into a struct field called `name` -/
def findField (name : Key) : List (Key × JTree) → Option JTree → Option JTree
  | [], acc => acc
  | (k, v) :: rest, acc => findField name rest (if k.map asciiLower = name then some v else acc)

inductive SErr where
  | chart (e : Err)
  | badType       -- a member has the wrong JSON type
  | badVarType    -- FieldTypeFromString fails
deriving DecidableEq, Repr

/-- a string-typed field: absent / null → "" -/
def strFieldOf (name : Key) (kvs : List (Key × JTree)) : Except SErr String :=
  match findField name kvs none with
  | none => pure ""
  | some .null => pure ""
  | some (.str s) => pure s
  | some _ => throw .badType

/-- `TransactionTemplate` -/
structure TxTemplate where
  description : String
  script : String
  runtime : String
deriving DecidableEq, Repr

def marshalTemplate (t : TxTemplate) : JTree :=
  .obj ([(kDescription, .str t.description), (kScript, .str t.script)] ++
    (if t.runtime = "" then [] else [(kRuntime, .str t.runtime)]))

def unmarshalTemplate : JTree → Except SErr TxTemplate
  | .null => pure ⟨"", "", ""⟩
  | .obj kvs => do
    let d ← strFieldOf kDescription kvs
    let s ← strFieldOf kScript kvs
    let r ← strFieldOf kRuntime kvs
    pure ⟨d, s, r⟩
  | _ => throw .badType

/-- `queries.FieldType` of a variable declaration -/
inductive VarType where
  | boolean | date | int | string
deriving DecidableEq, Repr

def VarType.toString : VarType → String
  | .boolean => "boolean" | .date => "date" | .int => "int" | .string => "string"

def VarType.ofString (s : String) : Option VarType :=
  if s = "boolean" then some .boolean else if s = "date" then some .date
  else if s = "int" then some .int else if s = "string" then some .string else none

/-- `queries.VarDecl` (`default = none`: nil interface) -/
structure VarDecl where
  type : VarType
  default : Option JTree

def marshalVarDecl (d : VarDecl) : JTree :=
  .obj ((kType, .str d.type.toString) ::
    (match d.default with | none => [] | some v => [(keyDefault, v)]))

/-- `VarDecl.UnmarshalJSON`: a plain string is the type; otherwise `{type, default}` -/
def unmarshalVarDecl : JTree → Except SErr VarDecl
  | .str s =>
    match VarType.ofString s with
    | some t => pure ⟨t, none⟩
    | none => throw .badVarType
  | .null => throw .badVarType
  | .obj kvs => do
    let ts ← strFieldOf kType kvs
    match VarType.ofString ts with
    | none => throw .badVarType
    | some t =>
      match findField keyDefault kvs none with
      | none => pure ⟨t, none⟩
      | some .null => pure ⟨t, none⟩
      | some v => pure ⟨t, some v⟩
  | _ => throw .badType

def marshalVars : List (Key × VarDecl) → List (Key × JTree)
  | [] => []
  | (k, d) :: rest => (k, marshalVarDecl d) :: marshalVars rest

def unmarshalVars : List (Key × JTree) → Except SErr (List (Key × VarDecl))
  | [] => pure []
  | (k, v) :: rest => do
    let d ← unmarshalVarDecl v
    let r ← unmarshalVars rest
    pure ((k, d) :: r)

/-- `QueryTemplate` -/
structure QueryTemplate where
  description : String
  resource : String
  /-- `json.RawMessage`: `none` = member absent -/
  params : Option JTree
  vars : List (Key × VarDecl)
  body : Option JTree

def optMember (k : Key) : Option JTree → List (Key × JTree)
  | none => []
  | some v => [(k, v)]

def marshalQuery (q : QueryTemplate) : JTree :=
  .obj ((if q.description = "" then [] else [(kDescription, .str q.description)]) ++
    [(kResource, .str q.resource)] ++ optMember kParams q.params ++
    (if q.vars.isEmpty then [] else [(kVars, .obj (marshalVars q.vars))]) ++ optMember kBody q.body)

def unmarshalQuery : JTree → Except SErr QueryTemplate
  | .null => pure ⟨"", "", none, [], none⟩
  | .obj kvs => do
    let d ← strFieldOf kDescription kvs
    let r ← strFieldOf kResource kvs
    let vars ← match findField kVars kvs none with
      | none => pure []
      | some .null => pure []
      | some (.obj vs) => unmarshalVars vs
      | some _ => throw .badType
    pure ⟨d, r, findField kParams kvs none, vars, findField kBody kvs none⟩
  | _ => throw .badType

def marshalTemplates : List (Key × TxTemplate) → List (Key × JTree)
  | [] => []
  | (k, t) :: rest => (k, marshalTemplate t) :: marshalTemplates rest

def unmarshalTemplates : List (Key × JTree) → Except SErr (List (Key × TxTemplate))
  | [] => pure []
  | (k, v) :: rest => do
    let t ← unmarshalTemplate v
    let r ← unmarshalTemplates rest
    pure ((k, t) :: r)

def marshalQueries : List (Key × QueryTemplate) → List (Key × JTree)
  | [] => []
  | (k, q) :: rest => (k, marshalQuery q) :: marshalQueries rest

def unmarshalQueries : List (Key × JTree) → Except SErr (List (Key × QueryTemplate))
  | [] => pure []
  | (k, v) :: rest => do
    let q ← unmarshalQuery v
    let r ← unmarshalQueries rest
    pure ((k, q) :: r)

/-- `SchemaData` -/
structure SchemaData where
  chart : Chart
  transactions : List (Key × TxTemplate)
  queries : List (Key × QueryTemplate)

def marshalSchemaData (s : SchemaData) : JTree :=
  .obj ([(kChart, marshal s.chart)] ++
    (if s.transactions.isEmpty then [] else [(kTransactions, .obj (marshalTemplates s.transactions))]) ++
    (if s.queries.isEmpty then [] else [(kQueries, .obj (marshalQueries s.queries))]))

/-- a map-typed member: absent / null → empty -/
def mapFieldOf (name : Key) (kvs : List (Key × JTree)) : Except SErr (List (Key × JTree)) :=
  match findField name kvs none with
  | none => pure []
  | some .null => pure []
  | some (.obj m) => pure m
  | some _ => throw .badType

def unmarshalSchemaData (ops : RegexOps) : JTree → Except SErr SchemaData
  | .obj kvs => do
    let chart ← match findField kChart kvs none with
      | none => pure []   -- field stays nil (`NewSchema` then reports "missing chart of accounts")
      | some j => match unmarshal ops j with
        | .ok c => pure c
        | .error e => throw (.chart e)
    let ts ← unmarshalTemplates (← mapFieldOf kTransactions kvs)
    let qs ← unmarshalQueries (← mapFieldOf kQueries kvs)
    pure ⟨chart, ts, qs⟩
  | .null => pure ⟨[], [], []⟩
  | _ => throw .badType

/-- Values the decoders can produce: a variable default is never JSON `null`
    (it decodes to the nil interface, which `omitempty` drops). -/
def VarDecl.Valid (d : VarDecl) : Prop := d.default ≠ some .null

def QueryTemplate.Valid (q : QueryTemplate) : Prop := ∀ kv ∈ q.vars, kv.2.Valid

def SchemaData.Valid (ops : RegexOps) (s : SchemaData) : Prop :=
  Ledger.Chart.Valid ops s.chart ∧ ∀ kq ∈ s.queries, kq.2.Valid

end Ledger.Chart
