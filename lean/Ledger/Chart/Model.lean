/-!
Model of `/repo/internal/chart.go`: the chart of accounts, its JSON encoding
(`MarshalJSON` / `UnmarshalJSON`), `FindAccountSchema`, `ValidatePosting` and
`DefaultMetadata`.

Conventions
* Keys / segment names are `List Char` (Go strings, never decomposed bytewise
  except for the first character); values that are never inspected (patterns,
  default values) stay `String`.
* Go maps are association lists. `unmarshal` processes the members of a JSON
  object in list order (Go: random map order – every order gives the same result
  when the document is accepted; which error is reported first may differ).
* Go's `regexp.Compile` / `regexp.Match` on segment patterns are parameters
  (`RegexOps`); the executable model instantiates them with the regex-lite
  matcher of `Ledger/Base/Regex.lean`.

Core-only.
-/
namespace Ledger.Chart

abbrev Key := List Char

/-- A decoded JSON document (what `encoding/json` sees). Numbers keep their text. -/
inductive JTree where
  | null
  | bool (b : Bool)
  | num (text : String)
  | str (s : String)
  | arr (xs : List JTree)
  | obj (kvs : List (Key × JTree))
deriving Inhabited

/-- `ChartAccount`: `Metadata map[string]ChartAccountMetadata` (`none` = nil map;
    each entry has an optional default) and the empty `Rules` struct. -/
structure AccountSchema where
  metadata : Option (List (Key × Option String))
deriving DecidableEq, Repr, Inhabited

mutual
/-- `ChartSegment` -/
inductive Segment where
  | mk (fixed : List (Key × Segment)) (var : Option VarSegment) (account : Option AccountSchema)
/-- `ChartVariableSegment` -/
inductive VarSegment where
  | mk (label : Key) (pattern : Option String) (seg : Segment)
end

instance : Inhabited Segment := ⟨.mk [] none none⟩

/-- `ChartOfAccounts` = `map[string]ChartSegment` -/
abbrev Chart := List (Key × Segment)

def Segment.fixed : Segment → List (Key × Segment) | .mk f _ _ => f
def Segment.var : Segment → Option VarSegment | .mk _ v _ => v
def Segment.account : Segment → Option AccountSchema | .mk _ _ a => a
def VarSegment.label : VarSegment → Key | .mk l _ _ => l
def VarSegment.pattern : VarSegment → Option String | .mk _ p _ => p
def VarSegment.seg : VarSegment → Segment | .mk _ _ s => s

/-- Go `regexp` as used on segment patterns. -/
structure RegexOps where
  /-- `regexp.Compile(p)` succeeds -/
  compiles : String → Bool
  /-- `regexp.Match(p, segment)` (unanchored search) -/
  isMatch : String → Key → Bool

/-! ### Key syntax -/

def keyPattern : Key := ['.', 'p', 'a', 't', 't', 'e', 'r', 'n']
def keySelf : Key := ['.', 's', 'e', 'l', 'f']
def keyRules : Key := ['.', 'r', 'u', 'l', 'e', 's']
def keyMetadata : Key := ['.', 'm', 'e', 't', 'a', 'd', 'a', 't', 'a']
def keyDefault : Key := ['d', 'e', 'f', 'a', 'u', 'l', 't']

def isSegChar (c : Char) : Bool :=
  ('a' ≤ c && c ≤ 'z') || ('A' ≤ c && c ≤ 'Z') || ('0' ≤ c && c ≤ '9') || c = '_' || c = '-'

/-- `[a-zA-Z0-9_-]+` -/
def validName (k : Key) : Bool := !k.isEmpty && k.all isSegChar

/-- `ChartSegmentRegexp = ^(\$|\.)?[a-zA-Z0-9_-]+$` -/
def validateSegment : Key → Bool
  | '$' :: r => validName r
  | '.' :: r => validName r
  | k => validName k

def isProp : Key → Bool | '.' :: _ => true | _ => false
def isVar : Key → Bool | '$' :: _ => true | _ => false

/-! ### MarshalJSON -/

def marshalMetaEntry (kv : Key × Option String) : Key × JTree :=
  (kv.1, match kv.2 with
    | none => JTree.obj []
    | some v => JTree.obj [(keyDefault, .str v)])

def marshalMeta (m : List (Key × Option String)) : JTree :=
  .obj (m.map marshalMetaEntry)

/-- the `.metadata` / `.self` members of `marshalJsonObject` -/
def marshalAccount (hasChildren : Bool) : Option AccountSchema → List (Key × JTree)
  | none => []
  | some a =>
    (match a.metadata with
      | none => []
      | some m => [(keyMetadata, marshalMeta m)]) ++
    (if hasChildren then [(keySelf, JTree.obj [])] else [])

def marshalPattern : Option String → List (Key × JTree)
  | none => []
  | some p => [(keyPattern, .str p)]

mutual
/-- `ChartSegment.marshalJsonObject` -/
def marshalSeg : Segment → List (Key × JTree)
  | .mk fixed var acct =>
    marshalFixed fixed ++ (marshalVar var ++
      marshalAccount (!fixed.isEmpty || var.isSome) acct)
def marshalFixed : List (Key × Segment) → List (Key × JTree)
  | [] => []
  | (k, s) :: rest => (k, JTree.obj (marshalSeg s)) :: marshalFixed rest
/-- `ChartVariableSegment.MarshalJSON` under key `$label` -/
def marshalVar : Option VarSegment → List (Key × JTree)
  | none => []
  | some (.mk label pat s) => [('$' :: label, JTree.obj (marshalSeg s ++ marshalPattern pat))]
end

/-- `ChartOfAccounts.MarshalJSON` -/
def marshal (c : Chart) : JTree := .obj (marshalFixed c)

/-! ### UnmarshalJSON -/

inductive Err where
  | notObject            -- json: cannot unmarshal … into map
  | invalidSegmentName   -- "invalid segment name" / "invalid address segment"
  | rootVariable         -- "root cannot have a variable segment"
  | rootProperty         -- "the root cannot be an account"
  | patternOnFixed       -- "cannot have a pattern on a fixed segment"
  | patternNotString     -- "pattern must be a string"
  | invalidPattern       -- "invalid pattern regex"
  | twoVariable          -- "cannot have two variable segments with the same prefix"
  | selfNotEmpty         -- ".self must be an empty object"
  | invalidMetadata      -- "invalid default metadata"
  | invalidRules         -- "invalid account rules"
  | metadataOnNonAccount -- "cannot have .metadata on a non-account segment"
  | rulesOnNonAccount    -- "cannot have .rules on a non-account segment"
deriving DecidableEq, Repr, Inhabited

/-- Members when the value decodes into a Go map (`null` leaves the map nil). -/
def JTree.fields? : JTree → Option (List (Key × JTree))
  | .null => some []
  | .obj kvs => some kvs
  | _ => none

def asciiLower (c : Char) : Char :=
  if 'A' ≤ c && c ≤ 'Z' then Char.ofNat (c.toNat + 32) else c

/-- `encoding/json` matches struct field names case-insensitively; the last
    matching member wins. -/
def findDefault : List (Key × JTree) → Option JTree → Option JTree
  | [], acc => acc
  | (k, v) :: rest, acc => findDefault rest (if k.map asciiLower = keyDefault then some v else acc)

/-- one `ChartAccountMetadata` value -/
def unmarshalMetaEntry (v : JTree) : Except Err (Option String) :=
  match v with
  | .null => pure none
  | .obj kvs =>
    match findDefault kvs none with
    | none => pure none
    | some .null => pure none
    | some (.str s) => pure (some s)
    | some _ => throw .invalidMetadata
  | _ => throw .invalidMetadata

def unmarshalMetaEntries : List (Key × JTree) → Except Err (List (Key × Option String))
  | [] => pure []
  | (k, v) :: rest => do
    let d ← unmarshalMetaEntry v
    let r ← unmarshalMetaEntries rest
    pure ((k, d) :: r)

/-- `json.Unmarshal(value, &account.Metadata)` -/
def unmarshalMeta (v : JTree) : Except Err (Option (List (Key × Option String))) :=
  match v with
  | .null => pure none
  | .obj kvs => do pure (some (← unmarshalMetaEntries kvs))
  | _ => throw .invalidMetadata

/-- The parent's look at a sub-segment's `.pattern` member. -/
def readPattern (ops : RegexOps) (fields : List (Key × JTree)) : Except Err (Option String) :=
  match fields.lookup keyPattern with
  | none => pure none
  | some (.str p) => if ops.compiles p then pure (some p) else throw .invalidPattern
  | some _ => throw .patternNotString

/-- What the loop of `ChartSegment.UnmarshalJSON` has collected so far. -/
structure Acc where
  fixed : List (Key × Segment) := []
  var : Option VarSegment := none
  self : Bool := false
  /-- `some m`: a `.metadata` member was present and decoded to `m` -/
  md : Option (Option (List (Key × Option String))) := none
  rules : Bool := false

def Acc.finish (a : Acc) : Except Err Segment :=
  let isLeaf := a.fixed.isEmpty && a.var.isNone
  let isAccount := a.self || isLeaf
  if a.md.isSome && !isAccount then throw .metadataOnNonAccount
  else if a.rules && !isAccount then throw .rulesOnNonAccount
  else pure (.mk a.fixed a.var
    (if isAccount then some { metadata := a.md.join } else none))

mutual
/-- `ChartSegment.UnmarshalJSON` -/
def unmarshalSeg (ops : RegexOps) : JTree → Except Err Segment
  | .null => (Acc.finish {})
  | .obj kvs => do (← unmarshalMembers ops kvs).finish
  | _ => throw .notObject
/-- the `for key, value := range segment` loop (head first, then the rest) -/
def unmarshalMembers (ops : RegexOps) : List (Key × JTree) → Except Err Acc
  | [] => pure {}
  | (k, v) :: rest =>
    if !isProp k then
      if !validateSegment k then throw .invalidSegmentName else
      match v.fields? with
      | none => throw .notObject
      | some fields => do
        let pattern ← readPattern ops fields
        let seg ← unmarshalSeg ops v
        let acc ← unmarshalMembers ops rest
        if isVar k then
          if acc.var.isSome then throw .twoVariable
          else pure { acc with var := some (.mk k.tail pattern seg) }
        else
          if pattern.isSome then throw .patternOnFixed
          else pure { acc with fixed := (k, seg) :: acc.fixed }
    else if k = keySelf then
      match v.fields? with
      | some [] => do
        let acc ← unmarshalMembers ops rest
        pure { acc with self := true }
      | _ => throw .selfNotEmpty
    else if k = keyMetadata then do
      let m ← unmarshalMeta v
      let acc ← unmarshalMembers ops rest
      pure { acc with md := some m }
    else if k = keyRules then
      match v.fields? with
      | some _ => do
        let acc ← unmarshalMembers ops rest
        pure { acc with rules := true }
      | none => throw .invalidRules
    else unmarshalMembers ops rest
end

/-- the loop of `ChartOfAccounts.UnmarshalJSON` -/
def unmarshalRoot (ops : RegexOps) : List (Key × JTree) → Except Err Chart
  | [] => pure []
  | (k, v) :: rest =>
    if !validateSegment k then throw .invalidSegmentName
    else if isVar k then throw .rootVariable
    else if isProp k then throw .rootProperty
    else
      match v.fields? with
      | none => throw .notObject
      | some fields =>
        if (fields.lookup keyPattern).isSome then throw .patternOnFixed else do
        let seg ← unmarshalSeg ops v
        let r ← unmarshalRoot ops rest
        pure ((k, seg) :: r)

/-- `ChartOfAccounts.UnmarshalJSON` -/
def unmarshal (ops : RegexOps) (j : JTree) : Except Err Chart :=
  match j.fields? with
  | none => throw .notObject
  | some kvs => unmarshalRoot ops kvs

/-! ### Well-formedness: what `unmarshal` can produce -/

mutual
def Segment.Valid (ops : RegexOps) : Segment → Prop
  | .mk fixed var acct =>
    validFixed ops fixed ∧ validVar ops var ∧
    (acct = none → (fixed ≠ [] ∨ var ≠ none))
def validFixed (ops : RegexOps) : List (Key × Segment) → Prop
  | [] => True
  | (k, s) :: rest => validName k = true ∧ s.Valid ops ∧ validFixed ops rest
def validVar (ops : RegexOps) : Option VarSegment → Prop
  | none => True
  | some (.mk label pat s) =>
    validName label = true ∧ (∀ p, pat = some p → ops.compiles p = true) ∧ s.Valid ops
end

/-- A chart `UnmarshalJSON` can produce (and that `MarshalJSON` renders faithfully). -/
def Valid (ops : RegexOps) (c : Chart) : Prop := validFixed ops c

/-! ### FindAccountSchema -/

/-- `ErrInvalidAccount` -/
structure FindErr where
  path : List Key
  segment : Key
  patternMismatch : Bool
  hasSubsegments : Bool
deriving DecidableEq, Repr

/-- `findAccountSchema(path, fixedSegments, variableSegment, account)`; `account`
    is `seg :: rest` (Go: `strings.Split` never returns an empty slice). -/
def find (ops : RegexOps) (path : List Key) (fixed : List (Key × Segment)) (var : Option VarSegment)
    (seg : Key) : List Key → Except FindErr AccountSchema
  | [] =>
    match fixed.lookup seg with
    | some s =>
      match s.account with
      | some a => pure a
      | none => throw ⟨path, seg, false, false⟩
    | none =>
      match var with
      | some v =>
        if (match v.pattern with | none => true | some p => ops.isMatch p seg) then
          match v.seg.account with
          | some a => pure a
          | none => throw ⟨path, seg, false, false⟩
        else throw ⟨path, seg, true, false⟩
      | none => throw ⟨path, seg, false, false⟩
  | next :: rest =>
    match fixed.lookup seg with
    | some s => find ops (path ++ [seg]) s.fixed s.var next rest
    | none =>
      match var with
      | some v =>
        if (match v.pattern with | none => true | some p => ops.isMatch p seg) then
          find ops (path ++ [seg]) v.seg.fixed v.seg.var next rest
        else throw ⟨path, seg, true, true⟩
      | none => throw ⟨path, seg, false, true⟩

/-- `strings.Split(account, ":")` on `List Char`. Always non-empty. -/
def splitColon : List Char → Key × List Key
  | [] => ([], [])
  | c :: rest =>
    let (h, t) := splitColon rest
    if c = ':' then ([], h :: t) else (c :: h, t)

/-- `ChartOfAccounts.FindAccountSchema` on a split address. -/
def findAccountSchema (ops : RegexOps) (c : Chart) (seg : Key) (rest : List Key) :
    Except FindErr AccountSchema :=
  find ops [] c none seg rest

/-- Classification of an address given as its segments (`[]` cannot come out of
    `strings.Split`; it is rejected). -/
def classify (ops : RegexOps) (c : Chart) : List Key → Option AccountSchema
  | [] => none
  | seg :: rest => (findAccountSchema ops c seg rest).toOption

def classifyAddr (ops : RegexOps) (c : Chart) (addr : List Char) : Option AccountSchema :=
  let (h, t) := splitColon addr
  classify ops c (h :: t)

/-- `ChartAccount.DefaultMetadata()` (keys with a default only). -/
def AccountSchema.defaults (a : AccountSchema) : List (Key × String) :=
  match a.metadata with
  | none => []
  | some m => m.filterMap fun kv => kv.2.map fun v => (kv.1, v)

/-- accepted? and with which default metadata -/
def classifyDefaults (ops : RegexOps) (c : Chart) (addr : List Key) : Option (List (Key × String)) :=
  (classify ops c addr).map AccountSchema.defaults

/-- `ChartOfAccounts.ValidatePosting`: first error of source, then destination. -/
def validatePosting (ops : RegexOps) (c : Chart) (source destination : List Char) :
    Except FindErr Unit := do
  let (h, t) := splitColon source
  let _ ← findAccountSchema ops c h t
  let (h', t') := splitColon destination
  let _ ← findAccountSchema ops c h' t'
  pure ()

end Ledger.Chart
