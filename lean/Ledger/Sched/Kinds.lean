/-!
# Statement kinds and handles (core-only)

The alphabet shared by the abstract model, the Go statement classifier
(`harness/go/internal/verif/wlsched/classify.go`) and the generated module
`Ledger.Generated.Handles`.
-/
namespace Ledger.Sched

inductive Kind
  | begin | commit | rollback | savepoint | release | rollbackTo
  | lockLedgerX | lockLedgerS | unlockLedgerS | updateState | setval | readState
  | readIK | readLastLog | getBalances | updateVolumes | insertTx | advLockLog | insertLog
  | revertUpdate | createBlocks
  -- variants a changed source would render
  | getBalancesNoLock | getBalancesNoIns | revertUpdateUnguarded
  -- issued by the writers but not tracked by the abstract model
  | readSchema | insertMoves | upsertAccounts | updateTxMetadata | insertMetadata | read | other
  deriving DecidableEq, Repr

/-- on which handle a statement ran: the pool (autocommit), a transaction, a savepoint of one -/
inductive Handle
  | conn | tx | savepoint
  deriving DecidableEq, Repr

/-- kinds the abstract model tracks (the rest is dropped from traces before comparison) -/
def Kind.modelled : Kind → Bool
  | .readSchema | .insertMoves | .updateTxMetadata | .insertMetadata | .read | .other => false
  | _ => true

end Ledger.Sched
