/-!
# Abstract protocol-level model of concurrent ledger writers (core-only)

Sessions are coroutines over the *statement kinds* the real writers issue (the
alphabet of `Ledger.Generated.Handles`, produced by running the real controller
over pgfake). PostgreSQL is abstracted to exactly what the schedule-quantified
properties need — and follows the rules of `Ledger/Sql/Session.lean` (LeanPG):

* a **row** has a latest committed version, at most one in-progress owner
  (inserter / updater / `FOR UPDATE` locker) and that owner's uncommitted version;
* `UPDATE`, `SELECT … FOR UPDATE`, `INSERT … ON CONFLICT` wait while another
  in-progress session owns a target row, and after the wait act on the *latest
  committed version* (EvalPlanQual);
* the `SELECT … FOR UPDATE` of `GetBalances` shares the snapshot its statement
  took when it was FIRST issued: a row that was not committed then (and is not an
  earlier write of the same transaction) is neither locked nor read — even if it
  is committed by the time the statement resumes after its `ins` CTE waited;
* unique indexes: a conflicting committed entry raises 23505, a conflicting
  in-progress entry of another session makes the statement wait;
* advisory locks: exclusive per key; transaction-scoped ones are released at
  COMMIT / ROLLBACK / failure, session-scoped ones by the explicit unlock;
* sequences are not transactional (a failed statement keeps its `nextval`);
* a statement that has to wait has no effect (it only remembers its snapshot and
  the wait-for edge); a wait that closes a cycle in the wait-for graph fails with
  40P01 (deadlock) instead; a failed statement aborts its transaction at once
  (effects undone, transaction-scoped locks released).

`step w s` lets session `s` attempt its next statement (a blocked session
stutters); `run σ w` folds a schedule. Both are total.
-/
namespace Ledger.Sched

abbrev Sid := Nat

/-- A table row under the abstraction above. -/
structure Row (α : Type) where
  /-- latest committed version (`none`: no committed row) -/
  com : Option α := none
  /-- in-progress session that inserted / updated / locked the row -/
  own : Option Sid := none
  /-- the owner's uncommitted version (`none`: the row is only locked) -/
  pen : Option α := none

namespace Row
variable {α : Type}

/-- what a statement of session `s` acting on the row sees after any wait: its own
    uncommitted version, else the latest committed one -/
def latest (r : Row α) : Option α := match r.pen with | some v => some v | none => r.com

def commit (s : Sid) (r : Row α) : Row α :=
  if r.own = some s then { com := r.latest, own := none, pen := none } else r

def abort (s : Sid) (r : Row α) : Row α :=
  if r.own = some s then { com := r.com, own := none, pen := none } else r

/-- owned by an in-progress session other than `s` -/
def heldByOther (s : Sid) (r : Row α) : Option Sid :=
  match r.own with
  | some t => if t = s then none else some t
  | none => none

/-- visible to a fresh snapshot of session `s`: committed, or written earlier by `s` itself -/
def visible (s : Sid) (r : Row α) : Bool :=
  r.com.isSome || (r.own == some s && r.pen.isSome)

end Row

/-- a row of `transactions` (the `reverted_at` column lives in `World.rev`) -/
structure Tx where
  l : Nat
  id : Nat
  ref : Nat
  by_ : Sid
  com : Bool
  deriving DecidableEq, Repr

/-- a row of `logs` -/
structure Lg where
  l : Nat
  id : Nat
  /-- idempotency key (0 = none) -/
  ik : Nat
  /-- idempotency hash (a tag of the request's input) -/
  hash : Nat
  /-- id of the log the `set_log_hash` trigger chained from (0 = none); only set for HASH_LOGS=SYNC -/
  prev : Nat
  /-- transaction id carried by the payload (0 = none) -/
  tx : Nat
  by_ : Sid
  com : Bool
  deriving DecidableEq, Repr

/-- a row of `logs_blocks`: the block covers log ids in `(from_, to]` -/
structure Blk where
  l : Nat
  from_ : Nat
  to : Nat
  /-- ghost: the log ids whose contents the block's hash was computed over -/
  ids : List Nat := []
  deriving DecidableEq, Repr

structure Adv where
  key : Nat
  sid : Sid
  /-- transaction-scoped (`pg_advisory_xact_lock`) -/
  xact : Bool
  deriving DecidableEq, Repr

/-- advisory-lock keys: `pg_advisory_xact_lock(<ledger id>)` of InsertLog and
    `hashtext('ledger:<id>')` of LockLedger are different keys -/
def logKey (l : Nat) : Nat := 2 * l
def ledgerKey (l : Nat) : Nat := 2 * l + 1

inductive Stmt
  | begin | commit | rollback
  | savepoint | release | rollbackTo
  /-- `pg_advisory_xact_lock(hashtext('ledger:l'))` (LockLedger on a transaction) -/
  | lockLedgerX (l : Nat)
  /-- `pg_advisory_lock(hashtext('ledger:l'))` (LockLedger on a connection: Import) -/
  | lockLedgerS (l : Nat)
  | unlockLedgerS (l : Nat)
  /-- `UPDATE _system.ledgers SET state='in-use' WHERE id=l AND state='initializing'`; flag = a row was updated -/
  | updateState (l : Nat)
  /-- both `setval(seq, (select max(id) …))` of `handleState` -/
  | setval (l : Nat)
  /-- `SELECT … FROM _system.ledgers WHERE id = l`; flag = still initializing -/
  | readState (l : Nat)
  /-- `ReadLogWithIdempotencyKey`; flag = found, vals = [log id, idempotency hash, tx id] -/
  | readIK (l ik : Nat)
  /-- last log of the ledger (Import's pre-check); vals = [max visible log id, or 0] -/
  | readLastLog (l : Nat)
  /-- `GetBalances`: `WITH ins AS (INSERT zero rows ON CONFLICT DO NOTHING) SELECT … FOR UPDATE`; vals = balances -/
  | getBalances (ps : List Nat)
  /-- `UpdateVolumes`: `INSERT … ON CONFLICT DO UPDATE SET input = input + excluded.input, …` -/
  | updateVolumes (ds : List (Nat × Int))
  /-- `InsertTransaction`; `id = none`: `nextval(transaction_id_l)`; vals = [id] -/
  | insertTx (l ref : Nat) (id : Option Nat)
  /-- `UpsertAccounts`: existing accounts (per the statement's snapshot) are left alone (the UPDATE arm
      only fires when first_usage / metadata change); the others are INSERTed WITHOUT `ON CONFLICT` -/
  | upsertAccounts (as : List Nat)
  /-- `pg_advisory_xact_lock(l)` of InsertLog (HASH_LOGS=SYNC) -/
  | advLockLog (l : Nat)
  /-- the INSERT of InsertLog; `sync`: the `set_log_hash` trigger is installed; vals = [id] -/
  | insertLog (l ik hash : Nat) (sync : Bool) (id : Option Nat) (tx : Nat)
  /-- `UPDATE transactions SET reverted_at = … WHERE id = tx AND reverted_at IS NULL` (+ retrieve);
      `guarded = false` models the statement without the `reverted_at IS NULL` condition;
      flag = modified, vals = [1 if the transaction exists else 0] -/
  | revertUpdate (l tx : Nat) (guarded : Bool)
  /-- `call create_blocks(l, size)` (autocommit) -/
  | createBlocks (l size : Nat)

inductive Err
  | uniqueRef | uniqueIK | uniqueTxId | uniqueLogId | deadlock | aborted
  /-- 23505 on `accounts (ledger, address)`: the account was inserted by a transaction that committed
      after this statement's snapshot -/
  | uniqueAcct
  /-- 3B001: ROLLBACK TO / RELEASE of a savepoint that does not exist (an error like any other: aborts the block) -/
  | noSavepoint
  deriving DecidableEq, Repr

/-- what a statement answers to the client code -/
structure Out where
  err : Option Err := none
  flag : Bool := false
  vals : List Int := []

/-- canonical response of a request -/
structure Resp where
  /-- "" = success, else the error enum of the harness -/
  err : String := ""
  tx : Nat := 0
  log : Nat := 0
  hit : Bool := false
  deriving DecidableEq, Repr

/-- A session program: a coroutine over statements. The continuation receives the
    statement's answer, so a program encodes the client code's reaction to every
    possible answer. -/
inductive Prog
  | done (r : Resp)
  | stmt (s : Stmt) (k : Out → Prog)

structure Session where
  prog : Prog := .done {}
  inTx : Bool := false
  /-- 25P02: a statement failed; everything but ROLLBACK [TO] is refused -/
  aborted : Bool := false
  /-- savepoint nesting depth (nested BeginTX) -/
  sp : Nat := 0
  /-- the pending statement's snapshot: the `getBalances` pairs that were visible when it was first issued -/
  snap : Option (List Nat) := none
  waitsFor : Option Sid := none

/-- a successful `revertUpdate` (ghost, for C15) -/
structure RevWin where
  l : Nat
  tx : Nat
  by_ : Sid
  com : Bool
  deriving DecidableEq, Repr

structure World where
  /-- `accounts_volumes`: (account, asset) pair id ↦ balance row -/
  vols : Nat → Row Int := fun _ => {}
  /-- `transactions.reverted_at is not null`, per ledger and transaction id -/
  rev : Nat → Nat → Row Bool := fun _ _ => {}
  /-- `_system.ledgers.state = 'in-use'`, per ledger -/
  state : Nat → Row Bool := fun _ => {}
  /-- `accounts`: (ledger, address) id ↦ row (contents are irrelevant here) -/
  accts : Nat → Row Unit := fun _ => {}
  txs : List Tx := []
  logs : List Lg := []
  blocks : List Blk := []
  txSeq : Nat → Nat := fun _ => 0
  logSeq : Nat → Nat := fun _ => 0
  adv : List Adv := []
  sess : Sid → Session := fun _ => {}
  /-- ghost: sessions in the order of their effective COMMITs -/
  commits : List Sid := []
  /-- ghost: successful revert updates -/
  revWins : List RevWin := []
  /-- ghost: (ledger, log id, session) in commit order -/
  logCommits : List (Nat × Nat × Sid) := []
  /-- ghost: value read under lock by `getBalances` (session, pair) in the current transaction -/
  reads : Sid → Nat → Option Int := fun _ _ => none
  /-- ghost: sum of the deltas the session applied to the pair since that read -/
  spent : Sid → Nat → Int := fun _ _ => 0

/-! ## transaction end -/

def commitLogs (s : Sid) (logs : List Lg) : List (Nat × Nat × Sid) :=
  (logs.filter (fun e => e.by_ = s && !e.com)).map (fun e => (e.l, e.id, s))

/-- COMMIT of session `s` -/
def World.commitTx (w : World) (s : Sid) : World :=
  { w with
    vols := fun k => (w.vols k).commit s
    rev := fun l t => (w.rev l t).commit s
    state := fun l => (w.state l).commit s
    accts := fun a => (w.accts a).commit s
    txs := w.txs.map (fun t => if t.by_ = s then { t with com := true } else t)
    logs := w.logs.map (fun e => if e.by_ = s then { e with com := true } else e)
    revWins := w.revWins.map (fun e => if e.by_ = s then { e with com := true } else e)
    adv := w.adv.filter (fun a => !(a.sid = s && a.xact))
    commits := w.commits ++ [s]
    logCommits := w.logCommits ++ commitLogs s w.logs
    reads := fun t k => if t = s then none else w.reads t k
    spent := fun t k => if t = s then 0 else w.spent t k
    sess := fun t =>
      let x := w.sess t
      if t = s then { x with inTx := false, aborted := false, sp := 0, snap := none, waitsFor := none }
      else if x.waitsFor = some s then { x with waitsFor := none } else x }

/-- undo the uncommitted work of `s`; `keepOuter`: keep what was acquired before
    the savepoint (the ledger advisory lock and the `_system.ledgers` row lock) -/
def World.undo (w : World) (s : Sid) (keepOuter : Bool) : World :=
  { w with
    vols := fun k => (w.vols k).abort s
    rev := fun l t => (w.rev l t).abort s
    state := fun l => if keepOuter then w.state l else (w.state l).abort s
    accts := fun a => (w.accts a).abort s
    txs := w.txs.filter (fun t => t.com || t.by_ ≠ s)
    logs := w.logs.filter (fun e => e.com || e.by_ ≠ s)
    revWins := w.revWins.filter (fun e => e.com || e.by_ ≠ s)
    adv := w.adv.filter (fun a => !(a.sid = s && a.xact && (!keepOuter || a.key % 2 = 0)))
    reads := fun t k => if t = s then none else w.reads t k
    spent := fun t k => if t = s then 0 else w.spent t k }

def World.clearWaiters (w : World) (s : Sid) : World :=
  { w with sess := fun t => let x := w.sess t; if x.waitsFor = some s then { x with waitsFor := none } else x }

def World.setSess (w : World) (s : Sid) (f : Session → Session) : World :=
  { w with sess := fun t => if t = s then f (w.sess t) else w.sess t }

/-- ROLLBACK of session `s` -/
def World.rollbackTx (w : World) (s : Sid) : World :=
  ((w.undo s false).clearWaiters s).setSess s
    (fun x => { x with inTx := false, aborted := false, sp := 0, snap := none, waitsFor := none })

/-- a statement of `s` failed: PostgreSQL aborts the (sub)transaction at once -/
def World.failTx (w : World) (s : Sid) : World :=
  let x := w.sess s
  if x.inTx then
    ((w.undo s (decide (x.sp > 0))).clearWaiters s).setSess s (fun x => { x with aborted := true, snap := none, waitsFor := none })
  else
    w.setSess s (fun x => { x with snap := none, waitsFor := none })

/-! ## statements -/

/-- result of attempting a statement -/
inductive Att
  | blocked (holder : Sid)
  | done (w : World) (o : Out)
  /-- the statement failed (unique violation): the world is the one BEFORE the statement except
      for sequences; the transaction is then aborted by `step` -/
  | failed (w : World) (e : Err)

def holder? (adv : List Adv) (key : Nat) (s : Sid) : Option Sid :=
  (adv.find? (fun a => a.key = key && a.sid ≠ s)).map (·.sid)

def holds (adv : List Adv) (s : Sid) (key : Nat) : Bool :=
  adv.any (fun a => a.key = key && a.sid = s)

def firstSome {α β : Type} (f : α → Option β) : List α → Option β
  | [] => none
  | a :: as => match f a with | some b => some b | none => firstSome f as

def maxId (ids : List Nat) : Nat := ids.foldl max 0

def visLog (s : Sid) (e : Lg) : Bool := e.com || e.by_ = s
def visTx (s : Sid) (t : Tx) : Bool := t.com || t.by_ = s

/-- the blocks `create_blocks` appends: logs `ids` (committed, ascending) above `last`, `size` per block -/
def mkBlocks (l size : Nat) : Nat → Nat → List Nat → List Blk
  | 0, _, _ => []
  | fuel + 1, last, ids =>
    let batch := (ids.filter (· > last)).take size
    match batch.getLast? with
    | none => []
    | some top => { l := l, from_ := last, to := top, ids := batch } :: mkBlocks l size fuel top ids

def insertSorted (n : Nat) : List Nat → List Nat
  | [] => [n]
  | m :: ms => if n ≤ m then n :: m :: ms else m :: insertSorted n ms

def sortNat (xs : List Nat) : List Nat := xs.foldr insertSorted []

/-- the snapshot of a `getBalances` statement: the pairs visible when it was FIRST issued -/
def snapOf (w : World) (s : Sid) (ps : List Nat) : List Nat :=
  match (w.sess s).snap with
  | some v => v
  | none => ps.filter (fun p => (w.vols p).visible s)

/-- the `SELECT … FOR UPDATE` of `getBalances` returns (and locks) a pair iff its snapshot sees it -/
def sees (w : World) (vis : List Nat) (p : Nat) : Bool := vis.contains p && (w.vols p).latest.isSome

/-- `GetBalances` of session `s` for the pairs `ps` under the statement snapshot `vis` -/
def getBal (w : World) (s : Sid) (ps vis : List Nat) : Att :=
  -- `ins`: a zero row per pair; the conflict check waits for another session's in-progress insert of
  -- the same key, and for an in-progress update of the conflicting row (its old version is being
  -- replaced); a mere row lock does not make it wait
  match firstSome (fun p => let r := w.vols p; if r.pen.isSome then r.heldByOther s else none) ps with
  | some t => .blocked t
  | none =>
  -- `SELECT … FOR UPDATE` over the rows the snapshot sees; waits for their in-progress owners
  match firstSome (fun p => if sees w vis p then (w.vols p).heldByOther s else none) ps with
  | some t => .blocked t
  | none =>
    let val := fun p => if sees w vis p then ((w.vols p).latest).getD 0 else 0
    .done { w with
      vols := fun k =>
        let r := w.vols k
        if ps.contains k then
          if r.com.isNone && r.own.isNone then { com := none, own := some s, pen := some 0 }
          else if sees w vis k then { r with own := some s }
          else r
        else r
      reads := fun t k => if t = s && ps.contains k && sees w vis k then some (val k) else w.reads t k
      spent := fun t k => if t = s && ps.contains k && sees w vis k then 0 else w.spent t k }
      { vals := ps.map val }

/-- `UpdateVolumes` of session `s` -/
def updVol (w : World) (s : Sid) (ds : List (Nat × Int)) : Att :=
  match firstSome (fun (d : Nat × Int) => (w.vols d.1).heldByOther s) ds with
  | some t => .blocked t
  | none =>
    let delta := fun k => (ds.filter (·.1 = k)).foldl (fun a d => a + d.2) (0 : Int)
    let touched := fun k => ds.any (·.1 = k)
    .done { w with
      vols := fun k =>
        let r := w.vols k
        if touched k then { r with own := some s, pen := some ((r.latest).getD 0 + delta k) } else r
      spent := fun t k => if t = s && touched k then w.spent t k + delta k else w.spent t k } {}

/-- `InsertTransaction` of session `s`; `id = none`: the id is `nextval(transaction_id_l)` -/
def insTx (w : World) (s : Sid) (l ref : Nat) (id : Option Nat) : Att :=
  let nid := id.getD (w.txSeq l + 1)
  -- sequences are not transactional: the value is consumed even when the statement fails
  let seq' : Nat → Nat := fun l' => if l' = l && id.isNone then w.txSeq l + 1 else w.txSeq l'
  match w.txs.find? (fun t => t.l = l && t.id = nid) with
  | some t => if !t.com && t.by_ ≠ s then .blocked t.by_ else .failed { w with txSeq := seq' } .uniqueTxId
  | none =>
  match (if ref = 0 then none else w.txs.find? (fun t => t.l = l && t.ref = ref)) with
  | some t => if !t.com && t.by_ ≠ s then .blocked t.by_ else .failed { w with txSeq := seq' } .uniqueRef
  | none =>
    .done { w with
      txSeq := seq'
      txs := w.txs ++ [{ l := l, id := nid, ref := ref, by_ := s, com := false }]
      rev := fun l' t' => if l' = l && t' = nid then { com := none, own := some s, pen := some false } else w.rev l' t' }
      { vals := [nid] }

/-- the INSERT of `InsertLog`; `sync`: the `set_log_hash` trigger is installed -/
def insLog (w : World) (s : Sid) (l ik hash : Nat) (sync : Bool) (id : Option Nat) (tx : Nat) : Att :=
  let nid := id.getD (w.logSeq l + 1)
  let seq' : Nat → Nat := fun l' => if l' = l && id.isNone then w.logSeq l + 1 else w.logSeq l'
  match w.logs.find? (fun e => e.l = l && e.id = nid) with
  | some e => if !e.com && e.by_ ≠ s then .blocked e.by_ else .failed { w with logSeq := seq' } .uniqueLogId
  | none =>
  match (if ik = 0 then none else w.logs.find? (fun e => e.l = l && e.ik = ik)) with
  | some e => if !e.com && e.by_ ≠ s then .blocked e.by_ else .failed { w with logSeq := seq' } .uniqueIK
  | none =>
    -- BEFORE INSERT trigger set_log_hash: the last log this statement can see
    let prev := if sync then maxId ((w.logs.filter (fun e => e.l = l && visLog s e)).map (·.id)) else 0
    .done { w with
      logSeq := seq'
      logs := w.logs ++ [{ l := l, id := nid, ik := ik, hash := hash, prev := prev, tx := tx, by_ := s, com := false }] }
      { vals := [nid] }

inductive AccV
  | wait (t : Sid)
  | dup

/-- what the plain INSERT of `UpsertAccounts` meets for the accounts its snapshot did not see:
    a committed row (inserted by a transaction that committed in between) → unique violation;
    another session's in-progress insert → wait -/
def accVerdict (w : World) (s : Sid) (vis : List Nat) : List Nat → Option AccV
  | [] => none
  | a :: r =>
    if vis.contains a then accVerdict w s vis r
    else if (w.accts a).com.isSome then some .dup
    else match (w.accts a).heldByOther s with
      | some t => some (.wait t)
      | none => accVerdict w s vis r

/-- The effect of one statement of session `s` (not transaction control, which `step` handles). -/
def exec (w : World) (s : Sid) : Stmt → Att
  | .begin | .commit | .rollback | .savepoint | .release | .rollbackTo => .done w {}
  | .lockLedgerX l =>
    match holder? w.adv (ledgerKey l) s with
    | some t => .blocked t
    | none => .done { w with adv := w.adv ++ [{ key := ledgerKey l, sid := s, xact := true }] } {}
  | .lockLedgerS l =>
    match holder? w.adv (ledgerKey l) s with
    | some t => .blocked t
    | none => .done { w with adv := w.adv ++ [{ key := ledgerKey l, sid := s, xact := false }] } {}
  | .unlockLedgerS l =>
    .done ({ w with adv := w.adv.filter (fun a => !(a.key = ledgerKey l && a.sid = s && !a.xact)) }.clearWaiters s) {}
  | .advLockLog l =>
    match holder? w.adv (logKey l) s with
    | some t => .blocked t
    | none => .done { w with adv := w.adv ++ [{ key := logKey l, sid := s, xact := true }] } {}
  | .updateState l =>
    let r := w.state l
    if r.com = some true then .done w { flag := false }
    else match r.heldByOther s with
      | some t => .blocked t
      | none =>
        if r.latest = some false then
          .done { w with state := fun l' => if l' = l then { r with own := some s, pen := some true } else w.state l' } { flag := true }
        else .done w { flag := false }
  | .setval l =>
    let tids := (w.txs.filter (fun t => t.l = l && visTx s t)).map (·.id)
    let lids := (w.logs.filter (fun e => e.l = l && visLog s e)).map (·.id)
    .done { w with
      txSeq := fun l' => if l' = l && !tids.isEmpty then maxId tids else w.txSeq l'
      logSeq := fun l' => if l' = l && !lids.isEmpty then maxId lids else w.logSeq l' } {}
  | .readState l =>
    let r := w.state l
    let v := if r.own = some s then r.latest else r.com
    .done w { flag := v != some true }
  | .readIK l ik =>
    match w.logs.find? (fun e => e.l = l && e.ik = ik && visLog s e) with
    | some e => .done w { flag := true, vals := [e.id, e.hash, e.tx] }
    | none => .done w { flag := false }
  | .readLastLog l =>
    .done w { vals := [maxId ((w.logs.filter (fun e => e.l = l && visLog s e)).map (·.id))] }
  | .getBalances ps => getBal w s ps (snapOf w s ps)
  | .updateVolumes ds => updVol w s ds
  | .upsertAccounts as =>
    -- the statement's snapshot (taken when it was first issued): the accounts it sees exist
    let vis := match (w.sess s).snap with
      | some v => v
      | none => as.filter (fun a => (w.accts a).visible s)
    match accVerdict w s vis as with
    | some (.wait t) => .blocked t
    | some .dup => .failed w .uniqueAcct
    | none =>
      .done { w with accts := fun a =>
        if as.contains a && !vis.contains a then { com := none, own := some s, pen := some () } else w.accts a } {}
  | .insertTx l ref id => insTx w s l ref id
  | .insertLog l ik hash sync id tx => insLog w s l ik hash sync id tx
  | .revertUpdate l tx guarded =>
    if !(w.txs.any (fun t => t.l = l && t.id = tx && visTx s t)) then .done w { flag := false, vals := [0] }
    else
      let r := w.rev l tx
      -- rows are chosen from the snapshot: an already-reverted committed version is not a target
      if guarded && r.com = some true then .done w { flag := false, vals := [1] }
      else match r.heldByOther s with
        | some t => .blocked t
        | none =>
          -- EvalPlanQual: the WHERE clause is re-evaluated on the latest version
          if !guarded || r.latest = some false then
            .done { w with
              rev := fun l' t' => if l' = l && t' = tx then { r with own := some s, pen := some true } else w.rev l' t'
              revWins := w.revWins ++ [{ l := l, tx := tx, by_ := s, com := false }] }
              { flag := true, vals := [1] }
          else .done w { flag := false, vals := [1] }
  | .createBlocks l size =>
    let ids := sortNat ((w.logs.filter (fun e => e.l = l && e.com)).map (·.id))
    let last := maxId ((w.blocks.filter (·.l = l)).map (·.to))
    .done { w with blocks := w.blocks ++ mkBlocks l size (ids.length + 1) last ids } {}

/-- does following the wait-for edges from `from_` reach `target`? -/
def waitCycle (w : World) (target : Sid) : Nat → Option Sid → Bool
  | 0, _ => false
  | _, none => false
  | fuel + 1, some t => if t = target then true else waitCycle w target fuel (w.sess t).waitsFor

def cycleFuel : Nat := 8

/-- what happened in a step (for the correspondence driver) -/
inductive StepRes
  | idle | ok | blocked | error (e : Err)
  deriving DecidableEq, Repr

def advance (w : World) (s : Sid) (k : Out → Prog) (o : Out) : World :=
  w.setSess s (fun x => { x with prog := k o, snap := none, waitsFor := none })

/-- Session `s` attempts its next statement. -/
def stepR (w : World) (s : Sid) : World × StepRes :=
  let x := w.sess s
  match x.prog with
  | .done _ => (w, .idle)
  | .stmt st k =>
    match st with
    | .begin => (advance (w.setSess s (fun x => { x with inTx := true })) s k {}, .ok)
    | .commit =>
      if !x.inTx then (advance w s k {}, .ok)
      else if x.aborted then (advance (w.rollbackTx s) s k {}, .ok)
      else (advance (w.commitTx s) s k {}, .ok)
    | .rollback => (advance (w.rollbackTx s) s k {}, .ok)
    | .savepoint =>
      if x.aborted then (advance w s k { err := some .aborted }, .error .aborted)
      else (advance (w.setSess s (fun x => { x with sp := x.sp + 1 })) s k {}, .ok)
    | .release =>
      if x.aborted then (advance w s k { err := some .aborted }, .error .aborted)
      else if x.sp = 0 then (advance (w.failTx s) s k { err := some .noSavepoint }, .error .noSavepoint)
      else (advance (w.setSess s (fun x => { x with sp := x.sp - 1 })) s k {}, .ok)
    | .rollbackTo =>
      if x.sp = 0 then (advance (w.failTx s) s k { err := some .noSavepoint }, .error .noSavepoint)
      else (advance (w.setSess s (fun x => { x with aborted := false })) s k {}, .ok)
    | st =>
      if x.aborted then (advance w s k { err := some .aborted }, .error .aborted)
      else match exec w s st with
        | .done w' o => (advance w' s k o, .ok)
        | .failed w' e => (advance (w'.failTx s) s k { err := some e }, .error e)
        | .blocked t =>
          if waitCycle w s cycleFuel (some t) then
            (advance (w.failTx s) s k { err := some .deadlock }, .error .deadlock)
          else
            let snap := match st, x.snap with
              | .getBalances ps, none => some (snapOf w s ps)
              | .upsertAccounts as, none => some (as.filter (fun a => (w.accts a).visible s))
              | _, sn => sn
            (w.setSess s (fun x => { x with snap := snap, waitsFor := some t }), .blocked)

def step (w : World) (s : Sid) : World := (stepR w s).1

abbrev Schedule := List Sid

/-- total: a blocked (or finished) session's turn is a stutter step -/
def run : Schedule → World → World
  | [], w => w
  | s :: σ, w => run σ (step w s)

/-- the same, collecting what happened at every step -/
def runR : Schedule → World → World × List StepRes
  | [], w => (w, [])
  | s :: σ, w =>
    let (w1, r) := stepR w s
    let (w2, rs) := runR σ w1
    (w2, r :: rs)

theorem runR_fst (σ : Schedule) (w : World) : (runR σ w).1 = run σ w := by
  induction σ generalizing w with
  | nil => rfl
  | cons s σ ih => simp [runR, run, step, ih]

theorem run_append (σ τ : Schedule) (w : World) : run (σ ++ τ) w = run τ (run σ w) := by
  induction σ generalizing w with
  | nil => rfl
  | cons s σ ih => simp [run, ih]

/-- response of a finished session -/
def World.resp (w : World) (s : Sid) : Option Resp :=
  match (w.sess s).prog with
  | .done r => some r
  | .stmt _ _ => none

end Ledger.Sched
