import Ledger.Sched.Model
import Ledger.Sched.Kinds

/-!
# The writers' programs (core-only)

Coroutines for the requests the W-sched workloads issue, following
`internal/controller/ledger/log_process.go` (`forgeLog` / `runLog` /
`forgeLogRetry` / `runTx` / `fetchLogWithIK`), `controller_default.go`
(`createTransaction`, `revertTransaction`, `Import` / `importLog`),
`internal/controller/system/state_tracker.go` (`handleState`, `Import`,
`withLock`) and `internal/storage/worker_async_block.go`. Statements that the
model does not track (schema reads, `insertMoves`, `upsertAccounts`, …) are not
part of the programs; the statement sequences of the success paths are compared
with `Ledger.Generated.Handles` (projected on the modelled kinds).
-/
namespace Ledger.Sched

/-- which statements open / close the SQL transaction of a `forgeLog`: a real
    transaction on a `*bun.DB`, a savepoint on a `bun.Tx` (nested BeginTX) -/
structure TxOps where
  begin_ : Stmt
  commit_ : Stmt
  rollback_ : Stmt

def topTx : TxOps := ⟨.begin, .commit, .rollback⟩
def nestedTx : TxOps := ⟨.savepoint, .release, .rollbackTo⟩

inductive Allow
  | bounded (x : Nat)
  | unbounded
  deriving DecidableEq, Repr

/-- one more `send` statement of the same script -/
structure Leg where
  src : Nat
  dst : Nat
  amt : Nat
  allow : Allow
  deriving Repr

/-- `send [asset amt] (source = @src [allowing …] destination = @dst)` / a forced posting
    (plus, optionally, further `send` statements of the same script: `legs`) -/
structure Send where
  l : Nat
  /-- HASH_LOGS = SYNC -/
  sync : Bool
  /-- pair ids of (src, asset) and (dst, asset) -/
  src : Nat
  dst : Nat
  /-- `src` sorts before `dst` by (account, asset) (order of the rows in UpdateVolumes) -/
  srcFirst : Bool := true
  amt : Nat
  /-- `world`, `allowing unbounded overdraft` and forced postings read no balance -/
  allow : Allow
  ik : Nat := 0
  hash : Nat := 0
  ref : Nat := 0
  /-- ids of the accounts the transaction involves (sorted by address), for `UpsertAccounts` -/
  accts : List Nat := []
  /-- further `send` statements of the script, in order -/
  legs : List Leg := []
  /-- the pairs `GetBalances` asks for (distinct bounded sources, sorted); `[]` = the single leg's source -/
  readPairs : List Nat := []
  /-- the rows of `UpdateVolumes` (aggregated per pair, sorted); `[]` = the single leg's two rows -/
  dsAll : List (Nat × Int) := []
  deriving Repr

def adjust (bal : List (Nat × Int)) (p : Nat) (d : Int) : List (Nat × Int) :=
  bal.map (fun (k, v) => if k = p then (k, v + d) else (k, v))

/-- the machine's funds check, statement by statement on the balances it tracks (those it read):
    a bounded source must cover the amount with its allowance (a zero amount is never refused);
    every posting then moves the tracked balances -/
def fundsOk : List (Nat × Int) → List Leg → Bool
  | _, [] => true
  | bal, g :: r =>
    (match g.allow with
     | .unbounded => true
     | .bounded x => g.amt = 0 || ((bal.lookup g.src).getD 0) + (x : Int) ≥ (g.amt : Int)) &&
    fundsOk (adjust (adjust bal g.src (- (g.amt : Int))) g.dst (g.amt : Int)) r

structure Revert where
  l : Nat
  sync : Bool
  tx : Nat
  /-- the reverted transaction's posting: `amt` from pair `src` to pair `dst` -/
  src : Nat
  dst : Nat
  srcFirst : Bool := true
  amt : Nat
  /-- the destination is `world` (never refused) -/
  dstWorld : Bool := false
  force : Bool := false
  guarded : Bool := true
  ik : Nat := 0
  hash : Nat := 0
  deriving Repr

/-- error enum of the harness for a failed statement -/
def errName : Err → String
  | .uniqueRef => "reference-conflict"
  | .uniqueIK => "ik-conflict"
  | .uniqueTxId => "concurrent-transaction"
  | .uniqueLogId => "other"
  | .deadlock => "deadlock"
  | .aborted => "other"
  | .noSavepoint => "other"
  | .uniqueAcct => "pg:23505"

/-- `forgeLog` retries on a deadlock or an idempotency-key conflict -/
def retryable : Err → Bool
  | .deadlock | .uniqueIK => true
  | _ => false

def headNat (o : Out) : Nat := (o.vals.headD 0).toNat

/-- continue with `k` unless the statement failed -/
def guardErr (o : Out) (onE : Err → Prog) (k : Prog) : Prog :=
  match o.err with
  | some e => onE e
  | none => k

/-- the rows of `UpdateVolumes` -/
def Send.ds (q : Send) : List (Nat × Int) :=
  if !q.dsAll.isEmpty then q.dsAll
  else if q.src = q.dst then [(q.src, 0)]
  else if q.srcFirst then [(q.src, - (q.amt : Int)), (q.dst, (q.amt : Int))]
  else [(q.dst, (q.amt : Int)), (q.src, - (q.amt : Int))]

/-- the pairs `GetBalances` asks for -/
def Send.reads (q : Send) : List Nat :=
  if !q.readPairs.isEmpty then q.readPairs
  else match q.allow with | .bounded _ => [q.src] | .unbounded => []

/-- `runLog` + the operation for a send. `fail e` = what to do when a statement
    failed with `e` (the caller rolls back and decides), `refuse r` = business
    refusal, `succ tx log` = the log is inserted. -/
def sendBody (q : Send) (fail : Err → Prog) (refuse : String → Prog) (succ : Nat → Nat → Prog) : Prog :=
  let onErr (o : Out) (k : Prog) : Prog := match o.err with | some e => fail e | none => k
  let write : Prog :=
    .stmt (.updateVolumes q.ds) fun o => onErr o <|
    .stmt (.insertTx q.l q.ref none) fun o => onErr o <|
      let tx := headNat o
      let ins : Prog := .stmt (.insertLog q.l q.ik q.hash q.sync none tx) fun o' => onErr o' (succ tx (headNat o'))
      .stmt (.upsertAccounts q.accts) fun oa => onErr oa <|
      if q.sync then .stmt (.advLockLog q.l) fun o' => onErr o' ins else ins
  if q.reads.isEmpty then write
  else
    .stmt (.getBalances q.reads) fun o => onErr o <|
      if fundsOk (q.reads.zip o.vals) ({ src := q.src, dst := q.dst, amt := q.amt, allow := q.allow } :: q.legs)
      then write else refuse "insufficient-funds"

/-- `runLog` + `revertTransaction` -/
def revertBody (q : Revert) (fail : Err → Prog) (refuse : String → Prog) (succ : Nat → Nat → Prog) : Prog :=
  let onErr (o : Out) (k : Prog) : Prog := match o.err with | some e => fail e | none => k
  let ds : List (Nat × Int) :=
    -- the reverse posting: from dst back to src
    if q.srcFirst then [(q.src, (q.amt : Int)), (q.dst, - (q.amt : Int))]
    else [(q.dst, - (q.amt : Int)), (q.src, (q.amt : Int))]
  .stmt (.revertUpdate q.l q.tx q.guarded) fun o => onErr o <|
    if o.vals.headD 0 = 0 then refuse "not-found"
    else if !o.flag then refuse "already-reverted"
    else
      .stmt (.getBalances [q.dst]) fun ob => onErr ob <|
        if !q.force && !q.dstWorld && (ob.vals.headD 0) - (q.amt : Int) < 0 then refuse "insufficient-funds"
        else
          .stmt (.updateVolumes ds) fun o => onErr o <|
          .stmt (.insertTx q.l 0 none) fun o => onErr o <|
            let tx := headNat o
            let ins : Prog := .stmt (.insertLog q.l q.ik q.hash q.sync none tx) fun o' => onErr o' (succ tx (headNat o'))
            if q.sync then .stmt (.advLockLog q.l) fun o' => onErr o' ins else ins

/-- an operation body, abstracted over the three continuations -/
abbrev Body := (Err → Prog) → (String → Prog) → (Nat → Nat → Prog) → Prog

/-- `fetchLogWithIK`: the answer to a request whose key is already recorded -/
def ikAnswer (hash : Nat) (o : Out) : Resp :=
  match o.vals with
  | [id, h, tx] => if h.toNat = hash then { tx := tx.toNat, log := id.toNat, hit := true } else { err := "invalid-idempotency-input" }
  | _ => { err := "other" }

/-- `recordedOutcome` (since /repo 0fbf80e): an attempt carrying an idempotency key that failed for a
    non-retryable reason looks the key up once more; a recorded log is answered as an idempotency hit
    (or the input mismatch), otherwise the attempt's own error stands. `recheck = false` is the code
    before that repair. -/
def recordedOutcome (recheck : Bool) (l ik hash : Nat) (fin : Resp → Prog) (own : Resp) : Prog :=
  if !recheck || ik = 0 then fin own
  else .stmt (.readIK l ik) fun o => if o.flag then fin (ikAnswer hash o) else fin own

/-- `forgeLogRetry`: `runTx` in a loop (bounded by `fuel`; the real loop is unbounded) -/
def forgeLogRetry (recheck : Bool) (ops : TxOps) (l ik hash : Nat) (body : Body) (fin : Resp → Prog) : Nat → Prog
  | 0 => fin { err := "retry-budget" }
  | fuel + 1 =>
    .stmt ops.begin_ fun _ =>
      body
        (fun e =>
          -- a collision on (ledger, id) with an id from `nextval`: `NewErrConcurrentTransaction(*tx.ID)`
          -- dereferences the nil id — the request panics (nothing of forgeLog runs any more)
          if e = .uniqueTxId then fin { err := "panic" } else
          .stmt ops.rollback_ fun _ =>
          match e with
          | .deadlock => forgeLogRetry recheck ops l ik hash body fin fuel
          | .uniqueIK =>
            -- "A log with the IK could have been inserted in the meantime": read it on the parent store
            .stmt (.readIK l ik) fun o => if o.flag then fin (ikAnswer hash o) else fin { err := "panic" }
          | e => recordedOutcome recheck l ik hash fin { err := errName e })
        (fun r => .stmt ops.rollback_ fun _ => recordedOutcome recheck l ik hash fin { err := r })
        (fun tx log => .stmt ops.commit_ fun _ => fin { tx := tx, log := log })

def retryFuel : Nat := 4

/-- `forgeLog` -/
def forgeLogG (recheck : Bool) (ops : TxOps) (l ik hash : Nat) (body : Body) (fin : Resp → Prog) : Prog :=
  let run : Prog :=
    body
      (fun e =>
        if e = .uniqueTxId then fin { err := "panic" } else
        .stmt ops.rollback_ fun _ =>
        if retryable e then forgeLogRetry recheck ops l ik hash body fin retryFuel
        else recordedOutcome recheck l ik hash fin { err := errName e })
      (fun r => .stmt ops.rollback_ fun _ => recordedOutcome recheck l ik hash fin { err := r })
      (fun tx log => .stmt ops.commit_ fun _ => fin { tx := tx, log := log })
  .stmt ops.begin_ fun _ =>
    if ik = 0 then run
    else .stmt (.readIK l ik) fun o =>
      if o.flag then .stmt ops.rollback_ fun _ => fin (ikAnswer hash o) else run

/-- the code as it is now -/
def forgeLog := forgeLogG true

/-- `controllerFacade.handleState`: `inUse` is the ledger state the facade cached when the
    controller was obtained. `inner ops fin` is the wrapped operation. -/
def handleState (l : Nat) (inUse : Bool) (inner : TxOps → (Resp → Prog) → Prog) : Prog :=
  if inUse then inner topTx .done
  else
    let bail (e : Err) : Prog := .stmt .rollback fun _ => .done { err := errName e }
    .stmt .begin fun _ =>
    .stmt (.lockLedgerX l) fun o => guardErr o bail <|
    .stmt (.updateState l) fun o => guardErr o bail <|
      let rest : Prog := inner nestedTx fun r =>
        if r.err = "" then .stmt .commit fun _ => .done r else .stmt .rollback fun _ => .done r
      if o.flag then .stmt (.setval l) fun _ => .stmt (.setval l) fun _ => rest else rest

def sendProg (q : Send) (inUse : Bool) : Prog :=
  handleState q.l inUse fun ops fin => forgeLog ops q.l q.ik q.hash (sendBody q) fin

def revertProg (q : Revert) (inUse : Bool) : Prog :=
  handleState q.l inUse fun ops fin => forgeLog ops q.l q.ik q.hash (revertBody q) fin

/-- `handleState` of a facade around a TRANSACTIONAL controller (`controllerFacade.BeginTX`): the
    nested BeginTX is a savepoint, LockLedger on the transaction a transaction-scoped advisory lock.
    (Since /repo ed13690 the deferred `ctrl.Rollback` is skipped once the inner transaction ended;
    before, it sent ROLLBACK TO SAVEPOINT for the released savepoint: 3B001, which aborts the block.) -/
def handleStateNested (l : Nat) (inUse : Bool) (inner : TxOps → (Resp → Prog) → Prog) (fin : Resp → Prog) : Prog :=
  if inUse then inner nestedTx fin
  else
    let bail (e : Err) : Prog := .stmt .rollbackTo fun _ => fin { err := errName e }
    .stmt .savepoint fun _ =>
    .stmt (.lockLedgerX l) fun o => guardErr o bail <|
    .stmt (.updateState l) fun o => guardErr o bail <|
      let rest : Prog := inner nestedTx fun r =>
        if r.err = "" then .stmt .release fun _ => fin r
        else .stmt .rollbackTo fun _ => fin r
      if o.flag then .stmt (.setval l) fun _ => .stmt (.setval l) fun _ => rest else rest

/-- atomic bulk (`Bulker.Run` with `atomic`): `Controller.BeginTX` on the state tracker facade, then
    every element through the transactional facade (the first successful one moves its cached state
    to in-use); stops at the first failure -/
def bulkGo : Bool → List Resp → List Send → Prog
  | _, rs, [] => .stmt .commit fun _ => .done { tx := (rs.head?.map (·.tx)).getD 0, log := (rs.head?.map (·.log)).getD 0 }
  | inUse, rs, q :: qs =>
    handleStateNested q.l inUse (fun ops fin => forgeLog ops q.l q.ik q.hash (sendBody q) fin) fun r =>
      if r.err = "" then bulkGo true (r :: rs) qs else .stmt .rollback fun _ => .done { err := "bulk-element-failed" }

def bulkProg (inUse : Bool) (elems : List Send) : Prog :=
  .stmt .begin fun _ => bulkGo inUse [] elems

/-- one log of an import stream (only NEW_TRANSACTION logs are generated) -/
structure ImpLog where
  id : Nat
  tx : Nat
  ref : Nat
  ik : Nat
  hash : Nat
  ds : List (Nat × Int)
  accts : List Nat := []
  deriving Repr

/-- release the session lock and answer -/
def impUnlock (l : Nat) (r : Resp) : Prog := .stmt (.unlockLedgerS l) fun _ => .done r

/-- a failed statement of an import transaction: roll back, unlock, answer -/
def impFail (l : Nat) (e : Err) : Prog :=
  .stmt .rollback fun _ => impUnlock l { err := if e = .uniqueTxId then "import" else errName e }

/-- a statement of an import transaction followed by `next` unless it failed -/
def impStep (l : Nat) (st : Stmt) (next : Out → Prog) : Prog :=
  .stmt st fun o => match o.err with
    | some e => impFail l e
    | none => next o

/-- `DefaultController.Import`'s loop: one SQL transaction per log -/
def impLoop (l : Nat) (sync : Bool) : Nat → List ImpLog → Prog
  | _, [] => impUnlock l {}
  | last, g :: gs =>
    if last ≠ 0 && g.id ≤ last then impUnlock l { err := "import" }
    else
      .stmt .begin fun _ =>
      impStep l (.updateVolumes g.ds) fun _ =>
      impStep l (.insertTx l g.ref (some g.tx)) fun _ =>
      impStep l (.upsertAccounts g.accts) fun _ =>
        let ins : Prog := impStep l (.insertLog l g.ik g.hash sync (some g.id) g.tx) fun _ =>
          .stmt .commit fun _ => impLoop l sync g.id gs
        if sync then impStep l (.advLockLog l) fun _ => ins else ins

/-- `controllerFacade.Import` ∘ `DefaultController.Import`: session-level ledger lock, state check,
    last-log check, then one SQL transaction per log -/
def importProg (l : Nat) (sync : Bool) (logs : List ImpLog) : Prog :=
  .stmt (.lockLedgerS l) fun o => guardErr o (fun e => .done { err := errName e }) <|
    .stmt (.readState l) fun o =>
      if !o.flag then impUnlock l { err := "import" }
      else .stmt (.readLastLog l) fun o => impLoop l sync (headNat o) logs

/-- `AsyncBlockRunner.processLedger` -/
def blocksProg (l size : Nat) : Prog :=
  .stmt (.createBlocks l size) fun _ => .done {}

/-- the statement kinds along the path a program takes when every statement succeeds with
    the given answers (used to compare the programs with `Ledger.Generated.Handles`) -/
def Stmt.kind : Stmt → String
  | .begin => "begin" | .commit => "commit" | .rollback => "rollback"
  | .savepoint => "savepoint" | .release => "release" | .rollbackTo => "rollbackTo"
  | .lockLedgerX _ => "lockLedgerX" | .lockLedgerS _ => "lockLedgerS" | .unlockLedgerS _ => "unlockLedgerS"
  | .updateState _ => "updateState" | .setval _ => "setval" | .readState _ => "readState"
  | .readIK _ _ => "readIK" | .readLastLog _ => "readLastLog"
  | .getBalances _ => "getBalances" | .updateVolumes _ => "updateVolumes" | .insertTx _ _ _ => "insertTx"
  | .upsertAccounts _ => "upsertAccounts"
  | .advLockLog _ => "advLockLog" | .insertLog _ _ _ _ _ _ => "insertLog"
  | .revertUpdate _ _ g => if g then "revertUpdate" else "revertUpdateUnguarded"
  | .createBlocks _ _ => "createBlocks"

/-- the statement a program issues next -/
def Prog.next : Prog → Option Stmt
  | .done _ => none
  | .stmt s _ => some s

/-- the program after its next statement answered `o` -/
def Prog.cont : Prog → Out → Prog
  | .done r, _ => .done r
  | .stmt _ k, o => k o

def Stmt.kindK : Stmt → Kind
  | .begin => .begin | .commit => .commit | .rollback => .rollback
  | .savepoint => .savepoint | .release => .release | .rollbackTo => .rollbackTo
  | .lockLedgerX _ => .lockLedgerX | .lockLedgerS _ => .lockLedgerS | .unlockLedgerS _ => .unlockLedgerS
  | .updateState _ => .updateState | .setval _ => .setval | .readState _ => .readState
  | .readIK _ _ => .readIK | .readLastLog _ => .readLastLog
  | .getBalances _ => .getBalances | .updateVolumes _ => .updateVolumes | .insertTx _ _ _ => .insertTx
  | .upsertAccounts _ => .upsertAccounts
  | .advLockLog _ => .advLockLog | .insertLog _ _ _ _ _ _ => .insertLog
  | .revertUpdate _ _ g => if g then .revertUpdate else .revertUpdateUnguarded
  | .createBlocks _ _ => .createBlocks

/-- the statement kinds along the path the program takes under the answers `f` -/
def Prog.pathK (f : Stmt → Out) : Nat → Prog → List Kind
  | 0, _ => []
  | _, .done _ => []
  | fuel + 1, .stmt s k => s.kindK :: Prog.pathK f fuel (k (f s))

/-- the response the program ends with under the answers `f` -/
def Prog.answer (f : Stmt → Out) : Nat → Prog → Option Resp
  | 0, _ => none
  | _, .done r => some r
  | fuel + 1, .stmt s k => Prog.answer f fuel (k (f s))

/-- unfold a program along the answers `f` gives (at most `fuel` statements) -/
def Prog.path (f : Stmt → Out) : Nat → Prog → List String
  | 0, _ => []
  | _, .done _ => []
  | fuel + 1, .stmt s k => s.kind :: Prog.path f fuel (k (f s))

end Ledger.Sched
