def hello := "world"
