import Ledger.Proofs.SqlTxMeta
import Ledger.Proofs.SqlCommit

/-!
# `InsertTransaction` with TRANSACTION_METADATA_HISTORY = SYNC

The statement of `SqlTxInsert.lean` on a `transactions` table that carries, for the ledger, the AFTER INSERT ROW trigger
`insert_transaction_metadata_history` (other ledgers' triggers are skipped by their WHEN clause): the row is inserted, the trigger is
queued, and drained at the end of the statement as a nested command that appends the first revision of the transaction's metadata to
`transactions_metadata`.
-/
open Ledger Ledger.Sql Ledger.Generated Ledger.Core
namespace Ledger.Sql

/-- the hypotheses on the state in which `InsertTransaction` runs, metadata history on -/
structure TxInsStateH (s : St) (b ledger : String) (trigs : List TriggerDef) (nr : Nat) (rows : List Ver) (full : String) (sq : Seq)
    (A1 A2 : List TriggerDef) (trA : TriggerDef) (fA : PlFunc) (nrH : Nat) (rowsH : List Ver) (sqH : Seq) : Prop where
  tx : TxState s
  q0 : s.afterQ = []
  bne : b.isEmpty = false
  table : s.w.table? (txFull b) = some ((txT b trigs nr).withRows rows)
  inv : TxInv (latestView s.w s.xid) rows
  beforeTrigs : ∀ tr ∈ trigs, tr.timing = .before → tr.event = .insert → tr.when_ = some updatedAtIsNull
  seq : s.w.seqs.find? (·.name == full) = some sq
  idBound : ∀ r ∈ rows, r.visible (latestView s.w s.xid) = true → ∀ x', r.vals = txVals x' → x'.ledger = ledger → x'.id < sq.next
  /-- exactly one AFTER INSERT row trigger fires for the ledger: `insert_transaction_metadata_history` -/
  sortedA : sortTriggers (trigs.filter (fun x => x.timing == .after && x.event == .insert)) = A1 ++ trA :: A2
  othersA1 : ∀ x ∈ A1, OtherLedgerTrig ledger x
  othersA2 : ∀ x ∈ A2, OtherLedgerTrig ledger x
  evA : trA.event = .insert
  whenA : trA.when_ = some (ledgerIs ledger)
  schA : schemaOf trA.fname = b
  funA : s.w.funcs.lookup trA.fname = some fA
  declsA : fA.decls = []
  bodyA : fA.body = [PlStmt.exec tmInsertStmt [], PlStmt.ret (some (Expr.col "" "new"))]
  schH : schemaOf (tmFull b) = b
  hist : TmState s b nrH rowsH sqH
  seqNe : full ≠ tmSeqFull b
  cidLt : s.nextCid + 2 ≤ 1000000000

theorem tmFull_ne_txFull (b : String) : tmFull b ≠ txFull b := by
  intro h
  have := congrArg String.toList h
  simp [tmFull, txFull, String.toList_append] at this

/-- **`InsertTransaction`, metadata history on** -/
theorem exec_runStmt_insertTx_hist (k : Nat) (env : Env) (b ledger : String) (id : Nat) (L : TxLits) (trigs : List TriggerDef) (nr : Nat)
    (rows : List Ver) (full : String) (sq : Seq) (A1 A2 : List TriggerDef) (trA : TriggerDef) (fA : PlFunc) (nrH : Nat) (rowsH : List Ver)
    (sqH : Seq) (s : St) (hst : TxInsStateH s b ledger trigs nr rows full sq A1 A2 trA fA nrH rowsH sqH)
    (hl : SeqLit (txSeqLit b id) full) (x : TxR) (hlit : TxLit s.w.types ledger L x) (hid : x.id = sq.next)
    (hi1 : -9223372036854775808 ≤ x.id) (hi2 : x.id ≤ 9223372036854775807)
    (href : ∀ r ∈ rows, r.visible (latestView s.w s.xid) = true → ∀ x', r.vals = txVals x' → txConf2 x x' = false) :
    (runStmt (k + 12) env (insertTxStmt b ledger id L)).exec s =
      (.ok { rel := { cols := ["id", "timestamp", "inserted_at", "updated_at"],
                      rows := [[.int x.id, .ts x.timestamp, optTs x.insertedAt, .ts x.updatedAt]] }, affected := 1 },
       ((((s.withSeqs (seqsSet (tmSeqFull b) sqH.next (seqsSet full sq.next s.w.seqs))).bump 2).withTable
          ((txT b trigs (nr + 1)).withRows (newVer s.xid s.cid nr (txVals x) :: rows))).withTable
          ((tmT b (nrH + 1)).withRows (newVer s.xid s.nextCid nrH (tmVals (tmOf x sqH.next)) :: rowsH)))) := by
  rw [← hid]
  have hcl : ({ s with afterQ := [] } : St) = s := clearQ_of_empty s hst.q0
  have hq : (qualify b "transactions").exec s = (.ok (txFull b), s) := by simp [qualify, hst.bne, txFull]
  have hvals := exec_evalValuesRow_tx (k + 6) env b ledger id L full hl s sq hst.seq
  rw [← hid] at hvals
  have hT1 : (s.withSeqs (seqsSet full x.id s.w.seqs)).w.table? (txFull b) = some ((txT b trigs nr).withRows rows) := hst.table
  have hbuild := exec_buildRow_tx (k + 7) b ledger trigs nr rows L x (s.withSeqs (seqsSet full x.id s.w.seqs)) (by simpa using hlit)
  have hfire : (fireBefore (k + 8) ((txT b trigs nr).withRows rows) .insert [] (some (txVals x)) none).exec
      (s.withSeqs (seqsSet full x.id s.w.seqs)) = (.ok (some (txVals x)), s.withSeqs (seqsSet full x.id s.w.seqs)) := by
    apply exec_fireBefore_noneApply
    intro tr htr s'
    have hmem := List.mem_filter.mp (mem_sortTriggers htr)
    have hte : tr.timing = .before ∧ tr.event = .insert := by
      have := hmem.2
      simp only [Bool.and_eq_true, beq_iff_eq] at this
      exact this
    exact exec_triggerApplies_updNull (k + 6) _ tr (txVals x) s' x.updatedAt hte.2 (hst.beforeTrigs tr hmem.1 hte.1 hte.2) rfl
  have hconf := exec_findConflict_tx_none b trigs nr rows x none (s.withSeqs (seqsSet full x.id s.w.seqs)) hst.tx.solo hst.inv.typed
    (by
      intro r hr hv _ x' hx'
      refine ⟨?_, href r hr hv x' hx'⟩
      simp only [txConf1, Bool.and_eq_false_iff]
      by_cases hle : x'.ledger = x.ledger
      · right
        have := hst.idBound r hr hv x' hx' (by rw [hle, hlit.ledger])
        rw [← hid] at this
        have : x'.id ≠ x.id := by omega
        simpa using this
      · left; simpa using hle)
  have hins : (insertVersion (txFull b) (txVals x)).exec (s.withSeqs (seqsSet full x.id s.w.seqs)) =
      (.ok nr, (s.withSeqs (seqsSet full x.id s.w.seqs)).withTable ((txT b trigs (nr + 1)).withRows (newVer s.xid s.cid nr (txVals x) :: rows))) :=
    exec_insertVersion hT1 (txVals x)
  have hT2 : ((s.withSeqs (seqsSet full x.id s.w.seqs)).withTable ((txT b trigs (nr + 1)).withRows (newVer s.xid s.cid nr (txVals x) :: rows))).w.table?
      (txFull b) = some ((txT b trigs (nr + 1)).withRows (newVer s.xid s.cid nr (txVals x) :: rows)) :=
    withTable_table? _ ((txT b trigs nr).withRows rows) _ hT1
  have hTXt : ((txT b trigs (nr + 1)).withRows (newVer s.xid s.cid nr (txVals x) :: rows)).triggers = trigs := rfl
  have hTXn : ((txT b trigs (nr + 1)).withRows (newVer s.xid s.cid nr (txVals x) :: rows)).name = txFull b := rfl
  have hTXc : ((txT b trigs (nr + 1)).withRows (newVer s.xid s.cid nr (txVals x) :: rows)).colNames = txCols := rfl
  have hTXcols : ((txT b trigs (nr + 1)).withRows (newVer s.xid s.cid nr (txVals x) :: rows)).cols = Schema.tbl_transactions.cols := rfl
  have hacc : ∀ (acc : DmlAcc) (s' : St), (accReturning (k + 8) env ((txT b trigs (nr + 1)).withRows (newVer s.xid s.cid nr (txVals x) :: rows))
      "" (txVals x) [] txReturning acc).exec s' =
      (.ok { retCols := ["id", "timestamp", "inserted_at", "updated_at"],
             retRows := acc.retRows ++ [[.int x.id, .ts x.timestamp, optTs x.insertedAt, .ts x.updatedAt]], affected := acc.affected + 1 }, s') :=
    fun acc s' => exec_accReturning_txIns (k + 6) env b trigs (nr + 1) _ x acc s'
  have hS1q : (s.withSeqs (seqsSet full x.id s.w.seqs)).afterQ = [] := hst.q0
  have hS1tx : TxState (s.withSeqs (seqsSet full x.id s.w.seqs)) := hst.tx.withSeqs _
  have hS1tm : (s.withSeqs (seqsSet full x.id s.w.seqs)).w.table? (tmFull b) = some ((tmT b nrH).withRows rowsH) := hst.hist.table
  have hS1seq : (s.withSeqs (seqsSet full x.id s.w.seqs)).w.seqs.find? (·.name == tmSeqFull b) = some sqH := by
    show (seqsSet full x.id s.w.seqs).find? (·.name == tmSeqFull b) = some sqH
    rw [find_seqsSet_ne full (tmSeqFull b) x.id (fun e => hst.seqNe e.symm)]
    exact hst.hist.seq
  have hS1f : (s.withSeqs (seqsSet full x.id s.w.seqs)).w.funcs.lookup trA.fname = some fA := hst.funA
  have hS1c : (s.withSeqs (seqsSet full x.id s.w.seqs)).nextCid + 2 ≤ 1000000000 := hst.cidLt
  have hS1x : (s.withSeqs (seqsSet full x.id s.w.seqs)).xid = s.xid := rfl
  have hS1n : (s.withSeqs (seqsSet full x.id s.w.seqs)).nextCid = s.nextCid := rfl
  have hS1s : (s.withSeqs (seqsSet full x.id s.w.seqs)).w.seqs = seqsSet full x.id s.w.seqs := rfl
  generalize hS1 : s.withSeqs (seqsSet full x.id s.w.seqs) = S1 at hT1 hbuild hfire hconf hvals hins hT2 hS1q hS1tx hS1tm hS1seq hS1f hS1c hS1x hS1n hS1s
  generalize hTX : (txT b trigs (nr + 1)).withRows (newVer s.xid s.cid nr (txVals x) :: rows) = TX at hins hT2 hTXt hTXn hTXc hTXcols hacc
  have hqa := exec_queueAfter_one (k + 6) TX (txVals x) ledger (S1.withTable TX) A1 A2 trA (by rw [hTXt]; exact hst.sortedA)
    hst.othersA1 hst.othersA2 hst.evA hst.whenA (by rw [hTXc, ← hlit.ledger]; rfl)
  -- the drain
  have hX : (S1.withTable TX).afterQ = [] := hS1q
  have hsS : TxState (S1.withTable TX) := hS1tx.withTable _
  have hTm : TmState (S1.withTable TX) b nrH rowsH sqH := by
    refine ⟨?_, hS1seq, hst.hist.all, hst.hist.lo, hst.hist.hi⟩
    have := withTable_table?_ne S1 TX (tmFull b) (by rw [hTXn]; exact tmFull_ne_txFull b)
    rw [this]
    exact hS1tm
  have htrig := exec_runTrigger_insTxMeta k b trA.fname x fA hst.declsA hst.bodyA (S1.withTable TX) hsS
    hS1f hst.schA hst.schH hS1c TX hTXcols nrH rowsH sqH hTm hi1 hi2
  generalize hS3 : (((S1.withTable TX).withSeqs (seqsSet (tmSeqFull b) sqH.next (S1.withTable TX).w.seqs)).bump 2).withTable
    ((tmT b (nrH + 1)).withRows (newVer (S1.withTable TX).xid (S1.withTable TX).nextCid nrH (tmVals (tmOf x sqH.next)) :: rowsH)) = S3 at htrig
  have hX3 : S3.afterQ = [] := by rw [← hS3]; exact hX
  have hdrain := exec_drainAfter_queue (k + 9) (S1.withTable TX) S3 hX hX3
    [{ fname := trA.fname, table := TX.name, new := some (txVals x), old := none }] (by simp)
    (by
      simp only [exec_foldlM_cons, List.foldlM_nil, drainStep, exec_bind, hTXn, exec_getTable hT2, htrig, exec_pure])
  rw [runStmt]
  simp only [exec_bind, exec_get, exec_modify, exec_pure, hcl]
  rw [insertTxStmt, execStmt, evalCtes]
  · simp only [exec_bind, exec_pure]
    rw [execInsert]
    simp only [hst.bne, Bool.false_eq_true, if_false, exec_bind, hq, exec_getTable hst.table, exec_mapM_cons, List.mapM_nil, hvals,
      exec_pure, show txInsertCols.isEmpty = false from rfl, exec_foldlM_cons, List.foldlM_nil]
    rw [insertRowStep]
    have hfk : ∀ s', (checkForeignKeys ((txT b trigs nr).withRows rows) (txVals x)).exec s' = (.ok (), s') := by
      intro s'; simp [checkForeignKeys, txT, Table.withRows, Schema.tbl_transactions, checkForeignKeysOf]
    simp only [exec_bind, exec_getTable hT1, hbuild, hfire, exec_checkConstraints_tx, exec_pure, txT_uniques, hconf, hfk, hTX, hins,
      exec_getTable hT2, hqa, hacc]
    simp only [List.isEmpty_cons, Bool.false_and, Bool.false_eq_true, if_false, exec_pure, List.nil_append, Nat.zero_add, hdrain]
    have hfin : ({ S3 with afterQ := s.afterQ } : St) = S3 := by rw [hst.q0]; exact clearQ_of_empty S3 hX3
    rw [hfin, ← hS3]
    simp only [withTable_xid, withTable_nextCid, hS1x, hS1n, withTable_seqs, hS1s]
    rw [← hS1]
    rfl
  · intro h; omega

end Ledger.Sql
