import Ledger.Sql.Builtins

/-!
# Text ↔ value round trips used by the bridge lemmas

bun renders a `*big.Int` as a quoted decimal (`'100'`); LeanPG casts that text to
`numeric` with `parseIntText`. The parametrised statements of
`Ledger.Generated.WriteSql.P` render such a literal as `Expr.str (toString n)`;
`parseIntText_toString` closes the loop.
-/
namespace Ledger.Sql

theorem dropWhile_not_head {α : Type} (p : α → Bool) (x : α) (xs : List α) (h : p x = false) :
    (x :: xs).dropWhile p = x :: xs := by
  simp [h]

/-- trimming a list whose first and last characters are not white space -/
theorem trimChars_eq_self (cs : List Char) (x y : Char) (hx : cs.head? = some x) (hy : cs.getLast? = some y)
    (nx : isAsciiSpace x = false) (ny : isAsciiSpace y = false) : trimChars cs = cs := by
  unfold trimChars
  cases cs with
  | nil => simp at hx
  | cons c cs' =>
    simp only [List.head?_cons, Option.some.injEq] at hx
    subst hx
    rw [dropWhile_not_head _ _ _ nx]
    -- now the reversed list starts with y
    have hrev : ((c :: cs').reverse).head? = some y := by
      rw [List.head?_reverse]; exact hy
    cases hr : (c :: cs').reverse with
    | nil => simp at hr
    | cons z zs =>
      rw [hr] at hrev
      simp only [List.head?_cons, Option.some.injEq] at hrev
      subst hrev
      rw [dropWhile_not_head _ _ _ ny, ← hr, List.reverse_reverse]

theorem isDigit_not_space (c : Char) (h : c.isDigit = true) : isAsciiSpace c = false := by
  simp only [Char.isDigit, Bool.and_eq_true, decide_eq_true_eq] at h
  simp only [isAsciiSpace, Bool.or_eq_false_iff, beq_eq_false_iff_ne, ne_eq]
  have h1 := h.1
  have h2 := h.2
  have hv : 48 ≤ c.val.toNat ∧ c.val.toNat ≤ 57 := by
    constructor
    · exact UInt32.le_iff_toNat_le.mp h1
    · exact UInt32.le_iff_toNat_le.mp h2
  refine ⟨⟨⟨⟨⟨?_, ?_⟩, ?_⟩, ?_⟩, ?_⟩, ?_⟩ <;> (intro hc; subst hc; simp at hv)

theorem toDigits_all_isDigit (n : Nat) : (Nat.toDigits 10 n).all Char.isDigit = true := by
  rw [List.all_eq_true]
  intro c hc
  exact Nat.isDigit_of_mem_toDigits (by decide) (by decide) hc

theorem parseNatChars_toDigits (n : Nat) : parseNatChars (Nat.toDigits 10 n) = some n := by
  have hne : Nat.toDigits 10 n ≠ [] := Nat.toDigits_ne_nil
  cases h : Nat.toDigits 10 n with
  | nil => exact absurd h hne
  | cons c cs =>
    have hall := toDigits_all_isDigit n
    rw [h] at hall
    have hval : Nat.ofDigitChars 10 (c :: cs) 0 = n := by rw [← h]; exact Nat.ofDigitChars_ten_toDigits
    simp only [parseNatChars, hall, if_true, hval]

theorem toDigits_head_isDigit (n : Nat) : ∃ c cs, Nat.toDigits 10 n = c :: cs ∧ c.isDigit = true := by
  cases h : Nat.toDigits 10 n with
  | nil => exact absurd h Nat.toDigits_ne_nil
  | cons c cs =>
    refine ⟨c, cs, rfl, ?_⟩
    exact Nat.isDigit_of_mem_toDigits (b := 10) (n := n) (by decide) (by decide) (by rw [h]; simp)

theorem isDigit_ne_sign (c : Char) (h : c.isDigit = true) : c ≠ '-' ∧ c ≠ '+' := by
  constructor <;> (intro hc; subst hc; simp [Char.isDigit] at h)

theorem parseIntChars_repr_nat (n : Nat) : parseIntChars (Nat.toDigits 10 n) = some (n : Int) := by
  obtain ⟨c, cs, hcs, hd⟩ := toDigits_head_isDigit n
  have hp := parseNatChars_toDigits n
  rw [hcs] at hp ⊢
  obtain ⟨h1, h2⟩ := isDigit_ne_sign c hd
  unfold parseIntChars
  split
  · next ds heq => simp only [List.cons.injEq] at heq; exact absurd heq.1 h1
  · next ds heq => simp only [List.cons.injEq] at heq; exact absurd heq.1 h2
  · simp [hp]

theorem parseIntChars_toString (n : Int) : parseIntChars (toString n).toList = some n := by
  cases n with
  | ofNat m =>
    show parseIntChars (Int.repr (Int.ofNat m)).toList = _
    simp only [Int.repr, Nat.toList_repr]
    exact parseIntChars_repr_nat m
  | negSucc m =>
    show parseIntChars (Int.repr (Int.negSucc m)).toList = _
    simp only [Int.repr, String.toList_append, Nat.toList_repr]
    show parseIntChars ('-' :: Nat.toDigits 10 (m + 1)) = _
    simp only [parseIntChars, parseNatChars_toDigits]
    rfl

theorem toString_int_ends (n : Int) :
    ∃ x y, (toString n).toList.head? = some x ∧ (toString n).toList.getLast? = some y ∧
      isAsciiSpace x = false ∧ isAsciiSpace y = false := by
  have lastDigit : ∀ m : Nat, ∃ y, (Nat.toDigits 10 m).getLast? = some y ∧ isAsciiSpace y = false := by
    intro m
    cases hl : (Nat.toDigits 10 m).getLast? with
    | none => simp [List.getLast?_eq_none_iff, Nat.toDigits_ne_nil] at hl
    | some y =>
      refine ⟨y, rfl, isDigit_not_space y ?_⟩
      exact Nat.isDigit_of_mem_toDigits (b := 10) (n := m) (by decide) (by decide) (List.mem_of_getLast? hl)
  cases n with
  | ofNat m =>
    have e : (toString (Int.ofNat m)).toList = Nat.toDigits 10 m := by
      show (Int.repr (Int.ofNat m)).toList = _
      simp only [Int.repr, Nat.toList_repr]
    rw [e]
    obtain ⟨c, cs, hcs, hd⟩ := toDigits_head_isDigit m
    obtain ⟨y, hy, ny⟩ := lastDigit m
    exact ⟨c, y, by rw [hcs]; rfl, hy, isDigit_not_space c hd, ny⟩
  | negSucc m =>
    have e : (toString (Int.negSucc m)).toList = '-' :: Nat.toDigits 10 (m + 1) := by
      show (Int.repr (Int.negSucc m)).toList = _
      simp only [Int.repr, String.toList_append, Nat.toList_repr]
      rfl
    rw [e]
    obtain ⟨y, hy, ny⟩ := lastDigit (m + 1)
    refine ⟨'-', y, rfl, ?_, by decide, ny⟩
    obtain ⟨c, cs, hcs, _⟩ := toDigits_head_isDigit (m + 1)
    rw [hcs] at hy ⊢
    simpa [List.getLast?_cons_cons] using hy

theorem trimStr_toString (n : Int) : trimStr (toString n) = toString n := by
  obtain ⟨x, y, hx, hy, nx, ny⟩ := toString_int_ends n
  unfold trimStr
  rw [trimChars_eq_self _ x y hx hy nx ny, String.ofList_toList]

/-- a quoted decimal rendered from an integer parses back to it -/
theorem parseIntText_toString (n : Int) : parseIntText (toString n) = .ok n := by
  unfold parseIntText
  simp only [trimStr_toString, parseIntStr, parseIntChars_toString]
  rfl

end Ledger.Sql
