import Ledger.Proofs.CtrlInv

/-!
The write path only makes `Fresh` calls; hence every write operation — and every
sequential history — preserves the id / key invariant.
-/
namespace Ledger.Ctrl
open Ledger.Base Ledger.Core

/-- A call of the write path other than `InsertLog`. -/
def Call.Quiet : Call → Prop
  | .commitTransaction t => t.id = none
  | .insertLog _ => False
  | _ => True

theorem Call.Quiet.fresh {c : Call} (h : c.Quiet) : c.Fresh := by
  cases c <;> first | exact h | exact trivial | exact h.elim

theorem replayCalls_quiet (cs : List MCall) : (replayCalls cs).All Call.Quiet := by
  induction cs with
  | nil => exact .pure ()
  | cons c r ih =>
    cases c with
    | balances q => exact .call _ _ trivial (fun _ => ih)
    | account a => exact .call _ _ trivial (fun _ => ih)

theorem postingsMachine_quiet (ps : List Posting) (force : Bool) : (postingsMachine ps force).All Call.Quiet := by
  unfold postingsMachine
  simp only
  split
  · exact .pure _
  · refine .call _ _ trivial (fun bal => ?_)
    split
    · exact .pure _
    · exact .fail _

theorem scriptMachine_quiet (obs : List MachineObs) (n : Nat) : (scriptMachine obs n).All Call.Quiet := by
  unfold scriptMachine
  split
  · exact .fail _
  · refine Prog.All.bind (replayCalls_quiet _) (fun _ => ?_)
    split
    · exact .fail _
    · exact .pure _

theorem createBody_quiet (strict : Bool) (schema : Option Schema) (c : CreateIn) (m : Prog MachineResult)
    (hm : m.All Call.Quiet) : (createBody strict schema c m).All Call.Quiet := by
  unfold createBody
  split
  · exact .fail _
  · refine Prog.All.bind hm (fun r => ?_)
    split
    · exact .fail _
    · split
      · exact .fail _
      · exact .call _ _ rfl (fun tx => .call _ _ trivial (fun _ => .pure _))

theorem revertBody_quiet (id : Nat) (force aed : Bool) (m : Meta) : (revertBody id force aed m).All Call.Quiet := by
  unfold revertBody
  refine .call _ _ trivial (fun r => ?_)
  split
  · exact .fail _
  · refine .call _ _ trivial (fun bal => ?_)
    simp only
    split
    · exact .fail _
    · exact .call _ _ rfl (fun tx => .pure _)

theorem body_quiet (strict : Bool) (kind : OpKind) (n : Nat) (schema : Option Schema) :
    (body strict kind n schema).All Call.Quiet := by
  cases kind with
  | createP c ps force => exact createBody_quiet _ _ _ _ (postingsMachine_quiet ps force)
  | createS c obs => exact createBody_quiet _ _ _ _ (scriptMachine_quiet obs n)
  | revert id force aed m => exact revertBody_quiet id force aed m
  | saveTxMeta id m => exact .call _ _ trivial (fun _ => .pure _)
  | saveAccMeta a m =>
    show (saveAccMetaBody schema a m).All Call.Quiet
    unfold saveAccMetaBody
    exact .call _ _ trivial (fun _ => .pure _)
  | delTxMeta id key =>
    refine .call _ _ trivial (fun r => ?_)
    split
    · exact .pure _
    · exact .fail _
  | delAccMeta a key => exact .call _ _ trivial (fun _ => .pure _)
  | insertSchema version chart templates tplBad =>
    simp only [body]
    split
    · exact .fail _
    · split
      · exact .fail _
      · refine .call _ _ trivial (fun r => ?_)
        split
        · exact .pure _
        · exact .fail _

theorem schemaPhase_quiet (strict : Bool) (kind : OpKind) (sv : String) : (schemaPhase strict kind sv).All Call.Quiet := by
  unfold schemaPhase
  split
  · refine .call _ _ trivial (fun r => ?_)
    split
    · exact .pure _
    · exact .call _ _ trivial (fun _ => .fail _)
  · split
    · refine .call _ _ trivial (fun latest => ?_)
      split
      · exact .fail _
      · exact .pure _
    · exact .pure _

theorem logPhase_fresh (strict : Bool) (ik ihash sv : String) (schema : Option Schema) (p : Payload) :
    (logPhase strict ik ihash sv schema p).All Call.Fresh := by
  unfold logPhase
  simp only
  have hins : (Prog.call (Call.insertLog { payload := p, ik := ik, ihash := ihash, schemaVersion := sv }) Prog.pure).All
      Call.Fresh := .call _ _ rfl (fun l => .pure l)
  cases schema with
  | none => simpa using hins
  | some sc =>
    simp only
    split
    · exact .fail _
    · exact hins

theorem runLog_fresh (strict : Bool) (kind : OpKind) (ik ihash sv : String) (n : Nat) :
    (runLog strict kind ik ihash sv n).All Call.Fresh :=
  Prog.All.bind ((schemaPhase_quiet strict kind sv).mono fun _ h => h.fresh) fun schema =>
  Prog.All.bind ((body_quiet strict kind n schema).mono fun _ h => h.fresh) fun p =>
    logPhase_fresh strict ik ihash sv schema p

/-- Every write operation — failing, dry-run, idempotent, faulted or committed —
    preserves the invariant. -/
theorem forgeLog_inv (strict : Bool) (op : Op) (f : Faults) (cf : Bool) (s : State) (h : Inv s.db s.seq) :
    Inv (forgeLog strict op f cf s).state.db (forgeLog strict op f cf s).state.seq := by
  rcases forgeLog_ending strict op f cf s with ⟨hu, hs, _⟩ | ⟨st0, st, log, hn, f', n, _, h0, hs0, hrun, hc⟩
  · rw [hu]; exact h.seq_mono hs
  · rw [hc.1]
    have h1 : Inv st0.db st0.seq := by rw [h0]; exact h.seq_mono hs0
    have := run_inv op.now hn f' _ (runLog_fresh strict op.kind op.ik op.ihash op.sv n) st0 h1
    rw [hrun] at this
    exact this

theorem step_inv (strict : Bool) (s : State) (op : Op) (h : Inv s.db s.seq) :
    Inv (step strict s op).1.db (step strict s op).1.seq := forgeLog_inv strict op [] false s h

theorem runHist_inv (strict : Bool) (s : State) (ops : List Op) (h : Inv s.db s.seq) :
    Inv (runHist strict s ops).db (runHist strict s ops).seq := by
  induction ops generalizing s with
  | nil => exact h
  | cons op r ih => exact ih _ (step_inv strict s op h)

end Ledger.Ctrl
