import Ledger.Proofs.SqlSort
import Ledger.Proofs.SqlUpdate

/-!
# SELECT over one table: FROM, WHERE, projection, ORDER BY, LIMIT — the evaluator against pure list functions
-/
namespace Ledger.Sql

theorem exec_filterAuxM (p : α → M Bool) (q : α → Bool) (s : St) : ∀ (l : List α) (acc : List α),
    (∀ a ∈ l, (p a).exec s = (.ok (q a), s)) → (List.filterAuxM p l acc).exec s = (.ok ((l.filter q).reverse ++ acc), s) := by
  intro l
  induction l with
  | nil => intro acc _; simp [List.filterAuxM]
  | cons a as ih =>
    intro acc h
    have ha := h a (by simp)
    simp only [List.filterAuxM, exec_bind, ha]
    rw [ih _ (fun b hb => h b (by simp [hb]))]
    cases hq : q a <;> simp [List.filter_cons, hq]

theorem exec_filterM (p : α → M Bool) (q : α → Bool) (l : List α) (s : St)
    (h : ∀ a ∈ l, (p a).exec s = (.ok (q a), s)) : (l.filterM p).exec s = (.ok (l.filter q), s) := by
  simp only [List.filterM, exec_bind, exec_filterAuxM p q s l [] h, exec_pure]
  simp

/-- the state after a statement that may have met an ORDER BY tie -/
def St.tie (s : St) (b : Bool) : St := if b then { s with tieSensitive := true } else s

@[simp] theorem tie_false (s : St) : s.tie false = s := rfl
@[simp] theorem tie_w (s : St) (b : Bool) : (s.tie b).w = s.w := by cases b <;> rfl
@[simp] theorem tie_xid (s : St) (b : Bool) : (s.tie b).xid = s.xid := by cases b <;> rfl
@[simp] theorem tie_cid (s : St) (b : Bool) : (s.tie b).cid = s.cid := by cases b <;> rfl
theorem tie_tie (s : St) (a b : Bool) : (s.tie a).tie b = s.tie (a || b) := by cases a <;> cases b <;> rfl

theorem TxState.tie {s : St} (h : TxState s) (b : Bool) : TxState (s.tie b) := by
  cases b
  · exact h
  · exact ⟨h.solo, h.xid, h.cid, h.snap, h.noEpq, h.names⟩

/-- FROM a single base table (not shadowed by a CTE) -/
theorem exec_evalFromList_table (n : Nat) (env : Env) (schema name alias full : String) (t : Table) (s : St) (hs : TxState s)
    (hcte : (if schema.isEmpty then env.ctes.lookup name else none) = none)
    (hq : (qualify schema name).exec s = (.ok full, s)) (hT : s.w.table? full = some t) :
    (evalFromList (n + 3) env [FromItem.table schema name alias] [[]]).exec s =
      (.ok (((t.scan (cv s)).map (rowScopeOf t (if alias.isEmpty then name else alias))).map (fun sc => [sc])), s) := by
  rw [evalFromList]
  simp only [FromItem.isLateral, Bool.false_eq_true, if_false, exec_bind]
  rw [evalFrom]
  · simp only [exec_bind]
    rw [evalPrimary]
    simp only [hcte, exec_bind, hq, exec_getTable hT, exec_scanTable s hs, exec_pure]
    rw [evalFromList]
    · simp
    · intro h; omega
  · intro kind l r on h; cases h


/-- ORDER BY over output rows: a permutation of the rows, sorted by their keys `K` -/
theorem exec_sortOut' (n : Nat) (env : Env) (cols : List String) (rows : List OutRow) (order : List OrderItem) (hne : order ≠ [])
    (s : St) (K : OutRow → List Value) (c : List Value → List Value → Ordering) (S : List Value → Prop)
    (hkey : ∀ r ∈ rows, (order.mapM (orderKeyM (cbs n) s.w.types env cols r)).exec s = (.ok (K r), s))
    (hcmp : CmpOk (fun (a b : List Value × OutRow) => cmpOrderKeys a.1 b.1 (orderDescs order) (orderNulls order))
      (fun a b => c a.1 b.1) (fun a => S a.1))
    (hS : ∀ r ∈ rows, S (K r))
    (Pt : Bool → Prop)
    (htie : ∀ l : List (List Value × OutRow), l.Perm (rows.map (fun r => (K r, r))) → ∃ b, hasTieR l = .ok b ∧ Pt b) :
    ∃ sorted tie, (sortOut (n + 1) env cols rows order).exec s = (.ok (cols, sorted), s.tie tie) ∧ sorted.Perm rows ∧
      sorted.Pairwise (fun a b => c (K b) (K a) ≠ .lt) ∧ Pt tie := by
  have hkeyed : (rows.mapM (fun r => do
      let ks ← order.mapM (orderKeyM (cbs n) s.w.types env cols r)
      pure (ks, r))).exec s = (.ok (rows.map (fun r => (K r, r))), s) := by
    apply exec_mapM_pure
    intro r hr
    simp only [exec_bind, hkey r hr, exec_pure]
  obtain ⟨ys, h1, h2, h3⟩ := sortKeyed_spec (orderDescs order) (orderNulls order) c S hcmp (rows.map (fun r => (K r, r)))
    (by intro a ha; obtain ⟨r, hr, rfl⟩ := List.mem_map.mp ha; exact hS r hr)
  obtain ⟨tie, ht, hpt⟩ := htie ys h2
  refine ⟨ys.map (·.2), tie, ?_, ?_, ?_, hpt⟩
  · cases order with
    | nil => exact absurd rfl hne
    | cons o os =>
      rw [sortOut]
      · simp only [exec_bind, exec_typeEnv, hkeyed, h1, exec_liftR_ok, ht]
        cases tie <;> simp [St.tie, exec_bind]
      · intro h; cases h
  · have := h2.map (·.2)
    rw [List.map_map] at this
    have e : rows.map ((fun x : List Value × OutRow => x.2) ∘ fun r => (K r, r)) = rows := by
      have : ((fun x : List Value × OutRow => x.2) ∘ fun r => (K r, r)) = id := rfl
      rw [this, List.map_id]
    rw [e] at this
    exact this
  · rw [List.pairwise_map]
    apply h3.imp_of_mem
    intro a b ha hb hab
    obtain ⟨ra, _, rfl⟩ := List.mem_map.mp ((h2.mem_iff).mp ha)
    obtain ⟨rb, _, rfl⟩ := List.mem_map.mp ((h2.mem_iff).mp hb)
    exact hab

theorem exec_sortOut (n : Nat) (env : Env) (cols : List String) (rows : List OutRow) (order : List OrderItem) (hne : order ≠ [])
    (s : St) (K : OutRow → List Value) (c : List Value → List Value → Ordering) (S : List Value → Prop)
    (hkey : ∀ r ∈ rows, (order.mapM (orderKeyM (cbs n) s.w.types env cols r)).exec s = (.ok (K r), s))
    (hcmp : CmpOk (fun (a b : List Value × OutRow) => cmpOrderKeys a.1 b.1 (orderDescs order) (orderNulls order))
      (fun a b => c a.1 b.1) (fun a => S a.1))
    (hS : ∀ r ∈ rows, S (K r))
    (htie : ∀ l : List (List Value × OutRow), l.Perm (rows.map (fun r => (K r, r))) → ∃ b, hasTieR l = .ok b) :
    ∃ sorted tie, (sortOut (n + 1) env cols rows order).exec s = (.ok (cols, sorted), s.tie tie) ∧ sorted.Perm rows ∧
      sorted.Pairwise (fun a b => c (K b) (K a) ≠ .lt) := by
  obtain ⟨sorted, tie, h1, h2, h3, _⟩ := exec_sortOut' n env cols rows order hne s K c S hkey hcmp hS (fun _ => True)
    (fun l hl => by obtain ⟨b, hb⟩ := htie l hl; exact ⟨b, hb, trivial⟩)
  exact ⟨sorted, tie, h1, h2, h3⟩


theorem sameGroupKey_ok : ∀ (xs ys : List Value), (∀ p ∈ xs.zip ys, ∃ o, compareForSort p.1 p.2 = .ok o) →
    ∃ b, sameGroupKey xs ys = .ok b := by
  intro xs
  induction xs with
  | nil => intro ys _; cases ys <;> exact ⟨_, rfl⟩
  | cons x xs ih =>
    intro ys h
    cases ys with
    | nil => exact ⟨_, rfl⟩
    | cons y ys =>
      obtain ⟨o, ho⟩ := h (x, y) (by simp)
      obtain ⟨b, hb⟩ := ih ys (fun p hp => h p (by simp [hp]))
      simp only [sameGroupKey, ho, bind, Except.bind]
      cases (o == Ordering.eq)
      · exact ⟨false, rfl⟩
      · exact ⟨b, hb⟩


/-! ### SELECT -/

def outNames (es : List (Expr × String)) : List String := es.map (fun p => if p.2.isEmpty then exprOutName p.1 else p.2)

theorem exec_foldlM_exprItems (F : (List String × List Expr) → SelItem → M (List String × List Expr))
    (hF : ∀ acc e a s, (F acc (.expr e a)).exec s = (.ok (acc.1 ++ [if a.isEmpty then exprOutName e else a], acc.2 ++ [e]), s))
    (es : List (Expr × String)) : ∀ (acc : List String × List Expr) (s : St),
    ((es.map (fun p => SelItem.expr p.1 p.2)).foldlM F acc).exec s = (.ok (acc.1 ++ outNames es, acc.2 ++ es.map (·.1)), s) := by
  induction es with
  | nil => intro acc s; simp [outNames]
  | cons p ps ih =>
    intro acc s
    simp only [List.map_cons, exec_foldlM_cons, hF, ih]
    simp [outNames, List.append_assoc]

theorem map_zip_range {β γ : Type} (l : List β) (G : β → γ) :
    ((List.range l.length).zip l).map (fun p => G p.2) = l.map G := by
  have : ((List.range l.length).zip l).map (fun p => p.2) = l := by
    rw [← List.unzip_snd, List.unzip_zip]
    simp
  conv => rhs; rw [← this]
  simp [List.map_map, Function.comp]

def singW {β : Type} (w : β → Bool) : List β → Bool
  | [x] => w x
  | _ => false

theorem filter_singletons {β : Type} (w : β → Bool) (l : List β) :
    (l.map (fun x => [x])).filter (singW w) = (l.filter w).map (fun x => [x]) := by
  induction l with
  | nil => rfl
  | cons a as ih =>
    rw [List.map_cons, List.filter_cons, List.filter_cons, ih]
    have : singW w [a] = w a := rfl
    rw [this]
    cases w a <;> rfl

/-- the output row of a scope -/
def outRowOf (proj : Scope → List Value) (sc : Scope) : OutRow :=
  { vals := proj sc, srcs := [sc].filterMap (·.src), locals := [sc], group := none, wins := [] }

/-- `SELECT e₁ [AS a₁], … FROM <one item> WHERE c ORDER BY …` without aggregates, windows, DISTINCT:
    filter, project, sort. -/
theorem exec_evalSelect_simple (n : Nat) (env : Env) (es : List (Expr × String)) (from_ : List FromItem) (c : Expr)
    (order : List OrderItem) (s : St) (scs : List Scope) (w : Scope → Bool) (proj : Scope → List Value)
    (hfrom : (evalFromList n env from_ [[]]).exec s = (.ok (scs.map (fun sc => [sc])), s))
    (hwhere : ∀ sc ∈ scs, (do
        let v ← evalExpr (cbs n) s.w.types { env with locals := [sc] } c
        pure ((← liftR v.truth) == some true)).exec s = (.ok (w sc), s))
    (hagg : (Expr.anyHasAgg (es.map (·.1)) || order.any (fun o => o.exprOf.hasAgg)) = false)
    (hwin : Expr.winsList (es.map (·.1)) ++ Expr.winsList (order.map OrderItem.exprOf) = [])
    (hproj : ∀ sc ∈ scs, w sc = true →
      (evalExprs (cbs n) s.w.types { env with locals := [sc], group := none, wins := [] } (es.map (·.1))).exec s = (.ok (proj sc), s))
    (sorted : List OutRow) (tie : Bool)
    (hsort : (sortOut n env (outNames es) ((scs.filter w).map (outRowOf proj)) order).exec s = (.ok (outNames es, sorted), s.tie tie)) :
    (evalSelect (n + 1) env (Select.mk false [] (es.map (fun p => SelItem.expr p.1 p.2)) from_ (some c) [] none) order).exec s =
      (.ok (outNames es, sorted), s.tie tie) := by
  rw [evalSelect]
  have hfilter : ((scs.map (fun sc => [sc])).filterM (fun L => do
      let v ← evalExpr (cbs n) s.w.types { env with locals := L } c
      pure ((← liftR v.truth) == some true))).exec s = (.ok ((scs.map (fun sc => [sc])).filter (singW w)), s) := by
    apply exec_filterM
    intro L hL
    obtain ⟨sc, hsc, rfl⟩ := List.mem_map.mp hL
    exact hwhere sc hsc
  rw [filter_singletons] at hfilter
  have hF : ∀ (F : (List String × List Expr) → SelItem → M (List String × List Expr))
      (hF : ∀ acc e a s, (F acc (.expr e a)).exec s = (.ok (acc.1 ++ [if a.isEmpty then exprOutName e else a], acc.2 ++ [e]), s)),
      ((es.map (fun p => SelItem.expr p.1 p.2)).foldlM F ([], [])).exec s = (.ok (outNames es, es.map (·.1)), s) := by
    intro F hF
    have := exec_foldlM_exprItems F hF es ([], []) s
    simpa using this
  simp only [exec_bind, exec_typeEnv, hfrom, hfilter]
  rw [hF _ (by intro acc e a s'; rfl)]
  simp only [List.isEmpty_nil, Bool.not_true, Bool.false_or, hagg, Bool.or_false, Bool.false_eq_true, if_false, exec_pure, hwin,
    List.foldlM_nil, exec_bind]
  rw [exec_mapM_pure _ (fun (x : Nat × List Scope × Option (List (List Scope))) => match x.2.1 with | [sc] => outRowOf proj sc | _ => default)]
  · have := map_zip_range (List.map (fun L => (L, (none : Option (List (List Scope))))) (List.map (fun sc => [sc]) (List.filter w scs)))
      (fun u => match u.1 with | [sc] => outRowOf proj sc | _ => default)
    rw [this]
    simp only [List.map_map]
    have hfe : ((fun (u : List Scope × Option (List (List Scope))) => match u.1 with | [sc] => outRowOf proj sc | _ => default) ∘
        (fun L => (L, none)) ∘ fun sc => [sc]) = outRowOf proj := by funext sc; rfl
    rw [hfe]
    simp only [hsort]
  · intro x hx
    obtain ⟨i, u⟩ := x
    have hx2 := List.of_mem_zip hx
    obtain ⟨L, hL, hxe⟩ := List.mem_map.mp hx2.2
    obtain ⟨sc, hsc, rfl⟩ := List.mem_map.mp hL
    subst hxe
    have hscm := List.mem_filter.mp hsc
    have hp := hproj sc hscm.1 hscm.2
    simp only [List.map_nil, exec_bind, hp, exec_pure]
    rfl

end Ledger.Sql
