import Ledger.Sql.Expr

/-!
# LeanPG's ORDER BY: `mergeSortM` returns a sorted permutation
-/
namespace Ledger.Sql

variable {α : Type}

/-- what is assumed of the comparison on the elements (those satisfying `S`): it never fails, and "strictly less"
    is asymmetric and negatively transitive (a strict weak order) -/
structure CmpOk (cmp : α → α → R Ordering) (c : α → α → Ordering) (S : α → Prop) : Prop where
  ok : ∀ a b, S a → S b → cmp a b = .ok (c a b)
  asymm : ∀ a b, S a → S b → c a b = .lt → c b a ≠ .lt
  negTrans : ∀ a b d, S a → S b → S d → c b a ≠ .lt → c d b ≠ .lt → c d a ≠ .lt

/-- `a` may stand before `b` -/
def leOf (c : α → α → Ordering) (a b : α) : Prop := c b a ≠ .lt

theorem mergeM_spec (cmp : α → α → R Ordering) (c : α → α → Ordering) (S : α → Prop) (h : CmpOk cmp c S) :
    ∀ (fuel : Nat) (l r : List α), (∀ a ∈ l, S a) → (∀ a ∈ r, S a) → l.length + r.length ≤ fuel →
      ∃ m, mergeM cmp l r fuel = .ok m ∧ m.Perm (l ++ r) ∧
        (l.Pairwise (leOf c) → r.Pairwise (leOf c) → m.Pairwise (leOf c)) := by
  intro fuel
  induction fuel with
  | zero =>
    intro l r _ _ hlen
    have hl : l = [] := by cases l <;> simp_all
    have hr : r = [] := by cases r <;> simp_all
    subst hl hr
    exact ⟨[], rfl, List.Perm.refl _, fun _ _ => List.Pairwise.nil⟩
  | succ fuel ih =>
    intro l r hSl hSr hlen
    cases l with
    | nil => exact ⟨r, by cases r <;> rfl, by simp, fun _ hr => hr⟩
    | cons x l' =>
      cases r with
      | nil => exact ⟨x :: l', rfl, by simp, fun hl _ => hl⟩
      | cons y r' =>
        have hSx : S x := hSl x (by simp)
        have hSy : S y := hSr y (by simp)
        have hcmp := h.ok y x hSy hSx
        simp only [mergeM, hcmp, bind, Except.bind, pure, Except.pure]
        cases hlt : (c y x == Ordering.lt) with
        | true =>
          obtain ⟨m, hm, hp, hs⟩ := ih (x :: l') r' hSl (fun a ha => hSr a (by simp [ha])) (by simp at hlen ⊢; omega)
          refine ⟨y :: m, by simp [hm], ?_, ?_⟩
          · have : (y :: m).Perm (y :: (x :: l' ++ r')) := List.Perm.cons y hp
            exact this.trans (by simpa using (List.perm_middle (a := y) (l₁ := x :: l') (l₂ := r')).symm)
          · intro hl hr
            have hr' := List.pairwise_cons.mp hr
            have hl' := List.pairwise_cons.mp hl
            have hyx : c y x = .lt := by simpa using hlt
            apply List.pairwise_cons.mpr
            refine ⟨?_, hs hl hr'.2⟩
            intro a ha
            have ha' := (hp.mem_iff).mp ha
            rcases List.mem_append.mp ha' with hal | har
            · -- a ∈ x :: l': y < x ≤ a
              have hSa : S a := hSl a hal
              have hxa : leOf c x a := by
                rcases List.mem_cons.mp hal with rfl | h'
                · intro e; exact h.asymm _ _ hSa hSa e e
                · exact hl'.1 a h'
              -- leOf y x (since x is not < y by asymmetry), then transitivity
              have hyx' : leOf c y x := h.asymm y x hSy hSx hyx
              exact h.negTrans y x a hSy hSx hSa hyx' hxa
            · exact hr'.1 a har
        | false =>
          obtain ⟨m, hm, hp, hs⟩ := ih l' (y :: r') (fun a ha => hSl a (by simp [ha])) hSr (by simp at hlen ⊢; omega)
          refine ⟨x :: m, by simp [hm], ?_, ?_⟩
          · exact List.Perm.cons x hp
          · intro hl hr
            have hl' := List.pairwise_cons.mp hl
            have hr' := List.pairwise_cons.mp hr
            have hxy : leOf c x y := by simpa [leOf] using hlt
            apply List.pairwise_cons.mpr
            refine ⟨?_, hs hl'.2 hr⟩
            intro a ha
            have ha' := (hp.mem_iff).mp ha
            rcases List.mem_append.mp ha' with hal | har
            · exact hl'.1 a hal
            · have hSa : S a := hSr a har
              rcases List.mem_cons.mp har with rfl | h'
              · exact hxy
              · exact h.negTrans x y a hSx hSy hSa hxy (hr'.1 a h')


theorem mergeSortM_spec (cmp : α → α → R Ordering) (c : α → α → Ordering) (S : α → Prop) (h : CmpOk cmp c S) :
    ∀ (fuel : Nat) (xs : List α), (∀ a ∈ xs, S a) →
      ∃ ys, mergeSortM cmp fuel xs = .ok ys ∧ ys.Perm xs ∧ (xs.length ≤ fuel + 1 → ys.Pairwise (leOf c)) := by
  intro fuel
  induction fuel with
  | zero =>
    intro xs _
    refine ⟨xs, rfl, List.Perm.refl _, ?_⟩
    intro hl
    match xs, hl with
    | [], _ => exact List.Pairwise.nil
    | [x], _ => exact List.pairwise_singleton _ _
  | succ fuel ih =>
    intro xs hS
    match xs, hS with
    | [], _ => exact ⟨[], rfl, List.Perm.refl _, fun _ => List.Pairwise.nil⟩
    | [x], _ => exact ⟨[x], rfl, List.Perm.refl _, fun _ => List.pairwise_singleton _ _⟩
    | x :: y :: rest, hS =>
      obtain ⟨l, hl, hpl, hsl⟩ := ih ((x :: y :: rest).take ((x :: y :: rest).length / 2))
        (fun a ha => hS a (List.mem_of_mem_take ha))
      obtain ⟨r, hr, hpr, hsr⟩ := ih ((x :: y :: rest).drop ((x :: y :: rest).length / 2))
        (fun a ha => hS a (List.mem_of_mem_drop ha))
      have hSl : ∀ a ∈ l, S a := fun a ha => hS a (List.mem_of_mem_take ((hpl.mem_iff).mp ha))
      have hSr : ∀ a ∈ r, S a := fun a ha => hS a (List.mem_of_mem_drop ((hpr.mem_iff).mp ha))
      have hlen : l.length + r.length ≤ (x :: y :: rest).length + 1 := by
        rw [hpl.length_eq, hpr.length_eq, List.length_take, List.length_drop]
        omega
      obtain ⟨m, hm, hpm, hsm⟩ := mergeM_spec cmp c S h _ l r hSl hSr hlen
      refine ⟨m, ?_, ?_, ?_⟩
      · simp only [mergeSortM, hl, hr, bind, Except.bind, hm]
      · have : (l ++ r).Perm ((x :: y :: rest).take ((x :: y :: rest).length / 2) ++ (x :: y :: rest).drop ((x :: y :: rest).length / 2)) :=
          List.Perm.append hpl hpr
        rw [List.take_append_drop] at this
        exact hpm.trans this
      · intro hle
        apply hsm
        · apply hsl
          rw [List.length_take]
          simp only [List.length_cons] at hle ⊢
          omega
        · apply hsr
          rw [List.length_drop]
          simp only [List.length_cons] at hle ⊢
          omega

/-- `sortKeyed`: a permutation of the input, sorted by the ORDER BY keys -/
theorem sortKeyed_spec {β : Type} (descs : List Bool) (nulls : List NullsOrder) (c : List Value → List Value → Ordering)
    (S : List Value → Prop)
    (h : CmpOk (fun (a b : List Value × β) => cmpOrderKeys a.1 b.1 descs nulls) (fun a b => c a.1 b.1) (fun a => S a.1))
    (keys : List (List Value × β)) (hS : ∀ a ∈ keys, S a.1) :
    ∃ ys, sortKeyed keys descs nulls = .ok ys ∧ ys.Perm keys ∧ ys.Pairwise (fun a b => c b.1 a.1 ≠ .lt) := by
  obtain ⟨ys, h1, h2, h3⟩ := mergeSortM_spec _ _ _ h (keys.length + 1) keys hS
  exact ⟨ys, h1, h2, h3 (by omega)⟩

end Ledger.Sql
