import Ledger.Proofs.MachineSrc
import Ledger.Proofs.MachineDest

/-! Statement-level and script-level accounting: `finishSend`, `evalStmt`, `runStmts`. -/
namespace Ledger.Machine

variable {cfg : Cfg}

theorem inTo_nonneg (a : String) (ps : List Posting) (h : ∀ p ∈ ps, 0 ≤ p.amount) : 0 ≤ inTo a ps := by
  induction ps with
  | nil => simp [inTo]
  | cons p ps ih =>
    have hp := h p (by simp)
    have := ih (fun q hq => h q (by simp [hq]))
    simp only [inTo]; split <;> omega

theorem flowOut_cases (a c asset : String) (ps : List Posting) (h : ∀ p ∈ ps, p.asset = asset) :
    flowOut a c ps = if asset = c then outOf (fun x => x == a) ps else 0 := by
  split
  · rename_i hc; subst hc; exact flowOut_eq_outOf a asset ps h
  · rename_i hc; exact flowOut_other a c ps asset hc h

theorem flowIn_cases (a c asset : String) (ps : List Posting) (h : ∀ p ∈ ps, p.asset = asset) :
    flowIn a c ps = if asset = c then inTo a ps else 0 := by
  split
  · rename_i hc; subst hc; exact flowIn_eq_inTo a asset ps h
  · rename_i hc; exact flowIn_other a c ps asset hc h

/-- What the destination half of a send guarantees. -/
structure FinishOK (f : Funding) (st st' : State) (new : List Posting) (kept : Int) : Prop where
  postings : st'.postings = st.postings ++ new
  assetOk : ∀ p ∈ new, p.asset = f.asset
  amounts : partsNonneg f.parts → ∀ p ∈ new, 0 ≤ p.amount
  sum : amountSum new + kept = total f.parts
  keptNonneg : partsNonneg f.parts → 0 ≤ kept
  hasAcct : st'.bal.hasAcct = st.bal.hasAcct
  wf : st.bal.WF → st'.bal.WF
  txMeta : st'.txMeta = st.txMeta
  accMeta : st'.accMeta = st.accMeta
  saved : st'.saved = st.saved
  bal : ∀ a c v, a ≠ "world" → st.bal.WF → st.bal.get a c = some v →
    st'.bal.get a c = some (v + fl a c f + flowIn a c new - flowOut a c new)
  mono : partsNonneg f.parts → ∀ a c v, a ≠ "world" → st.bal.WF → st.bal.get a c = some v →
    ∃ v', st'.bal.get a c = some v' ∧ v ≤ v'

theorem finishSend_ok {env : Env} {dst : Dest} {f : Funding} {st st' : State}
    (h : finishSend env dst f st = .ok st') :
    ∃ new rem, FinishOK f st st' new (total rem) ∧
      (∃ st1, evalDest env f.asset dst f.parts st = .ok (rem, st1)) := by
  unfold finishSend at h
  split at h
  · cases h
  · rename_i rem st1 hd
    cases h
    obtain ⟨new, hs, ht, hn⟩ := evalDest_ok env f.asset dst f.parts st rem st1 hd
    obtain ⟨r1, r2, r3⟩ := repay_spec f.asset rem st1.bal
    have key : ∀ a c v, a ≠ "world" → st.bal.WF → st.bal.get a c = some v →
        (repay st1.bal f.asset rem).get a c =
          some (v + (if c = f.asset ∧ a ≠ "world" then inTo a new else 0) +
            (if c = f.asset then acctTotal a rem else 0)) := by
      intro a c v ha hwf hg
      rw [r3 a c _ ha (hs.wf hwf) (hs.bal a c v hg)]
    refine ⟨new, rem, ⟨hs.postings, hs.assetOk, fun hf => (hn hf).2, ?_, ?_, r1.trans hs.hasAcct,
      fun hwf => r2 (hs.wf hwf), hs.txMeta, hs.accMeta, hs.saved, ?_, ?_⟩, ⟨st1, hd⟩⟩
    · have := ht (fun _ => true)
      rw [← total_eq_totalOf, ← total_eq_totalOf, ← amountSum_eq_outOf] at this
      omega
    · intro hf; exact total_nonneg _ (hn hf).1
    · intro a c v ha hwf hg
      show (repay st1.bal f.asset rem).get a c = _
      rw [key a c v ha hwf hg, flowIn_cases a c f.asset new hs.assetOk,
        flowOut_cases a c f.asset new hs.assetOk]
      have := ht (fun x => x == a)
      simp only [fl, acctTotal]
      by_cases hc : c = f.asset
      · rw [if_pos ⟨hc, ha⟩, if_pos hc, if_pos hc.symm, if_pos hc.symm, if_pos hc.symm]
        congr 1; omega
      · have hc' : ¬ f.asset = c := fun x => hc x.symm
        have hc'' : ¬ (c = f.asset ∧ a ≠ "world") := fun x => hc x.1
        rw [if_neg hc'', if_neg hc, if_neg hc', if_neg hc', if_neg hc']
        simp
    · intro hf a c v ha hwf hg
      refine ⟨_, key a c v ha hwf hg, ?_⟩
      have h1 := inTo_nonneg a new (hn hf).2
      have h2 := acctTotal_nonneg a rem (hn hf).1
      split <;> split <;> omega

/-! ### Source allotment -/

def AllotSrcBound (env : Env) (a c : String) (B : Int) : AllotSrcList → Prop
  | .nil => True
  | .cons _ s rest => SrcBound env a c B s ∧ AllotSrcBound env a c B rest

theorem evalAllotSrc_ok (cfg : Cfg) (env : Env) (asset monAsset : String) :
    (items : AllotSrcList) → (parts : List Int) → (b : Balances) → (rs : List Funding) → (b' : Balances) →
    evalAllotSrc cfg env asset monAsset items parts b = .ok (rs, b') →
    SrcOK b b' rs ∧ (∀ r ∈ rs, r.asset = monAsset) ∧
    (rs.map (fun r => total r.parts)) = parts.take items.length ∧
    (∀ a c B, a ≠ "world" → 0 ≤ B → b.WF → AllotSrcBound env a c B items → Floor a c B b b')
  | .nil, parts, b, rs, b', h => by
    simp only [evalAllotSrc] at h
    cases h
    refine ⟨⟨(by intro g hg; cases hg), (Delta.refl b).congr (by intro a c; simp [inFlight])⟩,
      (by intro r hr; cases hr), by simp [AllotSrcList.length], ?_⟩
    intro a c B _ _ _ _
    exact Floor.refl a c B b
  | .cons _ _ _, [], b, rs, b', h => by
    simp only [evalAllotSrc] at h
    cases h
  | .cons _ s rest, p :: ps, b, rs, b', h => by
    simp only [evalAllotSrc] at h
    split at h
    · cases h
    · rename_i f b1 hs
      obtain ⟨i1, i2⟩ := evalSource_ok cfg env asset s b f b1 hs
      have hn0 : partsNonneg f.parts := i1.nonneg f (by simp)
      split at h
      · cases h
      · rename_i r b2 ht
        obtain ⟨t, tsum⟩ := takeFromSource_ok ht
        split at h
        · cases h
        · rename_i rs' b3 hrest
          obtain ⟨j1, j2, j3, j4⟩ := evalAllotSrc_ok cfg env asset monAsset rest ps b2 rs' b3 hrest
          cases h
          have hr : SrcOK b b2 [r] := SrcOK.single_of_delta (t.nonneg hn0)
            (Delta.trans i1.delta t.delta (by intro a c; simp [inFlight]; omega))
          refine ⟨hr.cons j1, ?_, ?_, ?_⟩
          · intro x hx
            rcases List.mem_cons.mp hx with rfl | hx
            · exact t.assetR
            · exact j2 x hx
          · have := tsum hn0
            simp only at this
            cases this
            simp [AllotSrcList.length, j3]
          · intro a c B ha hB hwf hb
            simp only [AllotSrcBound] at hb
            refine ((i2 a c B ha hB hwf hb.1).trans ?_).trans
              (j4 a c B ha hB (t.delta.wf (i1.delta.wf hwf)) hb.2)
            exact t.floor a c B ha (i1.delta.wf hwf) hn0
              (fun e he => fallback_ne env a c B ha s hb.1 e he)

/-! ### Statements -/

/-- All monetary values of the environment are non-negative (a nil amount counts
    as zero): what variable parsing and `ResolveBalances` guarantee. -/
def EnvNonneg (env : Env) : Prop :=
  ∀ x a v, env.lookup x = some (.monetary a (some v)) → 0 ≤ v

theorem leftmost_amt_nonneg {env : Env} (henv : EnvNonneg env) :
    (e : Expr) → ∀ a amt, evalMonetary env e.leftmost = .ok (a, amt) → 0 ≤ nilAsZero amt
  | .add l _, a, amt, h => by
    simp only [Expr.leftmost] at h
    exact leftmost_amt_nonneg henv l a amt h
  | .sub l _, a, amt, h => by
    simp only [Expr.leftmost] at h
    exact leftmost_amt_nonneg henv l a amt h
  | .acct _, a, amt, h => by simp [Expr.leftmost, evalMonetary, evalExpr] at h
  | .asset _, a, amt, h => by simp [Expr.leftmost, evalMonetary, evalExpr] at h
  | .num _, a, amt, h => by simp [Expr.leftmost, evalMonetary, evalExpr] at h
  | .str _, a, amt, h => by simp [Expr.leftmost, evalMonetary, evalExpr] at h
  | .portion t, a, amt, h => by
    simp only [Expr.leftmost, evalMonetary, evalExpr] at h
    cases hp : parsePortionGo t <;> simp [hp] at h
  | .mon x n, a, amt, h => by
    simp only [Expr.leftmost, evalMonetary, evalExpr] at h
    split at h
    · rename_i heq
      split at heq
      · cases heq
        cases h
        simp [nilAsZero]
      · cases heq
      · cases heq
    · rename_i heq
      split at heq <;> simp at heq
      cases h
    · cases h
  | .var x, a, amt, h => by
    simp only [Expr.leftmost, evalMonetary, evalExpr] at h
    cases hl : env.lookup x with
    | none => simp [hl] at h
    | some v =>
      simp only [hl] at h
      cases v with
      | monetary a' v' =>
        simp at h
        obtain ⟨rfl, rfl⟩ := h
        cases v' with
        | none => simp [nilAsZero]
        | some n => simpa [nilAsZero] using henv x a' n hl
      | _ => simp at h

/-- C23's hypothesis on one statement. -/
def StmtBound (env : Env) (a c : String) (B : Int) : Stmt → Prop
  | .send _ (.src s) _ => SrcBound env a c B s
  | .send _ (.allot items) _ => AllotSrcBound env a c B items
  | .sendAll _ (.src s) _ => SrcBound env a c B s
  | _ => True

def Stmt.isSend : Stmt → Bool
  | .send _ _ _ => true
  | .sendAll _ _ _ => true
  | _ => false

/-- What one statement guarantees. -/
structure StmtOK (env : Env) (s : Stmt) (st st' : State) (new : List Posting) : Prop where
  postings : st'.postings = st.postings ++ new
  hasAcct : st'.bal.hasAcct = st.bal.hasAcct
  wf : st.bal.WF → st'.bal.WF
  /-- tracked + saved moves exactly by the postings -/
  track : ∀ a c v, a ≠ "world" → st.bal.WF → st.bal.get a c = some v →
    ∃ v', st'.bal.get a c = some v' ∧
      v' + st'.saved a c = v + st.saved a c + flowIn a c new - flowOut a c new
  savedMono : EnvNonneg env → ∀ a c, st.saved a c ≤ st'.saved a c
  floor : ∀ a c B, a ≠ "world" → 0 ≤ B → st.bal.WF → EnvNonneg env → 0 ≤ st.saved a c →
    StmtBound env a c B s → ∀ v, st.bal.get a c = some v →
    ∃ v', st'.bal.get a c = some v' ∧ min (v + st.saved a c) (-B) ≤ v' + st'.saved a c
  /-- a send never touches the `saved` ghost -/
  savedSend : s.isSend = true → st'.saved = st.saved
  /-- per-send form: the tracked balance itself stays above its floor -/
  floorSend : s.isSend = true → ∀ a c B, a ≠ "world" → 0 ≤ B → st.bal.WF →
    StmtBound env a c B s → ∀ v, st.bal.get a c = some v →
    ∃ v', st'.bal.get a c = some v' ∧ min v (-B) ≤ v'

theorem StmtOK.same (env : Env) (s : Stmt) (st : State) (tx : List (String × Value))
    (am : List (String × String × Value)) :
    StmtOK env s st { st with txMeta := tx, accMeta := am } [] where
  postings := by simp
  hasAcct := rfl
  wf := id
  track := by intro a c v _ _ hg; exact ⟨v, hg, by simp [flowIn, flowOut]⟩
  savedMono := by intro _ a c; exact Int.le_refl _
  floor := by
    intro a c B _ _ _ _ _ _ v hg
    refine ⟨v, hg, ?_⟩
    show min (v + st.saved a c) (-B) ≤ v + st.saved a c
    omega
  savedSend := fun _ => rfl
  floorSend := by intro _ a c B _ _ _ _ v hg; exact ⟨v, hg, by omega⟩

/-- Glue of the source half (a funding `f` taken out of `st.bal`, giving `b1`) and
    the destination half of a send. -/
theorem StmtOK.ofSend {env : Env} {s : Stmt} {st st' : State} {b1 : Balances} {f : Funding}
    {new : List Posting} {kept : Int}
    (hd : Delta st.bal b1 (fun a c => - fl a c f))
    (hn : partsNonneg f.parts)
    (hfl : ∀ a c B, a ≠ "world" → 0 ≤ B → st.bal.WF → StmtBound env a c B s → Floor a c B st.bal b1)
    (hfin : FinishOK f { st with bal := b1 } st' new kept) : StmtOK env s st st' new where
  postings := hfin.postings
  hasAcct := hfin.hasAcct.trans hd.hasAcct
  wf := fun h => hfin.wf (hd.wf h)
  track := by
    intro a c v ha hwf hg
    refine ⟨_, hfin.bal a c _ ha (hd.wf hwf) (hd.bal a c v ha hwf hg), ?_⟩
    rw [hfin.saved]; simp; omega
  savedMono := by intro _ a c; rw [hfin.saved]; exact Int.le_refl _
  floor := by
    intro a c B ha hB hwf _ hs hb v hg
    obtain ⟨v1, g1, l1⟩ := hfl a c B ha hB hwf hb v hg
    obtain ⟨v2, g2, l2⟩ := hfin.mono hn a c v1 ha (hd.wf hwf) g1
    refine ⟨v2, g2, ?_⟩
    rw [hfin.saved]; simp; omega
  savedSend := fun _ => hfin.saved
  floorSend := by
    intro _ a c B ha hB hwf hb v hg
    obtain ⟨v1, g1, l1⟩ := hfl a c B ha hB hwf hb v hg
    obtain ⟨v2, g2, l2⟩ := hfin.mono hn a c v1 ha (hd.wf hwf) g1
    exact ⟨v2, g2, by omega⟩

theorem evalStmt_ok {env : Env} {s : Stmt} {st st' : State} (h : evalStmt cfg env s st = .ok st') :
    ∃ new, StmtOK env s st st' new := by
  cases s with
  | print e =>
    simp only [evalStmt] at h
    split at h
    · cases h
    · cases h; exact ⟨[], StmtOK.same env _ st st.txMeta st.accMeta⟩
  | fail => simp [evalStmt] at h
  | setTxMeta k e =>
    simp only [evalStmt] at h
    split at h
    · cases h
    · cases h; exact ⟨[], StmtOK.same env _ st _ st.accMeta⟩
  | setAccountMeta acc k e =>
    simp only [evalStmt] at h
    split at h
    · cases h
    · split at h
      · cases h
      · cases h; exact ⟨[], StmtOK.same env _ st st.txMeta _⟩
  | save mon acc =>
    simp only [evalStmt] at h
    split at h
    · cases h
    · rename_i asset amt hm
      split at h
      · cases h
      · rename_i a0 _
        split at h
        · rename_i bal hb
          cases h
          refine ⟨[], ⟨by simp, rfl, fun hwf => Balances.WF_set hwf (hwf _ _ _ hb), ?_, ?_, ?_,
            (by intro hs; simp [Stmt.isSend] at hs), (by intro hs; simp [Stmt.isSend] at hs)⟩⟩
          · intro a c v _ _ hg
            simp only [Balances.set_get, flowIn, flowOut]
            by_cases hx : a = a0 ∧ c = asset
            · obtain ⟨rfl, rfl⟩ := hx
              rw [hb] at hg; cases hg
              exact ⟨bal - nilAsZero amt, by simp, by simp; omega⟩
            · exact ⟨v, by simp [hx, hg], by simp [hx]⟩
          · intro henv a c
            have := leftmost_amt_nonneg henv mon asset amt hm
            simp only
            split <;> omega
          · intro a c B _ _ _ _ _ _ v hg
            simp only [Balances.set_get]
            by_cases hx : a = a0 ∧ c = asset
            · obtain ⟨rfl, rfl⟩ := hx
              rw [hb] at hg; cases hg
              exact ⟨bal - nilAsZero amt, by simp, by simp; omega⟩
            · exact ⟨v, by simp [hx, hg], by simp [hx]; omega⟩
        · cases h; exact ⟨[], StmtOK.same env _ st st.txMeta st.accMeta⟩
  | saveAll assetE acc =>
    simp only [evalStmt] at h
    split at h
    · cases h
    · rename_i asset _
      split at h
      · cases h
      · rename_i a0 _
        split at h
        · rename_i bal hb
          split at h
          · rename_i hpos
            cases h
            refine ⟨[], ⟨by simp, rfl, fun hwf => Balances.WF_set hwf (hwf _ _ _ hb), ?_, ?_, ?_,
              (by intro hs; simp [Stmt.isSend] at hs), (by intro hs; simp [Stmt.isSend] at hs)⟩⟩
            · intro a c v _ _ hg
              simp only [Balances.set_get, flowIn, flowOut]
              by_cases hx : a = a0 ∧ c = asset
              · obtain ⟨rfl, rfl⟩ := hx
                rw [hb] at hg; cases hg
                exact ⟨0, by simp, by simp; omega⟩
              · exact ⟨v, by simp [hx, hg], by simp [hx]⟩
            · intro _ a c
              simp only
              split <;> omega
            · intro a c B _ _ _ _ _ _ v hg
              simp only [Balances.set_get]
              by_cases hx : a = a0 ∧ c = asset
              · obtain ⟨rfl, rfl⟩ := hx
                rw [hb] at hg; cases hg
                exact ⟨0, by simp, by simp; omega⟩
              · exact ⟨v, by simp [hx, hg], by simp [hx]; omega⟩
          · cases h; exact ⟨[], StmtOK.same env _ st st.txMeta st.accMeta⟩
        · cases h; exact ⟨[], StmtOK.same env _ st st.txMeta st.accMeta⟩
  | send mon src dst =>
    cases src with
    | src s =>
      simp only [evalStmt] at h
      split at h
      · cases h
      · rename_i asset _
        split at h
        · cases h
        · rename_i f b1 hs
          obtain ⟨i1, i2⟩ := evalSource_ok cfg env asset s st.bal f b1 hs
          have hn0 : partsNonneg f.parts := i1.nonneg f (by simp)
          split at h
          · cases h
          · rename_i m _
            split at h
            · cases h
            · rename_i r b2 ht
              obtain ⟨t, _⟩ := takeFromSource_ok ht
              obtain ⟨new, rem, fin, _⟩ := finishSend_ok h
              refine ⟨new, StmtOK.ofSend (f := r) (b1 := b2) ?_ (t.nonneg hn0) ?_ fin⟩
              · exact Delta.trans i1.delta t.delta (by intro a c; simp [inFlight]; omega)
              · intro a c B ha hB hwf hb
                simp only [StmtBound] at hb
                refine (i2 a c B ha hB hwf hb).trans ?_
                exact t.floor a c B ha (i1.delta.wf hwf) hn0
                  (fun e he => fallback_ne env a c B ha s hb e he)
    | allot items =>
      simp only [evalStmt] at h
      split at h
      · cases h
      · rename_i m _
        split at h
        · cases h
        · rename_i al _
          split at h
          · cases h
          · rename_i amt _
            split at h
            · cases h
            · rename_i asset _
              split at h
              · cases h
              · rename_i fs b1 hs
                obtain ⟨i1, _, _, i4⟩ := evalAllotSrc_ok cfg env asset m.1 items _ st.bal fs b1 hs
                split at h
                · cases h
                · rename_i f hasm
                  obtain ⟨a1, a2, _, _⟩ := assemble_ok hasm
                  obtain ⟨new, rem, fin, _⟩ := finishSend_ok h
                  refine ⟨new, StmtOK.ofSend (f := f) (b1 := b1) ?_ (a2 i1.nonneg) ?_ fin⟩
                  · exact i1.delta.congr (by intro a c; rw [a1])
                  · intro a c B ha hB hwf hb
                    simp only [StmtBound] at hb
                    exact i4 a c B ha hB hwf hb
  | sendAll assetE src dst =>
    cases src with
    | src s =>
      simp only [evalStmt] at h
      split at h
      · cases h
      · rename_i asset _
        split at h
        · cases h
        · rename_i f b1 hs
          obtain ⟨i1, i2⟩ := evalSource_ok cfg env asset s st.bal f b1 hs
          have hn0 : partsNonneg f.parts := i1.nonneg f (by simp)
          obtain ⟨new, rem, fin, _⟩ := finishSend_ok h
          refine ⟨new, StmtOK.ofSend (f := f) (b1 := b1) ?_ hn0 ?_ fin⟩
          · exact i1.delta.congr (by intro a c; simp [inFlight])
          · intro a c B ha hB hwf hb
            simp only [StmtBound] at hb
            exact i2 a c B ha hB hwf hb
    | allot items => simp [evalStmt] at h

/-! ### Whole runs -/

def StmtsBound (env : Env) (a c : String) (B : Int) (ss : List Stmt) : Prop :=
  ∀ s ∈ ss, StmtBound env a c B s

/-- What a run of statements guarantees for one tracked pair of a non-world account. -/
theorem runStmts_ok {env : Env} (henv : EnvNonneg env) :
    (ss : List Stmt) → (st st' : State) → runStmts cfg env ss st = .ok st' → st.bal.WF →
    ∃ new, st'.postings = st.postings ++ new ∧ st'.bal.WF ∧
      (∀ a c v, a ≠ "world" → st.bal.get a c = some v →
        ∃ v', st'.bal.get a c = some v' ∧
          v' + st'.saved a c = v + st.saved a c + flowIn a c new - flowOut a c new ∧
          st.saved a c ≤ st'.saved a c ∧
          (∀ B, 0 ≤ B → 0 ≤ st.saved a c → StmtsBound env a c B ss →
            min (v + st.saved a c) (-B) ≤ v' + st'.saved a c))
  | [], st, st', h, hwf => by
    simp only [runStmts] at h
    cases h
    refine ⟨[], by simp, hwf, ?_⟩
    intro a c v _ hg
    exact ⟨v, hg, by simp [flowIn, flowOut], Int.le_refl _, fun B _ _ _ => by omega⟩
  | s :: ss, st, st', h, hwf => by
    simp only [runStmts] at h
    split at h
    · cases h
    · rename_i st1 h1
      obtain ⟨n1, ok1⟩ := evalStmt_ok h1
      obtain ⟨n2, p2, wf2, r2⟩ := runStmts_ok henv ss st1 st' h (ok1.wf hwf)
      refine ⟨n1 ++ n2, by rw [p2, ok1.postings, List.append_assoc], wf2, ?_⟩
      intro a c v ha hg
      obtain ⟨v1, g1, e1⟩ := ok1.track a c v ha hwf hg
      obtain ⟨v2, g2, e2, m2, f2⟩ := r2 a c v1 ha g1
      have m1 := ok1.savedMono henv a c
      refine ⟨v2, g2, ?_, by omega, ?_⟩
      · rw [flowIn_append, flowOut_append]; omega
      · intro B hB hs hb
        obtain ⟨v1', g1', l1⟩ := ok1.floor a c B ha hB hwf henv hs (hb s (by simp)) v hg
        rw [g1] at g1'; cases g1'
        have := f2 B hB (by omega) (fun x hx => hb x (by simp [hx]))
        omega

end Ledger.Machine
