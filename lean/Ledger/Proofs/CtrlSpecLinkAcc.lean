import Ledger.Proofs.CtrlSpecLink
import Ledger.Proofs.CtrlSpec

/-!
Accounts: the dates (`first_usage`, `insertion_date`) of the controller's `accounts`
table follow the Spec's fold `datesOfOps` over the store operations the journal
stands for (C18 at Spec level: `Ledger/Props/C18store.lean`).
-/
namespace Ledger.Ctrl
open Ledger.Base Ledger.Core

def datesS (m : Map String AccSpec) (a : String) : Option (Int × Int) :=
  (m.get? a).map fun r => (r.firstUsage, r.insertionDate)

theorem datesS_insert (m : Map String AccSpec) (k : String) (v : AccSpec) (b : String) :
    datesS (m.insert k v) b = if b = k then some (v.firstUsage, v.insertionDate) else datesS m b := by
  unfold datesS
  by_cases h : b = k
  · subst h; rw [get?_insert_self, if_pos rfl]; rfl
  · rw [get?_insert_ne _ _ _ _ h, if_neg h]

theorem specTouch_dates (schemas : List Schema) (v : String) (ts ins : Time) (accs : Map String AccSpec)
    (address : String) (m : Meta) (b : String) :
    datesS (specTouch schemas v ts ins accs address m) b =
      if b = address then Spec.stepDates ts ins (datesS accs address) else datesS accs b := by
  unfold specTouch
  cases hg : accs.get? address with
  | none =>
    simp only [datesS_insert]
    by_cases hb : b = address
    · simp only [hb, ↓reduceIte, datesS, hg, Option.map_none, Spec.stepDates]
    · simp only [hb, ↓reduceIte]
  | some x =>
    simp only
    by_cases hc : (decide (ts < x.firstUsage) || !metaContains x.metadata m) = true
    · rw [if_pos hc, datesS_insert]
      by_cases hb : b = address
      · simp only [hb, ↓reduceIte, datesS, hg, Option.map_some, Spec.stepDates]
      · simp only [hb, ↓reduceIte]
    · rw [if_neg hc]
      by_cases hb : b = address
      · subst hb
        have hlt : ¬ ts < x.firstUsage := by
          intro h; apply hc; simp [h]
        simp only [↓reduceIte, datesS, hg, Option.map_some, Spec.stepDates, hlt]
      · simp only [hb, ↓reduceIte]

theorem specSave_dates (schemas : List Schema) (v : String) (date : Time) (accs : Map String AccSpec)
    (address : String) (m : Meta) (b : String) :
    datesS (specSave schemas v date accs address m) b =
      if b = address then (match datesS accs address with | none => some (date, date) | some c => some c)
      else datesS accs b := by
  unfold specSave
  cases hg : accs.get? address with
  | none =>
    simp only [datesS_insert]
    by_cases hb : b = address
    · simp only [hb, ↓reduceIte, datesS, hg, Option.map_none]
    · simp only [hb, ↓reduceIte]
  | some x =>
    simp only
    by_cases hc : metaContains x.metadata m = true
    · rw [if_pos hc]
      by_cases hb : b = address
      · subst hb; simp only [↓reduceIte, datesS, hg, Option.map_some]
      · simp only [hb, ↓reduceIte]
    · rw [if_neg hc, datesS_insert]
      by_cases hb : b = address
      · simp only [hb, ↓reduceIte, datesS, hg, Option.map_some]
      · simp only [hb, ↓reduceIte]

theorem touch_fold_dates (schemas : List Schema) (v : String) (ts ins : Time) (mOf : String → Meta)
    (addrs : List String) (accs : Map String AccSpec) (b : String) :
    datesS (addrs.foldl (fun acc a => specTouch schemas v ts ins acc a (mOf a)) accs) b =
      if b ∈ addrs then Spec.stepDates ts ins (datesS accs b) else datesS accs b := by
  induction addrs generalizing accs with
  | nil => simp
  | cons a r ih =>
    simp only [List.foldl_cons]
    rw [ih, specTouch_dates]
    by_cases hba : b = a
    · subst hba
      simp only [↓reduceIte, List.mem_cons, true_or]
      by_cases hr : b ∈ r
      · simp only [hr, ↓reduceIte, Spec.stepDates_idem]
      · simp only [hr, ↓reduceIte]
    · simp only [hba, ↓reduceIte, List.mem_cons, false_or]

theorem mem_accountsToUpsert (ps : List Posting) (am : Map String Meta) (a : String) :
    a ∈ accountsToUpsert ps am ↔ (a ∈ Spec.involvedAccounts ps ∨ a ∈ am.keys) := by
  unfold accountsToUpsert Spec.involvedAccounts
  generalize (ps.foldl (fun (m : Map String Unit) p => (m.insert p.source ()).insert p.destination ()) []) = M
  induction am generalizing M with
  | nil => simp [Map.keys]
  | cons e r ih =>
    simp only [List.foldl_cons]
    rw [ih]
    unfold Map.insert
    rw [Map.keys_insertWith_perm_mem]
    simp only [Map.keys, List.map_cons, List.mem_cons]
    constructor
    · rintro ((h | h) | h)
      · exact Or.inr (Or.inl h)
      · exact Or.inl h
      · exact Or.inr (Or.inr h)
    · rintro (h | h | h)
      · exact Or.inl (Or.inr h)
      · exact Or.inl (Or.inl h)
      · exact Or.inr h

theorem datesStep_eq (a : String) (cur : Option (Int × Int)) (t : Spec.TxIn) :
    Spec.datesStep a cur t = if t.involves a then Spec.stepDates t.timestamp t.insertedAt cur else cur := by
  unfold Spec.datesStep
  split
  · cases cur with
    | none => rfl
    | some p => rfl
  · rfl

/-- One journal entry: the reference reading's account dates move as the Spec's
    `accountEventStep` over the store operations the entry stands for. -/
theorem specStep_dates (st : SpecSt) (l : Log) (a : String) :
    datesS (specStep st l).accounts a = (opsOfLog l).foldl (Spec.accountEventStep a) (datesS st.accounts a) := by
  unfold specStep opsOfLog
  cases hp : l.payload with
  | insertedSchema s => rfl
  | created tx am =>
    simp only [List.foldl_cons, List.foldl_nil, Spec.accountEventStep, datesStep_eq]
    refine (touch_fold_dates _ _ _ _ _ _ _ _).trans ?_
    by_cases h : a ∈ accountsToUpsert tx.postings am
    · rw [if_pos h, if_pos]
      rw [Spec.involves_iff]
      exact ⟨rfl, (mem_accountsToUpsert _ _ _).mp h⟩
    · rw [if_neg h, if_neg]
      rw [Spec.involves_iff]
      rintro ⟨_, h'⟩
      exact h ((mem_accountsToUpsert _ _ _).mpr h')
  | reverted orig rev =>
    simp only [List.foldl_cons, List.foldl_nil, Spec.accountEventStep, datesStep_eq, Spec.TxIn.involves,
      Bool.false_and, Bool.false_eq_true, ↓reduceIte]
  | savedMeta t m =>
    cases t with
    | transaction id => rfl
    | account b =>
      simp only [List.foldl_cons, List.foldl_nil, Spec.accountEventStep]
      rw [specSave_dates]
      by_cases h : a = b
      · subst h; simp only [↓reduceIte]; cases datesS st.accounts a <;> rfl
      · have h' : ¬ b = a := fun e => h e.symm
        simp only [h, h', ↓reduceIte]
  | deletedMeta t key =>
    cases t with
    | transaction id => rfl
    | account b =>
      simp only [List.foldl_nil]
      cases hg : st.accounts.get? b with
      | none => rfl
      | some x =>
        simp only
        rw [datesS_insert]
        by_cases h : a = b
        · subst h; simp only [↓reduceIte, datesS, hg, Option.map_some]
        · simp only [h, ↓reduceIte]

theorem foldl_specStep_dates (logs : List Log) (st : SpecSt) (ops0 : List Spec.StoreOp) (a : String)
    (h : datesS st.accounts a = Spec.datesOfOps ops0 a) :
    datesS (logs.foldl specStep st).accounts a = Spec.datesOfOps (ops0 ++ specOpsOf logs) a := by
  induction logs generalizing st ops0 with
  | nil => simpa [specOpsOf] using h
  | cons l r ih =>
    simp only [List.foldl_cons, specOpsOf, List.flatMap_cons]
    rw [← List.append_assoc]
    apply ih
    rw [specStep_dates, h]
    unfold Spec.datesOfOps
    rw [List.foldl_append]

/-- The reference reading of a journal, on account dates, is the Spec's fold. -/
theorem specOf_dates (logs : List Log) (a : String) :
    datesS (specOf logs).accounts a = Spec.datesOfOps (specOpsOf logs) a := by
  have := foldl_specStep_dates logs {} [] a rfl
  simpa [specOf] using this

theorem datesOfRow_eq_datesS (d : Db) (a : String) : datesOfRow d.accounts a = datesS (projAccounts d) a := by
  unfold datesOfRow datesS
  rw [projAccounts_eq, get?_map]
  cases d.accounts.get? a <;> rfl

/-- In every state whose tables agree with their journal (`SpecOk`, an invariant of
    the controller's histories) the account dates follow the Spec's fold. -/
theorem accounts_follow_spec (d : Db) (h : SpecOk d) (a : String) :
    datesOfRow d.accounts a = Spec.datesOfOps (specOpsOf d.logs) a := by
  rw [datesOfRow_eq_datesS, ← specOf_dates]
  unfold SpecOk at h
  rw [h]
  rfl

end Ledger.Ctrl
