import Ledger.Proofs.SqlTxInsert
import Ledger.Proofs.SqlMovesDrain

/-!
# `insert_transaction_metadata_history` (AFTER INSERT ROW trigger of `transactions`, TRANSACTION_METADATA_HISTORY = SYNC)

The trigger function of `Ledger.Generated.Schema` is `INSERT INTO transactions_metadata (ledger, transactions_id, revision, date, metadata)
VALUES (new.ledger, new.id, 1, new.timestamp, new.metadata); RETURN new`. Run by LeanPG's PL/pgSQL interpreter as a nested command for ANY
NEW row (a well-typed row of `transactions`) on ANY `transactions_metadata` table whose sequence numbers are below the table's sequence:
one row is appended, numbered by the sequence (`exec_runTrigger_insTxMeta`).
-/
open Ledger Ledger.Sql Ledger.Generated Ledger.Core
namespace Ledger.Sql

/-- a row of `transactions_metadata` (column order of `Schema.tbl_transactions_metadata`) -/
structure TmR where
  seq : Int
  ledger : String
  revision : Int
  date : Int
  metadata : JV
  txId : Int

def tmVals (r : TmR) : List Value := [.int r.seq, .text r.ledger, .int r.revision, .ts r.date, .json r.metadata, .int r.txId]

def tmCols : List String := Schema.tbl_transactions_metadata.cols.map (·.name)

def tmFull (b : String) : String := b ++ "." ++ "transactions_metadata"

def tmSeqFull (b : String) : String := b ++ "." ++ "transactions_metadata_seq_seq"

/-- `transactions_metadata` of bucket `b` -/
def tmT (b : String) (nr : Nat) : Table := { Schema.tbl_transactions_metadata with name := tmFull b, nextRid := nr }

/-- the row the trigger writes for the NEW transaction `x`, numbered `q` -/
def tmOf (x : TxR) (q : Int) : TmR := { seq := q, ledger := x.ledger, revision := 1, date := x.timestamp, metadata := x.metadata, txId := x.id }

/-- every stored version is a well-typed row with a sequence number below `bound` -/
def TmAll (bound : Int) (rows : List Ver) : Prop := ∀ r ∈ rows, ∃ y : TmR, r.vals = tmVals y ∧ y.seq < bound

/-- the statement of the trigger function -/
def tmInsertStmt : Stmt :=
  Stmt.insert [] "" "transactions_metadata" "" ["ledger", "transactions_id", "revision", "date", "metadata"]
    (InsertSrc.values [[Expr.col "new" "ledger", Expr.col "new" "id", Expr.int 1, Expr.col "new" "timestamp", Expr.col "new" "metadata"]]) none []

theorem insertTxMeta_body :
    Schema.fn_insert_transaction_metadata_history.body = [PlStmt.exec tmInsertStmt [], PlStmt.ret (some (Expr.col "" "new"))] ∧
    Schema.fn_insert_transaction_metadata_history.decls = [] := ⟨rfl, rfl⟩

/-- the environment of the PL body of a row trigger on `transactions` with NEW = `x` -/
def txPlEnv (x : TxR) (fd : Bool) : Env :=
  { outer := [{ alias := "", cols := ["found"], vals := [.bool fd] }, { alias := "new", cols := txCols, vals := txVals x }] }

theorem lookup_new_tx (x : TxR) (fd : Bool) (c : String) (v : Value) (h : lookupIn txCols (txVals x) c = some v) :
    lookupColumn (txPlEnv x fd) "new" c = .ok v := by
  have e2 : ("" == "new") = false := by decide
  simp [lookupColumn, Env.scopes, txPlEnv, findScope, lastComponent_new, h, e2]
  rfl

def tmInsertCols : List String := ["ledger", "transactions_id", "revision", "date", "metadata"]

def tmSrcRow (x : TxR) : List (Option Value) :=
  [some (.text x.ledger), some (.int x.id), some (.int 1), some (.ts x.timestamp), some (.json x.metadata)]

theorem exec_evalValuesRow_tm (n : Nat) (x : TxR) (fd : Bool) (s : St) :
    (evalValuesRow (n + 1) (txPlEnv x fd) [Expr.col "new" "ledger", Expr.col "new" "id", Expr.int 1, Expr.col "new" "timestamp",
      Expr.col "new" "metadata"]).exec s = (.ok (tmSrcRow x), s) := by
  rw [evalValuesRow]
  have c1 := lookup_new_tx x fd "ledger" (.text x.ledger) rfl
  have c2 := lookup_new_tx x fd "id" (.int x.id) rfl
  have c3 := lookup_new_tx x fd "timestamp" (.ts x.timestamp) rfl
  have c4 := lookup_new_tx x fd "metadata" (.json x.metadata) rfl
  simp only [exec_bind, exec_typeEnv, exec_mapM_cons, List.mapM_nil, evalExpr, c1, c2, c3, c4, exec_liftR_ok, exec_pure, tmSrcRow]

theorem castTo_jsonb_json2 (te : TypeEnv) (j : JV) : castTo te (SqlType.mk "" "jsonb" "" false) (.json j) = .ok (.json j) := by
  simp [castTo, castNonArray, castScalar, isIntType]
  rfl

theorem castTo_ts_ts2 (te : TypeEnv) (d : Int) : castTo te (SqlType.mk "" "timestamp" "" false) (.ts d) = .ok (.ts d) := by
  simp [castTo, castNonArray, castScalar, isIntType]
  rfl

theorem exec_buildRow_tm (n : Nat) (b : String) (nr : Nat) (rows : List Ver) (x : TxR) (s : St)
    (hsch : schemaOf (tmFull b) = b) (sq : Seq) (hsq : s.w.seqs.find? (·.name == tmSeqFull b) = some sq)
    (hr1 : -9223372036854775808 ≤ sq.next) (hr2 : sq.next ≤ 9223372036854775807)
    (hi1 : -9223372036854775808 ≤ x.id) (hi2 : x.id ≤ 9223372036854775807) :
    (buildRow (n + 3) ((tmT b nr).withRows rows) tmInsertCols (tmSrcRow x)).exec s =
      (.ok (tmVals (tmOf x sq.next)), s.withSeqs (seqsSet (tmSeqFull b) sq.next s.w.seqs)) := by
  rw [buildRow]
  have hcols : ((tmT b nr).withRows rows).cols = Schema.tbl_transactions_metadata.cols := rfl
  have hnames : ((tmT b nr).withRows rows).colNames = tmCols := rfl
  have hfind : tmInsertCols.find? (fun c => !(tmCols.contains c)) = none := by decide
  have hlen : (tmInsertCols.length != (tmSrcRow x).length) = false := rfl
  simp only [exec_bind, exec_typeEnv, hlen, Bool.false_eq_true, if_false, hnames, hfind, hcols, Schema.tbl_transactions_metadata]
  have g0 : (tmInsertCols.zip (tmSrcRow x)).lookup "seq" = none := rfl
  have g1 : (tmInsertCols.zip (tmSrcRow x)).lookup "ledger" = some (some (.text x.ledger)) := rfl
  have g2 : (tmInsertCols.zip (tmSrcRow x)).lookup "revision" = some (some (.int 1)) := rfl
  have g3 : (tmInsertCols.zip (tmSrcRow x)).lookup "date" = some (some (.ts x.timestamp)) := rfl
  have g4 : (tmInsertCols.zip (tmSrcRow x)).lookup "metadata" = some (some (.json x.metadata)) := rfl
  have g5 : (tmInsertCols.zip (tmSrcRow x)).lookup "transactions_id" = some (some (.int x.id)) := rfl
  have hname : ((tmT b nr).withRows rows).name = tmFull b := rfl
  have hnv : (evalExpr (cbs (n + 2)) s.w.types {} (Expr.call "" "nextval" [Expr.str "transactions_metadata_seq_seq"])).exec (s.withSP b) =
      (.ok (.int sq.next), (s.withSP b).withSeqs (seqsSet (tmSeqFull b) sq.next s.w.seqs)) := by
    have hpure : evalPureFn "nextval" [Value.text "transactions_metadata_seq_seq"] = none := rfl
    have hcall : (cbs (n + 2)).call "" "nextval" [Value.text "transactions_metadata_seq_seq"] =
        callFunc (n + 1) "" "nextval" [Value.text "transactions_metadata_seq_seq"] := rfl
    have hb : callBuiltin "nextval" [Value.text "transactions_metadata_seq_seq"] =
        some (do return .int (← seqNext (← seqName (Value.text "transactions_metadata_seq_seq").toText))) := rfl
    have hsn : (seqName (Value.text "transactions_metadata_seq_seq").toText).exec (s.withSP b) = (.ok (tmSeqFull b), s.withSP b) := by
      have e1 : unquoteQualified (Value.text "transactions_metadata_seq_seq").toText = "transactions_metadata_seq_seq" := by decide
      have e2 : (firstDotted "transactions_metadata_seq_seq").isEmpty = true := by decide
      simp [seqName, e1, e2, qualify, tmSeqFull]
    rw [evalExpr_call _ _ _ _ _ _ (by decide)]
    simp only [evalExpr, evalExprs, exec_bind, exec_pure, hpure, hcall,
      show (("" : String).isEmpty || "" == "public" || "" == "pg_catalog") = true from by decide, if_true]
    rw [callFunc]
    simp only [show (("" : String).isEmpty || "" == "public" || "" == "pg_catalog") = true from by decide, if_true, hb, exec_bind, hsn,
      exec_seqNext (tmSeqFull b) (s.withSP b) sq hsq, exec_pure]
    rfl
  have hnv' := exec_withSearchPath b _ s _ _ hnv
  simp only [exec_mapM_cons, g0, g1, g2, g3, g4, g5, hname, hsch, exec_bind, hnv']
  simp only [castTo_int8 _ sq.next hr1 hr2, castTo_varchar_text, castTo_numeric_int, castTo_ts_ts2, castTo_jsonb_json2,
    castTo_int8 _ x.id hi1 hi2, exec_liftR_ok, List.mapM_nil, exec_pure]
  rfl

theorem exec_checkConstraints_tm (b : String) (nr : Nat) (rows : List Ver) (y : TmR) (s : St) :
    (checkConstraints ((tmT b nr).withRows rows) (tmVals y)).exec s = (.ok (), s) := by
  simp [checkConstraints, tmT, Table.withRows, Schema.tbl_transactions_metadata, notNullViolation, Value.isNull, checkChecks, tmVals,
    exec_bind, evalExpr, rowScope, Table.colNames, lookupColumn, Env.scopes, lookupUnqualified, lookupIn, Value.truth]

theorem exec_checkForeignKeys_tm (b : String) (nr : Nat) (rows : List Ver) (vals : List Value) (s : St) :
    (checkForeignKeys ((tmT b nr).withRows rows) vals).exec s = (.ok (), s) := by
  simp [checkForeignKeys, tmT, Table.withRows, Schema.tbl_transactions_metadata, checkForeignKeysOf]

def tmIdx : UniqueIdx := { name := "transactions_metadata_pkey", cols := ["seq"], pred := none, primary := true }

theorem tmT_uniques (b : String) (nr : Nat) (rows : List Ver) : ((tmT b nr).withRows rows).uniques = [tmIdx] := rfl

theorem exec_keyMatches_tm (b : String) (nr : Nat) (rows : List Ver) (q : Int) (y : TmR) (r : Ver) (hr : r.vals = tmVals y) (s : St) :
    (keyMatches ((tmT b nr).withRows rows) tmIdx [.int q] r).exec s = (.ok (decide (y.seq = q)), s) := by
  have hk : keyOf ((tmT b nr).withRows rows) tmIdx.cols r.vals = [.int y.seq] := by rw [hr]; rfl
  simp only [keyMatches, hk, exec_bind, sameGroupKey_int1, exec_liftR_ok]
  by_cases h : y.seq = q <;> simp [h, predHolds, tmIdx]

/-- no primary-key violation when every stored sequence number is smaller -/
theorem exec_findConflict_tm_none (b : String) (nr : Nat) (rows : List Ver) (y : TmR) (s : St) (hsolo : ∀ z ∈ s.w.active, z = s.xid)
    (hall : TmAll y.seq rows) :
    (findConflict ((tmT b nr).withRows rows) [tmIdx] (tmVals y) none).exec s = (.ok none, s) := by
  have hk : keyOf ((tmT b nr).withRows rows) tmIdx.cols (tmVals y) = [.int y.seq] := rfl
  have hs1 : (scanConflict ((tmT b nr).withRows rows) tmIdx [.int y.seq] none (latestView s.w s.xid) s.xid s.w.active rows).exec s =
      (.ok none, s) := by
    rw [exec_scanConflict_gen _ tmIdx _ none _ s.xid s.w.active hsolo s (fun _ => false) rows (by
        intro r hr _ _
        obtain ⟨y', hv, hlt⟩ := hall r hr
        rw [exec_keyMatches_tm b nr rows y.seq y' r hv s]
        have : ¬ (y'.seq = y.seq) := by omega
        simp [this])]
    simp
  have hp1 : (predHolds ((tmT b nr).withRows rows) tmIdx.pred (tmVals y)).exec s = (.ok true, s) := by
    simp [predHolds, tmIdx]
  have hrows : ((tmT b nr).withRows rows).rows = rows := rfl
  rw [findConflict]
  simp only [exec_bind, hp1, Bool.not_true, Bool.false_eq_true, if_false, hk, List.any, Value.isNull, Bool.or_false,
    exec_get, hrows, hs1]
  simp [findConflict]

/-- what the trigger needs of the state: `transactions_metadata` and its sequence -/
structure TmState (s : St) (b : String) (nr : Nat) (rows : List Ver) (sq : Seq) : Prop where
  table : s.w.table? (tmFull b) = some ((tmT b nr).withRows rows)
  seq : s.w.seqs.find? (·.name == tmSeqFull b) = some sq
  all : TmAll sq.next rows
  lo : 0 ≤ sq.next
  hi : sq.next ≤ 9223372036854775807

/-- the INSERT of the trigger function, as a statement -/
theorem exec_execStmt_tmInsert (p : Nat) (b : String) (x : TxR) (fd : Bool) (nr : Nat) (rows : List Ver) (sq : Seq) (s : St)
    (hs : TxState s) (hsp : s.searchPath = b) (hsch : schemaOf (tmFull b) = b) (hst : TmState s b nr rows sq)
    (hi1 : -9223372036854775808 ≤ x.id) (hi2 : x.id ≤ 9223372036854775807) :
    (execStmt (p + 6) (txPlEnv x fd) tmInsertStmt).exec s =
      (.ok { rel := { cols := [], rows := [] }, affected := 1 },
       (s.withSeqs (seqsSet (tmSeqFull b) sq.next s.w.seqs)).withTable
         ((tmT b (nr + 1)).withRows (newVer s.xid s.cid nr (tmVals (tmOf x sq.next)) :: rows))) := by
  have hq : (qualify "" "transactions_metadata").exec s = (.ok (tmFull b), s) := by simp [qualify, hsp, tmFull, exec_bind]
  have hvals := exec_evalValuesRow_tm (p + 3) x fd s
  have hbuild := exec_buildRow_tm p b nr rows x s hsch sq hst.seq (by have := hst.lo; omega) hst.hi hi1 hi2
  simp only [tmInsertCols] at hbuild
  have hT1 : (s.withSeqs (seqsSet (tmSeqFull b) sq.next s.w.seqs)).w.table? (tmFull b) = some ((tmT b nr).withRows rows) := hst.table
  have hfire : (fireBefore (p + 3) ((tmT b nr).withRows rows) .insert [] (some (tmVals (tmOf x sq.next))) none).exec
      (s.withSeqs (seqsSet (tmSeqFull b) sq.next s.w.seqs)) =
      (.ok (some (tmVals (tmOf x sq.next))), s.withSeqs (seqsSet (tmSeqFull b) sq.next s.w.seqs)) := by
    apply exec_fireBefore_noneApply
    intro tr htr
    have := mem_sortTriggers htr
    simp [tmT, Table.withRows, Schema.tbl_transactions_metadata] at this
  have hconf := exec_findConflict_tm_none b nr rows (tmOf x sq.next) (s.withSeqs (seqsSet (tmSeqFull b) sq.next s.w.seqs)) hs.solo hst.all
  have hins : (insertVersion (tmFull b) (tmVals (tmOf x sq.next))).exec (s.withSeqs (seqsSet (tmSeqFull b) sq.next s.w.seqs)) =
      (.ok nr, (s.withSeqs (seqsSet (tmSeqFull b) sq.next s.w.seqs)).withTable
        ((tmT b (nr + 1)).withRows (newVer s.xid s.cid nr (tmVals (tmOf x sq.next)) :: rows))) :=
    exec_insertVersion hT1 _
  have hT2 : ((s.withSeqs (seqsSet (tmSeqFull b) sq.next s.w.seqs)).withTable
      ((tmT b (nr + 1)).withRows (newVer s.xid s.cid nr (tmVals (tmOf x sq.next)) :: rows))).w.table? (tmFull b) =
      some ((tmT b (nr + 1)).withRows (newVer s.xid s.cid nr (tmVals (tmOf x sq.next)) :: rows)) :=
    withTable_table? _ ((tmT b nr).withRows rows) _ hT1
  have hqa := exec_queueAfter_none (p + 2) ((tmT b (nr + 1)).withRows (newVer s.xid s.cid nr (tmVals (tmOf x sq.next)) :: rows)) .insert []
    (some (tmVals (tmOf x sq.next))) none ((s.withSeqs (seqsSet (tmSeqFull b) sq.next s.w.seqs)).withTable
      ((tmT b (nr + 1)).withRows (newVer s.xid s.cid nr (tmVals (tmOf x sq.next)) :: rows))) (by rfl)
  rw [tmInsertStmt, execStmt, evalCtes]
  · simp only [exec_bind, exec_pure]
    rw [execInsert]
    have hctes : (txPlEnv x fd).ctes.lookup "transactions_metadata" = none := rfl
    simp only [show ("" : String).isEmpty = true from by decide, if_true, hctes, exec_bind, hq, exec_getTable hst.table, exec_mapM_cons,
      List.mapM_nil, hvals, exec_pure, List.isEmpty_cons, Bool.false_eq_true, if_false, exec_foldlM_cons, List.foldlM_nil]
    rw [insertRowStep]
    simp only [exec_bind, exec_getTable hst.table, hbuild, hfire, exec_getTable hT1, exec_checkConstraints_tm, exec_pure, tmT_uniques,
      hconf, exec_checkForeignKeys_tm, hins, exec_getTable hT2, hqa]
    rw [accReturning]
    simp only [List.isEmpty_nil, if_true, exec_pure, Bool.true_and, Bool.not_true, Bool.and_false, Bool.false_eq_true, if_false]
  · intro h; omega

theorem exec_ret_new_tx (cb : Callbacks) (te : TypeEnv) (x : TxR) (fd : Bool) (s : St) :
    (withNewCid (evalExpr cb te (txPlEnv x fd) (Expr.col "" "new"))).exec s = (.ok (.row txCols (txVals x)), s.bump 1) := by
  have h : (evalExpr cb te (txPlEnv x fd) (Expr.col "" "new")).exec s.enter = (.ok (.row txCols (txVals x)), s.enter) := by
    simp only [evalExpr]
    rfl
  have := exec_withNewCid _ s _ _ h
  rw [enter_withCid] at this
  exact this

/-- **the trigger**, run for NEW = `x` -/
theorem exec_runTrigger_insTxMeta (k : Nat) (b fname : String) (x : TxR) (f : PlFunc) (hdecls : f.decls = [])
    (hbody : f.body = [PlStmt.exec tmInsertStmt [], PlStmt.ret (some (Expr.col "" "new"))])
    (s : St) (hs : TxState s) (hf : s.w.funcs.lookup fname = some f) (hschema : schemaOf fname = b) (hsch : schemaOf (tmFull b) = b)
    (hnc : s.nextCid + 2 ≤ 1000000000) (t : Table) (htc : t.cols = Schema.tbl_transactions.cols)
    (nr : Nat) (rows : List Ver) (sq : Seq) (hst : TmState s b nr rows sq)
    (hi1 : -9223372036854775808 ≤ x.id) (hi2 : x.id ≤ 9223372036854775807) :
    (runTrigger (k + 10) fname t (some (txVals x)) none).exec s =
      (.ok (some (txVals x)), ((s.withSeqs (seqsSet (tmSeqFull b) sq.next s.w.seqs)).bump 2).withTable
        ((tmT b (nr + 1)).withRows (newVer s.xid s.nextCid nr (tmVals (tmOf x sq.next)) :: rows))) := by
  have hs1 : TxState (s.withSP b).enter.clearQ := ((hs.withSP b).enter (by simp; omega)).clearQ
  have hst1 : TmState (s.withSP b).enter.clearQ b nr rows sq := ⟨hst.table, hst.seq, hst.all, hst.lo, hst.hi⟩
  have hins := exec_execStmt_tmInsert k b x false nr rows sq (s.withSP b).enter.clearQ hs1 rfl hsch hst1 hi1 hi2
  have hrun := exec_runStmt_noAfter' (k + 5) _ _ (s.withSP b).enter _ _ hins rfl
  have hcmd := exec_withNewCid _ (s.withSP b) _ _ hrun
  have henv : ∀ nv : List Value, ∀ fd : Bool, nv = txVals x →
      ({ vars := [], tcols := t.cols, new := some nv, found := fd } : PlSt).env = txPlEnv x fd := by
    intro nv fd e; subst e; simp [PlSt.env, txPlEnv, htc, txCols]
  rw [runTrigger]
  simp only [exec_bind, exec_getW, hf, exec_typeEnv]
  rw [exec_withSearchPath (schemaOf fname) _ s (((s.withSP b).withSeqs (seqsSet (tmSeqFull b) sq.next s.w.seqs)).bump 2 |>.withTable
    ((tmT b (nr + 1)).withRows (newVer s.xid s.nextCid nr (tmVals (tmOf x sq.next)) :: rows))) (some (txVals x))]
  · rfl
  · rw [hschema]
    simp only [hdecls, List.foldlM_nil, exec_bind, exec_pure, hbody]
    rw [execPl]
    simp only [exec_bind]
    rw [execPlStmt]
    simp only [exec_bind, exec_typeEnv, withSP_w, henv _ _ rfl]
    simp only [hcmd, List.isEmpty_nil, if_true, exec_bind, exec_pure]
    rw [execPl]
    simp only [exec_bind]
    rw [execPlStmt]
    simp only [exec_bind, exec_typeEnv, henv _ _ rfl, exec_ret_new_tx, exec_pure]
    rfl

end Ledger.Sql
