import Ledger.Proofs.CtrlRetry

/-!
Faults surface.  (1) A failing COMMIT is always answered with an error and
nothing is kept, for every write kind and through `recordedOutcome`.  (2) A
non-retryable injected fault (generic error, cancelled context) either makes the
operation answer an error, or had no influence at all (it never fired, or hit a
`Rollback` whose failure is only logged): state and response are exactly those of
the fault-free run.
-/
namespace Ledger.Ctrl
open Ledger.Base Ledger.Core

/-! ### commit failure -/

/-- Tables untouched and the answer is an error, a hit, or a dry run. -/
def Outcome.NoEffect (o : Outcome) (s : State) (dry : Bool) : Prop :=
  o.state.db = s.db ∧ (o.resp.err.isSome = true ∨ o.resp.hit = true ∨ dry = true)

theorem finish_commitFault (s : State) (st : RunSt) (h : String) (f : Faults) (dry : Bool) (log : Log) :
    (finish s st h f true dry log).NoEffect s dry := by
  unfold finish
  cases dry with
  | true => exact ⟨rfl, Or.inr (Or.inr rfl)⟩
  | false =>
    rw [if_neg Bool.false_ne_true]
    unfold commitOrFail
    split
    · exact ⟨rfl, Or.inl rfl⟩
    · exact ⟨rfl, Or.inl rfl⟩

theorem recordedOutcome_noEffect (op : Op) (f : Faults) (s : State) (n : Nat) (o : Outcome)
    (h : o.state.db = s.db) (he : o.resp.err.isSome = true) : (recordedOutcome op f s n o).NoEffect s op.dry := by
  refine ⟨by rw [recordedOutcome_state]; exact h, ?_⟩
  exact (recordedOutcome_why op f s n o he).elim Or.inl (fun x => Or.inr (Or.inl x))

theorem runTx_commitFault (strict : Bool) (op : Op) (f : Faults) (s : State) (i tx : Nat) (seq : Seqs) (n : Nat)
    (trace : List String) (o : Outcome) (h : runTx strict op f true s i tx seq n trace = .done o) :
    o.NoEffect s op.dry := by
  unfold runTx at h
  simp only at h
  split at h
  · cases h
  · split at h
    · split at h
      · simp only [TxResult.done.injEq] at h; rw [← h]; exact ⟨rfl, Or.inl rfl⟩
      · cases h
    · by_cases hd : op.dry = true
      · rw [if_pos hd] at h
        simp only [TxResult.done.injEq] at h; rw [← h]; exact ⟨rfl, Or.inr (Or.inr hd)⟩
      · rw [if_neg hd] at h
        split at h
        · cases h
        · simp only [↓reduceIte] at h; cases h

theorem retryLoop_commitFault (strict : Bool) (op : Op) (f : Faults) (s : State) (fuel i tx : Nat) (seq : Seqs) (n : Nat)
    (trace : List String) : (retryLoop strict op f true s fuel i tx seq n trace).NoEffect s op.dry := by
  induction fuel generalizing i tx seq n trace with
  | zero => exact ⟨rfl, Or.inl rfl⟩
  | succ fuel ih =>
    unfold retryLoop
    cases hr : runTx strict op f true s i tx seq n trace with
    | done o => exact runTx_commitFault strict op f s i tx seq n trace o hr
    | failed e seq' n' trace' =>
      simp only
      split
      · exact ih _ _ _ _ _
      · split
        · obtain ⟨hst, hw⟩ := fetchAfterConflict_ending op f s seq' (n' + 1) trace'
          exact ⟨by rw [hst], hw.elim Or.inl (fun x => Or.inr (Or.inl x))⟩
        · exact recordedOutcome_noEffect op f s (n' + 1) _ rfl rfl

/-- A failing COMMIT — on the first attempt or on any retried one, whatever other
    faults are planned — is never answered with a committed write: the tables are
    as before and the answer is an error (or the write was a hit / a dry run, which
    never reach COMMIT). -/
theorem forgeLog_commitFault (strict : Bool) (op : Op) (f : Faults) (s : State) :
    (forgeLog strict op f true s).NoEffect s op.dry := by
  unfold forgeLog
  split
  · exact ⟨rfl, Or.inl rfl⟩
  · split
    · exact ⟨rfl, Or.inl rfl⟩
    · exact ⟨rfl, Or.inr (Or.inl rfl)⟩
    · split
      · split
        · exact retryLoop_commitFault strict op f s _ _ _ _ _ _
        · rename_i e st2 _ _
          obtain ⟨hu, _, hw⟩ := failedThenRecorded_unchanged op s st2 "t1" f e
          exact ⟨hu, hw.elim Or.inl (fun x => Or.inr (Or.inl x))⟩
      · exact finish_commitFault s _ "t1" f op.dry _

/-! ### non-retryable faults surface -/

/-- Every planned fault is a generic error or a cancelled context. -/
def NonRetry (f : Faults) : Prop := ∀ x ∈ f, x.kind = .error ∨ x.kind = .cancel

/-- Two runner states that agree on everything but the trace. -/
def Sim (a b : RunSt) : Prop := a.db = b.db ∧ a.seq = b.seq ∧ a.n = b.n

theorem nonRetry_fires (f : Faults) (hnr : NonRetry f) (m : Nat) (k : FaultKind) (h : fires f m = some k) :
    k = .error ∨ k = .cancel := by
  obtain ⟨x, hx, rfl⟩ := fires_mem f m k h
  exact hnr x hx

/-- Running under a plan of non-retryable faults: a fault fired (the program failed
    with it), or the run is the fault-free run. -/
theorem run_fault_or_same {α : Type} (now : Time) (hn : String) (f : Faults) (hnr : NonRetry f) (p : Prog α)
    (st st0 : RunSt) (hs : Sim st st0) :
    (∃ k : FaultKind, (k = .error ∨ k = .cancel) ∧ (run now hn f p st).1 = .error (.store k.err)) ∨
    ((run now hn f p st).1 = (run now hn [] p st0).1 ∧ Sim (run now hn f p st).2 (run now hn [] p st0).2) := by
  induction p generalizing st st0 with
  | pure a => exact Or.inr ⟨rfl, hs⟩
  | fail e => exact Or.inr ⟨rfl, hs⟩
  | call c k ih =>
    obtain ⟨hd, hq, hnn⟩ := hs
    simp only [run, fires_nil]
    cases hf : fires f (st.n + 1) with
    | some kind => exact Or.inl ⟨kind, nonRetry_fires f hnr _ _ hf, rfl⟩
    | none =>
      simp only
      rw [← hd, ← hq]
      cases hex : exec now c st.db st.seq with
      | mk sq r =>
        cases r with
        | error e => exact Or.inr ⟨rfl, rfl, rfl, by simp only; rw [hnn]⟩
        | ok x =>
          obtain ⟨r, d⟩ := x
          simp only
          exact ih r _ _ ⟨rfl, rfl, by simp only; rw [hnn]⟩

/-- What the fault-free key lookup says about the tables. -/
theorem ikLookup_none_absent (now : Time) (hn : String) (ik ihash : String) (st st' : RunSt)
    (h : run now hn [] (ikLookup ik ihash) st = (.ok none, st')) : ik = "" ∨ readLogWithIK ik st.db = none := by
  unfold ikLookup at h
  by_cases hk : ik = ""
  · exact Or.inl hk
  · right
    rw [if_neg hk] at h
    simp only [run, fires_nil, exec] at h
    cases hr : readLogWithIK ik st.db with
    | none => rfl
    | some log =>
      rw [hr] at h
      simp only at h
      split at h
      · simp only [run, Prod.mk.injEq] at h; exact nomatch h.1
      · simp only [run, Prod.mk.injEq, Except.ok.injEq] at h; exact nomatch h.1

theorem recordedOutcome_absent (op : Op) (f : Faults) (s : State) (n : Nat) (o : Outcome)
    (habs : op.ik = "" ∨ readLogWithIK op.ik s.db = none) (he : o.resp.err.isSome = true) :
    (recordedOutcome op f s n o).resp.err.isSome = true := by
  unfold recordedOutcome
  rcases habs with hk | hk
  · rw [if_pos hk]; exact he
  · split
    · exact he
    · split
      · exact he
      · split
        · exact he
        · rw [hk]; exact he

theorem kind_not_retryable (k : FaultKind) (h : k = .error ∨ k = .cancel) :
    ¬ ((Err.store k.err = .store .deadlock) ∨ (Err.store k.err = .store .ikConflict)) ∧ Err.store k.err ≠ .panic := by
  rcases h with rfl | rfl
  · refine ⟨?_, ?_⟩
    · rintro (hh | hh) <;> cases hh
    · intro hh; cases hh
  · refine ⟨?_, ?_⟩
    · rintro (hh | hh) <;> cases hh
    · intro hh; cases hh

/-- **Faults surface.** Under any plan of non-retryable faults (generic errors,
    cancelled contexts — at any store calls, `BeginTX`, `Commit`, `Rollback` and
    the `recordedOutcome` lookup included) a write either answers an error, or its
    state and its response are exactly those of the fault-free run: a fault is never
    silently turned into a different successful answer or a different effect. -/
theorem fault_surfaces_or_harmless (strict : Bool) (op : Op) (f : Faults) (cf : Bool) (s : State) (hnr : NonRetry f) :
    (forgeLog strict op f cf s).resp.err.isSome = true ∨
    ((forgeLog strict op f cf s).state = (forgeLog strict op [] cf s).state ∧
     (forgeLog strict op f cf s).resp = (forgeLog strict op [] cf s).resp) := by
  unfold forgeLog
  simp only [fires_nil]
  cases hf1 : fires f 1 with
  | some kind => exact Or.inl rfl
  | none =>
    simp only
    have hsim0 : Sim ({ db := s.db, seq := s.seq, n := 1, trace := ["root BeginTX"] } : RunSt)
        { db := s.db, seq := s.seq, n := 1, trace := ["root BeginTX"] } := ⟨rfl, rfl, rfl⟩
    rcases run_fault_or_same op.now "t1" f hnr (ikLookup op.ik op.ihash) _ _ hsim0 with ⟨k, _, hk⟩ | ⟨hres, hsim⟩
    · -- the key lookup was hit
      generalize run op.now "t1" f (ikLookup op.ik op.ihash) _ = r1 at hk
      obtain ⟨r1, st1⟩ := r1
      simp only at hk
      subst hk
      exact Or.inl rfl
    · have habs0 := ikLookup_none_absent op.now "t1" op.ik op.ihash
        { db := s.db, seq := s.seq, n := 1, trace := ["root BeginTX"] }
      generalize run op.now "t1" f (ikLookup op.ik op.ihash) _ = r1 at hres hsim
      generalize hr0 : run op.now "t1" [] (ikLookup op.ik op.ihash) _ = r0 at hres hsim habs0
      obtain ⟨r1, st1⟩ := r1
      obtain ⟨r0, st0⟩ := r0
      simp only at hres hsim
      subst hres
      cases r1 with
      | error e => exact Or.inl rfl
      | ok lg =>
        cases lg with
        | some l =>
          right
          exact ⟨by simp only [rolledBack]; rw [hsim.2.1], rfl⟩
        | none =>
          have habs := habs0 st0 rfl
          simp only at habs
          simp only
          rcases run_fault_or_same op.now "t1" f hnr (runLog strict op.kind op.ik op.ihash op.sv 1) st1 st0 hsim
            with ⟨k, hkk, hk⟩ | ⟨hres2, hsim2⟩
          · -- a fault fired inside runLog: not retryable, ends in recordedOutcome
            generalize run op.now "t1" f (runLog strict op.kind op.ik op.ihash op.sv 1) st1 = r2 at hk
            obtain ⟨r2, st2⟩ := r2
            simp only at hk
            subst hk
            simp only
            obtain ⟨hnret, hnp⟩ := kind_not_retryable k hkk
            rw [if_neg hnret]
            left
            unfold failedThenRecorded
            rw [if_neg hnp]
            exact recordedOutcome_absent op f s _ _ habs (failedAttempt_isError ..)
          · generalize run op.now "t1" f (runLog strict op.kind op.ik op.ihash op.sv 1) st1 = r2 at hres2 hsim2
            generalize hr20 : run op.now "t1" [] (runLog strict op.kind op.ik op.ihash op.sv 1) st0 = r20 at hres2 hsim2
            obtain ⟨r2, st2⟩ := r2
            obtain ⟨r20, st20⟩ := r20
            simp only at hres2 hsim2
            subst hres2
            cases r2 with
            | error e =>
              simp only
              -- the fault-free run never ends in a retryable error
              have hnotretry : ¬ (e = .store .deadlock ∨ e = .store .ikConflict) := by
                rintro (rfl | rfl)
                · have := run_deadlock_origin op.now "t1" [] _ (runLog_clean strict op.kind op.ik op.ihash op.sv 1) st0 st20 hr20
                  rw [fires_nil] at this
                  cases this.1
                · have hfound := runLog_conflict_log_found op.now "t1" [] strict op.kind op.ik op.ihash op.sv 1 st0 st20
                    (fun x hx => nomatch hx) hr20
                  have hdb : st0.db = s.db := by
                    have := run_ikLookup_db op.now "t1" [] op.ik op.ihash
                      { db := s.db, seq := s.seq, n := 1, trace := ["root BeginTX"] }
                    rw [hr0] at this; exact this.1
                  rw [hdb] at hfound
                  rcases habs with hk | hk
                  · unfold readLogWithIK at hfound; rw [if_pos hk] at hfound; cases hfound
                  · rw [hk] at hfound; cases hfound
              rw [if_neg hnotretry, if_neg hnotretry]
              left
              unfold failedThenRecorded
              split
              · exact failedAttempt_isError ..
              · exact recordedOutcome_absent op f s _ _ habs (failedAttempt_isError ..)
            | ok log =>
              simp only
              unfold finish
              cases op.dry with
              | true =>
                right
                exact ⟨by simp only [↓reduceIte, rolledBack]; rw [hsim2.2.1], rfl⟩
              | false =>
                simp only [Bool.false_eq_true, ↓reduceIte]
                unfold commitOrFail
                rw [fires_nil, hsim2.2.2]
                cases hfc : fires f (st20.n + 1) with
                | some kind => exact Or.inl rfl
                | none =>
                  simp only
                  cases cf with
                  | true => exact Or.inl rfl
                  | false =>
                    right
                    simp only [Bool.false_eq_true, ↓reduceIte]
                    exact ⟨by rw [hsim2.1, hsim2.2.1], trivial⟩

end Ledger.Ctrl
