import Ledger.Proofs.MachineBC1

/-! Stage (f), part 2: the statements without funds (`print`, `fail`, `set_tx_meta`,
    `set_account_meta`, `save`). -/
namespace Ledger.Machine

/-! ### Steps -/

theorem seqA_cons {a : Act} {as : List Act} {cs cs' : CS} (h : seqA (a :: as) cs = .ok cs') :
    ∃ cs1, a cs = .ok cs1 ∧ seqA as cs1 = .ok cs' := by
  simp only [seqA] at h
  split at h
  · cases h
  · rename_i cs1 h1; exact ⟨cs1, h1, h⟩

theorem seqA_nil {cs cs' : CS} (h : seqA [] cs = .ok cs') : cs' = cs := by
  simp only [seqA] at h; cases h; rfl

/-- A compile step: the state grows by a segment, `needed` is untouched. -/
structure StepOK (cs cs' : CS) (seg : List Instr) : Prop where
  ext : Ext cs cs' seg
  needed : cs'.needed = cs.needed

theorem StepOK.trans {a b c : CS} {s1 s2 : List Instr} (h1 : StepOK a b s1) (h2 : StepOK b c s2) :
    StepOK a c (s1 ++ s2) := ⟨h1.ext.trans h2.ext, h2.needed.trans h1.needed⟩

theorem emitOp_ok {c : Nat} {cs cs' : CS} (h : emitOp c cs = .ok cs') : StepOK cs cs' [.op c] ∧ cs'.res = cs.res := by
  simp only [emitOp] at h; cases h
  exact ⟨⟨⟨rfl, ⟨[], by simp⟩, rfl⟩, rfl⟩, rfl⟩

theorem emitPush_ok {a : Nat} {cs cs' : CS} (h : emitPush a cs = .ok cs') :
    StepOK cs cs' [.apush a] ∧ cs'.res = cs.res := by
  simp only [emitPush] at h; cases h
  exact ⟨⟨⟨rfl, ⟨[], by simp⟩, rfl⟩, rfl⟩, rfl⟩

theorem pushConst_ok {c : CValue} {cs cs' : CS} (h : pushConst c cs = .ok cs') :
    ∃ a, StepOK cs cs' [.apush a] ∧ cs'.res[a]? = some (.const c) := by
  simp only [pushConst] at h
  split at h
  · cases h
  · rename_i a cs1 hal
    obtain ⟨e1, hres, hnd⟩ := allocConst_ok hal
    obtain ⟨p1, p2⟩ := emitPush_ok h
    refine ⟨a, ⟨by simpa using e1.trans p1.ext, p1.needed.trans hnd⟩, by rw [p2]; exact hres⟩

theorem pushExpr_ok {ds : Decls} {env : Env} (henv : EnvTyped ds env) {e : Expr} {ty : Ty}
    (ht : typeExpr ds e = .ok ty) {cs cs' : CS} (hv : VarsInv ds cs) (h : pushExpr e cs = .ok cs') :
    ∃ seg oa, StepOK cs cs' seg ∧ ExprCode env e true oa cs' seg := by
  simp only [pushExpr] at h
  split at h
  · cases h
  · rename_i r cs1 hc
    cases h
    obtain ⟨t, oa⟩ := r
    obtain ⟨seg, e1, n1, _, c1⟩ := cExpr_ok ds env henv e true cs t oa cs' ty hc ht hv
    exact ⟨seg, oa, ⟨e1, n1⟩, c1⟩

theorem pushAddrOf_ok {ds : Decls} {env : Env} (henv : EnvTyped ds env) {e : Expr} {ty : Ty}
    (ht : typeExpr ds e = .ok ty) {cs cs' : CS} (hv : VarsInv ds cs) (h : pushAddrOf e cs = .ok cs') :
    ∃ a, StepOK cs cs' [.apush a] ∧
      ∀ R resv, Final cs' R → Resolved env R resv → ∃ v, resv[a]? = some v ∧ evalExpr env e.leftmost = .ok v := by
  simp only [pushAddrOf, cExprAddr] at h
  split at h
  · cases h
  · rename_i a cs1 hca
    split at hca
    · cases hca
    · rename_i t0 a0 cs0 hc
      cases hca
      obtain ⟨seg, e1, n1, _, c1⟩ := cExpr_ok ds env henv e false cs t0 (some a) cs1 ty hc ht hv
      have : seg = [] := c1.nopush rfl
      subst this
      obtain ⟨p1, p2⟩ := emitPush_ok h
      refine ⟨a, ⟨by simpa using e1.trans p1.ext, p1.needed.trans n1⟩, ?_⟩
      intro R resv hf hr
      exact c1.addr R resv (Final.of_ext p1.ext hf) hr a rfl
    · cases hca

theorem account_typed_eval {ds : Decls} {env : Env} (henv : EnvTyped ds env) :
    (e : Expr) → typeExpr ds e = .ok .account → ∃ a, evalExpr env e = .ok (.account a) ∧ e.leftmost = e
  | .acct s, _ => ⟨s, rfl, rfl⟩
  | .var x, h => by
    simp only [typeExpr] at h
    split at h
    · rename_i t hl
      cases h
      obtain ⟨w, hw, hty⟩ := henv x _ hl
      obtain ⟨a, rfl⟩ := val_account hty
      exact ⟨a, by simp [evalExpr, hw], rfl⟩
    · cases h
  | .asset _, h => by simp only [typeExpr] at h; split at h <;> cases h
  | .num _, h => by simp [typeExpr] at h
  | .str _, h => by simp [typeExpr] at h
  | .portion _, h => by simp only [typeExpr] at h; split at h <;> cases h
  | .mon _ _, h => by
    simp only [typeExpr] at h
    split at h
    · cases h
    · split at h <;> cases h
  | .add l r, h => by
    exfalso
    simp only [typeExpr] at h
    split at h
    · cases h
    · split at h
      · cases h
      · split at h <;> cases h
    · split at h
      · cases h
      · split at h <;> cases h
    · cases h
  | .sub l r, h => by
    exfalso
    simp only [typeExpr] at h
    split at h
    · cases h
    · split at h
      · cases h
      · split at h <;> cases h
    · split at h
      · cases h
      · split at h <;> cases h
    · cases h

/-! ### Statements -/

/-- The statements covered so far by the byte-code correctness proof. -/
def Stmt.covered : Stmt → Bool
  | .print _ => true
  | .fail => true
  | .setTxMeta _ _ => true
  | .setAccountMeta _ _ _ => true
  | .save _ _ => true
  | .saveAll _ _ => true
  | _ => false

/-- What the code of a statement does: from any stack, it leaves the stack as it was and
    the state as `evalStmt` says (or fails with the same error). -/
def StmtCode (env : Env) (s : Stmt) (cs' : CS) (seg : List Instr) : Prop :=
  ∀ R resv, Final cs' R → Resolved env R resv → ∀ stk st,
    runSeg resv seg stk st =
      match evalStmt Cfg.fixed env s st with
      | .ok st' => .ok (stk, st')
      | .error err => .error err

theorem cStmt_ok {ds : Decls} {env : Env} (henv : EnvTyped ds env) (s : Stmt) (hcov : s.covered = true)
    (hc : checkStmt ds s = .ok ()) {cs cs' : CS} (hv : VarsInv ds cs) (h : cStmt s cs = .ok cs') :
    ∃ seg, StepOK cs cs' seg ∧ StmtCode env s cs' seg := by
  cases s with
  | print e =>
    simp only [checkStmt] at hc
    cases ht : typeExpr ds e with
    | error m => simp [ht, Except.map] at hc
    | ok ty =>
      simp only [cStmt] at h
      obtain ⟨cs1, h1, h⟩ := seqA_cons h
      obtain ⟨cs2, h2, h⟩ := seqA_cons h
      have := seqA_nil h; subst this
      obtain ⟨se, oa, s1, c1⟩ := pushExpr_ok henv ht hv h1
      obtain ⟨s2, _⟩ := emitOp_ok h2
      refine ⟨_, s1.trans s2, ?_⟩
      intro R resv hf hr stk st
      rw [runSeg_append, c1.run R resv (Final.of_ext s2.ext hf) hr rfl]
      simp only [evalStmt]
      cases evalExpr env e with
      | error err => rfl
      | ok v => simp [runSeg, step, OP_PRINT, OP_BUMP, OP_DELETE, OP_IADD, OP_ISUB]
  | fail =>
    simp only [cStmt] at h
    obtain ⟨s1, _⟩ := emitOp_ok h
    refine ⟨_, s1, ?_⟩
    intro R resv _ _ stk st
    simp [runSeg, step, evalStmt, OP_FAIL, OP_BUMP, OP_DELETE, OP_IADD, OP_ISUB, OP_PRINT]
  | setTxMeta k e =>
    simp only [checkStmt] at hc
    cases ht : typeExpr ds e with
    | error m => simp [ht, Except.map] at hc
    | ok ty =>
      simp only [cStmt] at h
      obtain ⟨cs1, h1, h⟩ := seqA_cons h
      obtain ⟨cs2, h2, h⟩ := seqA_cons h
      obtain ⟨cs3, h3, h⟩ := seqA_cons h
      have := seqA_nil h; subst this
      obtain ⟨se, oa, s1, c1⟩ := pushExpr_ok henv ht hv h1
      obtain ⟨ak, s2, hk⟩ := pushConst_ok h2
      obtain ⟨s3, r3⟩ := emitOp_ok h3
      refine ⟨_, (s1.trans s2).trans s3, ?_⟩
      intro R resv hf hr stk st
      have hf2 : Final cs2 R := Final.of_ext s3.ext hf
      have hkv : resv[ak]? = some (.str k) := hr.const (hf2.get hk)
      rw [runSeg_append, runSeg_append, c1.run R resv (Final.of_ext s2.ext hf2) hr rfl]
      simp only [evalStmt]
      cases evalExpr env e with
      | error err => rfl
      | ok v =>
        simp only [runSeg_apush hkv]
        simp [runSeg, step, OP_TX_META, OP_BUMP, OP_DELETE, OP_IADD, OP_ISUB, OP_PRINT, OP_FAIL, OP_ASSET,
          OP_MONETARY_NEW, OP_MONETARY_ADD, OP_MONETARY_SUB, OP_MAKE_ALLOTMENT, OP_TAKE_ALL, OP_TAKE_ALWAYS,
          OP_TAKE, OP_TAKE_MAX, OP_FUNDING_ASSEMBLE, OP_FUNDING_SUM, OP_FUNDING_REVERSE, OP_REPAY, OP_ALLOC,
          OP_SEND, popString, popValue]
  | setAccountMeta acc k e =>
    simp only [checkStmt] at hc
    split at hc
    · cases hc
    · rename_i ty ht
      have hta := expectTy_inv hc
      simp only [cStmt] at h
      obtain ⟨cs1, h1, h⟩ := seqA_cons h
      obtain ⟨cs2, h2, h⟩ := seqA_cons h
      obtain ⟨cs3, h3, h⟩ := seqA_cons h
      obtain ⟨cs4, h4, h⟩ := seqA_cons h
      have := seqA_nil h; subst this
      obtain ⟨se, oa, s1, c1⟩ := pushExpr_ok henv ht hv h1
      obtain ⟨ak, s2, hk⟩ := pushConst_ok h2
      obtain ⟨aa, s3, ha⟩ := pushAddrOf_ok henv hta ((hv.ext s1.ext).ext s2.ext) h3
      obtain ⟨s4, r4⟩ := emitOp_ok h4
      refine ⟨_, ((s1.trans s2).trans s3).trans s4, ?_⟩
      intro R resv hf hr stk st
      have hf3 : Final cs3 R := Final.of_ext s4.ext hf
      have hf2 : Final cs2 R := Final.of_ext s3.ext hf3
      have hkv : resv[ak]? = some (.str k) := hr.const (hf2.get hk)
      obtain ⟨a, hea, hlm⟩ := account_typed_eval henv acc hta
      obtain ⟨v0, hv0, hv1⟩ := ha R resv hf3 hr
      rw [hlm, hea] at hv1
      cases hv1
      rw [runSeg_append, runSeg_append, runSeg_append, c1.run R resv (Final.of_ext s2.ext hf2) hr rfl]
      simp only [evalStmt, evalAccount, hea]
      cases evalExpr env e with
      | error err => rfl
      | ok v =>
        simp only [runSeg_apush hkv, runSeg_apush hv0]
        simp [runSeg, step, OP_ACCOUNT_META, OP_TX_META, OP_BUMP, OP_DELETE, OP_IADD, OP_ISUB, OP_PRINT, OP_FAIL,
          OP_ASSET, OP_MONETARY_NEW, OP_MONETARY_ADD, OP_MONETARY_SUB, OP_MAKE_ALLOTMENT, OP_TAKE_ALL,
          OP_TAKE_ALWAYS, OP_TAKE, OP_TAKE_MAX, OP_FUNDING_ASSEMBLE, OP_FUNDING_SUM, OP_FUNDING_REVERSE,
          OP_REPAY, OP_ALLOC, OP_SEND, popString, popValue, popAccount]
  | save mon acc =>
    simp only [checkStmt] at hc
    split at hc
    · cases hc
    · rename_i hm
      have htm := expectTy_inv hm
      have hta := expectTy_inv hc
      simp only [cStmt] at h
      obtain ⟨cs1, h1, h⟩ := seqA_cons h
      obtain ⟨cs2, h2, h⟩ := seqA_cons h
      obtain ⟨cs3, h3, h⟩ := seqA_cons h
      have := seqA_nil h; subst this
      obtain ⟨am, s1, hma⟩ := pushAddrOf_ok henv htm hv h1
      obtain ⟨aa, s2, ha⟩ := pushAddrOf_ok henv hta (hv.ext s1.ext) h2
      obtain ⟨s3, r3⟩ := emitOp_ok h3
      refine ⟨_, (s1.trans s2).trans s3, ?_⟩
      intro R resv hf hr stk st
      have hf2 : Final cs2 R := Final.of_ext s3.ext hf
      have hf1 : Final cs1 R := Final.of_ext s2.ext hf2
      obtain ⟨a, hea, hlm⟩ := account_typed_eval henv acc hta
      obtain ⟨v0, hv0, hv1⟩ := ha R resv hf2 hr
      rw [hlm, hea] at hv1
      cases hv1
      obtain ⟨vm, hvm0, hvm1⟩ := hma R resv hf1 hr
      -- the leftmost atom of a monetary expression is a monetary value
      obtain ⟨ma, mv, rfl⟩ : ∃ ma mv, vm = .monetary ma mv := by
        rcases evalExpr_typed ds env henv mon.leftmost _ (leftmost_typed mon htm) with ⟨v, hv', hty, _⟩ | ⟨k, hk⟩
        · rw [hv'] at hvm1; cases hvm1
          exact val_monetary hty
        · rw [hk] at hvm1; cases hvm1
      rw [runSeg_append, runSeg_append, runSeg_apush hvm0]
      simp only [runSeg_apush hv0, evalStmt, evalMonetary, hvm1, evalAccount, hea]
      cases hg : st.bal.get a ma <;>
        simp [runSeg, step, hg, OP_SAVE, OP_ACCOUNT_META, OP_TX_META, OP_BUMP, OP_DELETE, OP_IADD, OP_ISUB,
          OP_PRINT, OP_FAIL, OP_ASSET, OP_MONETARY_NEW, OP_MONETARY_ADD, OP_MONETARY_SUB, OP_MAKE_ALLOTMENT,
          OP_TAKE_ALL, OP_TAKE_ALWAYS, OP_TAKE, OP_TAKE_MAX, OP_FUNDING_ASSEMBLE, OP_FUNDING_SUM,
          OP_FUNDING_REVERSE, OP_REPAY, OP_ALLOC, OP_SEND, popValue, popAccount]
  | saveAll assetE acc =>
    simp only [checkStmt] at hc
    split at hc
    · cases hc
    · rename_i hm
      have htm := expectTy_inv hm
      have hta := expectTy_inv hc
      simp only [cStmt] at h
      obtain ⟨cs1, h1, h⟩ := seqA_cons h
      obtain ⟨cs2, h2, h⟩ := seqA_cons h
      obtain ⟨cs3, h3, h⟩ := seqA_cons h
      have := seqA_nil h; subst this
      obtain ⟨am, s1, hma⟩ := pushAddrOf_ok henv htm hv h1
      obtain ⟨aa, s2, ha⟩ := pushAddrOf_ok henv hta (hv.ext s1.ext) h2
      obtain ⟨s3, r3⟩ := emitOp_ok h3
      refine ⟨_, (s1.trans s2).trans s3, ?_⟩
      intro R resv hf hr stk st
      have hf2 : Final cs2 R := Final.of_ext s3.ext hf
      have hf1 : Final cs1 R := Final.of_ext s2.ext hf2
      obtain ⟨a, hea, hlm⟩ := account_typed_eval henv acc hta
      obtain ⟨v0, hv0, hv1⟩ := ha R resv hf2 hr
      rw [hlm, hea] at hv1
      cases hv1
      obtain ⟨asset, heas⟩ := asset_typed_eval (env := env) henv assetE htm
      have hlma : assetE.leftmost = assetE := leftmost_self_of_type htm (by simp) (by simp)
      obtain ⟨vm, hvm0, hvm1⟩ := hma R resv hf1 hr
      rw [hlma, heas] at hvm1
      cases hvm1
      rw [runSeg_append, runSeg_append, runSeg_apush hvm0]
      simp only [runSeg_apush hv0, evalStmt, evalAssetE, heas, evalAccount, hea]
      cases hg : st.bal.get a asset with
      | none =>
        simp [runSeg, step, hg, OP_SAVE, OP_ACCOUNT_META, OP_TX_META, OP_BUMP, OP_DELETE, OP_IADD, OP_ISUB,
          OP_PRINT, OP_FAIL, OP_ASSET, OP_MONETARY_NEW, OP_MONETARY_ADD, OP_MONETARY_SUB, OP_MAKE_ALLOTMENT,
          OP_TAKE_ALL, OP_TAKE_ALWAYS, OP_TAKE, OP_TAKE_MAX, OP_FUNDING_ASSEMBLE, OP_FUNDING_SUM,
          OP_FUNDING_REVERSE, OP_REPAY, OP_ALLOC, OP_SEND, popValue, popAccount]
      | some bal =>
        by_cases hpos : 0 < bal <;>
        simp [runSeg, step, hg, hpos, OP_SAVE, OP_ACCOUNT_META, OP_TX_META, OP_BUMP, OP_DELETE, OP_IADD, OP_ISUB,
          OP_PRINT, OP_FAIL, OP_ASSET, OP_MONETARY_NEW, OP_MONETARY_ADD, OP_MONETARY_SUB, OP_MAKE_ALLOTMENT,
          OP_TAKE_ALL, OP_TAKE_ALWAYS, OP_TAKE, OP_TAKE_MAX, OP_FUNDING_ASSEMBLE, OP_FUNDING_SUM,
          OP_FUNDING_REVERSE, OP_REPAY, OP_ALLOC, OP_SEND, popValue, popAccount]
  | send _ _ _ => simp [Stmt.covered] at hcov
  | sendAll _ _ _ => simp [Stmt.covered] at hcov

end Ledger.Machine
