import Ledger.Proofs.InterpQueue
import Ledger.Proofs.InterpExpr
import Ledger.Proofs.MachineSrc

/-!
Vocabulary of the simulation between the machine's fundings and the interpreter's
funds queue: `takeExt` (the first `n` units of an availability list extended by an
unbounded fallback account), `Pushed` (what a source does to the interpreter's state),
`Rel` (tracked balances of the machine = cached balances of the interpreter).
-/
namespace Ledger.Interp
open Ledger.Machine

/-! ## `takeExt` -/

/-- The first `n` units of `A`, topped up from the fallback account when there is one. -/
def takeExt (n : Nat) (A : List String) (fb : Option String) : List String :=
  A.take n ++ (match fb with
    | some w => List.replicate (n - A.length) w
    | none => [])

theorem takeExt_none (n : Nat) (A : List String) : takeExt n A none = A.take n := by
  simp [takeExt]

theorem takeExt_zero (A : List String) (fb : Option String) : takeExt 0 A fb = [] := by
  cases fb <;> simp [takeExt]

theorem takeExt_length_some (n : Nat) (A : List String) (w : String) :
    (takeExt n A (some w)).length = n := by
  simp [takeExt]; omega

theorem takeExt_length_none (n : Nat) (A : List String) :
    (takeExt n A none).length = min n A.length := by
  simp [takeExt]

theorem takeExt_length_le (n : Nat) (A : List String) (fb : Option String) :
    (takeExt n A fb).length ≤ n := by
  cases fb with
  | none => rw [takeExt_length_none]; omega
  | some w => rw [takeExt_length_some]; omega

/-- Splitting an availability list at a bounded prefix. -/
theorem takeExt_append (n : Nat) (A B : List String) (fb : Option String) :
    A.take n ++ takeExt (n - (A.take n).length) B fb = takeExt n (A ++ B) fb := by
  have h1 : n - (A.take n).length = n - A.length := by simp; omega
  rw [h1]
  cases fb with
  | none => simp [takeExt, List.take_append]
  | some w =>
    simp only [takeExt, List.take_append, List.length_append, List.append_assoc]
    congr 3; omega

theorem take_takeExt (m n : Nat) (A : List String) (fb : Option String) :
    (takeExt n A fb).take m = takeExt (min m n) A fb := by
  cases fb with
  | none => simp [takeExt, List.take_take]
  | some w =>
    simp only [takeExt, List.take_append, List.take_take, List.take_replicate, List.length_take]
    congr 2; omega

theorem takeExt_of_le (n : Nat) (A : List String) (fb : Option String) (h : n ≤ A.length) :
    takeExt n A fb = A.take n := by
  cases fb with
  | none => simp [takeExt]
  | some w =>
    have : n - A.length = 0 := by omega
    simp [takeExt, this]

theorem takeExt_nil_some (n : Nat) (w : String) : takeExt n [] (some w) = List.replicate n w := by
  simp [takeExt]

/-! ## What a source does to the interpreter's state -/

/-- `ist'` is `ist` after pushing senders whose units are `X` (asset `c`). -/
structure Pushed (c : String) (ist ist' : IState) (X : List String) : Prop where
  queue : ∃ Q, ist'.queue = ist.queue ++ Q ∧ units Q = X ∧ Pos Q
  bal : ∀ a c', ist'.bal a c' = ist.bal a c' - (if c' = c then (X.count a : Int) else 0)
  postings : ist'.postings = ist.postings
  txMeta : ist'.txMeta = ist.txMeta
  accMeta : ist'.accMeta = ist.accMeta
  asset : ist'.asset = ist.asset

theorem Pushed.refl (c : String) (ist : IState) : Pushed c ist ist [] :=
  ⟨⟨[], by simp, rfl, Pos.nil⟩, by intro a c'; simp, rfl, rfl, rfl, rfl⟩

theorem Pushed.trans {c : String} {s1 s2 s3 : IState} {X Y : List String}
    (h1 : Pushed c s1 s2 X) (h2 : Pushed c s2 s3 Y) : Pushed c s1 s3 (X ++ Y) := by
  obtain ⟨Q1, q1, u1, p1⟩ := h1.queue
  obtain ⟨Q2, q2, u2, p2⟩ := h2.queue
  refine ⟨⟨Q1 ++ Q2, by rw [q2, q1, List.append_assoc], by rw [units_append, u1, u2],
    Pos.append.mpr ⟨p1, p2⟩⟩, ?_, h2.postings.trans h1.postings, h2.txMeta.trans h1.txMeta,
    h2.accMeta.trans h1.accMeta, h2.asset.trans h1.asset⟩
  intro a c'
  rw [h2.bal, h1.bal, List.count_append]
  split <;> simp <;> omega

theorem pushSender_pushed {c : String} (a : String) (amt : Int) (ist : IState) (h : 0 ≤ amt)
    (hc : ist.asset = c) : Pushed c ist (pushSender a amt ist) (List.replicate amt.toNat a) := by
  unfold pushSender
  by_cases h0 : amt = 0
  · rw [if_pos h0]; subst h0; simpa using Pushed.refl c ist
  · rw [if_neg h0]
    refine ⟨⟨[⟨a, amt⟩], rfl, by simp, Pos.cons.mpr ⟨by simp; omega, Pos.nil⟩⟩, ?_, rfl, rfl, rfl, rfl⟩
    intro a' c'
    simp only [upd, hc, List.count_replicate]
    by_cases h1 : a' = a <;> by_cases h2 : c' = c
    · subst h1; subst h2; simp; omega
    · simp [h1, h2]
    · have : ¬ (a = a') := fun x => h1 x.symm
      simp [h1, h2, this]
    · simp [h1, h2]

/-! ## Balances -/

/-- Every pair of `P` (of a non-world account) is tracked by the machine. -/
def HasP (P : List (String × String)) (b : Balances) : Prop :=
  ∀ a c, (a, c) ∈ P → a ≠ "world" → ∃ v, b.get a c = some v

/-- On the pairs of `P` the machine's tracked balance is the interpreter's cached one. -/
def Rel (P : List (String × String)) (b : Balances) (ib : String → String → Int) : Prop :=
  ∀ a c, (a, c) ∈ P → a ≠ "world" → b.get a c = some (ib a c)

theorem Rel.hasP {P : List (String × String)} {b : Balances} {ib : String → String → Int}
    (h : Rel P b ib) : HasP P b := fun a c hp hw => ⟨_, h a c hp hw⟩

theorem HasP.delta {P : List (String × String)} {b b' : Balances} {d : String → String → Int}
    (h : HasP P b) (hwf : b.WF) (hd : Delta b b' d) : HasP P b' := by
  intro a c hp hw
  obtain ⟨v, hv⟩ := h a c hp hw
  exact ⟨_, hd.bal a c v hw hwf hv⟩

theorem Rel.delta {P : List (String × String)} {b b' : Balances} {ib ib' : String → String → Int}
    {d : String → String → Int} (h : Rel P b ib) (hwf : b.WF) (hd : Delta b b' d)
    (hi : ∀ a c, (a, c) ∈ P → a ≠ "world" → ib' a c = ib a c + d a c) : Rel P b' ib' := by
  intro a c hp hw
  rw [hd.bal a c _ hw hwf (h a c hp hw), hi a c hp hw]

/-- `fl` of a non-negative funding counts units. -/
theorem fl_eq_count (a c : String) (f : Funding) (h : partsNonneg f.parts) :
    fl a c f = if f.asset = c then ((units f.parts).count a : Int) else 0 := by
  simp only [fl, acctTotal_eq_count a _ h]

/-- The bounded leaves of a source resolve to pairs of `P`. -/
def LeavesIn (P : List (String × String)) (env : Env) (c : String) (es : List Expr) : Prop :=
  ∀ e ∈ es, ∃ a, evalAccount env e = .ok a ∧ (a, c) ∈ P

theorem LeavesIn.left {P : List (String × String)} {env : Env} {c : String} {x y : List Expr}
    (h : LeavesIn P env c (x ++ y)) : LeavesIn P env c x := fun e he => h e (by simp [he])

theorem LeavesIn.right {P : List (String × String)} {env : Env} {c : String} {x y : List Expr}
    (h : LeavesIn P env c (x ++ y)) : LeavesIn P env c y := fun e he => h e (by simp [he])

/-- The evaluated fallback account. -/
def fbOf (env : Env) (fb : Option Expr) : Option String :=
  match fb with
  | none => none
  | some e =>
    match evalAccount env e with
    | .ok a => some a
    | .error _ => none

/-- All units of a list of fundings, in order. -/
def unitsAll : List Funding → List String
  | [] => []
  | f :: fs => units f.parts ++ unitsAll fs

theorem concatAll_units_aux (fs : List Funding) (acc : List Part) (hacc : partsNonneg acc)
    (h : ∀ f ∈ fs, partsNonneg f.parts) :
    units (fs.foldl (fun acc f => concatParts acc f.parts) acc) = units acc ++ unitsAll fs := by
  induction fs generalizing acc with
  | nil => simp [unitsAll]
  | cons f fs ih =>
    simp only [List.foldl_cons, unitsAll]
    rw [ih _ (concatParts_nonneg _ _ hacc (h f (by simp))) (fun g hg => h g (by simp [hg])),
      concatParts_units _ _ hacc (h f (by simp)), List.append_assoc]

theorem concatAll_units (fs : List Funding) (h : ∀ f ∈ fs, partsNonneg f.parts) :
    units (concatAll fs) = unitsAll fs := by
  simpa [concatAll] using concatAll_units_aux fs [] partsNonneg_nil h

end Ledger.Interp
