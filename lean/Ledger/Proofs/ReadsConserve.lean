import Ledger.Proofs.Reads

/-!
Conservation of every volumes table a read works on (C01 on the read path): per asset, the rows of
`volumesTable txs w mode` (any window, either date mode) and of `currentVolumes txs` sum to
input − output = 0.
-/
namespace Ledger.Reads
open Ledger.Base Ledger.Core Ledger.Spec

/-- Σ over a key list of a per-key integer. -/
def sumKeys (f : Key → Int) : List Key → Int
  | [] => 0
  | k :: ks => f k + sumKeys f ks

theorem sumKeys_add (f g : Key → Int) (ks : List Key) :
    sumKeys (fun k => f k + g k) ks = sumKeys f ks + sumKeys g ks := by
  induction ks with
  | nil => rfl
  | cons k ks ih => simp only [sumKeys, ih]; omega

theorem sumKeys_zero (ks : List Key) : sumKeys (fun _ => 0) ks = 0 := by
  induction ks with
  | nil => rfl
  | cons k ks ih => simp [sumKeys, ih]

theorem sumKeys_congr (f g : Key → Int) (ks : List Key) (h : ∀ k ∈ ks, f k = g k) : sumKeys f ks = sumKeys g ks := by
  induction ks with
  | nil => rfl
  | cons k ks ih =>
    simp only [sumKeys]
    rw [h k List.mem_cons_self, ih (fun k' hk' => h k' (List.mem_cons_of_mem _ hk'))]

/-- In a duplicate-free list, the indicator of one of its elements sums to the weight. -/
theorem sumKeys_indicator (x : Key) (c : Int) (ks : List Key) (hn : ks.Nodup) (hx : x ∈ ks) :
    sumKeys (fun k => if x = k then c else 0) ks = c := by
  induction ks with
  | nil => cases hx
  | cons k ks ih =>
    simp only [sumKeys]
    have hn' := List.nodup_cons.mp hn
    rcases List.mem_cons.mp hx with rfl | hx'
    · have : sumKeys (fun k => if x = k then c else 0) ks = 0 := by
        rw [sumKeys_congr _ (fun _ => 0) ks (fun k hk => by
          have : x ≠ k := fun h => hn'.1 (h ▸ hk)
          simp [this]), sumKeys_zero]
      simp [this]
    · have hne : x ≠ k := fun h => hn'.1 (h ▸ hx')
      simp [hne, ih hn'.2 hx']

/-- Net per asset of the folds of a posting list over a key list containing every touched pair. -/
theorem net_postings_zero (s : String) (ks : List Key) (hn : ks.Nodup) (ps : List Posting)
    (hk : ∀ p ∈ ps, p.srcKey ∈ ks ∧ p.dstKey ∈ ks) :
    sumKeys (fun k => if k.2 = s then inSum k ps - outSum k ps else 0) ks = 0 := by
  induction ps with
  | nil => simp [inSum, outSum, sumKeys_zero]
  | cons p ps ih =>
    have hp := hk p List.mem_cons_self
    have ih' := ih (fun q hq => hk q (List.mem_cons_of_mem _ hq))
    have hsplit : ∀ k : Key, (if k.2 = s then inSum k (p :: ps) - outSum k (p :: ps) else 0) =
        ((if p.dstKey = k then (if p.asset = s then p.amount else 0) else 0) +
         (if p.srcKey = k then (if p.asset = s then -p.amount else 0) else 0)) +
        (if k.2 = s then inSum k ps - outSum k ps else 0) := by
      intro k
      have e1 : p.dstKey = k → k.2 = p.asset := fun h => by rw [← h]; rfl
      have e2 : p.srcKey = k → k.2 = p.asset := fun h => by rw [← h]; rfl
      simp only [inSum, outSum]
      by_cases hd : p.dstKey = k
      · by_cases hsrc : p.srcKey = k
        · simp only [hd, hsrc, if_true]
          rw [e1 hd]
          by_cases hps : p.asset = s <;> simp [hps] <;> omega
        · simp only [hd, hsrc, if_true, if_false]
          rw [e1 hd]
          by_cases hps : p.asset = s <;> simp [hps] <;> omega
      · by_cases hsrc : p.srcKey = k
        · simp only [hd, hsrc, if_true, if_false]
          rw [e2 hsrc]
          by_cases hps : p.asset = s <;> simp [hps] <;> omega
        · simp only [hd, hsrc, if_false]
          by_cases hks : k.2 = s <;> simp [hks]
    rw [sumKeys_congr _ _ ks (fun k _ => hsplit k), sumKeys_add, sumKeys_add, ih',
      sumKeys_indicator p.dstKey _ ks hn hp.2, sumKeys_indicator p.srcKey _ ks hn hp.1]
    by_cases hps : p.asset = s <;> simp [hps] <;> omega

theorem netIn_map (s : String) (f : Key → Volumes) (ks : List Key) :
    netIn s (ks.map fun k => (k, f k)) = sumKeys (fun k => if k.2 = s then (f k).input - (f k).output else 0) ks := by
  unfold netIn
  induction ks with
  | nil => rfl
  | cons k ks ih => simp only [List.map_cons, Map.sumBy, sumKeys, ih]

theorem WF_foldPostings (ps : List Posting) (m : Map Key Unit) (h : Map.WF m) :
    Map.WF (ps.foldl (fun m p => (m.insert p.srcKey ()).insert p.dstKey ()) m) := by
  induction ps generalizing m with
  | nil => exact h
  | cons p ps ih => exact ih _ (Map.WF_insertWith _ _ _ (Map.WF_insertWith _ _ _ h))

theorem touchedKeys_nodup (txs : List TxRec) : (touchedKeys txs).Nodup := by
  unfold touchedKeys
  have hw : Map.WF (txs.foldl (fun (m : Map Key Unit) t =>
      t.postings.foldl (fun m p => (m.insert p.srcKey ()).insert p.dstKey ()) m) []) := by
    generalize hm : ([] : Map Key Unit) = m0
    have h0 : Map.WF m0 := by rw [← hm]; exact Map.WF_nil
    clear hm
    induction txs generalizing m0 with
    | nil => exact h0
    | cons t ts ih => exact ih _ (WF_foldPostings _ _ h0)
  unfold Map.keys
  rw [List.Nodup, List.pairwise_map]
  exact hw.imp (fun h => lt_ne h)

/-- Every posting of the transactions has both its pairs among the touched keys. -/
theorem postings_in_touchedKeys (txs : List TxRec) (p : Posting) (hp : p ∈ allPostings txs) :
    p.srcKey ∈ touchedKeys txs ∧ p.dstKey ∈ touchedKeys txs := by
  have hmem : ∃ t ∈ txs, p ∈ t.postings := by
    induction txs with
    | nil => simp [allPostings] at hp
    | cons t ts ih =>
      simp only [allPostings, List.mem_append] at hp
      rcases hp with h | h
      · exact ⟨t, List.mem_cons_self, h⟩
      · obtain ⟨t', ht', hp'⟩ := ih h
        exact ⟨t', List.mem_cons_of_mem _ ht', hp'⟩
  obtain ⟨t, ht, hpt⟩ := hmem
  constructor
  · exact (mem_touchedKeys txs _).mpr ⟨t, ht, (touches_iff _ _).mpr ⟨p, hpt, Or.inl rfl⟩⟩
  · exact (mem_touchedKeys txs _).mpr ⟨t, ht, (touches_iff _ _).mpr ⟨p, hpt, Or.inr rfl⟩⟩

/-- **Per asset, the rows of any window table sum to zero.** -/
theorem volumesTable_conserved (txs : List TxRec) (w : Window) (mode : DateMode) (s : String) :
    netIn s (volumesTable txs w mode) = 0 := by
  unfold volumesTable
  rw [netIn_map]
  exact net_postings_zero s _ (touchedKeys_nodup _) (allPostings (txsIn txs w mode))
    (fun p hp => postings_in_touchedKeys _ p hp)

theorem currentVolumes_conserved (txs : List TxRec) (s : String) : netIn s (currentVolumes txs) = 0 := by
  unfold currentVolumes
  rw [netIn_map]
  exact net_postings_zero s _ (touchedKeys_nodup _) (allPostings txs) (fun p hp => postings_in_touchedKeys _ p hp)

end Ledger.Reads
